---- MODULE Trace_Persist ----
(* code -> spec for C02 / C03 / C10: logs of random assignments, round trips (a real document
   in a random format, loaded into a fresh Config) and masked renders recorded from real
   configurations are replayed against PersistMachine's actions; logged trees (abstracted with
   independent cipher / hash implementations), key files opened and resulting states must
   equal the specification's, and the property predicates are evaluated on every step. *)
EXTENDS MC_Persist, IOUtils, TLCExt

Traces == JsonDeserialize(IOEnv.TRACE_FILE)
VARIABLES tid, l

RECURSIVE FixV(_)
FixV(v) ==
    IF v.t = "cfg" THEN CfgV([k \in DOMAIN v.vals |-> FixV(v.vals[k])], Range(v.dflt), v.dyn)
    ELSE IF v.t \in {"list", "tuple"} THEN [v EXCEPT !.l = [i \in DOMAIN v.l |-> FixV(v.l[i])]]
    ELSE IF v.t = "dict" THEN [v EXCEPT !.kv = [i \in DOMAIN v.kv |-> <<FixV(v.kv[i][1]), FixV(v.kv[i][2])>>]]
    ELSE v

\* the order of the entries of a dict value is not significant (dict equality; YAML sorts keys)
RECURSIVE CanonV(_)
CanonV(v) ==
    IF v.t = "cfg" THEN [t |-> "cfg", vals |-> [k \in DOMAIN v.vals |-> CanonV(v.vals[k])], dflt |-> v.dflt, dyn |-> v.dyn]
    ELSE IF v.t \in {"list", "tuple"} THEN [t |-> v.t, l |-> [i \in DOMAIN v.l |-> CanonV(v.l[i])]]
    ELSE IF v.t = "dict" THEN [t |-> "dict", kv |-> {<<CanonV(v.kv[i][1]), CanonV(v.kv[i][2])>> : i \in DOMAIN v.kv}]
    ELSE v

TraceInit == tid \in 1..Len(Traces) /\ l = 1 /\ Init
Ev == Traces[tid].events[l]
Step(e) ==
    CASE e.op = "Set"       -> Set(<<e.p, e.k>>, FixV(e.v))
      [] e.op = "RoundTrip" -> RoundTrip(e.fmt)
      [] e.op = "Adopt"     -> Adopt
      [] e.op = "Rebuild"   -> Rebuild
      [] e.op = "Rekey"     -> Rekey
      [] e.op = "Render"    -> Render(e.virtual, e.mask, e.via)
TraceNext == l <= Len(Traces[tid].events) /\ Step(Ev) /\ l' = l + 1 /\ UNCHANGED <<tid, steps>>

BadObs ==
    LET e == Ev IN
    {n \in {"out", "tree", "keys", "cfg"} :
        CASE n = "out"  -> ev'.out # e.out
          [] n = "tree" -> "tree" \in DOMAIN ev' /\ ("tree" \notin DOMAIN e \/ CanonV(ev'.tree) # CanonV(e.tree))
          [] n = "keys" -> "keys" \in DOMAIN ev' /\ ("keys" \notin DOMAIN e \/ ev'.keys # Range(e.keys))
          [] n = "cfg"  -> CanonV(cfg') # CanonV(FixV(e.cfg))}
BadAct == {n \in {"C02_Reproduces", "C03_NoPlaintext", "C06_SetUnchanged"} :
              CASE n = "C02_Reproduces" -> ~A_Reproduces [] n = "C03_NoPlaintext" -> ~A_NoPlaintext
                [] n = "C06_SetUnchanged" -> ~A_SetUnchanged}
Report ==
    LET bo == BadObs
        bi == IF bo = {} THEN BadAct ELSE {}
        rec == IF bo = {} THEN [t |-> tid, l |-> l, bo |-> bo, bi |-> bi]
               ELSE [t |-> tid, l |-> l, bo |-> bo, bi |-> bi, m |-> [ev |-> ev', cfg |-> cfg']]
    IN  IF ev'.out = "Unmodelled"
        THEN PrintT(<<"TRACE", ToJson([t |-> tid, l |-> l, bo |-> {}, bi |-> {}, skip |-> TRUE])>>) /\ FALSE
        ELSE PrintT(<<"TRACE", ToJson(rec)>>) /\ bo = {}
BadState == {n \in {"C02_PlainTree", "C03_KeyIsNearest", "C10_Mask"} :
                CASE n = "C02_PlainTree" -> ~C02_PlainTree [] n = "C03_KeyIsNearest" -> ~C03_KeyIsNearest
                  [] n = "C10_Mask" -> ~C10_Mask}
ReportState == l > 1 => PrintT(<<"TRACE", ToJson([t |-> tid, l |-> l - 1, bo |-> {}, bi |-> BadState, st |-> TRUE])>>)
TraceView == <<cfg, tid, l>>
====
