----------------------------- MODULE EnvMachine -----------------------------
(***************************************************************************)
(* C14 - environment variables beat files, assignment beats both, names    *)
(* are predictable.                                                        *)
(*                                                                         *)
(* A family of schemas built top-down to depth 3 with every combination of *)
(* schema-level (inherit / automatic / named prefix / disabled) and        *)
(* field-level (inherit / automatic / named / disabled) settings:          *)
(*                                                                         *)
(*     root [s1] { a: int [f1],  sub [s2] { b: str [f2],                   *)
(*                                          deep { c: bool [f3] } } }      *)
(*                                                                         *)
(* The process environment is a constant of the run (EnvProfile selects    *)
(* one of several environments that give the derived names unset, empty,   *)
(* valid and invalid values).  Init picks a schema; Build constructs the   *)
(* configuration (and may fail on an invalid variable); then documents are *)
(* loaded, values assigned and reset.                                      *)
(***************************************************************************)
EXTENDS CincoConfig, Json

CONSTANTS Big, MaxDepth

VARIABLES sch, cfg, assigned, ev, steps
vars == <<sch, cfg, assigned, ev, steps>>
St == [sch |-> sch, cfg |-> cfg, assigned |-> assigned]

s(t) == StrV(t)
P == <<"P", "q">>      \* (a named prefix is used verbatim: mixed case)
N == <<"N">>
SSet == IF Big THEN {EnvInherit, EnvAuto, EnvOff, EnvName(P)} ELSE {EnvInherit, EnvAuto, EnvName(P)}
SSet2 == {EnvInherit, EnvAuto, EnvOff, EnvName(P)}
FSet == {EnvInherit, EnvAuto, EnvOff, EnvName(N)}
FSet2 == IF Big THEN FSet ELSE {EnvInherit, EnvAuto}
FSet3 == IF Big THEN FSet ELSE {EnvInherit, EnvName(N)}

SchemaE(s1, f1, s2, f2, f3) ==
    [senv |-> s1] @@ SchemaF(<<
        \* (a friendly name: it plays no part in the variable's name)
        <<"a", With(IntF, [hasmin |-> TRUE, min |-> 0, hasmax |-> TRUE, max |-> 99, default |-> IntV(5), env |-> f1, fname |-> "the a"])>>,
        <<"sub", [senv |-> s2] @@ SchemaF(<<
            <<"b", With(StringF, [default |-> s(<<"d">>), maxlen |-> 4, env |-> f2])>>,
            <<"deep", SchemaF(<< <<"c", With(BoolF, [default |-> BoolV(FALSE), env |-> f3])>> >>)>> >>)>> >>)
Family == {SchemaE(s1, f1, s2, f2, f3) : s1 \in SSet, f1 \in FSet, s2 \in SSet2, f2 \in FSet2, f3 \in FSet3}

B(x) == Bind(x, RootPrefix(x))
NoCfg == NoneV
Built == IsCfg(cfg)
Leaves == {<< <<>>, "a">>, << <<"sub">>, "b">>, << <<"sub", "deep">>, "c">>}
LeafF(x, pk) == FieldOf(SchemaAt(B(x), pk[1]), pk[2])

Init == sch \in Family /\ cfg = NoCfg /\ assigned = {} /\ ev = [op |-> "Init"] /\ steps = 0
Tick == steps < MaxDepth /\ steps' = steps + 1
Outcome(r) == IF r.ok THEN "ok" ELSE r.err.cls

Build ==
    LET r == DefaultCfg(B(sch), <<>>) IN
    /\ cfg' = IF r.ok THEN r.cfg ELSE cfg
    /\ assigned' = IF r.ok THEN {} ELSE assigned
    /\ UNCHANGED sch
    /\ ev' = [op |-> "Build", out |-> Outcome(r), errpath |-> r.err.path]

Trees == {DictV(<< <<s(<<"a">>), IntV(1)>> >>),
          DictV(<< <<s(<<"s","u","b">>), DictV(<< <<s(<<"b">>), s(<<"f","i","l","e">>)>> >>)>> >>),
          DictV(<< <<s(<<"a">>), IntV(2)>>,
                   <<s(<<"s","u","b">>), DictV(<< <<s(<<"b">>), s(<<"f">>)>>,
                                                  <<s(<<"d","e","e","p">>), DictV(<< <<s(<<"c">>), BoolV(TRUE)>> >>)>> >>)>> >>)}
Load(tree) ==
    /\ Built
    /\ LET r == LoadTree(B(sch), cfg, tree, <<>>, TRUE) IN
       /\ cfg' = r.cfg
       \* loading a map into a sub-schema replaces that sub-configuration by a new one
       /\ assigned' = {pk \in assigned : ~\E q \in r.repl : Len(q) <= Len(pk[1]) /\ SubSeq(pk[1], 1, Len(q)) = q}
       /\ UNCHANGED sch
       /\ ev' = [op |-> "Load", tree |-> tree, out |-> Outcome(r), errpath |-> r.err.path]

Cands(pk) == CASE pk[2] = "a" -> {IntV(42), IntV(100)}
               [] pk[2] = "b" -> {s(<<"s","e","t">>), s(<<"t","o","o","l","o","n","g">>)}
               [] pk[2] = "c" -> {BoolV(TRUE), s(<<"m">>)}
Assign(pk, v) ==
    /\ Built
    /\ LET r == SetPath(B(sch), cfg, pk[1], pk[2], v) IN
       /\ cfg' = r.cfg
       /\ assigned' = IF r.ok THEN assigned \cup {pk} ELSE assigned
       /\ UNCHANGED sch
       /\ ev' = [op |-> "Assign", p |-> pk[1], k |-> pk[2], v |-> v, out |-> Outcome(r), errpath |-> r.err.path]

Reset(pk) ==
    /\ Built
    /\ LET r == ResetValue(B(sch), cfg, pk[1], pk[2]) IN
       /\ cfg' = r.cfg
       /\ assigned' = assigned \ {pk}
       /\ UNCHANGED sch
       /\ ev' = [op |-> "Reset", p |-> pk[1], k |-> pk[2], out |-> Outcome(r), errpath |-> r.err.path]

Next ==
    \/ Tick /\ Build
    \/ \E t \in Trees : Tick /\ Load(t)
    \/ \E pk \in Leaves : \E v \in Cands(pk) : Tick /\ Assign(pk, v)
    \/ \E pk \in Leaves : Tick /\ Reset(pk)

---------------------------------------------------------------------------
(* C14 *)
\* The variable name of a field, DECLARATIVELY: explicit, or the upper-cased keys below the
\* nearest enclosing schema that configures the environment (a named prefix counts as the
\* first segment), joined by "_"; nothing if that schema or the field opts out, or if no
\* schema configures it and the field does not ask for it.
JoinU(segs) ==
    LET RECURSIVE J(_)
        J(ss) == IF ss = <<>> THEN <<>> ELSE IF Len(ss) = 1 THEN ss[1] ELSE ss[1] \o <<"_">> \o J(Tail(ss))
    IN J(segs)
\* chain: <<root schema, sub schema, ...>> down to the owner; keys: their keys below the root
DeclName(chain, keys, fkey, fenv) ==
    LET up == Upper(KeyChars[fkey])
        conf == {j \in DOMAIN chain : chain[j].senv.m # "inherit"}
        j == IF conf = {} THEN 0 ELSE CHOOSE x \in conf : \A y \in conf : y <= x
        below == IF j = 0 THEN <<>> ELSE [i \in 1..(Len(keys) - (j - 1)) |-> Upper(KeyChars[keys[i + j - 1]])]
        nobase == j = 0 \/ chain[j].senv.m = "off"
        base == IF nobase THEN <<>>
                ELSE IF chain[j].senv.m = "name" /\ chain[j].senv.n # <<>> THEN <<chain[j].senv.n>> \o below
                ELSE below
    IN  CASE fenv.m = "off"  -> <<>>
          [] fenv.m = "name" -> fenv.n
          [] fenv.m = "auto" -> IF nobase THEN up ELSE JoinU(Append(base, up))
          [] OTHER           -> IF nobase THEN <<>> ELSE JoinU(Append(base, up))
RawField(x, pk) == FieldOf(SchemaAt(x, pk[1]), pk[2])
ChainOf(x, p) == [i \in 1..(Len(p) + 1) |-> SchemaAt(x, SubSeq(p, 1, i - 1))]
C14_Name ==
    \A pk \in Leaves :
        LeafF(sch, pk).envname = DeclName(ChainOf(sch, pk[1]), pk[1], pk[2], RawField(sch, pk).env)

EnvValid(f) == EnvBound(f) /\ Validate(f, StrV(EnvValue(f))).ok
EnvInvalid(f) == EnvBound(f) /\ ~Validate(f, StrV(EnvValue(f))).ok
ValueAt(pk) == CfgAt(cfg, pk[1]).vals[pk[2]]
\* a non-empty valid variable is the field's value, whatever was loaded, until it is assigned
C14_EnvWins ==
    Built => \A pk \in Leaves :
        (EnvValid(LeafF(sch, pk)) /\ pk \notin assigned) =>
            ValueAt(pk) = Validate(LeafF(sch, pk), StrV(EnvValue(LeafF(sch, pk)))).v
\* an invalid variable makes construction fail with a validation error naming the field
FirstInvalid == IF EnvInvalid(LeafF(sch, << <<>>, "a">>)) THEN <<"a">>
                ELSE IF EnvInvalid(LeafF(sch, << <<"sub">>, "b">>)) THEN <<"sub", "b">>
                ELSE IF EnvInvalid(LeafF(sch, << <<"sub", "deep">>, "c">>)) THEN <<"sub", "deep", "c">>
                ELSE <<>>
C14_InvalidFailsBuild ==
    ev.op = "Build" =>
        IF FirstInvalid = <<>> THEN ev.out = "ok"
        ELSE ev.out = "ValidationError" /\ ev.errpath = FirstInvalid
\* explicit assignment beats the variable; documents override exactly the fields that have no
\* (non-empty) variable
A_AssignWins ==
    (ev'.op = "Assign" /\ ev'.out = "ok") =>
        CfgAt(cfg', ev'.p).vals[ev'.k] = Validate(LeafF(sch, <<ev'.p, ev'.k>>), ev'.v).v
C14_AssignWins == [][A_AssignWins]_vars
RECURSIVE TreeGet(_, _)
TreeGet(t, path) == IF path = <<>> THEN [has |-> TRUE, v |-> t]
                    ELSE IF t.t # "dict" \/ ~DictHas(t.kv, StrV(KeyChars[Head(path)])) THEN [has |-> FALSE, v |-> NoneV]
                    ELSE TreeGet(DictGet(t.kv, StrV(KeyChars[Head(path)])), Tail(path))
A_NoBinding ==
    (ev'.op = "Load" /\ ev'.out = "ok") =>
        \A pk \in Leaves :
            LET g == TreeGet(ev'.tree, Append(pk[1], pk[2]))  f == LeafF(sch, pk) IN
            (g.has /\ ~EnvBound(f)) => CfgAt(cfg', pk[1]).vals[pk[2]] = Validate(f, g.v).v
C14_NoBinding == [][A_NoBinding]_vars

\* the names, for the conformance harness
Names == [a |-> LeafF(sch, << <<>>, "a">>).envname,
          b |-> LeafF(sch, << <<"sub">>, "b">>).envname,
          c |-> LeafF(sch, << <<"sub", "deep">>, "c">>).envname]
Export == PrintT(<<"EDGE", ToJson([from |-> St @@ [names |-> Names], ev |-> ev', to |-> St' @@ [names |-> Names]])>>)
PInit  == (steps = 0) => PrintT(<<"INIT", ToJson(St @@ [names |-> Names])>>)
View == <<sch, cfg, assigned, steps>>
=============================================================================
