---- MODULE Trace_Crypto ----
(* code -> spec for C08 / C09: logs of random encrypt / decrypt / malformed-input / challenge
   operations recorded from real KeyFile, SecureField and ChallengeField objects (random
   plaintexts of random lengths, fresh random secrets) are replayed against CincoCrypto's actions. *)
EXTENDS CincoCrypto, IOUtils, TLCExt

Traces == JsonDeserialize(IOEnv.TRACE_FILE)
VARIABLES tid, l
TraceInit == tid \in 1..Len(Traces) /\ l = 1 /\ Init
Ev == Traces[tid].events[l]
Step(e) ==
    CASE e.op = "Encrypt"          -> Encrypt(e.key, e.m, e.pt)
      [] e.op = "Decrypt"          -> e.i \in DOMAIN store /\ Decrypt(e.key, e.i)
      [] e.op = "DecryptBad"       -> DecryptBad(e.key, e.sv)
      [] e.op = "DecryptTruncated" -> e.i \in DOMAIN store /\ DecryptTruncated(e.i)
      [] e.op = "DecryptExtended" -> e.i \in DOMAIN store /\ DecryptExtended(e.i, e.n)
      [] e.op = "LoadStored"       -> LoadStored(e.shape, e.fm)
      [] e.op = "EncryptPair"      -> EncryptPair(e.key, e.m, e.pt, e.nested)
      [] e.op = "Swap"             -> Swap
      [] e.op = "FailedOpen"       -> FailedOpen(e.key)
      [] e.op = "Assign"           -> Assign(e.alg, e.p)
      [] e.op = "BuildDefault"     -> BuildDefault(e.alg, e.p)
      [] e.op = "LoadPlain"        -> LoadPlain(e.alg, e.p)
      [] e.op = "Challenge"        -> Challenge(e.q)
      [] e.op = "SaveLoad"         -> SaveLoad(e.fmt)
TraceNext == l <= Len(Traces[tid].events) /\ Step(Ev) /\ l' = l + 1 /\ UNCHANGED <<tid, steps>>

Has(r, f) == f \in DOMAIN r
BadObs ==
    LET e == Ev IN
    {n \in {"out", "sv", "ret", "store", "chal", "onfile"} :
        CASE n = "out"   -> ev'.out # e.out
          [] n = "sv"    -> Has(ev', "sv") /\ (~Has(e, "sv") \/ ev'.sv # e.sv)
          [] n = "ret"   -> Has(ev', "ret") /\ (~Has(e, "ret") \/ ev'.ret # e.ret)
          [] n = "store" -> store' # e.store
          [] n = "chal"  -> chal' # e.chal
          [] n = "onfile" -> Has(e, "onfile") /\ onfile' # e.onfile}
BadAct == {n \in {"C09_FreshSalt", "C09_Survives"} :
              CASE n = "C09_FreshSalt" -> ~A_FreshSalt [] n = "C09_Survives" -> ~A_Survives}
Report ==
    LET bo == BadObs
        bi == IF bo = {} THEN BadAct ELSE {}
        rec == IF bo = {} THEN [t |-> tid, l |-> l, bo |-> bo, bi |-> bi]
               ELSE [t |-> tid, l |-> l, bo |-> bo, bi |-> bi, m |-> [ev |-> ev', chal |-> chal']]
    IN PrintT(<<"TRACE", ToJson(rec)>>) /\ bo = {}
BadState == {n \in {"C08_ConcreteMethod", "C08_Inverse", "C08_FreshIV", "C08_WrongKey", "C08_MalformedRejected",
                    "C09_Exact", "C09_SaltLen", "C09_HandWrittenHashed"} :
                CASE n = "C08_ConcreteMethod" -> ~C08_ConcreteMethod [] n = "C08_Inverse" -> ~C08_Inverse
                  [] n = "C08_FreshIV" -> ~C08_FreshIV [] n = "C08_WrongKey" -> ~C08_WrongKey
                  [] n = "C08_MalformedRejected" -> ~C08_MalformedRejected
                  [] n = "C09_Exact" -> ~C09_Exact [] n = "C09_SaltLen" -> ~C09_SaltLen
                  [] n = "C09_HandWrittenHashed" -> ~C09_HandWrittenHashed}
ReportState == l > 1 => PrintT(<<"TRACE", ToJson([t |-> tid, l |-> l - 1, bo |-> {}, bi |-> BadState, st |-> TRUE])>>)
TraceView == <<store, nonce, chal, tid, l>>
====
