---- MODULE Trace_CincoSave ----
(* code -> spec for C19: replays logs recorded from real Config.save / Config.load calls
   (harness/props/c19.py driver) against the step machine of CincoSave.

   A trace is  [init |-> [fields, dest], events |-> <<...>>]; the events of one save are
       Begin(fmt, faults, ks, dest)  R  E(i) K(i) G(i) ... D  W  B  C  End(out, dest, wopens,
       keyf, wr)  [Load(out, eq)]
   i.e. exactly the steps that are observable from outside the library.  The machine's hidden
   steps (a failing format lookup, Encrypt) consume no event.  Every observable step of the
   machine must be the next logged event, with the logged destination content.

   Independently of the machine, the property's predicates are evaluated directly on the
   logged observations of every save (O_Untouched, O_Exact, O_LoadsBack), and the state
   invariants of CincoSave on every state of the replay. *)
EXTENDS CincoSave, Json, IOUtils, TLCExt, FiniteSetsExt

Traces == JsonDeserialize(IOEnv.TRACE_FILE)

VARIABLES tid, l
tvars == <<vars, tid, l>>

TrKinds   == AllKinds
TrFormats == {"json"}

Evs == Traces[tid].events

TraceInit ==
    /\ tid \in 1..Len(Traces)
    /\ l = 1
    /\ fields = Traces[tid].init.fields
    /\ dest = [k |-> Traces[tid].init.dest]
    /\ keyf = "K1"
    /\ round = 0
    /\ par = [fmt |-> "json", faults |-> {}, ks |-> "keep"]
    /\ pc = "Idle" /\ i = 0
    /\ tree = <<>> /\ content = None /\ written = None /\ wopens = 0
    /\ before = dest
    /\ log = <<>> /\ out = "running" /\ loaded = <<>>
    /\ ev = [op |-> "Init", vis |-> FALSE]
    /\ hist = <<>>

FaultsOf(e) == {e.faults[j] : j \in DOMAIN e.faults}

TraceNext ==
    /\ \/ /\ l <= Len(Evs)
          /\ Evs[l].op = "Begin"
          /\ Begin(Evs[l].fmt, FaultsOf(Evs[l]), Evs[l].ks)
       \/ Step
    /\ ev'.vis => l <= Len(Evs)
    /\ l' = IF ev'.vis THEN l + 1 ELSE l
    /\ UNCHANGED tid

---------------------------------------------------------------------------
(* the property on the logged observations alone; b = index of a Begin event *)
BeginIdx == {j \in 1..Len(Evs) : Evs[j].op = "Begin"}
RoundEnd(b) == LET nb == {j \in BeginIdx : j > b} IN IF nb = {} THEN Len(Evs) ELSE Min(nb) - 1
EndIdx(b) == CHOOSE j \in (b + 1)..RoundEnd(b) : Evs[j].op = "End"

O_Untouched(b) ==
    LET d0 == Evs[b].dest
        e  == EndIdx(b)
        ws == {j \in (b + 1)..e : Evs[j].op \in {"W", "B", "C"}}
        fw == IF ws = {} THEN e ELSE Min(ws)
    IN  /\ \A j \in (b + 1)..(fw - 1) : Evs[j].dest = d0
        /\ Evs[e].out = "raised" =>
              /\ ws = {}
              /\ Evs[e].dest = d0
              /\ Evs[e].wopens = 0
              /\ Evs[e].wr = "none"

O_Exact(b) ==
    LET e == EndIdx(b) IN
    Evs[e].out = "ok" => Evs[e].dest = "new" /\ Evs[e].wr # "other" /\ Evs[e].wopens >= 1

O_LoadsBack(b) ==
    LET e == EndIdx(b) IN
    Evs[e].out = "ok" =>
        \E j \in (e + 1)..RoundEnd(b) :
            /\ Evs[j].op = "Load" /\ Evs[j].out = "ok"
            /\ \A x \in DOMAIN Evs[j].eq :
                    \/ Evs[j].eq[x] = "same"
                    \* allowed normalisation (C02): an empty secret comes back unset
                    \/ Evs[j].eq[x] = "none" /\ Traces[tid].init.fields[x] = "bsecret"
                    \* the saved value lies outside the domain of the format of this save
                    \* (a tuple in json / bson): nothing is claimed about what comes back
                    \/ ~InDomain(Evs[b].fmt, Basic(Traces[tid].init.fields[x], x, "K1"))

ObsPreds(b) ==
    {n \in {"C19_Untouched", "C19_Exact", "C19_LoadsBack"} :
        CASE n = "C19_Untouched" -> ~O_Untouched(b)
          [] n = "C19_Exact"     -> ~O_Exact(b)
          [] n = "C19_LoadsBack" -> ~O_LoadsBack(b)}

---------------------------------------------------------------------------
In(r, f) == f \in DOMAIN r

\* logged observations that differ from the specification's step
BadObs ==
    LET e == Evs[l]
        m == ev' IN
    IF m.op # e.op \/ m.i # e.i THEN {"op"}
    ELSE {n \in {"dest", "out", "wopens", "keyf", "wr", "eq"} :
            In(m, n) /\ (~In(e, n) \/ CASE n = "dest" -> (m.dest # "?" /\ m.dest # e.dest)
                                          \* "?": a value outside the format's domain
                                          [] n = "eq"   -> \/ DOMAIN m.eq # DOMAIN e.eq
                                                           \/ \E x \in DOMAIN m.eq :
                                                                 m.eq[x] # "?" /\ m.eq[x] # e.eq[x]
                                          [] OTHER      -> m[n] # e[n])}

Report ==
    IF ~ev'.vis THEN TRUE
    ELSE LET bo == BadObs
             \* at the first event: the property on the observations of EVERY save of the trace
             bi == IF l = 1 THEN UNION {ObsPreds(b) : b \in BeginIdx} ELSE {}
             rec == IF bo = {}
                    THEN [t |-> tid, l |-> l, bo |-> bo, bi |-> bi]
                    ELSE [t |-> tid, l |-> l, bo |-> bo, bi |-> bi, m |-> ev']
         IN  /\ PrintT(<<"TRACE", ToJson(rec)>>)
             /\ bo = {} /\ bi = {}

\* state invariants of the specification on every state of the replay
BadState ==
    {n \in {"C19_Untouched", "C19_Exact", "C19_LoadsBack", "C19_FaultRaises"} :
        CASE n = "C19_Untouched"   -> ~C19_Untouched
          [] n = "C19_Exact"       -> ~C19_Exact
          [] n = "C19_LoadsBack"   -> ~C19_LoadsBack
          [] n = "C19_FaultRaises" -> ~C19_FaultRaises}
ReportState ==
    (l > 1 /\ BadState # {}) =>
        PrintT(<<"TRACE", ToJson([t |-> tid, l |-> l - 1, bo |-> {}, bi |-> BadState, st |-> TRUE])>>)

====
