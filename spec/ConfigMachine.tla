--------------------------- MODULE ConfigMachine ---------------------------
(***************************************************************************)
(* The central machine: two configurations c1, c2 of ONE schema (c2 may be *)
(* built later), driven through every public mutating route.  Properties   *)
(* C01, C06, C12, C13 are invariants / action properties of this machine;  *)
(* the conformance harness (harness/props/cfgmachine.py) performs each     *)
(* event on real Config objects and compares the projected state.          *)
(***************************************************************************)
EXTENDS CincoConfig, Json

CONSTANTS TheSchema,     \* unbound schema descriptor
          SetCands,      \* [<<path, key>> |-> set of candidate values for assignment]
          Trees,         \* candidate trees for load_tree (values of tag "dict")
          Kwargs,        \* candidate constructor keyword lists: sequences of <<key, value>>
          ListOps,       \* [<<path, key>> |-> set of list operations]
          DictOps,       \* [<<path, key>> |-> set of dict operations]
          MaxDepth

VARIABLES cfgs,          \* [{"c1","c2"} -> configuration | NoneV (not built yet)]
          ev,            \* last event (observation; not part of the VIEW)
          steps          \* number of operations performed (exact depth bound for TLC)
vars == <<cfgs, ev, steps>>
St == [cfgs |-> cfgs]

S == Bind(TheSchema, RootPrefix(TheSchema))
Names == {"c1", "c2"}

Init ==
    LET d == DefaultCfg(S, <<>>) IN
    /\ d.ok
    /\ cfgs \in {[c1 |-> d.cfg, c2 |-> d.cfg], [c1 |-> d.cfg, c2 |-> NoneV]}
    /\ ev = [op |-> "Init"]
    /\ steps = 0

Outcome(r) == IF r.ok THEN "ok" ELSE r.err.cls
Built(n) == IsCfg(cfgs[n])

\* cfg.<p>.k = v   (chained attribute access, then __setattr__)
SetAttr(n, pk, v) ==
    /\ Built(n)
    /\ LET r == SetPath(S, cfgs[n], pk[1], pk[2], v) IN
       /\ cfgs' = [cfgs EXCEPT ![n] = r.cfg]
       /\ ev' = [op |-> "SetAttr", n |-> n, p |-> pk[1], k |-> pk[2], v |-> v,
                 out |-> Outcome(r), errpath |-> r.err.path, repl |-> r.repl]

\* cfg["p.k"] = v   (dotted path walk)
SetItem(n, pk, v) ==
    /\ Built(n)
    /\ pk[1] # <<>>            \* (the one-segment case is SetAttr's route)
    /\ LET r == SetPath(S, cfgs[n], pk[1], pk[2], v) IN
       /\ cfgs' = [cfgs EXCEPT ![n] = r.cfg]
       /\ ev' = [op |-> "SetItem", n |-> n, p |-> pk[1], k |-> pk[2], v |-> v,
                 out |-> Outcome(r), errpath |-> r.err.path, repl |-> r.repl]

\* n = Config(schema, **kw): on rejection no object results and the name keeps its old object
Ctor(n, kw) ==
    /\ LET r == Construct(S, kw) IN
       /\ cfgs' = [cfgs EXCEPT ![n] = IF r.ok THEN r.cfg ELSE @]
       /\ ev' = [op |-> "Ctor", n |-> n, kw |-> kw, out |-> Outcome(r), errpath |-> r.err.path,
                 repl |-> IF r.ok /\ Built(n) THEN {<<>>} ELSE {}]

\* A failing tree load applies the keys that precede the rejected one (the code is not atomic
\* there, and no listed property says it must or must not be): an implementation that applies
\* nothing on failure is allowed as well.  The same holds for the in-place list / dict
\* operations that take several items (extend, +=, update with keywords).
Load(n, tree) ==
    /\ Built(n)
    /\ LET r == LoadTree(S, cfgs[n], tree, <<>>, TRUE) IN
       \/ /\ cfgs' = [cfgs EXCEPT ![n] = r.cfg]
          /\ ev' = [op |-> "Load", n |-> n, tree |-> tree, out |-> Outcome(r), errpath |-> r.err.path,
                    repl |-> r.repl, vlog |-> r.log, atomic |-> FALSE]
       \/ /\ ~r.ok
          /\ cfgs' = cfgs
          /\ ev' = [op |-> "Load", n |-> n, tree |-> tree, out |-> Outcome(r), errpath |-> r.err.path,
                    repl |-> {}, vlog |-> r.log, atomic |-> TRUE]

Reset(n, pk) ==
    /\ Built(n)
    /\ LET r == ResetValue(S, cfgs[n], pk[1], pk[2]) IN
       /\ cfgs' = [cfgs EXCEPT ![n] = r.cfg]
       /\ ev' = [op |-> "Reset", n |-> n, p |-> pk[1], k |-> pk[2], out |-> Outcome(r),
                 errpath |-> r.err.path, repl |-> r.repl]

COp(n, pk, o) ==
    /\ Built(n)
    /\ LET r == ContainerOp(S, cfgs[n], pk[1], pk[2], o) IN
       /\ \/ cfgs' = [cfgs EXCEPT ![n] = r.cfg]
          \/ ~r.ok /\ cfgs' = cfgs             \* (all-or-nothing is allowed too)
       /\ ev' = [op |-> "COp", n |-> n, p |-> pk[1], k |-> pk[2], o |-> o, out |-> Outcome(r),
                 errpath |-> r.err.path, repl |-> {}]

Check(n) ==
    /\ Built(n)
    /\ LET r == ValidateCfg(S, cfgs[n], <<>>) IN
       /\ UNCHANGED cfgs
       /\ ev' = [op |-> "Validate", n |-> n, out |-> IF r.ok THEN "ok" ELSE r.err.cls,
                 errpath |-> r.err.path, repl |-> {}, vlog |-> r.log]

\* m.load_tree(n.to_tree()): an in-memory clone of one configuration into the other
CopyTree(n, m) ==
    /\ Built(n) /\ Built(m) /\ n # m
    /\ LET tree == ToTree(S, cfgs[n], FALSE, NoMask)
           r == LoadTree(S, cfgs[m], tree, <<>>, TRUE) IN
       \/ /\ cfgs' = [cfgs EXCEPT ![m] = r.cfg]
          /\ ev' = [op |-> "CopyTree", n |-> m, src |-> n, out |-> Outcome(r), errpath |-> r.err.path, repl |-> r.repl]
       \/ /\ ~r.ok /\ cfgs' = cfgs
          /\ ev' = [op |-> "CopyTree", n |-> m, src |-> n, out |-> Outcome(r), errpath |-> r.err.path, repl |-> {}]

\* read-only queries: asdict(cfg, virtual=True), the value every computed field shows and the
\* result of calling every instance method.  (ConfigType.__eq__ is not modelled: it inherits
\* DictProxy.__eq__, which deliberately makes typed dicts of different configurations unequal.)
RECURSIVE Computed(_, _, _)
Computed(Sx, c, path) ==
    UNION {LET k == Sx.fields[i][1]  f == Sx.fields[i][2] IN
           IF f.kind = "virtual" THEN {<<Append(path, k), VirtualOf(f, c)>>}
           ELSE IF IsSchema(f) /\ IsCfg(c.vals[k]) THEN Computed(f, c.vals[k], Append(path, k))
           ELSE {} : i \in DOMAIN Sx.fields}
Query(n) ==
    /\ Built(n)
    /\ UNCHANGED cfgs
    /\ ev' = [op |-> "Query", n |-> n, out |-> "ok", errpath |-> <<>>, repl |-> {},
              asdict |-> AsDict(S, cfgs[n], TRUE),
              computed |-> Computed(S, cfgs[n], <<>>)]

\* cfg.validate(collect_errors=True): returns a list instead of raising
CheckCollect(n) ==
    /\ Built(n)
    /\ LET r == ValidateCfg(S, cfgs[n], <<>>) IN
       /\ UNCHANGED cfgs
       /\ ev' = [op |-> "ValidateCollect", n |-> n, out |-> IF r.ok THEN "ok" ELSE "errors", errpath |-> <<>>, repl |-> {}]

Tick == steps < MaxDepth /\ steps' = steps + 1

\* (a disjunction of actions, so that TLC's simulator picks one operation per step)
Next ==
    \/ \E n \in Names, pk \in DOMAIN SetCands : \E v \in SetCands[pk] : Tick /\ SetAttr(n, pk, v)
    \/ \E n \in Names, pk \in DOMAIN SetCands : \E v \in SetCands[pk] : Tick /\ SetItem(n, pk, v)
    \/ \E n \in Names, kw \in Kwargs : Tick /\ Ctor(n, kw)
    \/ \E n \in Names, t \in Trees : Tick /\ Load(n, t)
    \/ \E n \in Names, pk \in DOMAIN SetCands : Tick /\ Reset(n, pk)
    \/ \E n \in Names, pk \in DOMAIN ListOps : \E o \in ListOps[pk] : Tick /\ COp(n, pk, o)
    \/ \E n \in Names, pk \in DOMAIN DictOps : \E o \in DictOps[pk] : Tick /\ COp(n, pk, o)
    \/ \E n \in Names : Tick /\ Check(n)
    \/ \E n \in Names : Tick /\ CheckCollect(n)
    \/ \E n \in Names : Tick /\ Query(n)
    \/ \E n \in Names, m \in Names : Tick /\ CopyTree(n, m)

Bound == TRUE

---------------------------------------------------------------------------
(* C01 *)
C01_AllValid == \A n \in Names : Built(n) => AllValid(S, cfgs[n])

\* reading a field right after an accepted assignment yields the normalised value, and the
\* assignment changes no other field
\* (assigning to a computed field runs the application's setter, which by design writes
\* another field: outside the "changes no other field" clause)
OnComputed(e) == HasField(SchemaAt(S, e.p), e.k) /\ FieldOf(SchemaAt(S, e.p), e.k).kind = "virtual"
A_Readback ==
    (ev'.op \in {"SetAttr", "SetItem"} /\ ev'.out = "ok" /\ ~OnComputed(ev')) =>
        LET n == ev'.n
            Sp == SchemaAt(S, ev'.p)
            before == CfgAt(cfgs[n], ev'.p)
            after == CfgAt(cfgs'[n], ev'.p)
            f == FieldOf(Sp, ev'.k)
        IN  /\ HasField(Sp, ev'.k) /\ IsLeaf(f) /\ ~(f.kind = "list" /\ IsSchema(f.item)) =>
                LET r == Validate(f, ev'.v) IN r.ok /\ after.vals[ev'.k] = r.v
            /\ \A k2 \in DOMAIN before.vals : k2 # ev'.k => after.vals[k2] = before.vals[k2]
            /\ \A m \in Names : m # n => cfgs'[m] = cfgs[m]
            /\ cfgs'[n] = PutAt(cfgs[n], ev'.p, after)
C01_Readback == [][A_Readback]_vars

(* C06: a rejected operation of the covered kinds leaves everything as it was *)
Covered(e) ==
    \/ e.op \in {"SetAttr", "SetItem", "Ctor"}
    \/ e.op = "COp" /\ e.o.m \in {"append", "insert", "setitem", "setdefault", "item_set"}
A_Unchanged == (ev'.out # "ok" /\ Covered(ev')) => cfgs' = cfgs /\ ev'.repl = {}
C06_Unchanged == [][A_Unchanged]_vars

(* C12: defaults / user-defined marks / reset *)
RECURSIVE FreshOk(_, _)
C12_Fresh ==
    \A n \in Names :
        (ev.op = "Ctor" /\ ev.n = n /\ ev.out = "ok") =>
            LET d == DefaultCfg(S, <<>>).cfg IN
            \A k \in DOMAIN cfgs[n].vals :
                IF \E i \in DOMAIN ev.kw : ev.kw[i][1] = k
                THEN k \notin cfgs[n].dflt
                ELSE k \in cfgs[n].dflt /\ cfgs[n].vals[k] = d.vals[k]
FreshOk(a, b) == TRUE
\* the mark leaves exactly on an accepted assignment for that key; never on a rejected one
A_Marks ==
    (ev'.op \in {"SetAttr", "SetItem"} /\ ~OnComputed(ev')) =>
        LET before == CfgAt(cfgs[ev'.n], ev'.p)
            after == CfgAt(cfgs'[ev'.n], ev'.p)
        IN  IF ev'.out = "ok" THEN after.dflt = before.dflt \ {ev'.k}
            ELSE after.dflt = before.dflt
C12_Marks == [][A_Marks]_vars
A_Reset ==
    (ev'.op = "Reset" /\ ev'.out = "ok") =>
        LET n == ev'.n
            before == CfgAt(cfgs[n], ev'.p)
            after == CfgAt(cfgs'[n], ev'.p)
            fresh == CfgAt(DefaultCfg(S, <<>>).cfg, ev'.p)
        IN  /\ ev'.k \in DOMAIN fresh.vals => after.vals[ev'.k] = fresh.vals[ev'.k] /\ ev'.k \in after.dflt
            /\ \A k2 \in DOMAIN before.vals :
                  k2 # ev'.k => after.vals[k2] = before.vals[k2] /\ (k2 \in after.dflt <=> k2 \in before.dflt)
            /\ cfgs'[n] = PutAt(cfgs[n], ev'.p, after)
C12_Reset == [][A_Reset]_vars

(* C11: a load or validation that returns means required fields are set and every validator
   of every enabled (sub)configuration ran and passed *)
NonEmpty(v) == ~IsNone(v) /\ (v.t = "str" => v.s # <<>>) /\ (v.t \in {"list", "tuple"} => v.l # <<>>) /\ (v.t = "dict" => v.kv # <<>>)
RECURSIVE RequiredSet(_, _)
RequiredSet(Sx, c) ==
    FeatureOn(Sx, c) =>
        \A i \in DOMAIN Sx.fields :
            LET k == Sx.fields[i][1]  f == Sx.fields[i][2] IN
            IF f.kind = "virtual" THEN TRUE
            ELSE IF IsSchema(f) THEN IsCfg(c.vals[k]) => RequiredSet(f, c.vals[k])
            ELSE f.required => NonEmpty(c.vals[k])
RECURSIVE EnabledValidators(_, _, _)
EnabledValidators(Sx, c, path) ==
    IF ~FeatureOn(Sx, c) THEN {}
    ELSE {<<path, Sx.validators[j]>> : j \in DOMAIN Sx.validators}
         \cup UNION {LET k == Sx.fields[i][1]  f == Sx.fields[i][2] IN
                     IF IsSchema(f) /\ IsCfg(c.vals[k]) THEN EnabledValidators(f, c.vals[k], Append(path, k)) ELSE {}
                     : i \in DOMAIN Sx.fields}
C11_ReturnImplies ==
    \A n \in Names :
        (ev.op \in {"Load", "Validate"} /\ ev.n = n /\ ev.out = "ok") =>
            /\ RequiredSet(S, cfgs[n])
            /\ EnabledValidators(S, cfgs[n], <<>>) \subseteq ev.vlog
            /\ \A pv \in EnabledValidators(S, cfgs[n], <<>>) : ValidatorOk(pv[2], CfgAt(cfgs[n], pv[1]))
C11_CollectIffRaise ==
    \A n \in Names :
        (ev.op = "ValidateCollect" /\ ev.n = n) => (ev.out = "errors" <=> ~ValidateCfg(S, cfgs[n], <<>>).ok)
\* items of configuration lists are held to the rule when they are loaded or inserted:
\* every item satisfies its schema's required fields at all times
RECURSIVE ItemsHeld(_, _)
ItemsHeld(Sx, c) ==
    \A i \in DOMAIN Sx.fields :
        LET k == Sx.fields[i][1]  f == Sx.fields[i][2] IN
        IF f.kind = "virtual" THEN TRUE
        ELSE IF IsSchema(f) THEN IsCfg(c.vals[k]) => ItemsHeld(f, c.vals[k])
        ELSE IF f.kind = "list" /\ IsSchema(f.item) /\ c.vals[k].t = "list"
             THEN \A j \in DOMAIN c.vals[k].l : RequiredSet(f.item, c.vals[k].l[j])
        ELSE TRUE
C11_ItemsHeld == \A n \in Names : Built(n) => ItemsHeld(S, cfgs[n])

(* C15: every rejection of a value for a declared field is the library's validation error
   and names a declared path below the assignment's target *)
RECURSIVE MentionsUnknown(_, _)
\* the value is (or contains) a map that uses a key the schema does not declare: unknown keys
\* are outside C15's statement
MentionsUnknown(Sx, v) ==
    /\ IsSchema(Sx) /\ v.t = "dict"
    /\ \E i \in DOMAIN v.kv :
          LET kk == v.kv[i][1] IN
          \/ kk.t # "str"
          \/ ~\E k \in KeyNames : KeyChars[k] = kk.s /\ HasField(Sx, k)
          \/ LET k == CHOOSE k \in KeyNames : KeyChars[k] = kk.s /\ HasField(Sx, k)
                 f == FieldOf(Sx, k) IN
             \/ MentionsUnknown(f, v.kv[i][2])
             \/ f.kind = "list" /\ IsSchema(f.item) /\ v.kv[i][2].t \in {"list", "tuple"}
                /\ \E j \in DOMAIN v.kv[i][2].l : MentionsUnknown(f.item, v.kv[i][2].l[j])
RECURSIVE PathDeclared(_, _)
\* every segment of an error path is a declared key, an item index of a list of
\* configurations, or an entry key of a typed dict
PathDeclared(f, path) ==
    IF path = <<>> THEN TRUE
    ELSE LET h == Head(path) IN
         IF IsSchema(f) THEN h \in STRING /\ HasField(f, h) /\ PathDeclared(FieldOf(f, h), Tail(path))
         ELSE IF f.kind = "list" /\ IsSchema(f.item) THEN Len(h) = 2 /\ h[1] = "#" /\ PathDeclared(f.item, Tail(path))
         ELSE IF f.kind = "dict" THEN Len(h) = 2 /\ h[1] = "@" /\ Tail(path) = <<>>
         ELSE FALSE
IsPrefixOf(a, b) == Len(a) <= Len(b) /\ SubSeq(b, 1, Len(a)) = a
C15_Error ==
    (ev.op \in {"SetAttr", "SetItem"} /\ ev.out \notin {"ok", "Unmodelled"}
        /\ HasField(SchemaAt(S, ev.p), ev.k) /\ FieldOf(SchemaAt(S, ev.p), ev.k).kind # "virtual") =>
        \/ MentionsUnknown(FieldOf(SchemaAt(S, ev.p), ev.k), ev.v)
        \/ FieldOf(SchemaAt(S, ev.p), ev.k).kind = "list" /\ IsSchema(FieldOf(SchemaAt(S, ev.p), ev.k).item)
           /\ ev.v.t \in {"list", "tuple"}
           /\ \E j \in DOMAIN ev.v.l : MentionsUnknown(FieldOf(SchemaAt(S, ev.p), ev.k).item, ev.v.l[j])
        \/ /\ ev.out = "ValidationError"
           /\ IsPrefixOf(Append(ev.p, ev.k), ev.errpath)
           /\ PathDeclared(S, ev.errpath)

(* C13: an operation on one configuration never changes the other *)
A_Isolated == \A m \in Names : ("n" \in DOMAIN ev' /\ ev'.n # m) => cfgs'[m] = cfgs[m]
C13_Isolated == [][A_Isolated]_vars

---------------------------------------------------------------------------
Export == PrintT(<<"EDGE", ToJson([from |-> St, ev |-> ev', to |-> St'])>>)
PInit  == (steps = 0) => PrintT(<<"INIT", ToJson(St)>>)
View == <<cfgs, steps>>
=============================================================================
