--------------------------- MODULE ConfigMachine ---------------------------
(***************************************************************************)
(* The central machine: two configurations c1, c2 of ONE schema (c2 may be *)
(* built later), driven through every public mutating route.  Properties   *)
(* C01, C06, C12, C13 are invariants / action properties of this machine;  *)
(* the conformance harness (harness/props/cfgmachine.py) performs each     *)
(* event on real Config objects and compares the projected state.          *)
(***************************************************************************)
EXTENDS CincoConfig, Json

CONSTANTS TheSchema,     \* unbound schema descriptor of the instance
          FamilyN,       \* number of schemas of the instance (1 for a single-schema instance) ...
          FamilyAt(_),   \* ... and the i-th one (FamilyAt(1) = TheSchema); an indexed operator, not a
                         \* sequence: TLC re-evaluates a definition at every reference, and one
                         \* schema is cheap where nine hundred are not
          Generic,       \* TRUE: candidate pools are derived from the schema (Gen* below)
          SetCands,      \* [<<path, key>> |-> set of candidate values for assignment]
          Trees,         \* candidate trees for load_tree (values of tag "dict")
          Kwargs,        \* candidate constructor keyword lists: sequences of <<key, value>>
          ListOps,       \* [<<path, key>> |-> set of list operations]
          DictOps,       \* [<<path, key>> |-> set of dict operations]
          MaxDepth

VARIABLES cfgs,          \* [{"c1","c2"} -> configuration | NoneV (not built yet)]
          ev,            \* last event (observation; not part of the VIEW)
          steps,         \* number of operations performed (exact depth bound for TLC)
          sid, sch       \* which schema of the family this behaviour is about, and its bound form
vars == <<cfgs, ev, steps, sid, sch>>
St == [cfgs |-> cfgs, sid |-> sid]

\* the schemas of the instance, in a fixed order (sid indexes it; the harness reads it once)
S == sch
Names == {"c1", "c2"}

---------------------------------------------------------------------------
(* Generic candidate pools, derived from the schema itself (used when Generic = TRUE, i.e.
   for the generated schema family): for every field kind a valid value, a value that
   normalises, a rejected value and a wrongly typed one. *)
gs(t) == StrV(t)
GD1(kc, v) == DictV(<< <<StrV(kc), v>> >>)
RECURSIVE GenCands(_)
GenCands(f) ==
    CASE f.kind = "int"      -> {IntV(3), IntV(11), gs(<<"7">>), NoneV, gs(<<"x">>), IntV(0), IntV(65535), IntV(65536)}
      [] f.kind = "string"   -> {gs(<<" ", "A", "b", " ">>), gs(<<"a", "b", "c", "d">>), IntV(1), gs(<<>>), gs(<<" ", "E", "r", "r", "o", "r">>), gs(<<"R", "e", "d">>), gs(<<"r", "e", "d">>), gs(<<"A", "B">>)}
      [] f.kind = "bool"     -> {gs(<<"y", "e", "s">>), gs(<<"m">>), BoolV(TRUE)}
      [] f.kind = "ipv4addr" -> {gs(<<"1", "0", ".", "0", ".", "0", ".", "7">>), gs(<<"2", "5", "6", ".", "1", ".", "1", ".", "1">>)}
      [] f.kind = "bytes"    -> {BytesV(<<0, 255>>), gs(<<"a", "b">>), IntV(5), ObjV("bytearray")}
      [] f.kind = "list" /\ f.item.kind = "schema" ->
            {ListV(<<GD1(<<"p">>, IntV(1))>>), ListV(<<GD1(<<"p">>, IntV(0))>>), ListV(<<IntV(1)>>), ListV(<<>>)}
      [] f.kind = "list"     -> {ListV(<<IntV(2), gs(<<"3">>)>>), ListV(<<IntV(-1)>>), gs(<<"x">>), ListV(<<>>)}
      [] f.kind = "dict"     -> {GD1(<<"k">>, IntV(1)), GD1(<<"k">>, gs(<<"x">>)), GD1(<<"m">>, IntV(7)), DictV(<<>>), ListV(<<>>)}
      [] f.kind = "challenge" -> {gs(<<"h", "u", "n", "t", "e", "r">>), IntV(1), NoneV}
      [] f.kind = "url"      -> {gs(<<"f", "t", "p", ":", "/", "/", "b">>), gs(<<>>), gs(<<"n", "o", "u", "r", "l">>), NoneV}
      [] f.kind = "schema"   ->
            LET k1 == f.fields[1][1]  f1 == f.fields[1][2]
                inner == IF f1.kind = "schema" THEN {GD1(KeyChars[f1.fields[1][1]], IntV(1))} ELSE GenCands(f1) IN
            {GD1(KeyChars[k1], c) : c \in {x \in inner : x.t \in {"int", "str", "dict", "list", "bool"}}}
            \cup {IntV(1), GD1(<<"z", "z">>, IntV(1)), DictV(<<>>)}
      [] OTHER               -> {IntV(1)}
\* every <<path, key>> of the schema, nested ones included (depth <= 2 below the root)
GenPaths(Sx) ==
    LET top == {<< <<>>, Sx.fields[i][1]>> : i \in DOMAIN Sx.fields}
        below(k, f) == IF IsSchema(f) THEN
                           {<< <<k>>, f.fields[i][1]>> : i \in DOMAIN f.fields}
                           \cup UNION {IF IsSchema(f.fields[i][2])
                                       THEN {<< <<k, f.fields[i][1]>>, f.fields[i][2].fields[j][1]>> : j \in DOMAIN f.fields[i][2].fields}
                                       ELSE {} : i \in DOMAIN f.fields}
                       ELSE {}
    IN top \cup UNION {below(Sx.fields[i][1], Sx.fields[i][2]) : i \in DOMAIN Sx.fields}
\* an undeclared key at the root and in every sub-schema (accepted where the schema is dynamic)
GenUnknown(Sx) == {<< <<>>, "zz">>} \cup {<< <<Sx.fields[i][1]>>, "zz">> : i \in {j \in DOMAIN Sx.fields : IsSchema(Sx.fields[j][2])}}
GenSetCands(Sx) == [pk \in GenPaths(Sx) \cup GenUnknown(Sx) |->
                        IF pk[2] = "zz" THEN {IntV(1), gs(<<"d", "y", "n">>)} ELSE GenCands(FieldOf(SchemaAt(Sx, pk[1]), pk[2]))]
GenTrees(Sx) ==
    {DictV(<<>>)}
    \cup UNION {{GD1(KeyChars[Sx.fields[i][1]], c) : c \in GenCands(Sx.fields[i][2])} : i \in DOMAIN Sx.fields}
    \cup (IF Len(Sx.fields) >= 2
          THEN {DictV(<< <<StrV(KeyChars[Sx.fields[1][1]]), a>>, <<StrV(KeyChars[Sx.fields[2][1]]), b>> >>) :
                    a \in GenCands(Sx.fields[1][2]), b \in GenCands(Sx.fields[2][2])}
          ELSE {})
GenKwargs(Sx) == {<<>>} \cup UNION {{<< <<Sx.fields[i][1], c>> >> : c \in GenCands(Sx.fields[i][2])} : i \in DOMAIN Sx.fields}
GenListOps(Sx) ==
    [pk \in {q \in GenPaths(Sx) : FieldOf(SchemaAt(Sx, q[1]), q[2]).kind = "list"} |->
        IF FieldOf(SchemaAt(Sx, pk[1]), pk[2]).item.kind = "schema"
        THEN {[m |-> "append", v |-> GD1(<<"p">>, IntV(3))], [m |-> "append", v |-> GD1(<<"p">>, IntV(0))],
              [m |-> "append", v |-> DictV(<<>>)], [m |-> "insert", i |-> 0, v |-> GD1(<<"p">>, IntV(4))],
              [m |-> "item_set", i |-> 0, k |-> "p", v |-> IntV(8)], [m |-> "item_set", i |-> 0, k |-> "p", v |-> IntV(0)], [m |-> "pop"],
              [m |-> "item_reset", i |-> 0, k |-> "p"], [m |-> "setitem_same", i |-> 0]}
        ELSE {[m |-> "append", v |-> IntV(4)], [m |-> "append", v |-> IntV(-1)], [m |-> "append", v |-> gs(<<"5">>)],
              [m |-> "insert", i |-> 0, v |-> IntV(7)], [m |-> "setitem", i |-> 0, v |-> IntV(-9)], [m |-> "setitem", i |-> 5, v |-> IntV(1)],
              [m |-> "extend", vs |-> <<IntV(6), IntV(-1), IntV(8)>>], [m |-> "setslice_all", vs |-> <<IntV(3), gs(<<"x">>)>>],
              [m |-> "pop"], [m |-> "clear"]}]
GenDictOps(Sx) ==
    [pk \in {q \in GenPaths(Sx) : FieldOf(SchemaAt(Sx, q[1]), q[2]).kind = "dict"} |->
        {[m |-> "setitem", k |-> gs(<<"k">>), v |-> IntV(1)], [m |-> "setitem", k |-> gs(<<"k">>), v |-> gs(<<"x">>)],
         [m |-> "update", kv |-> << <<gs(<<"a">>), IntV(1)>>, <<gs(<<"b">>), gs(<<"x">>)>> >>],
         [m |-> "ior", kv |-> << <<gs(<<"c">>), gs(<<"3">>)>> >>], [m |-> "setdefault", k |-> gs(<<"k">>), v |-> IntV(5)],
         [m |-> "pop", k |-> gs(<<"K">>)], [m |-> "pop", k |-> gs(<<"k">>)], [m |-> "clear"]}
        \cup (IF FieldOf(SchemaAt(Sx, pk[1]), pk[2]).valf.kind = "dict"
              THEN {[m |-> "setitem", k |-> gs(<<"e", "u">>), v |-> GD1(<<"b">>, IntV(-1))], [m |-> "setitem", k |-> gs(<<"e", "u">>), v |-> GD1(<<"b">>, IntV(2))],
                    [m |-> "setdefault", k |-> gs(<<"u", "s">>), v |-> GD1(<<"b">>, gs(<<"x">>))], [m |-> "update", kv |-> << <<gs(<<"a">>), GD1(<<"c">>, IntV(-3))>> >>]}
              ELSE {})
        \cup (IF FieldOf(SchemaAt(Sx, pk[1]), pk[2]).keyf.kind = "nofield"
              THEN {[m |-> "setitem", k |-> TupleV(<<IntV(3)>>), v |-> gs(<<"x">>)], [m |-> "setitem", k |-> TupleV(<<IntV(3), IntV(4)>>), v |-> IntV(-1)],
                    [m |-> "setitem", k |-> TupleV(<<IntV(3)>>), v |-> IntV(2)], [m |-> "setitem", k |-> IntV(7), v |-> gs(<<"x">>)]}
              ELSE {})]

SetCandsNow == IF Generic THEN GenSetCands(S) ELSE SetCands
TreesNow    == IF Generic THEN GenTrees(S) ELSE Trees
KwargsNow   == IF Generic THEN GenKwargs(S) ELSE Kwargs
ListOpsNow  == IF Generic THEN GenListOps(S) ELSE ListOps
DictOpsNow  == IF Generic THEN GenDictOps(S) ELSE DictOps

InitOf(i) ==
    /\ sid = i
    /\ LET raw == FamilyAt(i) IN sch = Bind(raw, RootPrefix(raw))
    /\ LET d == DefaultCfg(sch, <<>>) IN
       /\ d.ok
       /\ cfgs \in {[c1 |-> d.cfg, c2 |-> d.cfg], [c1 |-> d.cfg, c2 |-> NoneV]}
    /\ ev = [op |-> "Init"]
    /\ steps = 0
Init == \E i \in 1..FamilyN : InitOf(i)

Outcome(r) == IF r.ok THEN "ok" ELSE r.err.cls
Built(n) == IsCfg(cfgs[n])

\* cfg.<p>.k = v   (chained attribute access, then __setattr__)
SetAttr(n, pk, v) ==
    /\ Built(n)
    /\ LET r == SetPath(S, cfgs[n], pk[1], pk[2], v) IN
       /\ cfgs' = [cfgs EXCEPT ![n] = r.cfg]
       /\ ev' = [op |-> "SetAttr", n |-> n, p |-> pk[1], k |-> pk[2], v |-> v,
                 out |-> Outcome(r), errpath |-> r.err.path, repl |-> r.repl]

\* cfg["p.k"] = v   (dotted path walk)
SetItem(n, pk, v) ==
    /\ Built(n)
    /\ pk[1] # <<>>            \* (the one-segment case is SetAttr's route)
    /\ LET r == SetPath(S, cfgs[n], pk[1], pk[2], v) IN
       /\ cfgs' = [cfgs EXCEPT ![n] = r.cfg]
       /\ ev' = [op |-> "SetItem", n |-> n, p |-> pk[1], k |-> pk[2], v |-> v,
                 out |-> Outcome(r), errpath |-> r.err.path, repl |-> r.repl]

\* cfg["<p>.<k>.<dk>"] = v where <k> is a dict field: the last component of the dotted path is a KEY
\* of the map the field holds (Config.__setitem__ hands the rest of the path to the value)
SetDictItem(n, pk, dk, v) ==
    /\ Built(n)
    /\ LET cur == CfgAt(cfgs[n], pk[1]).vals[pk[2]] IN
       IF cur.t # "dict"
       THEN /\ UNCHANGED cfgs          \* no map to put the key into: nothing happens, nothing is created
            /\ ev' = [op |-> "SetDictItem", n |-> n, p |-> pk[1], k |-> pk[2], dk |-> dk, v |-> v,
                      out |-> "AttributeError", errpath |-> <<>>, repl |-> {}]
       ELSE LET r == ContainerOp(S, cfgs[n], pk[1], pk[2], [m |-> "setitem", k |-> StrV(dk), v |-> v]) IN
            /\ cfgs' = [cfgs EXCEPT ![n] = r.cfg]
            /\ ev' = [op |-> "SetDictItem", n |-> n, p |-> pk[1], k |-> pk[2], dk |-> dk, v |-> v,
                      out |-> Outcome(r), errpath |-> r.err.path, repl |-> {}]

\* n = Config(schema, **kw): on rejection no object results and the name keeps its old object
Ctor(n, kw) ==
    /\ LET r == Construct(S, kw) IN
       /\ cfgs' = [cfgs EXCEPT ![n] = IF r.ok THEN r.cfg ELSE @]
       /\ ev' = [op |-> "Ctor", n |-> n, kw |-> kw, out |-> Outcome(r), errpath |-> r.err.path,
                 repl |-> IF r.ok /\ Built(n) THEN {<<>>} ELSE {}]

\* A failing tree load applies the keys that precede the rejected one (the code is not atomic
\* there, and no listed property says it must or must not be): an implementation that applies
\* nothing on failure is allowed as well.  The same holds for the in-place list / dict
\* operations that take several items (extend, +=, update with keywords).
Load(n, tree) ==
    /\ Built(n)
    /\ LET r == LoadTree(S, cfgs[n], tree, <<>>, TRUE) IN
       \/ /\ cfgs' = [cfgs EXCEPT ![n] = r.cfg]
          /\ ev' = [op |-> "Load", n |-> n, tree |-> tree, out |-> Outcome(r), errpath |-> r.err.path,
                    repl |-> r.repl, vlog |-> r.log, atomic |-> FALSE]
       \/ /\ ~r.ok
          /\ cfgs' = cfgs
          /\ ev' = [op |-> "Load", n |-> n, tree |-> tree, out |-> Outcome(r), errpath |-> r.err.path,
                    repl |-> {}, vlog |-> r.log, atomic |-> TRUE]

Reset(n, pk) ==
    /\ Built(n)
    /\ LET r == ResetValue(S, cfgs[n], pk[1], pk[2]) IN
       /\ cfgs' = [cfgs EXCEPT ![n] = r.cfg]
       /\ ev' = [op |-> "Reset", n |-> n, p |-> pk[1], k |-> pk[2], out |-> Outcome(r),
                 errpath |-> r.err.path, repl |-> r.repl]

COp(n, pk, o) ==
    /\ Built(n)
    /\ LET r == ContainerOp(S, cfgs[n], pk[1], pk[2], o) IN
       /\ \/ cfgs' = [cfgs EXCEPT ![n] = r.cfg]
          \/ ~r.ok /\ cfgs' = cfgs             \* (all-or-nothing is allowed too)
       /\ ev' = [op |-> "COp", n |-> n, p |-> pk[1], k |-> pk[2], o |-> o, out |-> Outcome(r),
                 errpath |-> r.err.path, repl |-> {}]

Check(n) ==
    /\ Built(n)
    /\ LET r == ValidateCfg(S, cfgs[n], <<>>) IN
       /\ UNCHANGED cfgs
       /\ ev' = [op |-> "Validate", n |-> n, out |-> IF r.ok THEN "ok" ELSE r.err.cls,
                 errpath |-> r.err.path, repl |-> {}, vlog |-> r.log]

\* m.load_tree(n.to_tree()): an in-memory clone of one configuration into the other
CopyTree(n, m) ==
    /\ Built(n) /\ Built(m) /\ n # m
    /\ LET tree == ToTree(S, cfgs[n], FALSE, NoMask)
           r == LoadTree(S, cfgs[m], tree, <<>>, TRUE) IN
       \/ /\ cfgs' = [cfgs EXCEPT ![m] = r.cfg]
          /\ ev' = [op |-> "CopyTree", n |-> m, src |-> n, out |-> Outcome(r), errpath |-> r.err.path, repl |-> r.repl]
       \/ /\ ~r.ok /\ cfgs' = cfgs
          /\ ev' = [op |-> "CopyTree", n |-> m, src |-> n, out |-> Outcome(r), errpath |-> r.err.path, repl |-> {}]

\* m.<p>.<k> = n.<p>.<k>: the typed list / dict value one configuration holds is assigned to the
\* same field of the other one.  It is validated like any other value and the two configurations
\* go on holding containers of their own.
AssignFrom(n, m, pk) ==
    /\ Built(n) /\ Built(m) /\ n # m
    /\ LET src == CfgAt(cfgs[n], pk[1]).vals[pk[2]]
           r == SetPath(S, cfgs[m], pk[1], pk[2], src) IN
       /\ src.t \in {"list", "dict"}
       /\ (src.t = "list" => \A i \in DOMAIN src.l : ~IsCfg(src.l[i]))
       /\ cfgs' = [cfgs EXCEPT ![m] = r.cfg]
       /\ ev' = [op |-> "AssignFrom", n |-> m, src |-> n, p |-> pk[1], k |-> pk[2], out |-> Outcome(r), errpath |-> r.err.path, repl |-> r.repl]

\* A new session (C02): n.dumps(fmt) is loaded by a FRESH configuration of the same schema, which
\* takes n's place.  The five formats are a typed channel here (their fidelity is C04's
\* subject); the format is an event parameter so that the harness goes through each real one.
Formats == {"json", "yaml", "bson", "xml", "pickle"}
RoundTrip(n, fmt) ==
    /\ Built(n)
    /\ LET tree == ToTree(S, cfgs[n], FALSE, NoMask)
           d == DefaultCfg(S, <<>>)
           r == LoadTree(S, d.cfg, Channel(fmt, tree), <<>>, TRUE) IN
       IF ~InFormatDomain(fmt, tree)
       THEN /\ UNCHANGED cfgs
            /\ ev' = [op |-> "RoundTrip", n |-> n, fmt |-> fmt, out |-> "Unmodelled", errpath |-> <<>>, repl |-> {}]
       ELSE /\ cfgs' = [cfgs EXCEPT ![n] = IF r.ok THEN r.cfg ELSE @]
            /\ ev' = [op |-> "RoundTrip", n |-> n, fmt |-> fmt, out |-> Outcome(r), errpath |-> r.err.path,
                      repl |-> IF r.ok THEN {<<>>} ELSE {}]

\* read-only queries: asdict(cfg, virtual=True), the value every computed field shows and the
\* result of calling every instance method.  (ConfigType.__eq__ is not modelled: it inherits
\* DictProxy.__eq__, which deliberately makes typed dicts of different configurations unequal.)
RECURSIVE Computed(_, _, _)
Computed(Sx, c, path) ==
    UNION {LET k == Sx.fields[i][1]  f == Sx.fields[i][2] IN
           IF f.kind = "virtual" THEN {<<Append(path, k), VirtualOf(f, c)>>}
           ELSE IF IsSchema(f) /\ IsCfg(c.vals[k]) THEN Computed(f, c.vals[k], Append(path, k))
           ELSE {} : i \in DOMAIN Sx.fields}
Query(n) ==
    /\ Built(n)
    /\ UNCHANGED cfgs
    /\ ev' = [op |-> "Query", n |-> n, out |-> "ok", errpath |-> <<>>, repl |-> {},
              asdict |-> AsDict(S, cfgs[n], TRUE),
              computed |-> Computed(S, cfgs[n], <<>>)]

\* cfg.validate(collect_errors=True): returns a list instead of raising
CheckCollect(n) ==
    /\ Built(n)
    /\ LET r == ValidateCfg(S, cfgs[n], <<>>) IN
       /\ UNCHANGED cfgs
       /\ ev' = [op |-> "ValidateCollect", n |-> n, out |-> IF r.ok THEN "ok" ELSE "errors", errpath |-> <<>>, repl |-> {}]

Tick == steps < MaxDepth /\ steps' = steps + 1 /\ UNCHANGED <<sid, sch>>

\* (a disjunction of actions, so that TLC's simulator picks one operation per step)
Next ==
    \/ \E n \in Names, pk \in DOMAIN SetCandsNow : \E v \in SetCandsNow[pk] : Tick /\ SetAttr(n, pk, v)
    \/ \E n \in Names, pk \in DOMAIN SetCandsNow : \E v \in SetCandsNow[pk] : Tick /\ SetItem(n, pk, v)
    \/ \E n \in Names, kw \in KwargsNow : Tick /\ Ctor(n, kw)
    \/ \E n \in Names, t \in TreesNow : Tick /\ Load(n, t)
    \/ \E n \in Names, pk \in DOMAIN SetCandsNow : Tick /\ Reset(n, pk)
    \/ \E n \in Names, pk \in DOMAIN ListOpsNow : \E o \in ListOpsNow[pk] : Tick /\ COp(n, pk, o)
    \/ \E n \in Names, pk \in DOMAIN DictOpsNow : \E o \in DictOpsNow[pk] : Tick /\ COp(n, pk, o)
    \/ \E n \in Names, pk \in DOMAIN DictOpsNow : \E dk \in {<<"k">>, <<"q", "2">>}, v \in {IntV(3), StrV(<<"x">>)} :
            Tick /\ SetDictItem(n, pk, dk, v)
    \/ \E n \in Names : Tick /\ Check(n)
    \/ \E n \in Names : Tick /\ CheckCollect(n)
    \/ \E n \in Names : Tick /\ Query(n)
    \/ \E n \in Names, m \in Names : Tick /\ CopyTree(n, m)
    \/ \E n \in Names, m \in Names, pk \in (DOMAIN ListOpsNow) \cup (DOMAIN DictOpsNow) : Tick /\ AssignFrom(n, m, pk)
    \/ \E n \in Names, fmt \in Formats : Tick /\ RoundTrip(n, fmt)

Bound == TRUE

---------------------------------------------------------------------------
(* C01 *)
C01_AllValid == \A n \in Names : Built(n) => AllValid(S, cfgs[n])

\* reading a field right after an accepted assignment yields the normalised value, and the
\* assignment changes no other field
\* (assigning to a computed field runs the application's setter, which by design writes
\* another field: outside the "changes no other field" clause)
OnComputed(e) == HasField(SchemaAt(S, e.p), e.k) /\ FieldOf(SchemaAt(S, e.p), e.k).kind = "virtual"
A_Readback ==
    (ev'.op \in {"SetAttr", "SetItem"} /\ ev'.out = "ok" /\ ~OnComputed(ev')) =>
        LET n == ev'.n
            Sp == SchemaAt(S, ev'.p)
            before == CfgAt(cfgs[n], ev'.p)
            after == CfgAt(cfgs'[n], ev'.p)
            f == FieldOf(Sp, ev'.k)
        IN  /\ HasField(Sp, ev'.k) /\ IsLeaf(f) /\ ~(f.kind = "list" /\ IsSchema(f.item)) =>
                LET r == Validate(f, ev'.v) IN r.ok /\ after.vals[ev'.k] = r.v
            /\ \A k2 \in DOMAIN before.vals : k2 # ev'.k => after.vals[k2] = before.vals[k2]
            /\ \A m \in Names : m # n => cfgs'[m] = cfgs[m]
            /\ cfgs'[n] = PutAt(cfgs[n], ev'.p, after)
C01_Readback == [][A_Readback]_vars

(* C06: a rejected operation of the covered kinds leaves everything as it was *)
Covered(e) ==
    \/ e.op \in {"SetAttr", "SetItem", "SetDictItem", "Ctor"}
    \/ e.op = "COp" /\ e.o.m \in {"append", "insert", "setitem", "setdefault", "item_set"}
A_Unchanged == (ev'.out # "ok" /\ Covered(ev')) => cfgs' = cfgs /\ ev'.repl = {}
C06_Unchanged == [][A_Unchanged]_vars

(* C12: defaults / user-defined marks / reset *)
RECURSIVE FreshOk(_, _)
C12_Fresh ==
    \A n \in Names :
        (ev.op = "Ctor" /\ ev.n = n /\ ev.out = "ok") =>
            LET d == DefaultCfg(S, <<>>).cfg IN
            \A k \in DOMAIN cfgs[n].vals :
                IF \E i \in DOMAIN ev.kw : ev.kw[i][1] = k
                THEN k \notin cfgs[n].dflt
                ELSE k \in cfgs[n].dflt /\ cfgs[n].vals[k] = d.vals[k]
FreshOk(a, b) == TRUE
\* the mark leaves exactly on an accepted assignment for that key; never on a rejected one
A_Marks ==
    (ev'.op \in {"SetAttr", "SetItem"} /\ ~OnComputed(ev')) =>
        LET before == CfgAt(cfgs[ev'.n], ev'.p)
            after == CfgAt(cfgs'[ev'.n], ev'.p)
        IN  IF ev'.out = "ok" THEN after.dflt = before.dflt \ {ev'.k}
            ELSE after.dflt = before.dflt
C12_Marks == [][A_Marks]_vars
A_Reset ==
    (ev'.op = "Reset" /\ ev'.out = "ok") =>
        LET n == ev'.n
            before == CfgAt(cfgs[n], ev'.p)
            after == CfgAt(cfgs'[n], ev'.p)
            fresh == CfgAt(DefaultCfg(S, <<>>).cfg, ev'.p)
        IN  /\ ev'.k \in DOMAIN fresh.vals => after.vals[ev'.k] = fresh.vals[ev'.k] /\ ev'.k \in after.dflt
            /\ \A k2 \in DOMAIN before.vals :
                  k2 # ev'.k => after.vals[k2] = before.vals[k2] /\ (k2 \in after.dflt <=> k2 \in before.dflt)
            /\ cfgs'[n] = PutAt(cfgs[n], ev'.p, after)
C12_Reset == [][A_Reset]_vars

(* C11: a load or validation that returns means required fields are set and every validator
   of every enabled (sub)configuration ran and passed *)
NonEmpty(v) == ~IsNone(v) /\ (v.t = "str" => v.s # <<>>) /\ (v.t \in {"list", "tuple"} => v.l # <<>>) /\ (v.t = "dict" => v.kv # <<>>)
RECURSIVE RequiredSet(_, _)
RequiredSet(Sx, c) ==
    FeatureOn(Sx, c) =>
        \A i \in DOMAIN Sx.fields :
            LET k == Sx.fields[i][1]  f == Sx.fields[i][2] IN
            IF f.kind = "virtual" THEN TRUE
            ELSE IF IsSchema(f) THEN IsCfg(c.vals[k]) => RequiredSet(f, c.vals[k])
            ELSE f.required => NonEmpty(c.vals[k])
RECURSIVE EnabledValidators(_, _, _)
EnabledValidators(Sx, c, path) ==
    IF ~FeatureOn(Sx, c) THEN {}
    ELSE {<<path, Sx.validators[j]>> : j \in DOMAIN Sx.validators}
         \cup UNION {LET k == Sx.fields[i][1]  f == Sx.fields[i][2] IN
                     IF IsSchema(f) /\ IsCfg(c.vals[k]) THEN EnabledValidators(f, c.vals[k], Append(path, k)) ELSE {}
                     : i \in DOMAIN Sx.fields}
C11_ReturnImplies ==
    \A n \in Names :
        (ev.op \in {"Load", "Validate"} /\ ev.n = n /\ ev.out = "ok") =>
            /\ RequiredSet(S, cfgs[n])
            /\ EnabledValidators(S, cfgs[n], <<>>) \subseteq ev.vlog
            /\ \A pv \in EnabledValidators(S, cfgs[n], <<>>) : ValidatorOk(pv[2], CfgAt(cfgs[n], pv[1]))
C11_CollectIffRaise ==
    \A n \in Names :
        (ev.op = "ValidateCollect" /\ ev.n = n) => (ev.out = "errors" <=> ~ValidateCfg(S, cfgs[n], <<>>).ok)
\* items of configuration lists are held to the rule when they are loaded or inserted: after a
\* load / validation that returns every item satisfies its schema's required fields, and every
\* configuration a list operation inserted (or inserted again) passes its schema's validation
RECURSIVE ItemsHeld(_, _)
ItemsHeld(Sx, c) ==
    \A i \in DOMAIN Sx.fields :
        LET k == Sx.fields[i][1]  f == Sx.fields[i][2] IN
        IF f.kind = "virtual" THEN TRUE
        ELSE IF IsSchema(f) THEN IsCfg(c.vals[k]) => ItemsHeld(f, c.vals[k])
        ELSE IF f.kind = "list" /\ IsSchema(f.item) /\ c.vals[k].t = "list"
             THEN \A j \in DOMAIN c.vals[k].l : RequiredSet(f.item, c.vals[k].l[j])
        ELSE TRUE
C11_ItemsHeld ==
    \* (operations that build or load every list of the configuration; a load of a partial tree
    \* leaves the other lists alone - items invalidated in place since they were inserted are not
    \* looked at again, the statement holds items to the rule "when they are loaded or inserted")
    \A n \in Names : (Built(n) /\ ev.op \in {"Init", "Ctor", "CopyTree", "RoundTrip"} /\ ("n" \in DOMAIN ev => ev.n = n) /\ ("out" \in DOMAIN ev => ev.out = "ok"))
                        => ItemsHeld(S, cfgs[n])
\* a load that returns: the items of every list of configurations the document mentions pass
\* their schema's validation
RECURSIVE ItemsLoadedOk(_, _, _)
ItemsLoadedOk(Sx, c, t) ==
    t.t = "dict" =>
    \A i \in DOMAIN Sx.fields :
        LET k == Sx.fields[i][1]  f == Sx.fields[i][2]  kc == StrV(KeyChars[k]) IN
        (f.kind # "virtual" /\ DictHas(t.kv, kc) /\ k \in DOMAIN c.vals) =>
            IF IsSchema(f) THEN IsCfg(c.vals[k]) => ItemsLoadedOk(f, c.vals[k], DictGet(t.kv, kc))
            ELSE IF f.kind = "list" /\ IsSchema(f.item) /\ c.vals[k].t = "list"
                 THEN \A j \in DOMAIN c.vals[k].l : ValidateCfg(f.item, c.vals[k].l[j], <<>>).ok
            ELSE TRUE
C11_ItemsLoaded ==
    \A n \in Names : (ev.op = "Load" /\ ev.n = n /\ ev.out = "ok") => ItemsLoadedOk(S, cfgs[n], ev.tree)
InsertedIdx(o, nOld, nNew) ==
    CASE o.m = "append" -> {nNew}
      [] o.m = "insert" -> {ClampIns(o.i, nOld) + 1}
      [] o.m \in {"setitem", "setitem_same"} -> {(IF o.i < 0 THEN nOld + o.i ELSE o.i) + 1}
      [] o.m \in {"extend", "iadd", "extend_from"} -> (nOld + 1)..nNew
      [] o.m \in {"setslice_all", "slice_from"} -> 1..nNew
      [] OTHER -> {}
A_ItemsInserted ==
    (ev'.op = "COp" /\ ev'.out = "ok" /\ HasField(SchemaAt(S, ev'.p), ev'.k)) =>
        LET f == FieldOf(SchemaAt(S, ev'.p), ev'.k)
            old == CfgAt(cfgs[ev'.n], ev'.p).vals[ev'.k]
            new == CfgAt(cfgs'[ev'.n], ev'.p).vals[ev'.k] IN
        (f.kind = "list" /\ IsSchema(f.item) /\ old.t = "list" /\ new.t = "list") =>
            \A j \in InsertedIdx(ev'.o, Len(old.l), Len(new.l)) :
                j \in DOMAIN new.l => ValidateCfg(f.item, new.l[j], <<>>).ok
C11_ItemsInserted == [][A_ItemsInserted]_vars

(* C15: every rejection of a value for a declared field is the library's validation error
   and names a declared path below the assignment's target *)
RECURSIVE MentionsUnknown(_, _)
\* the value is (or contains) a map that uses a key the schema does not declare: unknown keys
\* are outside C15's statement
MentionsUnknown(Sx, v) ==
    /\ IsSchema(Sx) /\ v.t = "dict"
    /\ \E i \in DOMAIN v.kv :
          LET kk == v.kv[i][1] IN
          \/ kk.t # "str"
          \/ ~\E k \in KeyNames : KeyChars[k] = kk.s /\ HasField(Sx, k)
          \/ LET k == CHOOSE k \in KeyNames : KeyChars[k] = kk.s /\ HasField(Sx, k)
                 f == FieldOf(Sx, k) IN
             \/ MentionsUnknown(f, v.kv[i][2])
             \/ f.kind = "list" /\ IsSchema(f.item) /\ v.kv[i][2].t \in {"list", "tuple"}
                /\ \E j \in DOMAIN v.kv[i][2].l : MentionsUnknown(f.item, v.kv[i][2].l[j])
RECURSIVE PathDeclared(_, _)
\* every segment of an error path is a declared key, an item index of a list of
\* configurations, or an entry key of a typed dict
PathDeclared(f, path) ==
    IF path = <<>> THEN TRUE
    ELSE LET h == Head(path) IN
         IF IsSchema(f) THEN h \in STRING /\ HasField(f, h) /\ PathDeclared(FieldOf(f, h), Tail(path))
         ELSE IF f.kind = "list" /\ IsSchema(f.item) THEN Len(h) = 2 /\ h[1] = "#" /\ PathDeclared(f.item, Tail(path))
         ELSE IF f.kind = "dict" THEN Len(h) = 2 /\ h[1] = "@" /\ Tail(path) = <<>>
         ELSE FALSE
IsPrefixOf(a, b) == Len(a) <= Len(b) /\ SubSeq(b, 1, Len(a)) = a
\* a value rejected for an entry of a typed map reached by dotted path: the library's error,
\* naming the map's path and the key
C15_DictItemError ==
    (ev.op = "SetDictItem" /\ ev.out \notin {"ok", "Unmodelled", "AttributeError"}) =>
        ev.out = "ValidationError" /\ ev.errpath = Append(Append(ev.p, ev.k), <<"@", StrV(ev.dk)>>)
C15_Error ==
    (ev.op \in {"SetAttr", "SetItem"} /\ ev.out \notin {"ok", "Unmodelled"}
        /\ HasField(SchemaAt(S, ev.p), ev.k) /\ FieldOf(SchemaAt(S, ev.p), ev.k).kind # "virtual") =>
        \/ MentionsUnknown(FieldOf(SchemaAt(S, ev.p), ev.k), ev.v)
        \/ FieldOf(SchemaAt(S, ev.p), ev.k).kind = "list" /\ IsSchema(FieldOf(SchemaAt(S, ev.p), ev.k).item)
           /\ ev.v.t \in {"list", "tuple"}
           /\ \E j \in DOMAIN ev.v.l : MentionsUnknown(FieldOf(SchemaAt(S, ev.p), ev.k).item, ev.v.l[j])
        \/ /\ ev.out = "ValidationError"
           /\ IsPrefixOf(Append(ev.p, ev.k), ev.errpath)
           /\ PathDeclared(S, ev.errpath)

(* C02 on this machine: a configuration that passes validation survives dumps / fresh loads,
   and whatever is re-loaded holds the same persistent values (modulo the stated normalisations) *)
A_Reproduces ==
    (ev'.op = "RoundTrip") =>
        /\ (ValidateCfg(S, cfgs[ev'.n], <<>>).ok /\ ev'.out # "Unmodelled") => ev'.out = "ok"
        /\ ev'.out = "ok" => SameVals(S, cfgs[ev'.n], cfgs'[ev'.n])
C02_Reproduces == [][A_Reproduces]_vars

(* C13: an operation on one configuration never changes the other *)
A_Isolated == \A m \in Names : ("n" \in DOMAIN ev' /\ ev'.n # m) => cfgs'[m] = cfgs[m]
C13_Isolated == [][A_Isolated]_vars

---------------------------------------------------------------------------
Export == PrintT(<<"EDGE", ToJson([from |-> St, ev |-> ev', to |-> St'])>>)
PInit  == (steps = 0) => PrintT(<<"INIT", ToJson(St)>>)
View == <<cfgs, steps, sid>>
=============================================================================
