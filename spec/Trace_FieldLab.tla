---- MODULE Trace_FieldLab ----
(* code -> spec for C05: every logged case  [f, v, r1, r2, b, d, r3]  recorded from a real
   field object is re-evaluated with the specification's operators; TLC prints which
   logged stage results differ.  One initial state per case. *)
EXTENDS CincoFields, Json, IOUtils

Cases == JsonDeserialize(IOEnv.TRACE_FILE)

VARIABLE tid

RECURSIVE FixF(_)
\* JSON has no sets: stripcs arrives as a sequence
FixF(f) ==
    CASE f.kind = "nofield" -> f
      [] f.kind = "list" -> [f EXCEPT !.item = FixF(@)]
      [] f.kind = "dict" -> [f EXCEPT !.keyf = FixF(@), !.valf = FixF(@)]
      [] f.kind \in StringKinds -> [f EXCEPT !.stripcs = Range(@)]
      [] OTHER -> f

NotRun == [ok |-> FALSE, err |-> "notrun"]
Same(m, r) == IF m.ok THEN r.ok /\ r.v = m.v ELSE ~r.ok /\ r.err # "notrun"

Verdict(c) ==
    LET f  == FixF(c.f)
        r1 == Validate(f, c.v)
    IN  IF ~r1.ok /\ r1.err = "Unmodelled" THEN [t |-> tid, skip |-> TRUE, bad |-> {}]
        ELSE IF ~r1.ok THEN [t |-> tid, bad |-> IF Same(r1, c.r1) THEN {} ELSE {"r1"}, m |-> [r1 |-> r1]]
        ELSE IF ~Same(r1, c.r1) THEN [t |-> tid, bad |-> {"r1"}, m |-> [r1 |-> r1]]
        ELSE
        LET r2 == Validate(f, r1.v) IN
        IF ~Same(r2, c.r2) THEN [t |-> tid, bad |-> {"r2"}, m |-> [r2 |-> r2]]
        ELSE IF ~r2.ok THEN [t |-> tid, bad |-> {}]
        ELSE
        LET b == ToBasic(f, r1.v) IN
        IF ~c.bok \/ b # c.b THEN [t |-> tid, bad |-> {"b"}, m |-> [b |-> b]]
        ELSE
        LET d == ToPython(f, b) IN
        IF ~d.ok /\ d.err = "Unmodelled" THEN [t |-> tid, skip |-> TRUE, bad |-> {}]
        ELSE IF ~Same(d, c.d) THEN [t |-> tid, bad |-> {"d"}, m |-> [d |-> d]]
        ELSE IF ~d.ok THEN [t |-> tid, bad |-> {}]
        ELSE
        LET r3 == Validate(f, d.v) IN
        IF ~Same(r3, c.r3) THEN [t |-> tid, bad |-> {"r3"}, m |-> [r3 |-> r3]]
        ELSE
        \* the C05 predicates themselves, on the observed values
        [t |-> tid,
         bad |-> {n \in {"C05_AcceptedMeets", "C05_Idempotent", "C05_BasicPlain", "C05_CodecInverse",
                          "C05_DecodedAccepted"} :
                    CASE n = "C05_AcceptedMeets"   -> ~P_AcceptedMeets(f, c.r1)
                      [] n = "C05_Idempotent"      -> ~P_Idempotent(c.r1, c.r2)
                      [] n = "C05_BasicPlain"      -> ~P_BasicPlain(f, c.r1, c.b)
                      [] n = "C05_CodecInverse"    -> ~P_CodecInverse(f, c.r1, c.d)
                      [] n = "C05_DecodedAccepted" -> ~P_DecodedAccepted(c.d, c.r3)}]

TraceInit == tid \in 1..Len(Cases)
TraceNext == FALSE /\ UNCHANGED tid
PVerdict == PrintT(<<"TRACE", ToJson(Verdict(Cases[tid]))>>)
====
