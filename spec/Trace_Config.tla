---- MODULE Trace_Config ----
(* code -> spec for the ConfigMachine: replays event logs recorded from real Config objects
   (harness/props/cfgmachine.py driver) against the actions of ConfigMachine.  All arguments
   are logged; after every event the logged projection of both configurations must equal
   the specification's state, and the property predicates are evaluated on the step. *)
EXTENDS MC_Config, IOUtils, TLCExt

Traces == JsonDeserialize(IOEnv.TRACE_FILE)

VARIABLES tid, l
tvars == <<vars, tid, l>>
\* the schema a trace was recorded on: index in the family (1 = TheSchema)
TrSid(t) == IF "sid" \in DOMAIN Traces[t].init THEN Traces[t].init.sid ELSE 1
TrS(t) == LET raw == FamilyAt(TrSid(t)) IN Bind(raw, RootPrefix(raw))

\* JSON has no sets and no empty records: rebuild configuration values
RECURSIVE FixV(_)
FixV(v) ==
    IF v.t = "cfg" THEN
        CfgV([k \in DOMAIN v.vals |-> FixV(v.vals[k])], Range(v.dflt), v.dyn)
    ELSE IF v.t \in {"list", "tuple"} THEN [v EXCEPT !.l = [i \in DOMAIN v.l |-> FixV(v.l[i])]]
    ELSE IF v.t = "dict" THEN [v EXCEPT !.kv = [i \in DOMAIN v.kv |-> <<FixV(v.kv[i][1]), FixV(v.kv[i][2])>>]]
    ELSE IF v.t = "cfgobj" THEN [v EXCEPT !.c = FixV(v.c)]
    ELSE v
FixCfgs(c) == [n \in Names |-> FixV(c[n])]
FixOp(o) ==
    LET o1 == IF "v" \in DOMAIN o THEN [o EXCEPT !.v = FixV(@)] ELSE o
        o2 == IF "k" \in DOMAIN o1 /\ o1.m \notin {"item_set", "item_reset"} THEN [o1 EXCEPT !.k = FixV(@)] ELSE o1
        o3 == IF "vs" \in DOMAIN o2 THEN [o2 EXCEPT !.vs = [i \in DOMAIN o2.vs |-> FixV(o2.vs[i])]] ELSE o2
    IN  IF "kv" \in DOMAIN o3 THEN [o3 EXCEPT !.kv = [i \in DOMAIN o3.kv |-> <<FixV(o3.kv[i][1]), FixV(o3.kv[i][2])>>]] ELSE o3

TraceInit ==
    /\ tid \in 1..Len(Traces)
    /\ l = 1
    /\ sid = TrSid(tid)
    /\ cfgs = FixCfgs(Traces[tid].init.cfgs)
    /\ LET bound == TrS(tid)
           d == DefaultCfg(bound, <<>>)
       IN  sch = bound /\ \A n \in Names : Built(n) => cfgs[n] = d.cfg
    /\ ev = [op |-> "Init"]
    /\ steps = 0

Ev == Traces[tid].events[l]

Step(e) ==
    CASE e.op = "SetAttr"  -> SetAttr(e.n, <<e.p, e.k>>, FixV(e.v))
      [] e.op = "SetItem"  -> SetItem(e.n, <<e.p, e.k>>, FixV(e.v))
      [] e.op = "SetDictItem" -> SetDictItem(e.n, <<e.p, e.k>>, e.dk, FixV(e.v))
      [] e.op = "Ctor"     -> Ctor(e.n, [i \in DOMAIN e.kw |-> <<e.kw[i][1], FixV(e.kw[i][2])>>])
      [] e.op = "Load"     -> Load(e.n, FixV(e.tree))
      [] e.op = "Reset"    -> Reset(e.n, <<e.p, e.k>>)
      [] e.op = "COp"      -> COp(e.n, <<e.p, e.k>>, FixOp(e.o))
      [] e.op = "Validate" -> Check(e.n)
      [] e.op = "ValidateCollect" -> CheckCollect(e.n)
      [] e.op = "CopyTree" -> CopyTree(e.src, e.n)
      [] e.op = "AssignFrom" -> AssignFrom(e.src, e.n, <<e.p, e.k>>)
      [] e.op = "Query" -> Query(e.n)
      [] e.op = "RoundTrip" -> RoundTrip(e.n, e.fmt)

TraceNext ==
    /\ l <= Len(Traces[tid].events)
    /\ Step(Ev)
    /\ steps' = steps /\ UNCHANGED <<sid, sch>>
    /\ l' = l + 1
    /\ UNCHANGED tid

BadObs ==
    LET e == Ev IN
    {n \in {"out", "repl", "cfgs"} :
        CASE n = "out"  -> ev'.out # e.out
          [] n = "repl" -> ev'.repl # Range(e.repl)
          [] n = "cfgs" -> cfgs' # FixCfgs(e.cfgs)}

\* action properties, evaluated on the observed step
BadAct ==
    {n \in {"C01_Readback", "C06_Unchanged", "C12_Marks", "C12_Reset", "C13_Isolated", "C02_Reproduces", "C11_ItemsInserted"} :
        CASE n = "C01_Readback"  -> ~A_Readback
          [] n = "C06_Unchanged" -> ~A_Unchanged
          [] n = "C12_Marks"     -> ~A_Marks
          [] n = "C12_Reset"     -> ~A_Reset
          [] n = "C13_Isolated"  -> ~A_Isolated
          [] n = "C02_Reproduces" -> ~A_Reproduces
          [] n = "C11_ItemsInserted" -> ~A_ItemsInserted}

Report ==
    LET bo == BadObs
        bi == IF bo = {} THEN BadAct ELSE {}
        rec == IF bo = {}
               THEN [t |-> tid, l |-> l, bo |-> bo, bi |-> bi]
               ELSE [t |-> tid, l |-> l, bo |-> bo, bi |-> bi,
                     m |-> [out |-> ev'.out, repl |-> ev'.repl, cfgs |-> cfgs']]
    IN  IF ev'.out = "Unmodelled"
        THEN PrintT(<<"TRACE", ToJson([t |-> tid, l |-> l, bo |-> {}, bi |-> {}, skip |-> TRUE])>>) /\ FALSE
        ELSE /\ PrintT(<<"TRACE", ToJson(rec)>>)
             /\ bo = {}

\* state invariants, evaluated on every observed state (a state CONSTRAINT: TLC evaluates
\* unprimed operator applications much faster than primed ones)
BadState ==
    {n \in {"C01_AllValid", "C12_Fresh", "C11_ReturnImplies", "C11_CollectIffRaise", "C11_ItemsHeld", "C11_ItemsLoaded", "C15_Error", "C15_DictItemError"} :
        CASE n = "C01_AllValid" -> ~C01_AllValid
          [] n = "C12_Fresh"    -> ~C12_Fresh
          [] n = "C11_ReturnImplies"   -> ~C11_ReturnImplies
          [] n = "C11_CollectIffRaise" -> ~C11_CollectIffRaise
          [] n = "C11_ItemsHeld"       -> ~C11_ItemsHeld
          [] n = "C11_ItemsLoaded"     -> ~C11_ItemsLoaded
          [] n = "C15_Error"           -> ~C15_Error
          [] n = "C15_DictItemError"   -> ~C15_DictItemError}
ReportState ==
    l > 1 => PrintT(<<"TRACE", ToJson([t |-> tid, l |-> l - 1, bo |-> {}, bi |-> BadState, st |-> TRUE])>>)

TraceView == <<cfgs, tid, l>>
====
