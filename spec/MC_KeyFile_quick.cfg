CONSTANTS
  Objects <- MCObjects
  Paths <- MCPaths
  PathOf <- MCPathOf
  MaxRef = 2
  MaxGen = 2
  CacheBadKey = FALSE
  ExtBad = {"empty", "short", "keylf", "hex"}
INIT Init
NEXT Next
VIEW View
INVARIANT TypeOK
INVARIANT C07_Released
INVARIANT C07_OpenHoldsFileKey
INVARIANT C07_CryptGate
PROPERTY C07_Verbatim
PROPERTY C07_CreatedOnce
PROPERTY C07_BadAlwaysRejected
PROPERTY C07_NestedShareKey
