----------------------------- MODULE CincoStubs -----------------------------
(***************************************************************************)
(* cincoconfig.stubs.generate_stub as a specification (property C20).      *)
(*                                                                         *)
(* A schema is a descriptor: an ordered list of <<key, field>> where a     *)
(* field is a persistent field of some built-in class (possibly a typed    *)
(* list / dict, a nested schema, a config type made with make_type), a     *)
(* custom field (a user's Field subclass with its own storage_type), a     *)
(* virtual field, or an instance method with a signature descriptor        *)
(*                                                                         *)
(*   [params |-> << [n |-> name, k |-> kind, d |-> has default,            *)
(*                   a |-> annotation kind] ... >>, ret |-> annotation]    *)
(*                                                                         *)
(* kind \in posonly | pos | vararg | kwonly | varkw; the first parameter   *)
(* receives the configuration.                                             *)
(*                                                                         *)
(* Stub(schema, name) is the abstract content of the generated stub:       *)
(*                                                                         *)
(*   [class, nclasses, attrs, attrok, ctor, methods]                       *)
(*                                                                         *)
(* It is computed the way stubs.py does it (generate_stub: the properties  *)
(* / attrs / methods partition, stubs.py:174-204; get_method_annotation:   *)
(* the list of rendered parameters `items`, stubs.py:92-133) down to the   *)
(* level of parameter-list TOKENS, and then read back with ParseParams, a  *)
(* transcription of Python's grammar for parameter lists.  Every token     *)
(* that carries an annotation also carries the dotted names of the classes *)
(* the annotation refers to: an annotation is an expression only if every  *)
(* segment of every dotted name is an identifier (DottedOK) - which        *)
(* "<locals>", part of the __qualname__ of a class defined in a function   *)
(* body, is not.  The property                                             *)
(* (C20_Valid, C20_Complete) is stated on the parsed result against the    *)
(* schema descriptor, independently of how the tokens were produced.       *)
(*                                                                         *)
(* The machine around it (variables schema, heap, stdout) has one action   *)
(* per entry point: NewConfig (schema() / ConfigType()), Touch (assign a   *)
(* value), GenStub(target) for a Schema, a Config and a ConfigType.        *)
(* C20_NoSideEffect says GenStub leaves all three alone.                   *)
(***************************************************************************)
EXTENDS Naturals, Sequences, FiniteSets, TLC

CONSTANTS MaxCfg,     \* bound on configurations created in one behaviour
          MaxTouch,   \* bound on assignments per configuration
          DynKeys,    \* keys that may be added at run time to a configuration of a dynamic schema
          MaxDyn      \* bound on such additions per configuration

VARIABLES schema,     \* the schema descriptor (never changes)
          heap,       \* sequence of configurations: [via, set, dyn]  (how made, keys assigned by the
                      \* user, fields added at run time - dynamic schemas only)
          stdout,     \* sequence of strings written to standard output so far
          ev          \* last event with its result (observation; hidden from the fingerprint by VIEW)

vars == <<schema, heap, stdout, ev>>
View == <<schema, heap, stdout>>
Range(s) == {s[i] : i \in DOMAIN s}

---------------------------------------------------------------------------
(* field descriptors *)
StrKinds    == {"string", "filename", "ipv4addr", "ipv4net", "hostname", "url", "loglevel",
                "appmode", "secure", "include"}
ScalarKinds == StrKinds \cup {"int", "port", "float", "bool", "featureflag", "bytes", "challenge",
                              "any", "field"}
\* kinds the harness knows a valid value for (used by Touch only)
SettableKinds == {"string", "int", "float", "bool", "port", "any", "field", "url", "hostname"}

NoF            == [kind |-> "nofield"]
Sc(k)          == [kind |-> k]
AppModeF(h)    == [kind |-> "appmode", helpers |-> h]
ListF(item)    == [kind |-> "list", item |-> item]
DictF(k, v)    == [kind |-> "dict", keyf |-> k, valf |-> v]
SchemaF(fs)    == [kind |-> "schema", fields |-> fs]
CTypeF(nm, fs) == [kind |-> "ctype", name |-> nm, fields |-> fs]
VirtualF       == [kind |-> "virtual"]                  \* VirtualField(getter)
VSetterF       == [kind |-> "vsetter"]                  \* VirtualField(getter, setter): still virtual
\* a user's Field subclass with  storage_type = <the object of annotation kind st>
CustomF(st)    == [kind |-> "custom", st |-> st]
\* Schema(dynamic=True): configurations accept assignments to unknown keys
IsDynamic(s)   == "dynamic" \in DOMAIN s /\ s.dynamic
MethodF(sig)   == [kind |-> "method", sig |-> sig]

P(n, k, d, a)  == [n |-> n, k |-> k, d |-> d, a |-> a]
Sig(ps, r)     == [params |-> ps, ret |-> r]

ParamKinds == {"posonly", "pos", "vararg", "kwonly", "varkw"}
\* annotation kinds; "noann" = not annotated, "noret" = no return annotation
\* Annotations over a class whose qualified name differs from its name: <<wrapper, class>>.
\*   local  : a class defined in a function body   (__qualname__ "make_local.<locals>.Local")
\*   nested : a class nested in another class      (__qualname__ "Outer.Inner")
\* wrapper "" : the class itself, list : typing.List[C], opt : typing.Optional[C],
\* dict : typing.Dict[str, C], pep585 : list[C], u604 : C | None
QualAnn ==
    [local       |-> <<"", "local">>,        nested       |-> <<"", "nested">>,
     listlocal   |-> <<"list", "local">>,    listnested   |-> <<"list", "nested">>,
     optlocal    |-> <<"opt", "local">>,     optnested    |-> <<"opt", "nested">>,
     dictlocal   |-> <<"dict", "local">>,    dictnested   |-> <<"dict", "nested">>,
     pep585local |-> <<"pep585", "local">>,  pep585nested |-> <<"pep585", "nested">>,
     u604local   |-> <<"u604", "local">>,    u604nested   |-> <<"u604", "nested">>]
QualKinds == DOMAIN QualAnn

AnnKinds == {"noann", "int", "listint", "optstr", "class", "fwd", "none", "pep585", "ctype",
             "union604", "callable", "literal", "newtype", "typevar", "config"} \cup QualKinds
\* "tupleann": a tuple of types written as a return annotation, `-> (int, str)` - not a type the
\* renderer knows; it is dropped silently (nothing is printed, nothing raised)
Unrendered == {"tupleann"}
\* what a custom field's storage_type may be
StorageKinds == QualKinds \cup {"class", "listint"}

\* ApplicationModeField(create_helpers=True).__setkey__ adds one virtual field per mode
HelperKeys == <<"is_development_mode", "is_production_mode">>

RECURSIVE Expand(_)
Expand(fs) ==
    IF fs = <<>> THEN <<>>
    ELSE LET k == fs[1][1]
             f == fs[1][2]
         IN  (IF f.kind = "appmode" /\ f.helpers
              THEN << <<k, f>> >> \o [i \in DOMAIN HelperKeys |-> <<HelperKeys[i], VirtualF>>]
              ELSE << <<k, f>> >>) \o Expand(Tail(fs))

IsMethod(f)     == f.kind = "method"
IsVirtual(f)    == f.kind \in {"virtual", "vsetter"}
IsPersistent(f) == ~IsMethod(f) /\ ~IsVirtual(f)

\* what the real Schema holds: schema._fields, in order
FieldsOf(s)         == Expand(s.fields)
KeysWhere(s, Q(_))  == {p[1] : p \in {q \in Range(FieldsOf(s)) : Q(q[2])}}
FieldKeys(s)        == KeysWhere(s, LAMBDA f : ~IsMethod(f))
PersistentKeys(s)   == KeysWhere(s, IsPersistent)
MethodKeys(s)       == KeysWhere(s, IsMethod)
SettableKeys(s)     == KeysWhere(s, LAMBDA f : f.kind \in SettableKinds)
FieldAt(s, key)     == (CHOOSE p \in Range(FieldsOf(s)) : p[1] = key)[2]
\* the schema's field table as the public API shows it: iteration over the schema,
\* get_fields(schema), the fields of a freshly built configuration
KeySeq(s)           == [i \in DOMAIN FieldsOf(s) |-> FieldsOf(s)[i][1]]
AllKeys(s)          == Range(KeySeq(s))

---------------------------------------------------------------------------
(* well-formed signatures: what `def` accepts, with the first parameter positional *)
SigWF(sig) ==
    LET ps == sig.params
        n  == Len(ps)
        Rank(k) == CASE k = "posonly" -> 1 [] k = "pos" -> 2 [] k = "vararg" -> 3
                     [] k = "kwonly" -> 4 [] k = "varkw" -> 5
    IN  /\ n >= 1
        /\ ps[1].k \in {"posonly", "pos"} /\ ~ps[1].d
        /\ \A i \in 1..n : ps[i].k \in ParamKinds /\ ps[i].a \in AnnKinds
        /\ \A i, j \in 1..n : i < j => Rank(ps[i].k) <= Rank(ps[j].k)
        /\ \A i, j \in 1..n : i # j => ps[i].n # ps[j].n
        /\ Cardinality({i \in 1..n : ps[i].k = "vararg"}) <= 1
        /\ Cardinality({i \in 1..n : ps[i].k = "varkw"}) <= 1
        /\ \A i \in 1..n : ps[i].k \in {"vararg", "varkw"} => ~ps[i].d
        \* no parameter without a default after a positional one with a default
        /\ \A i, j \in 1..n : (i < j /\ ps[i].d /\ ps[i].k \in {"posonly", "pos"}
                                 /\ ps[j].k \in {"posonly", "pos"}) => ps[j].d
        /\ sig.ret \in AnnKinds \cup {"noret"} \cup Unrendered

RECURSIVE FieldWF(_)
FieldWF(f) ==
    CASE f.kind = "custom" -> f.st \in StorageKinds
      [] f.kind = "list"   -> FieldWF(f.item)
      [] f.kind = "dict"   -> FieldWF(f.keyf) /\ FieldWF(f.valf)
      [] f.kind = "method" -> SigWF(f.sig)
      [] OTHER -> TRUE

\* the function bound to a configuration: the first parameter is supplied
BoundParams(sig) == Tail(sig.params)

---------------------------------------------------------------------------
(* class references in annotations.  This part belongs to the grammar: an annotation is an
   expression only if every dotted name in it is one. *)
\* Classes with a qualified name.  qual = __qualname__ split at the dots.
ClassTable ==
    [local  |-> [mod |-> "stubtypes", name |-> "Local", qual |-> <<"make_local", "<locals>", "Local">>],
     nested |-> [mod |-> "stubtypes", name |-> "Inner", qual |-> <<"Outer", "Inner">>]]

\* A dotted name  a.b.c  is an expression iff every segment is an identifier.  (Field keys,
\* parameter, module and class names are identifiers by assumption; the one segment that is not
\* is the "<locals>" Python puts into the __qualname__ of a class defined in a function body.)
NotIdent == {"<locals>", ""}
DottedOK(p) == p # <<>> /\ \A i \in DOMAIN p : p[i] \notin NotIdent
RefsOK(refs) == \A i \in DOMAIN refs : DottedOK(refs[i])

\* the class itself:  "%s.%s" % (__module__, __name__)
DirectRef(c) == <<c.mod, c.name>>
\* the class as an argument of a typing generic, a PEP 585 generic or a PEP 604 union: module and
\* qualified name - where that is a dotted name; a function-local class has none: its bare name
\* (which dotted name stands for such a class is the mirror's choice; that it is one is the grammar's)
InnerRef(c) == IF DottedOK(c.qual) THEN <<c.mod>> \o c.qual ELSE <<c.name>>
QualRef(a) == LET c == ClassTable[QualAnn[a][2]] IN IF QualAnn[a][1] = "" THEN DirectRef(c) ELSE InnerRef(c)
\* ... and when the annotation object as a whole is the argument of the List[...] / Dict[...] that
\* ListField / DictField build from the storage_type of the item field
QualRefIn(a) == InnerRef(ClassTable[QualAnn[a][2]])

\* the dotted names of the classes an annotation refers to.  (The rest of an annotation's text -
\* typing.List[ ], the names of builtins and of the harness's module-level classes - is fixed and
\* well-formed for every kind.)
AnnRefs(a)   == IF a \in QualKinds THEN <<QualRef(a)>> ELSE <<>>
AnnRefsIn(a) == IF a \in QualKinds THEN <<QualRefIn(a)>> ELSE <<>>

\* dotted names of the classes the rendered type of a field refers to
RECURSIVE TypeRefs(_)
TypeRefsIn(f) == IF f.kind = "custom" THEN AnnRefsIn(f.st) ELSE TypeRefs(f)
TypeRefs(f) ==
    CASE f.kind = "custom" -> AnnRefs(f.st)
      [] f.kind = "ctype"  -> << <<"cfgtypes", f.name>> >>
      [] f.kind = "list"   -> IF f.item.kind = "nofield" THEN <<>> ELSE TypeRefsIn(f.item)
      [] f.kind = "dict"   -> (IF f.keyf.kind = "nofield" THEN <<>> ELSE TypeRefsIn(f.keyf))
                              \o (IF f.valf.kind = "nofield" THEN <<>> ELSE TypeRefsIn(f.valf))
      [] OTHER -> <<>>

\* the grammar rejects a class rendered from its qualified name when that contains "<locals>"
ASSUME /\ ~DottedOK(<<ClassTable.local.mod>> \o ClassTable.local.qual)
       /\ \A a \in QualKinds : RefsOK(AnnRefs(a)) /\ RefsOK(AnnRefsIn(a))

---------------------------------------------------------------------------
(* annotation strings (get_annotation_typestr).  They are part of the mirror, not of the
   property: the harness reports a difference here as MODEL-DRIFT only. *)
CTypeStr(nm) == "cfgtypes." \o nm

RECURSIVE Dotted(_)
Dotted(p) == IF Len(p) = 1 THEN p[1] ELSE p[1] \o "." \o Dotted(Tail(p))
Wrap(w, str) ==
    CASE w = ""       -> str
      [] w = "list"   -> "typing.List[" \o str \o "]"
      [] w = "opt"    -> "typing.Optional[" \o str \o "]"
      [] w = "dict"   -> "typing.Dict[str, " \o str \o "]"
      [] w = "pep585" -> "list[" \o str \o "]"
      [] w = "u604"   -> str \o " | None"

AnnStr(a) ==
    CASE a \in QualKinds -> Wrap(QualAnn[a][1], Dotted(QualRef(a)))
      [] a = "int" -> "int"
      [] a = "listint" -> "typing.List[int]"
      [] a = "optstr" -> "typing.Optional[str]"
      [] a = "class" -> "stubtypes.Widget"
      [] a = "fwd" -> "Widget"
      [] a = "none" -> "None"
      [] a = "pep585" -> "list[int]"
      [] a = "ctype" -> "cfgtypes.AnnType"
      [] a = "union604" -> "int | None"
      [] a = "callable" -> "typing.Callable[[int], str]"
      [] a = "literal" -> "typing.Literal['a']"
      [] a = "newtype" -> "stubtypes.UserId"
      [] a = "typevar" -> "T"
      [] a = "config" -> "cincoconfig.core.Config"
\* str() of the annotation object (as an argument of typing.List[...] / typing.Dict[...])
AnnStrIn(a) == IF a \in QualKinds THEN Wrap(QualAnn[a][1], Dotted(QualRefIn(a))) ELSE AnnStr(a)
\* annotation objects get_annotation_typestr has no branch for (get_retval_annotation swallows the
\* error and the return annotation is dropped): none of the modelled kinds since the fix that
\* renders PEP 604 unions, TypeVar and NewType
\* (Unrendered: defined with the annotation kinds above)

RECURSIVE StorageStr(_)
ItemStr(item) ==         \* ListField.__init__: List[field.storage_type] | List[cls] | List[type(field)]
    CASE item.kind = "schema" -> "cincoconfig.core.Schema"
      [] item.kind = "ctype"  -> CTypeStr(item.name)
      [] item.kind = "custom" -> AnnStrIn(item.st)
      [] OTHER -> StorageStr(item)
KVStr(f) == IF f.kind = "nofield" THEN "typing.Any"                      \* DictField: AnyField()
            ELSE IF f.kind = "custom" THEN AnnStrIn(f.st) ELSE StorageStr(f)
StorageStr(f) ==
    CASE f.kind \in StrKinds -> "str"
      [] f.kind \in {"int", "port"} -> "int"
      [] f.kind = "float" -> "float"
      [] f.kind \in {"bool", "featureflag"} -> "bool"
      [] f.kind = "bytes" -> "bytes"
      [] f.kind = "challenge" -> "cincoconfig.fields.secure_field.DigestValue"
      [] f.kind \in {"any", "field", "virtual", "vsetter"} -> "typing.Any"
      [] f.kind = "list" -> IF f.item.kind = "nofield" THEN "typing.List"
                            ELSE "typing.List[" \o ItemStr(f.item) \o "]"
      [] f.kind = "dict" -> IF f.keyf.kind = "nofield" /\ f.valf.kind = "nofield" THEN "dict"
                            ELSE "typing.Dict[" \o KVStr(f.keyf) \o ", " \o KVStr(f.valf) \o "]"
TypeStr(f) ==
    CASE f.kind = "schema" -> "cincoconfig.core.Schema"
      [] f.kind = "ctype"  -> CTypeStr(f.name)
      [] f.kind = "custom" -> AnnStr(f.st)
      [] OTHER -> StorageStr(f)


---------------------------------------------------------------------------
(* parameter-list tokens *)
\* ann = "" : bare name; refs: the dotted names of the classes the annotation refers to
TName(n, ann, refs) == [tk |-> "name", n |-> n, ann |-> ann, refs |-> refs]
TSlash        == [tk |-> "slash"]
TStar         == [tk |-> "star"]
TVararg(n)    == [tk |-> "vararg", n |-> n]
TVarkw(n)     == [tk |-> "varkw", n |-> n]

\* get_method_annotation, in the order of the code
MethodItems(sig) ==
    LET ps      == sig.params
        Names(K) == SelectSeq(ps, LAMBDA p : p.k \in K)
        args0   == Names({"posonly", "pos"})          \* getfullargspec().args
        va      == Names({"vararg"})
        vk      == Names({"varkw"})
        kwo     == Names({"kwonly"})
        Render(p) == IF p.a # "noann" THEN TName(p.n, AnnStr(p.a), AnnRefs(p.a))
                     ELSE TName(p.n, "typing.Any", <<>>)
        \* if kwonlyargs: args.append("*" | "*varargs"); varargs = None; args += kwonlyargs
        items1  == [i \in DOMAIN args0 |-> Render(args0[i])]
                   \o (IF kwo = <<>> THEN <<>>
                       ELSE (IF va = <<>> THEN <<TStar>> ELSE <<TVararg(va[1].n)>>)
                            \o [i \in DOMAIN kwo |-> Render(kwo[i])])
        \* if varargs: items.append("*varargs");  if varkw: items.append("**varkw")
        items2  == items1 \o (IF kwo = <<>> /\ va # <<>> THEN <<TVararg(va[1].n)>> ELSE <<>>)
                          \o (IF vk # <<>> THEN <<TVarkw(vk[1].n)>> ELSE <<>>)
        \* items[0] = "self"
        items3  == [items2 EXCEPT ![1] = TName("self", "", <<>>)]
        npo     == Len(Names({"posonly"}))
    IN  \* if posonly: items.insert(len(posonly), "/")
        IF npo = 0 THEN items3
        ELSE SubSeq(items3, 1, npo) \o <<TSlash>> \o SubSeq(items3, npo + 1, Len(items3))

RetStr(sig) == IF sig.ret = "noret" \/ sig.ret \in Unrendered THEN "" ELSE AnnStr(sig.ret)
\* " -> typestr": the dotted names in the return annotation
RetRefs(sig) == IF sig.ret = "noret" \/ sig.ret \in Unrendered THEN <<>> ELSE AnnRefs(sig.ret)

\* generate_stub: "def __init__(self, key: type, ...)" over attrs
CtorItems(s) ==
    LET at == SelectSeq(FieldsOf(s), LAMBDA p : IsPersistent(p[2]))
    IN  <<TName("self", "", <<>>)>> \o [i \in DOMAIN at |-> TName(at[i][1], TypeStr(at[i][2]), TypeRefs(at[i][2]))]

---------------------------------------------------------------------------
(* Python's grammar for parameter lists, on tokens:
     name* [ "/" ] name* [ "*" name+ | "*"name name* ] [ "**"name ]
   where  name  is  NAME [ ":" expression ]                                  *)
ParseStep(st, t) ==
    IF ~st.ok THEN st
    ELSE CASE t.tk = "name" ->
                IF ~RefsOK(t.refs) THEN [st EXCEPT !.ok = FALSE]      \* the annotation is not an expression
                ELSE IF st.phase = "pos" THEN [st EXCEPT !.pos = Append(@, t.n)]
                ELSE IF st.phase = "kw" THEN [st EXCEPT !.kwonly = Append(@, t.n)]
                ELSE [st EXCEPT !.ok = FALSE]
           [] t.tk = "slash" ->
                IF st.phase = "pos" /\ ~st.slash /\ st.pos # <<>>
                THEN [st EXCEPT !.slash = TRUE, !.posonly = st.pos, !.pos = <<>>]
                ELSE [st EXCEPT !.ok = FALSE]
           [] t.tk = "star" ->
                IF st.phase = "pos" THEN [st EXCEPT !.phase = "kw", !.bare = TRUE]
                ELSE [st EXCEPT !.ok = FALSE]
           [] t.tk = "vararg" ->
                IF st.phase = "pos" THEN [st EXCEPT !.phase = "kw", !.vararg = <<t.n>>]
                ELSE [st EXCEPT !.ok = FALSE]
           [] t.tk = "varkw" ->
                IF st.phase \in {"pos", "kw"} THEN [st EXCEPT !.phase = "end", !.varkw = <<t.n>>]
                ELSE [st EXCEPT !.ok = FALSE]
           [] OTHER -> [st EXCEPT !.ok = FALSE]

RECURSIVE ParseFrom(_, _)
ParseFrom(items, st) == IF items = <<>> THEN st ELSE ParseFrom(Tail(items), ParseStep(st, Head(items)))

NoDup(sq) == \A i, j \in DOMAIN sq : i # j => sq[i] # sq[j]

\* [ok, pos: <<[n, k]>> (positional-only first), vararg: <<>> | <<n>>, kwonly: set, varkw: <<>> | <<n>>]
ParseParams(items) ==
    LET st == ParseFrom(items, [ok |-> TRUE, phase |-> "pos", slash |-> FALSE, bare |-> FALSE,
                                posonly |-> <<>>, pos |-> <<>>, vararg |-> <<>>, kwonly |-> <<>>,
                                varkw |-> <<>>])
        all == st.posonly \o st.pos \o st.vararg \o st.kwonly \o st.varkw
    IN  [ok     |-> st.ok /\ (st.bare => st.kwonly # <<>>) /\ NoDup(all),
         pos    |-> [i \in DOMAIN st.posonly |-> [n |-> st.posonly[i], k |-> "posonly"]]
                    \o [i \in DOMAIN st.pos |-> [n |-> st.pos[i], k |-> "pos"]],
         vararg |-> st.vararg,
         kwonly |-> Range(st.kwonly),
         varkw  |-> st.varkw]

\* a parsed method of a class minus its receiver (the first positional parameter)
HasReceiver(pp) == pp.pos # <<>>
NoReceiver(pp)  == [pp EXCEPT !.pos = Tail(@)]
\* all parameter names, starred ones marked
ParamNames(pp) ==
    {pp.pos[i].n : i \in DOMAIN pp.pos} \cup pp.kwonly
    \cup {"*" \o pp.vararg[i] : i \in DOMAIN pp.vararg} \cup {"**" \o pp.varkw[i] : i \in DOMAIN pp.varkw}

---------------------------------------------------------------------------
(* the abstract stub *)
MethodOf(key, sig) ==
    LET pp == ParseParams(MethodItems(sig))
    IN  [name |-> key, ok |-> pp.ok /\ HasReceiver(pp) /\ RefsOK(RetRefs(sig))] @@ NoReceiver(pp)

Stub(s, cname) ==
    LET fs    == FieldsOf(s)
        props == SelectSeq(fs, LAMBDA p : ~IsMethod(p[2]))       \* `properties`: virtual + attrs
        meths == SelectSeq(fs, LAMBDA p : IsMethod(p[2]))
        cpp   == ParseParams(CtorItems(s))
    IN  [class    |-> cname,
         nclasses |-> 1,
         attrs    |-> {props[i][1] : i \in DOMAIN props},
         \* every attribute line is  NAME ":" expression
         attrok   |-> \A i \in DOMAIN props : RefsOK(TypeRefs(props[i][2])),
         ctor     |-> [ok |-> cpp.ok /\ HasReceiver(cpp), params |-> ParamNames(NoReceiver(cpp))],
         methods  |-> {MethodOf(meths[i][1], meths[i][2].sig) : i \in DOMAIN meths}]

\* annotation strings of the mirror (drift information only)
StubTypes(s) ==
    LET fs    == FieldsOf(s)
        props == SelectSeq(fs, LAMBDA p : ~IsMethod(p[2]))
        meths == SelectSeq(fs, LAMBDA p : IsMethod(p[2]))
        NameToks(sig) == SelectSeq(MethodItems(sig), LAMBDA t : t.tk = "name" /\ t.n # "self")
    IN  [base  |-> "cincoconfig.core.ConfigType",
         attrs |-> [i \in DOMAIN props |-> <<props[i][1], TypeStr(props[i][2])>>],
         meths |-> [i \in DOMAIN meths |->
                      [name |-> meths[i][1],
                       ret  |-> RetStr(meths[i][2].sig),
                       anns |-> [j \in DOMAIN NameToks(meths[i][2].sig) |->
                                   <<NameToks(meths[i][2].sig)[j].n, NameToks(meths[i][2].sig)[j].ann>>]]]]

---------------------------------------------------------------------------
(* C20 on an abstract stub x for schema s - declarative, from the descriptor *)
\* syntactically valid: one class, a well-formed constructor and well-formed methods
P_Valid(x) ==
    /\ x.nclasses = 1
    /\ x.attrok
    /\ x.ctor.ok
    /\ \A m \in x.methods : m.ok
    /\ \A m1, m2 \in x.methods : m1.name = m2.name => m1 = m2

\* parameter names and kinds of the bound function
KindSeq(sig, K) == SelectSeq(BoundParams(sig), LAMBDA p : p.k \in K)
P_SameParams(m, sig) ==
    LET pk == KindSeq(sig, {"posonly", "pos"})
        va == KindSeq(sig, {"vararg"})
        ko == KindSeq(sig, {"kwonly"})
        vk == KindSeq(sig, {"varkw"})
    IN  /\ m.pos = [i \in DOMAIN pk |-> [n |-> pk[i].n, k |-> pk[i].k]]
        /\ m.vararg = [i \in DOMAIN va |-> va[i].n]
        /\ m.kwonly = {ko[i].n : i \in DOMAIN ko}
        /\ m.varkw = [i \in DOMAIN vk |-> vk[i].n]

\* free: fields a configuration of a dynamic schema gained at run time; whether the stub of that
\* configuration declares them too is left open
P_Complete(s, x, free) ==
    \* an annotated attribute for every field, virtual ones included (and nothing else)
    /\ FieldKeys(s) \subseteq x.attrs /\ x.attrs \subseteq FieldKeys(s) \cup free
    \* a constructor parameter for exactly the persistent fields (a virtual field with a setter
    \* is still virtual)
    /\ PersistentKeys(s) \subseteq x.ctor.params /\ x.ctor.params \subseteq PersistentKeys(s) \cup free
    \* one method per instance method, with the parameters of the bound function
    /\ {m.name : m \in x.methods} = MethodKeys(s)
    /\ \A m \in x.methods : m.name \in MethodKeys(s) => P_SameParams(m, FieldAt(s, m.name).sig)

\* generating had no side effect, as observed: (pre, post) of heap and stdout, the schema's field
\* table seen through the public API afterwards, and the deep snapshots
P_NoSideEffect(preHeap, postHeap, preOut, postOut, preKeys, postKeys, postFresh, same) ==
    /\ postHeap = preHeap
    /\ postOut = preOut
    /\ postKeys = preKeys /\ postFresh = preKeys
    /\ same.schema /\ same.heap

---------------------------------------------------------------------------
(* the machine *)
Targets == {"schema", "config", "ctype"}
RootTypeName == "RootType"
ClassFor(t) == CASE t = "schema" -> "SchemaStub" [] t = "config" -> "ConfigStub" [] t = "ctype" -> RootTypeName
StubFor(t) == Stub(schema, ClassFor(t))
\* observable state: skeys = [k for k, _ in schema] (= get_fields(schema)), fresh = get_fields(schema())
St   == [heap |-> heap, stdout |-> stdout, skeys |-> KeySeq(schema), fresh |-> KeySeq(schema)]

SchemaWF(s) == \A p \in Range(FieldsOf(s)) : FieldWF(p[2])

InitWith(s) ==
    /\ schema = s
    /\ heap = <<>>
    /\ stdout = <<>>
    /\ ev = [op |-> "Init"]

\* schema() or RootType()
NewConfig(via) ==
    /\ Len(heap) < MaxCfg
    /\ heap' = Append(heap, [via |-> via, set |-> {}, dyn |-> {}])
    /\ ev' = [op |-> "NewConfig", via |-> via, out |-> "ok"]
    /\ UNCHANGED <<schema, stdout>>

\* cfg.k = <some valid value>
Touch(c, k) ==
    /\ c \in DOMAIN heap
    /\ k \in SettableKeys(schema) \ heap[c].set
    /\ Cardinality(heap[c].set) < MaxTouch
    /\ heap' = [heap EXCEPT ![c].set = @ \cup {k}]
    /\ ev' = [op |-> "Touch", c |-> c, k |-> k, out |-> "ok"]
    /\ UNCHANGED <<schema, stdout>>

\* cfg.k = 1 for a key the schema does not have: Config._set_value creates an AnyField in the
\* CONFIGURATION's own field table (dynamic schemas only; the schema is not touched)
AddDyn(c, k) ==
    /\ IsDynamic(schema)
    /\ c \in DOMAIN heap
    /\ k \in DynKeys \ (AllKeys(schema) \cup heap[c].dyn)
    /\ Cardinality(heap[c].dyn) < MaxDyn
    /\ heap' = [heap EXCEPT ![c].dyn = @ \cup {k}]
    /\ ev' = [op |-> "AddDyn", c |-> c, k |-> k, out |-> "ok"]
    /\ UNCHANGED <<schema, stdout>>

\* run-time fields of the object a stub is generated for
FreeKeys(t, c) == IF t = "config" /\ c \in DOMAIN heap THEN heap[c].dyn ELSE {}
WithExtra(x, da, dc) == [x EXCEPT !.attrs = @ \cup da, !.ctor.params = @ \cup dc]

\* generate_stub(schema, "SchemaStub") | generate_stub(config, "ConfigStub") | generate_stub(RootType)
\* da / dc: the run-time fields the stub chooses to declare as attributes / constructor parameters
GenStubWith(t, c, da, dc) ==
    /\ t \in Targets
    /\ IF t = "config" THEN c \in DOMAIN heap ELSE c = 0
    /\ da \subseteq FreeKeys(t, c) /\ dc \subseteq FreeKeys(t, c)
    /\ ev' = [op |-> "GenStub", target |-> t, c |-> c, out |-> "ok", res |-> WithExtra(StubFor(t), da, dc),
              extra |-> [schema |-> TRUE, heap |-> TRUE]]
    /\ UNCHANGED <<schema, heap, stdout>>
\* (two nested quantifiers: this TLC evaluates "\E da, dc \in SUBSET {} : ..." to FALSE)
GenStub(t, c) == \E da \in SUBSET FreeKeys(t, c) : \E dc \in SUBSET FreeKeys(t, c) : GenStubWith(t, c, da, dc)

Next ==
    \/ \E via \in {"schema", "ctype"} : NewConfig(via)
    \/ \E c \in DOMAIN heap : \E k \in SettableKeys(schema) : Touch(c, k)
    \/ \E c \in DOMAIN heap : \E k \in DynKeys : AddDyn(c, k)
    \/ \E t \in Targets : \E c \in 0..Len(heap) : GenStub(t, c)

---------------------------------------------------------------------------
(* C20 *)
C20_Valid    == \A t \in Targets : P_Valid(StubFor(t))
C20_Complete == \A t \in Targets : P_Complete(schema, StubFor(t), {})
\* what GenStub returned is valid and complete (ev is hidden by VIEW: checked as an action property)
C20_Returned ==
    [][ev'.op = "GenStub" => ev'.out = "ok" /\ P_Valid(ev'.res)
                             /\ P_Complete(schema, ev'.res, FreeKeys(ev'.target, ev'.c))]_vars
C20_NoSideEffect ==
    [][ev'.op = "GenStub" => (schema' = schema /\ heap' = heap /\ stdout' = stdout)]_vars
\* and nothing ever writes to standard output or alters the schema
C20_Quiet == stdout = <<>>
=============================================================================
