---- MODULE MC_Config ----
EXTENDS ConfigMachine, IOUtils

s(t) == StrV(t)
D1(k, v) == DictV(<< <<s(k), v>> >>)
D2(k, v, k2, v2) == DictV(<< <<s(k), v>>, <<s(k2), v2>> >>)

ItemS == SchemaF(<< <<"p", With(IntF, [hasmin |-> TRUE, min |-> 1, hasmax |-> TRUE, max |-> 9, required |-> TRUE])>>,
                    <<"q", With(StringF, [default |-> s(<<"q">>)])>>,
                    <<"m", With(DictF(StringF, IntF), [default |-> DictV(<<>>)])>> >>)
CtS   == [ctype |-> TRUE] @@ SchemaF(<< <<"u", With(IntF, [default |-> IntV(0)])>>,
                                        <<"m", With(DictF(StringF, IntF), [default |-> DictV(<<>>)])>> >>)
ItemC == [ctype |-> TRUE] @@ SchemaF(<< <<"w", With(IntF, [hasmin |-> TRUE, min |-> 0, default |-> IntV(1)])>> >>)
ItemDefault == DefaultCfg(Bind(ItemS, PNone), <<>>).cfg
DeepS == SchemaF(<< <<"z", With(BoolF, [default |-> BoolV(FALSE)])>> >>)
SubS  == [validators |-> <<"x_not_3">>] @@ SchemaF(<< <<"x", With(IntF, [default |-> IntV(1), required |-> TRUE])>>,
                    <<"y", With(StringF, [choices |-> << <<"u">>, <<"v">> >>])>>,
                    <<"deep", DeepS>> >>)
SchemaA == [dynamic |-> TRUE] @@ SchemaF(<<
    <<"a", With(IntF, [hasmin |-> TRUE, min |-> 0, hasmax |-> TRUE, max |-> 10, default |-> IntV(5)])>>,
    <<"s", With(StringF, [tcase |-> "lower", stripm |-> "ws", maxlen |-> 3])>>,
    <<"l", With(ListF(With(IntF, [hasmin |-> TRUE, min |-> 0])), [default |-> ListV(<<IntV(1)>>)])>>,
    <<"d", With(DictF(With(StringF, [tcase |-> "upper"]), IntF), [default |-> DictV(<<>>)])>>,
    <<"l2", With(ListF(IntF), [default |-> ListV(<<IntV(-5)>>)])>>,
    <<"va", AliasF("a")>>,
    <<"vm", MethodF("a")>>,
    <<"mode", With(StringF, [tcase |-> "lower", stripm |-> "ws", choices |-> << <<"d","e","v">>, <<"p","r","o","d">> >>,
                             default |-> s(<<"d","e","v">>)]) @@ [appmode |-> TRUE]>>,
    <<"is_dev_mode", ModeIsF("mode", <<"d","e","v">>)>>,
    <<"is_prod_mode", ModeIsF("mode", <<"p","r","o","d">>)>>,
    <<"raw", With(DictF(NoF, NoF), [default |-> DictV(<<>>)])>>,
    <<"sub", SubS>>,
    <<"items", ListF(ItemS)>>,
    <<"ditems", With(ListF(ItemS), [default |-> ListV(<<D1(<<"p">>, IntV(5))>>)])>>,
    <<"ct", CtS>>,
    <<"citems", With(ListF(ItemC), [default |-> ListV(<<D1(<<"w">>, IntV(1)), D1(<<"w">>, IntV(1))>>)])>> >>)

MCKeyNames == {"va", "vm", "mode", "is_dev_mode", "is_prod_mode", "ip", "net", "hostn", "url", "ratio", "flag", "blob", "port", "lvl", "lst", "dct", "nest", "addr", "cnt", "raw", "name", "port", "tags", "opts", "feat", "enabled", "key", "core", "srv", "host", "ct", "citems", "u", "m", "w", "l2", "ditems", "a", "s", "l", "d", "sub", "x", "y", "deep", "z", "items", "p", "q", "zz", "path", "newp", "legacy"}
MCKeyChars == [k \in MCKeyNames |->
    CASE k = "a" -> <<"a">> [] k = "s" -> <<"s">> [] k = "l" -> <<"l">> [] k = "d" -> <<"d">>
      [] k = "sub" -> <<"s","u","b">> [] k = "x" -> <<"x">> [] k = "y" -> <<"y">>
      [] k = "deep" -> <<"d","e","e","p">> [] k = "z" -> <<"z">> [] k = "items" -> <<"i","t","e","m","s">>
      [] k = "name" -> <<"n", "a", "m", "e">> [] k = "port" -> <<"p", "o", "r", "t">> [] k = "tags" -> <<"t", "a", "g", "s">> [] k = "opts" -> <<"o", "p", "t", "s">> [] k = "feat" -> <<"f", "e", "a", "t">>
      [] k = "enabled" -> <<"e", "n", "a", "b", "l", "e", "d">> [] k = "key" -> <<"k", "e", "y">> [] k = "core" -> <<"c", "o", "r", "e">> [] k = "srv" -> <<"s", "r", "v">> [] k = "host" -> <<"h", "o", "s", "t">>
      [] k = "raw" -> <<"r","a","w">> [] k = "va" -> <<"v","a">> [] k = "vm" -> <<"v","m">> [] k = "mode" -> <<"m","o","d","e">>
      [] k = "is_dev_mode" -> <<"i","s","_","d","e","v","_","m","o","d","e">>
      [] k = "is_prod_mode" -> <<"i","s","_","p","r","o","d","_","m","o","d","e">>
      [] k = "ip" -> <<"i", "p">> [] k = "net" -> <<"n", "e", "t">> [] k = "hostn" -> <<"h", "o", "s", "t", "n">> [] k = "url" -> <<"u", "r", "l">> [] k = "ratio" -> <<"r", "a", "t", "i", "o">> [] k = "flag" -> <<"f", "l", "a", "g">> [] k = "blob" -> <<"b", "l", "o", "b">> [] k = "port" -> <<"p", "o", "r", "t">> [] k = "lvl" -> <<"l", "v", "l">> [] k = "lst" -> <<"l", "s", "t">> [] k = "dct" -> <<"d", "c", "t">> [] k = "nest" -> <<"n", "e", "s", "t">> [] k = "addr" -> <<"a", "d", "d", "r">> [] k = "cnt" -> <<"c", "n", "t">>
      [] k = "ct" -> <<"c","t">> [] k = "citems" -> <<"c","i","t","e","m","s">> [] k = "u" -> <<"u">>
      [] k = "m" -> <<"m">> [] k = "w" -> <<"w">>
      [] k = "l2" -> <<"l","2">> [] k = "ditems" -> <<"d","i","t","e","m","s">>
      [] k = "p" -> <<"p">> [] k = "q" -> <<"q">> [] k = "zz" -> <<"z","z">>
      [] k = "path" -> <<"p","a","t","h">> [] k = "newp" -> <<"n","e","w","p">>
      [] k = "legacy" -> <<"l","e","g","a","c","y">>]
\* (one variable, set to a valid value that is falsy in Python; harness/props/cfgmachine.py sets it)
MCEnviron == [n \in {<<"F", "V">>} |-> <<"0">>]

SubDefault == DefaultCfg(Bind(SubS, PNone), <<"sub">>).cfg
MCSetCands ==
    [pk \in {<< <<>>, "a">>, << <<>>, "s">>, << <<>>, "l">>, << <<>>, "d">>, << <<>>, "sub">>, << <<>>, "items">>,
             << <<>>, "zz">>, << <<>>, "va">>, << <<>>, "vm">>, << <<>>, "mode">>, << <<>>, "is_dev_mode">>, << <<>>, "ct">>, << <<"ct">>, "u">>, << <<"ct">>, "m">>, << <<"sub">>, "x">>, << <<"sub">>, "y">>, << <<"sub">>, "deep">>, << <<"sub", "deep">>, "z">>} |->
        CASE pk = << <<>>, "a">> -> {IntV(3), IntV(11), s(<<"7">>), NoneV, s(<<"x">>), FSpec("inf")}
          [] pk = << <<>>, "va">> -> {IntV(4), IntV(99)}
          [] pk = << <<>>, "vm">> -> {IntV(1)}
          [] pk = << <<>>, "mode">> -> {s(<<" ","P","r","o","d">>), s(<<"q","a">>)}
          [] pk = << <<>>, "is_dev_mode">> -> {BoolV(TRUE)}
          [] pk = << <<>>, "ct">> -> {D1(<<"u">>, IntV(4)), D1(<<"u">>, s(<<"b">>)), D1(<<"m">>, D1(<<"k">>, s(<<"x">>)))}
          [] pk = << <<"ct">>, "u">> -> {IntV(2), s(<<"b">>)}
          [] pk = << <<"ct">>, "m">> -> {D1(<<"k">>, IntV(1)), D1(<<"k">>, s(<<"x">>))}
          [] pk = << <<>>, "s">> -> {s(<<" ", "A", "b", " ">>), s(<<"a", "b", "c", "d">>), IntV(1)}
          [] pk = << <<>>, "l">> -> {ListV(<<IntV(2), s(<<"3">>)>>), ListV(<<IntV(-1)>>), s(<<"x">>), ListV(<<>>)}
          [] pk = << <<>>, "d">> -> {D1(<<"k">>, IntV(1)), D1(<<"k">>, s(<<"x">>)), ListV(<<>>)}
          [] pk = << <<>>, "sub">> -> {D1(<<"x">>, IntV(2)), D1(<<"x">>, IntV(3)), D1(<<"x">>, s(<<"b">>)), D2(<<"x">>, IntV(2), <<"z","z">>, IntV(1)),
                                      D1(<<"x">>, NoneV), IntV(1), [t |-> "cfgobj", c |-> SubDefault],
                                      D2(<<"y">>, s(<<"u">>), <<"x">>, s(<<"b">>))}
          [] pk = << <<>>, "items">> -> {ListV(<<D1(<<"p">>, IntV(1))>>), ListV(<<D1(<<"p">>, IntV(0))>>),
                                        ListV(<<D1(<<"p">>, IntV(2)), D2(<<"p">>, IntV(3), <<"m">>, D1(<<"k">>, s(<<"x">>)))>>),
                                        ListV(<<D1(<<"q">>, s(<<"r">>))>>), ListV(<<IntV(1)>>)}
          [] pk = << <<>>, "zz">> -> {IntV(1), s(<<"t">>)}
          [] pk = << <<"sub">>, "x">> -> {IntV(2), IntV(3), NoneV, s(<<"q">>)}
          [] pk = << <<"sub">>, "y">> -> {s(<<"u">>), s(<<"w">>)}
          [] pk = << <<"sub">>, "deep">> -> {D1(<<"z">>, s(<<"y","e","s">>)), D1(<<"z">>, s(<<"m">>))}
          [] pk = << <<"sub", "deep">>, "z">> -> {s(<<"y", "e", "s">>), s(<<"m">>)}]
MCTrees == {DictV(<<>>), D1(<<"a">>, IntV(1)), D2(<<"s">>, s(<<"X">>), <<"a">>, s(<<"b">>)),
            D1(<<"s","u","b">>, D1(<<"x">>, IntV(3))), D1(<<"s","u","b">>, D1(<<"x">>, NoneV)),
            D1(<<"i","t","e","m","s">>, ListV(<<D1(<<"p">>, IntV(2))>>)),
            D1(<<"i","t","e","m","s">>, ListV(<<D1(<<"p">>, IntV(2)), D1(<<"p">>, IntV(10))>>)),
            D2(<<"l">>, ListV(<<s(<<"4">>)>>), <<"z","z">>, IntV(1)),
            D1(<<"d">>, D1(<<"k">>, IntV(2))), D1(<<"s","u","b">>, D1(<<"x">>, IntV(3))),
            D1(<<"c","t">>, D1(<<"u">>, s(<<"b">>))), D1(<<"d">>, D1(<<"k">>, s(<<"x">>))),
            D1(<<"c","i","t","e","m","s">>, ListV(<<D1(<<"w">>, IntV(1)), D1(<<"w">>, IntV(1)), D1(<<"w">>, IntV(-1))>>)),
            D1(<<"s","u","b">>, IntV(5))}
MCKwargs == {<<>>, << <<"a", IntV(7)>> >>, << <<"a", IntV(99)>> >>, << <<"sub", D1(<<"x">>, IntV(4))>> >>,
             << <<"s", s(<<"Q">>)>>, <<"a", s(<<"b">>)>> >>, << <<"zz", IntV(1)>> >>}
MCListOps ==
    [pk \in {<< <<>>, "l">>, << <<>>, "items">>, << <<>>, "ditems">>, << <<>>, "citems">>} |->
        IF pk[2] = "citems" THEN
            {[m |-> "item_set", i |-> 1, k |-> "w", v |-> IntV(-3)], [m |-> "item_set", i |-> 1, k |-> "w", v |-> IntV(3)],
             [m |-> "extend", vs |-> <<D1(<<"w">>, IntV(2)), D1(<<"w">>, IntV(-2))>>]}
        ELSE IF pk[2] = "l" THEN
            {[m |-> "append", v |-> IntV(4)], [m |-> "append", v |-> IntV(-1)], [m |-> "append", v |-> s(<<"5">>)],
             [m |-> "insert", i |-> 0, v |-> IntV(7)], [m |-> "insert", i |-> -1, v |-> s(<<"x">>)],
             [m |-> "setitem", i |-> 0, v |-> IntV(9)], [m |-> "setitem", i |-> 0, v |-> IntV(-9)],
             [m |-> "setitem", i |-> 5, v |-> IntV(1)],
             [m |-> "extend", vs |-> <<IntV(1), s(<<"2">>)>>], [m |-> "iadd", vs |-> <<IntV(6), IntV(-1), IntV(8)>>],
             [m |-> "setslice_all", vs |-> <<IntV(3)>>], [m |-> "setslice_all", vs |-> <<IntV(3), s(<<"x">>)>>],
             [m |-> "slice_from", src |-> "l2"], [m |-> "extend_from", src |-> "l2"],
             [m |-> "pop"], [m |-> "clear"], [m |-> "remove_at", i |-> 0]}
        ELSE
            {[m |-> "append", v |-> D1(<<"p">>, IntV(3))], [m |-> "append", v |-> D1(<<"p">>, IntV(0))],
             [m |-> "append", v |-> DictV(<<>>)], [m |-> "append", v |-> IntV(1)],
             [m |-> "append", v |-> [t |-> "cfgobj", c |-> ItemDefault]],
             [m |-> "extend", vs |-> <<D1(<<"p">>, IntV(2)), D1(<<"p">>, IntV(0))>>],
             [m |-> "append", v |-> D1(<<"z","z">>, IntV(1))], [m |-> "setitem", i |-> 0, v |-> D1(<<"p">>, IntV(7))],
             [m |-> "setitem", i |-> 0, v |-> D1(<<"p">>, IntV(70))],
             [m |-> "item_set", i |-> 0, k |-> "p", v |-> IntV(8)], [m |-> "item_set", i |-> 0, k |-> "p", v |-> IntV(0)],
             [m |-> "item_set", i |-> 0, k |-> "q", v |-> s(<<"n">>)],
             [m |-> "insert", i |-> 0, v |-> D2(<<"p">>, IntV(4), <<"q">>, s(<<"w">>))], [m |-> "pop"],
             [m |-> "item_reset", i |-> 0, k |-> "p"], [m |-> "setitem_same", i |-> 0]}]
MCDictOps ==
    [pk \in {<< <<>>, "d">>, << <<>>, "raw">>} |->
      IF pk[2] = "raw" THEN {[m |-> "setitem", k |-> s(<<"u">>), v |-> IntV(1)], [m |-> "setitem", k |-> s(<<"u">>), v |-> s(<<"w">>)], [m |-> "clear"]}
      ELSE
        {[m |-> "setitem", k |-> s(<<"k">>), v |-> IntV(1)], [m |-> "setitem", k |-> s(<<"K">>), v |-> s(<<"2">>)],
         [m |-> "setitem", k |-> s(<<"k">>), v |-> s(<<"x">>)], [m |-> "setitem", k |-> IntV(1), v |-> IntV(1)],
         [m |-> "update", kv |-> << <<s(<<"a">>), IntV(1)>>, <<s(<<"b">>), s(<<"x">>)>> >>],
         [m |-> "update", kv |-> << <<s(<<"a">>), IntV(1)>>, <<s(<<"b">>), IntV(2)>> >>],
         [m |-> "ior", kv |-> << <<s(<<"c">>), IntV(3)>>, <<s(<<"d">>), ListV(<<>>)>> >>],
         [m |-> "ior", kv |-> << <<s(<<"c">>), s(<<"3">>)>> >>],
         [m |-> "setdefault", k |-> s(<<"k">>), v |-> IntV(5)], [m |-> "setdefault", k |-> s(<<"n">>), v |-> s(<<"x">>)],
         [m |-> "pop", k |-> s(<<"K">>)], [m |-> "clear"]}]

(* ---- instance V: required fields, defaults, field and schema validators, a feature flag (C11) ---- *)
ItemV == [validators |-> <<"host_not_x">>] @@
         SchemaF(<< <<"host", With(StringF, [required |-> TRUE])>>, <<"port", With(IntF, [default |-> IntV(1)])>> >>)
FeatS == [flagkey |-> "enabled", validators |-> <<"needs_key">>] @@
         SchemaF(<< <<"enabled", With(BoolF, [default |-> BoolV(FALSE)]) @@ [flag |-> TRUE]>>,
                    <<"key", With(StringF, [required |-> TRUE])>>,
                    \* configurations held by a flagged section are held to the rule when they are loaded,
                    \* whatever the flag says at that moment
                    <<"srv", With(ListF(ItemV), [default |-> ListV(<<>>)])>> >>)
DeepV == SchemaF(<< <<"z", With(StringF, [required |-> TRUE, default |-> s(<<"z", "z">>)])>> >>)
CoreS == [validators |-> <<"x_lt_y">>, ctype |-> TRUE] @@
         SchemaF(<< <<"x", With(IntF, [required |-> TRUE])>>, <<"y", With(IntF, [default |-> IntV(5)])>>, <<"deep", DeepV>>,
                    \* declared twice: first as a feature flag, then - the declaration that counts - as the plain
                    \* boolean it is now (the harness repeats the two assignments): the section has NO feature flag
                    <<"legacy", With(BoolF, [default |-> BoolV(FALSE)]) @@ [redeclared |-> "flag"]>> >>)
SchemaV == [validators |-> <<"always_ok">>] @@ SchemaF(<<
    <<"name", With(StringF, [required |-> TRUE])>>,
    <<"port", With(IntF, [default |-> IntV(80), fval |-> "v_even"])>>,
    <<"tags", With(ListF(StringF), [required |-> TRUE])>>,
    <<"opts", With(DictF(StringF, IntF), [required |-> TRUE, default |-> DictV(<< <<s(<<"k">>), IntV(1)>> >>)])>>,
    <<"feat", FeatS>>,
    <<"core", CoreS>>,
    <<"srv", With(ListF(ItemV), [default |-> ListV(<<D1(<<"h", "o", "s", "t">>, s(<<"h", "0">>))>>)])>> >>)

TCore(x) == D1(<<"c", "o", "r", "e">>, D1(<<"x">>, x))
TFull == DictV(<< <<s(<<"n", "a", "m", "e">>), s(<<"a", "p", "p">>)>>, <<s(<<"t", "a", "g", "s">>), ListV(<<s(<<"t", "1">>)>>)>>, <<s(<<"c", "o", "r", "e">>), D1(<<"x">>, IntV(1))>> >>)
MCSetCandsV ==
    [pk \in {<< <<>>, "name">>, << <<>>, "port">>, << <<>>, "tags">>, << <<>>, "opts">>, << <<>>, "feat">>, << <<"feat">>, "enabled">>,
             << <<"feat">>, "key">>, << <<"core">>, "x">>, << <<"core">>, "y">>, << <<>>, "core">>, << <<>>, "srv">>} |->
        CASE pk = << <<>>, "name">> -> {s(<<"a", "p", "p">>), s(<<>>), NoneV}
          [] pk = << <<>>, "port">> -> {IntV(8080), IntV(81)}
          [] pk = << <<>>, "tags">> -> {ListV(<<s(<<"t", "1">>)>>), ListV(<<>>)}
          [] pk = << <<>>, "opts">> -> {DictV(<<>>), D1(<<"q">>, IntV(2))}
          [] pk = << <<>>, "feat">> -> {D1(<<"e", "n", "a", "b", "l", "e", "d">>, BoolV(TRUE)), D2(<<"e", "n", "a", "b", "l", "e", "d">>, BoolV(TRUE), <<"k", "e", "y">>, s(<<"k", "k">>)), D1(<<"k", "e", "y">>, s(<<"k", "k">>))}
          [] pk = << <<"feat">>, "enabled">> -> {BoolV(TRUE), BoolV(FALSE), NoneV}
          [] pk = << <<"feat">>, "key">> -> {s(<<"k", "k">>), NoneV}
          [] pk = << <<"core">>, "x">> -> {IntV(1), IntV(9), NoneV}
          [] pk = << <<"core">>, "y">> -> {IntV(0), IntV(7)}
          [] pk = << <<>>, "core">> -> {D1(<<"x">>, IntV(1)), D1(<<"x">>, IntV(9)), D1(<<"y">>, IntV(7)), D2(<<"x">>, IntV(1), <<"d", "e", "e", "p">>, D1(<<"z">>, NoneV))}
          [] pk = << <<>>, "srv">> -> {ListV(<<D1(<<"h", "o", "s", "t">>, s(<<"h", "1">>))>>), ListV(<<D1(<<"h", "o", "s", "t">>, s(<<"x">>))>>), ListV(<<D1(<<"p", "o", "r", "t">>, IntV(2))>>), ListV(<<>>)}]
TFeat(items, flag) == DictV(<< <<s(<<"n", "a", "m", "e">>), s(<<"a", "p", "p">>)>>, <<s(<<"t", "a", "g", "s">>), ListV(<<s(<<"t", "1">>)>>)>>, <<s(<<"c", "o", "r", "e">>), D1(<<"x">>, IntV(1))>>,
                             <<s(<<"f", "e", "a", "t">>), DictV(<< <<s(<<"s", "r", "v">>), items>>, <<s(<<"k", "e", "y">>), s(<<"k", "k">>)>>, <<s(<<"e", "n", "a", "b", "l", "e", "d">>), BoolV(flag)>> >>)>> >>)
MCTreesV == {DictV(<<>>), TFull,
             TFeat(ListV(<<D1(<<"h", "o", "s", "t">>, s(<<"h", "1">>))>>), TRUE), TFeat(ListV(<<D1(<<"h", "o", "s", "t">>, s(<<"x">>))>>), TRUE),
             TFeat(ListV(<<D1(<<"p", "o", "r", "t">>, IntV(2))>>), TRUE), TFeat(ListV(<<D1(<<"h", "o", "s", "t">>, s(<<"x">>))>>), FALSE), D1(<<"n","a","m","e">>, s(<<"a", "p", "p">>)), TCore(IntV(1)), TCore(IntV(9)),
             DictV(<< <<s(<<"n", "a", "m", "e">>), s(<<"a", "p", "p">>)>>, <<s(<<"t", "a", "g", "s">>), ListV(<<s(<<"t", "1">>)>>)>>, <<s(<<"c", "o", "r", "e">>), D1(<<"x">>, IntV(1))>>,
                      <<s(<<"f", "e", "a", "t">>), D1(<<"e", "n", "a", "b", "l", "e", "d">>, BoolV(TRUE))>> >>),
             DictV(<< <<s(<<"n", "a", "m", "e">>), s(<<"a", "p", "p">>)>>, <<s(<<"t", "a", "g", "s">>), ListV(<<s(<<"t", "1">>)>>)>>, <<s(<<"c", "o", "r", "e">>), D1(<<"x">>, IntV(1))>>,
                      <<s(<<"f", "e", "a", "t">>), D2(<<"e", "n", "a", "b", "l", "e", "d">>, BoolV(TRUE), <<"k", "e", "y">>, s(<<"k", "k">>))>>, <<s(<<"s", "r", "v">>), ListV(<<D1(<<"h", "o", "s", "t">>, s(<<"h", "1">>))>>)>> >>),
             DictV(<< <<s(<<"n", "a", "m", "e">>), s(<<"a", "p", "p">>)>>, <<s(<<"t", "a", "g", "s">>), ListV(<<s(<<"t", "1">>)>>)>>, <<s(<<"c", "o", "r", "e">>), D1(<<"x">>, IntV(1))>>,
                      <<s(<<"s", "r", "v">>), ListV(<<D1(<<"h", "o", "s", "t">>, s(<<"x">>))>>)>> >>),
             DictV(<< <<s(<<"n", "a", "m", "e">>), s(<<"a", "p", "p">>)>>, <<s(<<"t", "a", "g", "s">>), ListV(<<>>)>>, <<s(<<"c", "o", "r", "e">>), D1(<<"x">>, IntV(1))>> >>),
             DictV(<< <<s(<<"n", "a", "m", "e">>), s(<<"a", "p", "p">>)>>, <<s(<<"t", "a", "g", "s">>), ListV(<<s(<<"t", "1">>)>>)>>, <<s(<<"c", "o", "r", "e">>), D1(<<"x">>, IntV(1))>>, <<s(<<"o", "p", "t", "s">>), DictV(<<>>)>> >>)}
MCKwargsV == {<<>>, << <<"name", s(<<"a", "p", "p">>)>> >>, << <<"core", D1(<<"x">>, IntV(1))>> >>, << <<"core", D1(<<"x">>, IntV(9))>> >>}
MCListOpsV ==
    [pk \in {<< <<>>, "srv">>, << <<>>, "tags">>} |->
      IF pk[2] = "tags" THEN {[m |-> "append", v |-> s(<<"t", "2">>)], [m |-> "clear"], [m |-> "pop"]} ELSE
        {[m |-> "append", v |-> D1(<<"h", "o", "s", "t">>, s(<<"h", "1">>))], [m |-> "append", v |-> D1(<<"h", "o", "s", "t">>, s(<<"x">>))],
         [m |-> "append", v |-> D1(<<"p", "o", "r", "t">>, IntV(3))], [m |-> "item_set", i |-> 0, k |-> "host", v |-> NoneV],
         [m |-> "item_set", i |-> 0, k |-> "host", v |-> s(<<"x">>)], [m |-> "pop"],
         [m |-> "item_reset", i |-> 0, k |-> "host"], [m |-> "setitem_same", i |-> 0], [m |-> "setitem_same", i |-> 1]}]
MCDictOpsV == [pk \in {<< <<>>, "opts">>} |-> {[m |-> "clear"], [m |-> "setitem", k |-> s(<<"k", "k">>), v |-> IntV(3)]}]

(* ---- the generated schema family (Generic = TRUE): every root schema with two (three) keys, each
        key one of the node shapes below - scalar fields of every validation flavour, typed
        containers, list of configurations, nested schemas to depth 2, a ConfigType, a dynamic
        and a validator-carrying sub-schema.  Candidate values come from ConfigMachine!Gen*. ---- *)
GItemS == SchemaF(<< <<"p", With(IntF, [hasmin |-> TRUE, min |-> 1, hasmax |-> TRUE, max |-> 9, required |-> TRUE])>> >>)
GLeaves == <<
    With(IntF, [hasmin |-> TRUE, min |-> 1, hasmax |-> TRUE, max |-> 9, default |-> IntV(5)]),
    With(IntF, [required |-> TRUE]),
    With(StringF, [tcase |-> "lower", stripm |-> "ws", default |-> s(<<"a", "b">>)]),
    With(StringF, [choices |-> << <<"u">>, <<"a", "b">> >>, maxlen |-> 3]),
    With(BoolF, [default |-> BoolV(FALSE)]),
    IPv4AddrF,
    With(BytesF, [encoding |-> "hex"]),
    With(ListF(With(IntF, [hasmin |-> TRUE, min |-> 0])), [default |-> ListV(<<>>)]),
    With(DictF(StringF, IntF), [default |-> DictV(<<>>)]),
    With(ListF(GItemS), [default |-> ListV(<<>>)]),
    \* the field classes with a __setdefault__ of their own, with non-empty defaults
    With(ListF(NoF), [default |-> ListV(<<IntV(1), IntV(2)>>)]),
    With(DictF(NoF, NoF), [default |-> D1(<<"k">>, IntV(1))]),
    With(DictF(StringF, IntF), [default |-> D2(<<"k">>, IntV(1), <<"m">>, IntV(2))]),
    With(ListF(With(IntF, [hasmin |-> TRUE, min |-> 0])), [default |-> ListV(<<IntV(1), IntV(2)>>)]),
    With(ChallengeF, [alg |-> "md5", default |-> s(<<"p", "w", "d", "0">>)]),
    \* defaults given as callables (a fresh value per configuration), the field subclasses with defaults of their own
    [dcall |-> TRUE] @@ With(ListF(NoF), [default |-> ListV(<<IntV(1)>>)]),
    [dcall |-> TRUE] @@ With(DictF(StringF, IntF), [default |-> D1(<<"k">>, IntV(1))]),
    With(LogLevelF, [default |-> s(<<"i", "n", "f", "o">>)]),
    With(PortF, [default |-> IntV(8080)]),
    \* typed containers that are unset (no default): nothing to operate on until a value is assigned
    DictF(StringF, With(IntF, [hasmin |-> TRUE, min |-> 0])),
    ListF(With(IntF, [hasmin |-> TRUE, min |-> 0])),
    \* required typed containers that start non-empty (they can be emptied in place)
    With(ListF(With(IntF, [hasmin |-> TRUE, min |-> 0])), [required |-> TRUE, default |-> ListV(<<IntV(1)>>)]),
    With(DictF(StringF, IntF), [required |-> TRUE, default |-> D1(<<"k">>, IntV(1))]),
    \* a list default written as a tuple (assignment accepts tuples and stores a list)
    With(ListF(With(IntF, [hasmin |-> TRUE, min |-> 0])), [default |-> TupleV(<<IntV(1), IntV(2)>>)]),
    With(ListF(NoF), [default |-> TupleV(<<IntV(1), IntV(2)>>)]),
    \* a map with unconstrained keys (any hashable: numbers, tuples) and typed values
    With(DictF(NoF, With(IntF, [hasmin |-> TRUE, min |-> 0])), [default |-> DictV(<<>>)]),
    \* choices that are not in the transform's own case: only the exact spelling is a choice
    With(StringF, [tcase |-> "lower", choices |-> << <<"R", "e", "d">>, <<"a", "b">> >>]),
    \* a required text field of a subclass with a syntax check of its own
    With(UrlF, [required |-> TRUE, default |-> s(<<"h", "t", "t", "p", ":", "/", "/", "a">>)]),
    \* a map of typed maps
    With(DictF(StringF, DictF(StringF, With(IntF, [hasmin |-> TRUE, min |-> 0]))), [default |-> DictV(<<>>)]),
    \* a field bound to an environment variable whose (valid) value is 0: the variable, not the default
    With(IntF, [hasmin |-> TRUE, min |-> 0, default |-> IntV(5), env |-> EnvName(<<"F", "V">>)]) >>
GSubs == <<
    SchemaF(<< <<"x", With(IntF, [default |-> IntV(1), required |-> TRUE])>>, <<"y", With(StringF, [choices |-> << <<"u">>, <<"v">> >>])>> >>),
    [validators |-> <<"x_not_3">>] @@ SchemaF(<< <<"x", With(IntF, [default |-> IntV(1)])>> >>),
    SchemaF(<< <<"deep", DeepS>>, <<"x", With(IntF, [hasmin |-> TRUE, min |-> 0])>> >>),
    [dynamic |-> TRUE] @@ SchemaF(<< <<"y", With(StringF, [default |-> s(<<"q">>)])>> >>),
    SchemaF(<< <<"l", With(ListF(With(IntF, [hasmin |-> TRUE, min |-> 0])), [default |-> ListV(<<IntV(1)>>)])>> >>),
    [ctype |-> TRUE] @@ SchemaF(<< <<"u", With(IntF, [default |-> IntV(0)])>> >>),
    \* a feature-flagged section (flag off by default): assignments are validated all the same
    [flagkey |-> "enabled"] @@ SchemaF(<< <<"x", With(IntF, [hasmin |-> TRUE, min |-> 1, hasmax |-> TRUE, max |-> 9, required |-> TRUE, default |-> IntV(2)])>>,
                                          <<"enabled", With(BoolF, [default |-> BoolV(FALSE)]) @@ [flag |-> TRUE]>> >>) >>
GNodes == GLeaves \o GSubs
NG == 37
ASSUME NG = Len(GNodes)
GFirst == SchemaF(<< <<"a", With(IntF, [hasmin |-> TRUE, min |-> 1, hasmax |-> TRUE, max |-> 9, default |-> IntV(5)])>>,
                     <<"s", With(StringF, [tcase |-> "lower", stripm |-> "ws", default |-> s(<<"a", "b">>)])>> >>)
\* hand-made members: ONE schema object used for a sub-configuration and for the items of a
\* sibling list (the harness builds descriptors with the same `shared` tag as one Python object)
GSharedS == [shared |-> "item"] @@ GItemS
GExtras == << SchemaF(<< <<"a", GSharedS>>, <<"s", With(ListF(GSharedS), [default |-> ListV(<<>>)])>> >>),
             SchemaF(<< <<"a", With(ListF(GSharedS), [default |-> ListV(<<>>)])>>, <<"s", GSharedS>> >>) >>
\* index 1 is GFirst; 2 .. NG*NG+1 the grid (GFirst's own grid position is explored twice); then GExtras
MCFamilyN2 == NG * NG + 1 + 2
ASSUME Len(GExtras) = 2
MCFamilyAt2(i) == IF i = 1 THEN GFirst
                  ELSE IF i > NG * NG + 1 THEN GExtras[i - (NG * NG + 1)]
                  ELSE SchemaF(<< <<"a", GNodes[((i - 2) \div NG) + 1]>>, <<"s", GNodes[((i - 2) % NG) + 1]>> >>)
\* three keys: a sub-schema, a leaf, anything
NS3 == 7   \* sub-schema shapes
NL3 == 30  \* leaf shapes
ASSUME NS3 = Len(GSubs) /\ NL3 = Len(GLeaves)
MCFamilyN3 == MCFamilyN2 + NS3 * NL3 * NG
MCFamilyAt3(i) == IF i <= MCFamilyN2 THEN MCFamilyAt2(i)
                  ELSE LET j == i - MCFamilyN2 IN
                       SchemaF(<< <<"a", GSubs[((j - 1) \div (NL3 * NG)) + 1]>>,
                                  <<"s", GLeaves[(((j - 1) \div NG) % NL3) + 1]>>,
                                  <<"d", GNodes[((j - 1) % NG) + 1]>> >>)
MCFamilyN1 == 1
MCFamilyAt1(i) == TheSchema
\* replay sample: every FAM_STRIDE-th schema (environment of the TLC run)
\* C02 replay aid: the second step of an exported behaviour is a round trip (format FAM_FMT) of
\* whatever state the first step produced
NextThenRoundTrip ==
    \/ steps = 0 /\ Next
    \/ steps >= 1 /\ \E n \in Names : Tick /\ RoundTrip(n, IOEnv.FAM_FMT)
\* likewise: every operation followed by validate() / validate(collect_errors=True), and by a
\* reset of each field
NextThenValidate ==
    \/ steps = 0 /\ Next
    \/ steps >= 1 /\ \E n \in Names : Tick /\ (Check(n) \/ CheckCollect(n))
NextThenReset ==
    \/ steps = 0 /\ Next
    \/ steps >= 1 /\ \E n \in Names, pk \in DOMAIN SetCandsNow : Tick /\ Reset(n, pk)
\* plus the "diagonal" (both keys of the same node shape), so that every shape is replayed by every run
IsDiagSid(i) == \/ i >= 2 /\ i <= NG * NG + 1 /\ ((i - 2) \div NG) = ((i - 2) % NG)
                \/ i > NG * NG + 1 /\ i <= MCFamilyN2          \* (and the hand-made members)
\* (FAM_PARTS / FAM_PART: the sample is exported by several TLC processes side by side)
SidOk(i) == /\ (i % atoi(IOEnv.FAM_STRIDE)) = atoi(IOEnv.FAM_PHASE) \/ IsDiagSid(i)
            /\ (i % atoi(IOEnv.FAM_PARTS)) = atoi(IOEnv.FAM_PART)
SidSample == SidOk(sid)
\* (the initial predicate of the sampled exports: only the sampled schemas are ever built)
InitSample == \E i \in {j \in 1..FamilyN : SidOk(j)} : InitOf(i)

(* ---- instance B: the textual and numeric field classes inside a configuration (C01, C06, C12) ---- *)
NestB == SchemaF(<< <<"addr", With(IPv4AddrF, [default |-> s(<<"1", "0", ".", "0", ".", "0", ".", "1">>)])>>, <<"cnt", With(IntF, [hasmin |-> TRUE, min |-> 1, default |-> IntV(1)])>> >>)
SchemaB == SchemaF(<<
    <<"ip", With(IPv4AddrF, [stripm |-> "ws"])>>,
    <<"net", With(IPv4NetF, [minpfx |-> 8, maxpfx |-> 24, default |-> s(<<"1", "0", ".", "0", ".", "0", ".", "0", "/", "8">>)])>>,
    <<"hostn", With(HostnameF, [allow_ipv4 |-> FALSE, default |-> s(<<"l", "o", "c", "a", "l", "h", "o", "s", "t">>)])>>,
    <<"url", With(UrlF, [required |-> TRUE, default |-> s(<<"h", "t", "t", "p", ":", "/", "/", "a">>)])>>,
    <<"ratio", With(FloatF, [hasmin |-> TRUE, min |-> 0, hasmax |-> TRUE, max |-> 2, default |-> FloatH(1)])>>,
    <<"flag", With(BoolF, [default |-> BoolV(TRUE)])>>,
    <<"blob", With(BytesF, [encoding |-> "hex"])>>,
    <<"port", With(PortF, [default |-> IntV(8080)])>>,
    <<"lvl", With(StringF, [tcase |-> "lower", stripm |-> "ws", choices |-> << <<"i", "n", "f", "o">>, <<"w", "a", "r", "n">> >>, default |-> s(<<"i", "n", "f", "o">>)])>>,
    <<"lst", With(ListF(With(HostnameF, [allow_ipv4 |-> TRUE])), [default |-> ListV(<<>>)])>>,
    <<"dct", With(DictF(With(StringF, [tcase |-> "lower"]), With(FloatF, [hasmin |-> TRUE, min |-> 0])), [default |-> DictV(<<>>)])>>,
    \* file names resolved below a start directory that is NOT the working directory ($ is; CincoFields.FsKind):
    \* what must (not) exist is the resolved name, and that is what is stored
    <<"path", With(FilenameF, [exists |-> "true", startdir |-> <<"$", "/", "d">>])>>,
    <<"newp", With(FilenameF, [exists |-> "false", startdir |-> <<"$", "/", "d">>])>>,
    <<"nest", NestB>> >>)
MCSetCandsB ==
    [pk \in {<< <<>>, "ip">>, << <<>>, "net">>, << <<>>, "hostn">>, << <<>>, "url">>, << <<>>, "ratio">>, << <<>>, "flag">>, << <<>>, "blob">>,
             << <<>>, "port">>, << <<>>, "lvl">>, << <<>>, "lst">>, << <<>>, "dct">>, << <<>>, "nest">>, << <<"nest">>, "addr">>, << <<>>, "path">>, << <<>>, "newp">>} |->
        CASE pk[2] = "ip"    -> {s(<<"1", "9", "2", ".", "1", "6", "8", ".", "1", ".", "1">>), s(<<" ", "1", "0", ".", "1", ".", "2", ".", "3", " ">>), s(<<"2", "5", "6", ".", "1", ".", "1", ".", "1">>), s(<<"1", ".", "2", ".", "3">>), IntV(1)}
          [] pk[2] = "net"   -> {s(<<"1", "9", "2", ".", "1", "6", "8", ".", "0", ".", "0", "/", "1", "6">>), s(<<"1", "0", ".", "0", ".", "0", ".", "0", "/", "2", "5">>), s(<<"1", "0", ".", "0", ".", "0", ".", "1", "/", "2", "4">>), s(<<"1", "0", ".", "0", ".", "0", ".", "0", "/", "7">>), s(<<"1", "7", "2", ".", "1", "6", ".", "0", ".", "0", "/", "0", "2", "4">>)}
          [] pk[2] = "hostn" -> {s(<<"w", "e", "b", "-", "1", ".", "e", "x", "a", "m", "p", "l", "e">>), s(<<"1", "0", ".", "0", ".", "0", ".", "1">>), s(<<"b", "a", "d", " ", "h", "o", "s", "t", "!">>), s(<<"a">>)}
          [] pk[2] = "url"   -> {s(<<"h", "t", "t", "p", "s", ":", "/", "/", "x", ".", "y", "/", "z">>), s(<<"n", "o", "-", "s", "c", "h", "e", "m", "e">>), NoneV}
          [] pk[2] = "ratio" -> {FloatH(2), FloatH(3), IntV(1), s(<<"0", ".", "5">>), FSpec("nan"), FSpec("inf")}
          [] pk[2] = "flag"  -> {s(<<"o", "f", "f">>), s(<<"p", "e", "r", "h", "a", "p", "s">>), IntV(0)}
          [] pk[2] = "blob"  -> {BytesV(<<0, 255>>), s(<<"t", "e", "x", "t">>), IntV(5)}
          [] pk[2] = "port"  -> {IntV(1), IntV(0), IntV(65536), s(<<"4", "4", "3">>)}
          [] pk[2] = "lvl"   -> {s(<<" ", "W", "A", "R", "N", " ">>), s(<<"d", "e", "b", "u", "g">>)}
          [] pk[2] = "lst"   -> {ListV(<<s(<<"w", "e", "b", "-", "1", ".", "e", "x", "a", "m", "p", "l", "e">>), s(<<"1", "9", "2", ".", "1", "6", "8", ".", "1", ".", "1">>)>>), ListV(<<s(<<"b", "a", "d", " ", "h", "o", "s", "t", "!">>)>>)}
          [] pk[2] = "dct"   -> {D1(<<"K">>, IntV(1)), D1(<<"k">>, FloatH(-1))}
          [] pk[2] = "nest"  -> {D1(<<"a", "d", "d", "r">>, s(<<"1", "9", "2", ".", "1", "6", "8", ".", "1", ".", "1">>)), D1(<<"a", "d", "d", "r">>, s(<<"2", "5", "6", ".", "1", ".", "1", ".", "1">>))}
          [] pk[2] = "addr"  -> {s(<<"1", "9", "2", ".", "1", "6", "8", ".", "1", ".", "1">>), s(<<"1", ".", "2", ".", "3">>)}
          [] pk[2] \in {"path", "newp"} -> {s(<<"g">>), s(<<"f">>), s(<<"$", "/", "f">>), s(<<"m">>), IntV(1)}]
MCTreesB == {DictV(<<>>), D1(<<"i", "p">>, s(<<"1", "9", "2", ".", "1", "6", "8", ".", "1", ".", "1">>)), D2(<<"n", "e", "t">>, s(<<"1", "9", "2", ".", "1", "6", "8", ".", "0", ".", "0", "/", "1", "6">>), <<"i", "p">>, s(<<"2", "5", "6", ".", "1", ".", "1", ".", "1">>)),
             D1(<<"b", "l", "o", "b">>, s(<<"0", "0", "f", "f">>)), D1(<<"b", "l", "o", "b">>, s(<<"z", "z">>)), D1(<<"u", "r", "l">>, NoneV), D1(<<"d", "c", "t">>, D1(<<"A">>, IntV(2))),
             D2(<<"p", "a", "t", "h">>, s(<<"g">>), <<"n", "e", "w", "p">>, s(<<"g">>)), D2(<<"p", "a", "t", "h">>, s(<<"f">>), <<"n", "e", "w", "p">>, s(<<"f">>))}
MCKwargsB == {<<>>, << <<"port", IntV(22)>> >>, << <<"port", IntV(0)>> >>, << <<"url", s(<<"n", "o", "-", "s", "c", "h", "e", "m", "e">>)>> >>}
MCListOpsB == [pk \in {<< <<>>, "lst">>} |-> {[m |-> "append", v |-> s(<<"w", "e", "b", "-", "1", ".", "e", "x", "a", "m", "p", "l", "e">>)], [m |-> "append", v |-> s(<<"b", "a", "d", " ", "h", "o", "s", "t", "!">>)], [m |-> "insert", i |-> 0, v |-> s(<<"1", "9", "2", ".", "1", "6", "8", ".", "1", ".", "1">>)], [m |-> "pop"]}]
MCDictOpsB == [pk \in {<< <<>>, "dct">>} |-> {[m |-> "setitem", k |-> s(<<" ", "W", "A", "R", "N", " ">>), v |-> s(<<"0", ".", "5">>)], [m |-> "setitem", k |-> s(<<" ", "W", "A", "R", "N", " ">>), v |-> FloatH(-3)], [m |-> "clear"]}]
====
