CONSTANTS
  Objects <- TrObjects
  Paths <- TrPaths
  PathOf <- TrPathOf
  MaxRef = 8
  MaxGen = 60
  CacheBadKey = FALSE
  ExtBad = {"empty", "short", "long", "hex", "hexnl", "keylf", "keycrlf"}
INIT TraceInit
NEXT TraceNext
ACTION_CONSTRAINT Report
VIEW TraceView
