CONSTANTS
  Environ <- MCEnviron
  KeyNames <- MCKeyNames
  KeyChars <- MCKeyChars
  TheSchema <- SchemaG
  SetCands <- MCSetCands
  ArgPool <- MCArgPool
  IgnoreLists <- MCIgnore
  MaxDepth = 3
INIT Init
NEXT Next
VIEW View
INVARIANT C16_PathsAgree
INVARIANT C16_Options
PROPERTY C16_OnlySupplied
