----------------------------- MODULE IncludeLab -----------------------------
(***************************************************************************)
(* C18 as a machine over the operators of CincoInclude.                    *)
(*                                                                         *)
(* Family "merge": one call  IncludeField.combine_trees(base, child).      *)
(*     Combine                                                             *)
(* Family "load":  one call  Config.loads(document, fmt, **options) or     *)
(* Config.load(file holding the document, fmt) on a configuration that     *)
(* already went through an earlier load_tree(pre); the steps of the call   *)
(* are actions, in the order of the code:                                  *)
(*     Parse -> Includes -> LoadTree                                       *)
(* A step that raises ends the call (out = "rejected", failedAt = step;    *)
(* "call": load() was given options, which it does not take).  The format  *)
(* and its options are part of the case (lab.opt, see CincoInclude); the   *)
(* formatter of the document and of every included file is created with    *)
(* them.                                                                   *)
(*                                                                         *)
(* Init picks the case (tree pair / schema, file system, prior tree,       *)
(* document) from the instance's candidate sets.  The conformance harness  *)
(* executes every finished case TLC enumerated on the real library.        *)
(***************************************************************************)
EXTENDS CincoInclude

CONSTANTS Fam,          \* "merge" | "load"
          MergePairs,   \* set of <<base, child>>
          SchemaTab,    \* sequence of schema descriptors
          FsTab,        \* sequence of file systems
          LoadCases     \* sequence of sets (TLC's union of large sets is quadratic) of
                        \* [sid, fid, pre, doc, via, opt];
                        \*   doc = [k |-> "tree", v |-> value, tag |-> root element (XML)]
                        \*       | [k |-> "unparseable", how |-> ...]
                        \*   via = "loads" | "load" | "any" (either: no options are passed)
                        \*   opt = options record of CincoInclude

VARIABLE lab
vars == <<lab>>

InitMerge ==
    \E bc \in MergePairs :
        lab = [fam |-> "merge", stage |-> 0, base |-> bc[1], child |-> bc[2], res |-> NoneV,
               baseAfter |-> NoneV, childAfter |-> NoneV]

\* the configuration the document is loaded into: defaults, then an earlier accepted load
Cfg0(S, fs, pre) == LoadTreeOp(S, Default(S), pre, fs, <<>>).cfg

InitLoad ==
    \E part \in DOMAIN LoadCases : \E c \in LoadCases[part] :
        lab = [fam |-> "load", stage |-> 0, sid |-> c.sid, fid |-> c.fid, pre |-> c.pre, doc |-> c.doc,
               via |-> c.via, opt |-> c.opt,
               cfg0 |-> Cfg0(SchemaTab[c.sid], FsTab[c.fid], c.pre),
               cfg  |-> Cfg0(SchemaTab[c.sid], FsTab[c.fid], c.pre),
               tree |-> NoneV, out |-> "", failedAt |-> "", why |-> "", used |-> <<>>, repl |-> {},
               unmodelled |-> FALSE]

Init == IF Fam = "merge" THEN InitMerge ELSE InitLoad

---------------------------------------------------------------------------
\* combine_trees works on `ret = dict(base)`; neither argument is assigned into
Combine ==
    /\ lab.fam = "merge" /\ lab.stage = 0
    /\ lab' = [lab EXCEPT !.stage = 1, !.res = Merge(lab.base, lab.child),
                          !.baseAfter = lab.base, !.childAfter = lab.child]

LS == SchemaTab[lab.sid]
LF == FsTab[lab.fid]

\* load(filename, format): open, read, loads(content, format) - no **kwargs
\* loads: format_factory = partial(ConfigFormat.get, format, **kwargs);
\*        tree = format_factory().loads(self, content)
Parse ==
    /\ lab.fam = "load" /\ lab.stage = 0
    /\ IF ~CallOk(lab.via, lab.opt)
       THEN lab' = [lab EXCEPT !.stage = 1, !.out = "rejected", !.failedAt = "call", !.why = "options"]
       ELSE IF lab.doc.k = "tree"
       THEN LET r == FmtLoads(lab.opt, TagOf(lab.doc), lab.doc.v) IN
            IF r.ok THEN lab' = [lab EXCEPT !.stage = 1, !.tree = r.v]
            ELSE lab' = [lab EXCEPT !.stage = 1, !.out = "rejected", !.failedAt = "parse", !.why = "notdoc"]
       ELSE lab' = [lab EXCEPT !.stage = 1, !.out = "rejected", !.failedAt = "parse", !.why = lab.doc.how]

\* tree = self._process_includes(self._schema, tree, format_factory)
Includes ==
    /\ lab.fam = "load" /\ lab.stage = 1 /\ lab.out = ""
    /\ LET r == ProcIncs(LS, lab.tree, LF, <<>>, lab.opt) IN
       IF r.ok THEN lab' = [lab EXCEPT !.stage = 2, !.tree = r.tree, !.used = r.used]
       ELSE lab' = [lab EXCEPT !.stage = 2, !.out = "rejected", !.failedAt = "include", !.why = r.why,
                               !.used = r.used]

\* self.load_tree(tree)
LoadTree ==
    /\ lab.fam = "load" /\ lab.stage = 2 /\ lab.out = ""
    /\ LET r == LoadTreeOp(LS, lab.cfg, lab.tree, LF, <<>>) IN
       lab' = [lab EXCEPT !.stage = 3, !.cfg = r.cfg, !.repl = r.repl, !.unmodelled = r.unmodelled,
                          !.out = IF r.ok THEN "ok" ELSE "rejected",
                          !.failedAt = IF r.ok THEN "" ELSE "loadtree"]

Next == Combine \/ Parse \/ Includes \/ LoadTree
Spec == Init /\ [][Next]_vars

---------------------------------------------------------------------------
(* C18, independently of the actions *)
MergeDone == lab.fam = "merge" /\ lab.stage = 1
LoadDone  == lab.fam = "load" /\ lab.out # ""

\* precedence, recursion, key preservation - per path
C18_MergeLaw == MergeDone => MergeLaw(lab.base, lab.child, lab.res)
\* the same, key by key: the result is the key-wise law's tree (up to key order)
C18_MergeKeys == MergeDone => SameTree(lab.res, LawMerge(lab.base, lab.child))
\* merging never mutates either input
C18_Pure == MergeDone => P_Pure(lab.base, lab.baseAfter) /\ P_Pure(lab.child, lab.childAfter)

\* what loading the single merged tree does to an equal configuration
RefLoad ==
    LET d == DeclDoc(LS, lab.opt, TagOf(lab.doc), lab.doc.v, LF) IN
    IF ~d.ok THEN [defined |-> FALSE, out |-> "rejected", cfg |-> lab.cfg0, tree |-> NoneV]
    ELSE LET r == LoadTreeOp(LS, lab.cfg0, d.tree, LF, <<>>) IN
         [defined |-> TRUE, out |-> IF r.ok THEN "ok" ELSE "rejected", cfg |-> r.cfg, tree |-> d.tree]

\* the call took place (load() given options never gets as far as a document)
Called == lab.failedAt # "call"

\* load(s)(document with includes, fmt, options) == load_tree(merged tree): same state or same
\* rejection, for every format and every option value; and when the merged tree does not exist
\* (a reached name is no readable document under these options) the load fails
C18_Equivalent ==
    (LoadDone /\ lab.doc.k = "tree" /\ Called) =>
        LET ref == RefLoad IN
        IF ref.defined THEN P_Equivalent(lab.out, lab.cfg, ref.out, ref.cfg)
        ELSE lab.out = "rejected"

\* options only say how each file is read, the same for the document and every included file:
\* the call does what a call without options does on the plain copies of the same files
C18_OptionsUniform ==
    (LoadDone /\ Called) =>
        LET twin == RunLoad(LS, lab.cfg0, "loads", DefOpt("any"), PlainDoc(lab.opt, lab.doc), PlainFs(lab.opt, LF)) IN
        P_Equivalent(lab.out, lab.cfg, twin.out, twin.cfg)

\* load(filename, fmt) is loads(content of the file, fmt): how the document arrives makes no
\* difference (the whole call through the file entry point, as one operator, against the steps
\* taken above; options reach a load only through loads)
C18_EntryPoints ==
    (LoadDone /\ ~lab.opt.explicit) =>
        LET r == RunLoad(LS, lab.cfg0, "load", lab.opt, lab.doc, LF) IN
        r.out = lab.out /\ r.cfg = lab.cfg /\ r.failedAt = lab.failedAt

C18_PathRule == LoadDone => P_PathRule(lab.used, lab.out)

\* C06, document-load clause
C06_LoadUnchanged ==
    (LoadDone /\ lab.failedAt \in {"call", "parse", "include"}) => P_Unchanged(lab.cfg0, lab.cfg, lab.repl)

\* a document that does not parse is rejected
C18_ParseRule == (LoadDone /\ lab.doc.k # "tree") => lab.out = "rejected" /\ lab.failedAt \in {"parse", "call"}
=============================================================================
