CONSTANTS
  Objects <- MCObjects
  Paths <- MCPaths
  PathOf <- MCPathOf
  MaxRef = 2
  MaxGen = 2
  CacheBadKey = FALSE
  ExtBad = {"empty", "short", "keylf", "hex"}
INIT Init
NEXT Next
VIEW View
ACTION_CONSTRAINT Export
CONSTRAINT PInit
