---- MODULE Trace_Stubs ----
(* Trace specification for C20 (code -> spec).  Each trace is
       [init |-> [schema |-> descriptor], events |-> << e1, e2, ... >>]
   recorded from the real library by a seeded random driver (schemas over every field kind of
   CincoStubs, custom fields and annotations over function-local / nested classes included):
   NewConfig / Touch / AddDyn / GenStub calls
   with, for GenStub, the abstract content of the stub that generate_stub really returned (read
   back with ast), whether deep snapshots of the schema and of the configurations were equal
   before and after, and after every call the projected heap and everything written to stdout.
   Every event must be a step of the named action of CincoStubs with the logged arguments, the
   logged result must be the specification's, and the C20 predicates are evaluated on the
   OBSERVED values. *)
EXTENDS CincoStubs, Json, IOUtils, TLCExt

Traces == JsonDeserialize(IOEnv.TRACE_FILE)

VARIABLES tid, l
tvars == <<vars, tid, l>>

\* JSON has no sets
FixM(m)   == [m EXCEPT !.kwonly = Range(@)]
FixRes(r) == [class    |-> r.class,
              nclasses |-> r.nclasses,
              attrs    |-> Range(r.attrs),
              attrok   |-> r.attrok,
              ctor     |-> [ok |-> r.ctor.ok, params |-> Range(r.ctor.params)],
              methods  |-> {FixM(r.methods[i]) : i \in DOMAIN r.methods}]
FixHeap(h) == [i \in DOMAIN h |-> [via |-> h[i].via, set |-> Range(h[i].set), dyn |-> Range(h[i].dyn)]]

TraceInit ==
    /\ tid \in 1..Len(Traces)
    /\ l = 1
    /\ InitWith(Traces[tid].init.schema)

Ev == Traces[tid].events[l]

Step(e) ==
    CASE e.op = "NewConfig" -> NewConfig(e.via)
      [] e.op = "Touch"     -> Touch(e.c, e.k)
      [] e.op = "AddDyn"    -> AddDyn(e.c, e.k)
         \* the run-time fields the logged stub declares select the instance of GenStub
      [] e.op = "GenStub"   -> IF e.out = "ok"
                               THEN GenStubWith(e.target, e.c,
                                                Range(e.res.attrs) \cap FreeKeys(e.target, e.c),
                                                Range(e.res.ctor.params) \cap FreeKeys(e.target, e.c))
                               ELSE GenStubWith(e.target, e.c, {}, {})

TraceNext ==
    /\ l <= Len(Traces[tid].events)
    /\ Step(Ev)
    /\ l' = l + 1
    /\ UNCHANGED tid

IsGen(e) == e.op = "GenStub"

\* logged observations that differ from the specification's step
BadObs ==
    LET e == Ev IN
    {n \in {"wf", "out", "res", "heap", "stdout", "skeys", "fresh"} :
        CASE n = "wf"     -> ~SchemaWF(schema)
          [] n = "out"    -> ev'.out # e.out
          [] n = "res"    -> IsGen(e) /\ e.out = "ok" /\ FixRes(e.res) # ev'.res
          [] n = "heap"   -> heap' # FixHeap(e.heap)
          [] n = "stdout" -> stdout' # e.stdout
          [] n = "skeys"  -> e.skeys # KeySeq(schema)
          [] n = "fresh"  -> e.fresh # KeySeq(schema)}

\* the property's own predicates on the observed result / states.  (The specification's current
\* state equals the previously logged one: a trace is only followed while bo = {}.)
BadInv ==
    LET e == Ev IN
    {n \in {"C20_Valid", "C20_Complete", "C20_NoSideEffect", "C20_Quiet"} :
        CASE n = "C20_Valid"        -> IsGen(e) /\ ~(e.out = "ok" /\ P_Valid(FixRes(e.res)))
          [] n = "C20_Complete"     -> IsGen(e) /\ e.out = "ok"
                                       /\ ~P_Complete(schema, FixRes(e.res), FreeKeys(e.target, e.c))
          [] n = "C20_NoSideEffect" -> IsGen(e) /\ ~P_NoSideEffect(heap, FixHeap(e.heap), stdout, e.stdout,
                                                                    KeySeq(schema), e.skeys, e.fresh, e.extra)
          [] n = "C20_Quiet"        -> e.stdout # <<>>}

Report ==
    LET bo == BadObs
        bi == BadInv
        rec == IF bo = {}
               THEN [t |-> tid, l |-> l, bo |-> bo, bi |-> bi]
               ELSE [t |-> tid, l |-> l, bo |-> bo, bi |-> bi, m |-> [ev |-> ev', heap |-> heap', stdout |-> stdout']]
    IN  /\ PrintT(<<"TRACE", ToJson(rec)>>)
        /\ bo = {} /\ bi = {}

TraceView == <<tid, l, heap, stdout>>
====
