---- MODULE Trace_Include ----
(* code -> spec for C18 (and the document-load clause of C06): every case logged from the real
   library - one combine_trees call, or one Config.load(s) call on real files - is judged by
   TLC with the specification's operators and the property's predicates evaluated on the
   OBSERVED values.  One initial state per case; one verdict line per case.

     merge case  [k |-> "merge", base, child, res, baseAfter, childAfter]
     load case   [k |-> "load", S, fs, pre, doc, out, cfg0, cfg, repl]
                 cfg0 / cfg: the configuration projected before / after the call,
                 repl: paths of nested configurations whose object changed             *)
EXTENDS CincoInclude, Json, IOUtils

Cases == JsonDeserialize(IOEnv.TRACE_FILE)

VARIABLE tid

\* JSON has no sets: dflt arrives as a sequence
RECURSIVE FixCfg(_)
FixCfg(c) ==
    [t |-> "cfg",
     kv |-> [i \in DOMAIN c.kv |-> <<c.kv[i][1], IF c.kv[i][2].t = "cfg" THEN FixCfg(c.kv[i][2]) ELSE c.kv[i][2]>>],
     dflt |-> Range(c.dflt)]

MergeVerdict(c) ==
    [t |-> tid, skip |-> FALSE,
     bad |-> {n \in {"C18_MergeLaw", "C18_Pure", "result"} :
                CASE n = "C18_MergeLaw" -> ~MergeLaw(c.base, c.child, c.res)
                  [] n = "C18_Pure"     -> ~(P_Pure(c.base, c.baseAfter) /\ P_Pure(c.child, c.childAfter))
                  [] n = "result"       -> ~SameTree(Merge(c.base, c.child), c.res)},
     m |-> [res |-> Merge(c.base, c.child)]]

LoadVerdict(c) ==
    LET S      == c.S
        fs     == c.fs
        cfg0   == FixCfg(c.cfg0)
        cfg    == FixCfg(c.cfg)
        model0 == LoadTreeOp(S, Default(S), c.pre, fs, <<>>)
        parsed == c.doc.k = "tree"
        r1     == IF parsed THEN ProcIncs(S, c.doc.v, fs, <<>>) ELSE ProcRes(FALSE, NoneV, "parse", <<>>)
        r2     == IF r1.ok THEN LoadTreeOp(S, cfg0, r1.tree, fs, <<>>) ELSE LoadRes(FALSE, cfg0, {}, FALSE)
        mout   == IF r1.ok /\ r2.ok THEN "ok" ELSE "rejected"
        early  == ~r1.ok                          \* failed in the parser or in include resolution
        d      == IF parsed THEN Decl(S, c.doc.v, fs) ELSE Bad
        ref    == IF d.ok THEN LoadTreeOp(S, cfg0, d.tree, fs, <<>>) ELSE LoadRes(FALSE, cfg0, {}, FALSE)
    IN  IF model0.unmodelled \/ r2.unmodelled \/ ref.unmodelled
        THEN [t |-> tid, skip |-> TRUE, bad |-> {}, m |-> [out |-> mout]]
        ELSE
        [t |-> tid, skip |-> FALSE,
         bad |-> {n \in {"pre", "out", "cfg", "C06_LoadUnchanged", "C18_Equivalent", "C18_PathRule"} :
                    CASE n = "pre" -> ~(model0.ok /\ SameCfg(model0.cfg, cfg0))
                      [] n = "out" -> c.out # mout
                      [] n = "cfg" -> c.out = "ok" /\ mout = "ok" /\ ~SameCfg(r2.cfg, cfg)
                      [] n = "C06_LoadUnchanged" ->
                            early /\ c.out = "rejected" /\ ~P_Unchanged(cfg0, cfg, Range(c.repl))
                      [] n = "C18_Equivalent" ->
                            parsed /\ (IF d.ok THEN ~P_Equivalent(c.out, cfg, IF ref.ok THEN "ok" ELSE "rejected", ref.cfg)
                                       ELSE c.out # "rejected")
                      [] n = "C18_PathRule" -> ~P_PathRule(r1.used, c.out)},
         m |-> [out |-> mout, why |-> r1.why, early |-> early, cfg |-> r2.cfg, defined |-> d.ok]]

Verdict(c) == IF c.k = "merge" THEN MergeVerdict(c) ELSE LoadVerdict(c)

TraceInit == tid \in 1..Len(Cases)
TraceNext == FALSE /\ UNCHANGED tid
PVerdict == PrintT(<<"TRACE", ToJson(Verdict(Cases[tid]))>>)
====
