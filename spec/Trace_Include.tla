---- MODULE Trace_Include ----
(* code -> spec for C18 (and the document-load clause of C06): every case logged from the real
   library - one combine_trees call, or one Config.load(s) call on real files - is judged by
   TLC with the specification's operators and the property's predicates evaluated on the
   OBSERVED values.  One initial state per case; one verdict line per case.

     merge case  [k |-> "merge", base, child, res, baseAfter, childAfter]
     load case   [k |-> "load", S, fs, pre, doc, out, cfg0, cfg, repl (, via, opt)]
                 cfg0 / cfg: the configuration projected before / after the call,
                 repl: paths of nested configurations whose object changed,
                 via: "load" | "loads" (default), opt: format and formatter options the
                 call was given (default: none, any format)                            *)
EXTENDS CincoInclude, Json, IOUtils

Cases == JsonDeserialize(IOEnv.TRACE_FILE)

VARIABLE tid

\* JSON has no sets: dflt arrives as a sequence
RECURSIVE FixCfg(_)
FixCfg(c) ==
    [t |-> "cfg",
     kv |-> [i \in DOMAIN c.kv |-> <<c.kv[i][1], IF c.kv[i][2].t = "cfg" THEN FixCfg(c.kv[i][2]) ELSE c.kv[i][2]>>],
     dflt |-> Range(c.dflt)]

MergeVerdict(c) ==
    [t |-> tid, skip |-> FALSE,
     bad |-> {n \in {"C18_MergeLaw", "C18_Pure", "result"} :
                CASE n = "C18_MergeLaw" -> ~MergeLaw(c.base, c.child, c.res)
                  [] n = "C18_Pure"     -> ~(P_Pure(c.base, c.baseAfter) /\ P_Pure(c.child, c.childAfter))
                  [] n = "result"       -> ~SameTree(Merge(c.base, c.child), c.res)},
     m |-> [res |-> Merge(c.base, c.child)]]

OptOf(c) == IF "opt" \in DOMAIN c THEN c.opt ELSE DefOpt("any")
ViaOf(c) == IF "via" \in DOMAIN c THEN c.via ELSE "loads"

LoadVerdict(c) ==
    LET S      == c.S
        fs     == c.fs
        o      == OptOf(c)
        cfg0   == FixCfg(c.cfg0)
        cfg    == FixCfg(c.cfg)
        model0 == LoadTreeOp(S, Default(S), c.pre, fs, <<>>)
        parsed == c.doc.k = "tree"
        m      == RunLoad(S, cfg0, ViaOf(c), o, c.doc, fs)
        called == m.failedAt # "call"
        early  == m.failedAt \in {"call", "parse", "include"}   \* failed before load_tree
        d      == IF parsed /\ called THEN DeclDoc(S, o, TagOf(c.doc), c.doc.v, fs) ELSE Bad
        ref    == IF d.ok THEN LoadTreeOp(S, cfg0, d.tree, fs, <<>>) ELSE LoadRes(FALSE, cfg0, {}, FALSE)
        twin   == RunLoad(S, cfg0, "loads", DefOpt("any"), PlainDoc(o, c.doc), PlainFs(o, fs))
    IN  IF model0.unmodelled \/ m.unmodelled \/ ref.unmodelled
        THEN [t |-> tid, skip |-> TRUE, bad |-> {}, m |-> [out |-> m.out]]
        ELSE
        [t |-> tid, skip |-> FALSE,
         bad |-> {n \in {"pre", "out", "cfg", "C06_LoadUnchanged", "C18_Equivalent", "C18_OptionsUniform", "C18_PathRule"} :
                    CASE n = "pre" -> ~(model0.ok /\ SameCfg(model0.cfg, cfg0))
                      [] n = "out" -> c.out # m.out
                      [] n = "cfg" -> c.out = "ok" /\ m.out = "ok" /\ ~SameCfg(m.cfg, cfg)
                      [] n = "C06_LoadUnchanged" ->
                            early /\ c.out = "rejected" /\ ~P_Unchanged(cfg0, cfg, Range(c.repl))
                      [] n = "C18_Equivalent" ->
                            parsed /\ called
                            /\ (IF d.ok THEN ~P_Equivalent(c.out, cfg, IF ref.ok THEN "ok" ELSE "rejected", ref.cfg)
                                ELSE c.out # "rejected")
                      [] n = "C18_OptionsUniform" -> called /\ ~P_Equivalent(c.out, cfg, twin.out, twin.cfg)
                      [] n = "C18_PathRule" -> ~P_PathRule(m.used, c.out)},
         m |-> [out |-> m.out, why |-> m.why, failedAt |-> m.failedAt, early |-> early, cfg |-> m.cfg, defined |-> d.ok]]

Verdict(c) == IF c.k = "merge" THEN MergeVerdict(c) ELSE LoadVerdict(c)

TraceInit == tid \in 1..Len(Cases)
TraceNext == FALSE /\ UNCHANGED tid
PVerdict == PrintT(<<"TRACE", ToJson(Verdict(Cases[tid]))>>)
====
