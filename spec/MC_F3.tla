---- MODULE MC_F3 ----
EXTENDS MC_Formats
VARIABLE x
I3 == x = Cardinality(MCTrees) /\ PrintT(x)
N3 == FALSE /\ UNCHANGED x
====
