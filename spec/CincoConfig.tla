---------------------------- MODULE CincoConfig ----------------------------
(***************************************************************************)
(* cincoconfig.core.Config as a state machine over abstract values.        *)
(*                                                                         *)
(* A schema is a descriptor tree (constant); a configuration is a value    *)
(*     [t |-> "cfg", vals |-> [key |-> value], dflt |-> {keys still at     *)
(*      their default}, dyn |-> <<dynamically added keys>>]                *)
(* whose values may again be configurations (sub-schemas, config types)    *)
(* or lists of configurations.  Every public route that changes a          *)
(* configuration is one operator here, written like the code               *)
(* (core.py, fields/list_field.py, fields/dict_field.py, support.py):      *)
(*                                                                         *)
(*   SetValue     Config._set_value      (attribute / item assignment)     *)
(*   SetPath      Config.__setitem__     (dotted path walk)                *)
(*   Construct    Config.__init__        (keywords, then defaults)         *)
(*   LoadTree     Config.load_tree       (to_python, _set_value per key,   *)
(*                                        then validate; partial on error) *)
(*   ValidateCfg  Schema._validate       (feature flag, fields, validators)*)
(*   ResetValue   support.reset_value                                      *)
(*   ListOp/DictOp  ListProxy / DictProxy methods                          *)
(*   Override     support.cmdline_args_override                            *)
(*                                                                         *)
(* Each returns  [ok, cfg, err, repl]: the outcome, the configuration      *)
(* afterwards (also when the call raised: some routes are not atomic),     *)
(* the exception (class and reference path) and the set of paths whose     *)
(* nested configuration OBJECT was replaced (identity is observed by the   *)
(* harness through this set instead of threading object ids).              *)
(***************************************************************************)
EXTENDS CincoFields

CONSTANTS Environ,      \* process environment: [name (character sequence) |-> value (character sequence)]
          KeyNames,     \* all field keys used by the instance (TLA+ strings) ...
          KeyChars      \* ... and their spelling as character sequences: [KeyNames -> Seq(char)]

---------------------------------------------------------------------------
(* schema descriptors *)
SchemaF(fields) ==
    [kind |-> "schema", fields |-> fields, dynamic |-> FALSE, ctype |-> FALSE,
     flagkey |-> "", validators |-> <<>>, senv |-> EnvInherit, fname |-> ""]
\* list item that is a schema / config type:  ListF(SchemaF(...))
VirtualF == [kind |-> "virtual"]        \* VirtualField / InstanceMethodField: no stored value
\* kinds of computed fields (vk; a plain VirtualF is "const": its getter returns VirtualValue):
\*   alias  - VirtualField(getter = cfg.<target>, setter = cfg.<target> := value)
\*   modeis - the is_<mode>_mode helper an ApplicationModeField adds next to itself
\*   method - InstanceMethodField: calling it returns the value of <target>; never assignable
AliasF(target)   == [kind |-> "virtual", vk |-> "alias", target |-> target]
ModeIsF(of, val) == [kind |-> "virtual", vk |-> "modeis", of |-> of, val |-> val, auto |-> TRUE]
MethodF(target)  == [kind |-> "virtual", vk |-> "method", target |-> target, imethod |-> TRUE]
VKind(f) == IF "vk" \in DOMAIN f THEN f.vk ELSE "const"

IsSchema(f)  == f.kind = "schema"
IsLeaf(f)    == f.kind \notin {"schema", "virtual", "nofield"}
Keys(S)      == [i \in DOMAIN S.fields |-> S.fields[i][1]]
HasField(S, k) == \E i \in DOMAIN S.fields : S.fields[i][1] = k
FieldOf(S, k)  == S.fields[CHOOSE i \in DOMAIN S.fields : S.fields[i][1] = k][2]

CfgV(vals, dflt, dyn) == [t |-> "cfg", vals |-> vals, dflt |-> dflt, dyn |-> dyn]
IsCfg(v) == v.t = "cfg"

\* function update that may extend the domain
Put(fn, k, v) == [x \in DOMAIN fn \cup {k} |-> IF x = k THEN v ELSE fn[x]]

Err(cls, path) == [cls |-> cls, path |-> path]
NoErr == [cls |-> "none", path |-> <<>>]
\* .log: schema validators invoked during the call, as <<path, name>> pairs
ResL(ok, cfg, err, repl, log) == [ok |-> ok, cfg |-> cfg, err |-> err, repl |-> repl, log |-> log]
Res(ok, cfg, err, repl) == ResL(ok, cfg, err, repl, {})

---------------------------------------------------------------------------
(* environment binding (core.py Field.__setkey__ / Schema.__setkey__):
   Bind(S, prefix) resolves, top-down, the variable name of every field.
   senv / env:  EnvInherit (None) | EnvAuto (True) | EnvOff (False) | EnvName(<<"N","A","M","E">>) *)
IsName(e) == e.m = "name"
\* the prefix a root schema starts with: Schema(env=True) -> "", Schema(env="P") -> "P", else none
PNone == [has |-> FALSE, p |-> <<>>]           \* no string prefix (None / False)
PStr(x) == [has |-> TRUE, p |-> x]
RootPrefix(Sx) == IF Sx.senv.m = "auto" THEN PStr(<<>>) ELSE IF Sx.senv.m = "name" THEN PStr(Sx.senv.n) ELSE PNone
RECURSIVE Bind(_, _)
\* prefix: PNone when the owning schema has no string prefix, else PStr(character sequence)
Bind(S, prefix) ==
    [S EXCEPT !.fields = [i \in DOMAIN S.fields |->
        LET k == S.fields[i][1]
            f == S.fields[i][2]
            up == Upper(KeyChars[k])
            pre == IF ~prefix.has \/ prefix.p = <<>> THEN <<>> ELSE prefix.p \o <<"_">>
        IN  IF f.kind = "schema" THEN
                LET own == IF f.ctype THEN PNone      \* a config type's schema is bound on its own
                           ELSE CASE f.senv.m = "off"     -> PNone
                             [] f.senv.m = "auto"    -> PStr(<<>>)
                             [] f.senv.m = "inherit" -> IF ~prefix.has THEN PNone ELSE PStr(pre \o up)
                             [] OTHER                -> PStr(f.senv.n)
                IN  <<k, Bind(f, own)>>
            ELSE IF ~IsLeaf(f) THEN <<k, f>>
            ELSE
                LET name == CASE f.env.m = "off"     -> <<>>
                              [] f.env.m = "auto"    -> pre \o up
                              [] f.env.m = "inherit" -> IF ~prefix.has THEN <<>> ELSE pre \o up
                              [] OTHER               -> f.env.n
                IN  <<k, f @@ [envname |-> name]>>]]

EnvValue(f) ==
    IF "envname" \in DOMAIN f /\ f.envname # <<>> /\ f.envname \in DOMAIN Environ
    THEN Environ[f.envname] ELSE <<>>
\* a non-empty variable is set for this field
EnvBound(f) == EnvValue(f) # <<>>

---------------------------------------------------------------------------
(* key files (core.py Config._keyfile): a configuration uses the key file it names itself
   (root: Config(schema, key_filename=...); config type: make_type(..., key_filename=...)),
   else its parent's, else the default ~/.cincokey.  BindKeys resolves this statically over
   the schema tree: every schema node gets nkey = name of the key file its configurations use. *)
RECURSIVE BindKeys(_, _)
BindKeys(S, inherited) ==
    LET own == IF "keyfile" \in DOMAIN S /\ S.keyfile # "" THEN S.keyfile ELSE inherited IN
    [S EXCEPT !.fields = [i \in DOMAIN S.fields |->
        LET k == S.fields[i][1]  f == S.fields[i][2] IN
        IF f.kind = "schema" THEN <<k, BindKeys(f, own)>>
        ELSE IF f.kind = "list" /\ f.item.kind = "schema" THEN <<k, [f EXCEPT !.item = BindKeys(f.item, own)]>>
        ELSE <<k, f>>]] @@ [nkey |-> own]
NKey(S) == IF "nkey" \in DOMAIN S THEN S.nkey ELSE "default"

---------------------------------------------------------------------------
(* defaults (the __setdefault__ of each field class) *)
RECURSIVE NewItems(_, _, _, _, _)
LeafDefault(f) ==
    LET d == f.default IN
    \* (a tuple default is stored like an assigned tuple: as a list)
    CASE f.kind = "list" /\ d.t \in {"list", "tuple"} ->
            IF f.item.kind \in {"nofield"} THEN Ok(ListV(d.l))
            ELSE IF f.item.kind = "schema" THEN
                \* ListProxy(cfg, field, default): every dict becomes a new item configuration
                LET r == NewItems(f.item, d.l, <<>>, 1, <<>>) IN
                IF r.ok THEN Ok(r.cfg) ELSE Fail("ValidationError")
            ELSE ValidateItems(f.item, d.l, <<>>)
      [] f.kind = "dict" /\ d.t = "dict" ->
            IF f.keyf.kind = "nofield" /\ f.valf.kind = "nofield" THEN Ok(d)
            ELSE ValidatePairs(f, d.kv, <<>>)
      \* ChallengeField.__setdefault__: a text default is stored as its salted digest
      [] f.kind = "challenge" /\ d.t = "str" -> Ok(DigestV(f.alg, d))
      [] OTHER -> Ok(d)

\* Field.__setdefault__: a non-empty environment variable is validated and wins
FieldDefault(f) ==
    IF EnvBound(f) /\ f.kind \notin {"list", "dict"}
    THEN LET r == Validate(f, StrV(EnvValue(f))) IN
         IF r.ok /\ ~IsNone(r.v) THEN r
         ELSE IF r.ok THEN LeafDefault(f) ELSE r
    ELSE LeafDefault(f)

RECURSIVE DefaultCfg(_, _)
\* returns [ok, cfg, err]; construction fails if an environment variable is invalid
DefaultCfg(S, path) ==
    LET ks == Keys(S)
        stored == {i \in DOMAIN S.fields : S.fields[i][2].kind # "virtual"}
        sub(i) == LET f == S.fields[i][2] IN
                  IF IsSchema(f) THEN DefaultCfg(f, Append(path, ks[i]))
                  ELSE LET r == FieldDefault(f) IN
                       IF r.ok THEN [ok |-> TRUE, cfg |-> r.v, err |-> NoErr]
                       ELSE [ok |-> FALSE, cfg |-> NoneV, err |-> Err("ValidationError", Append(path, ks[i]))]
        bad == {i \in stored : ~sub(i).ok}
    IN  IF bad # {}
        THEN [ok |-> FALSE, cfg |-> NoneV, err |-> sub(CHOOSE i \in bad : \A j \in bad : i <= j).err]
        ELSE [ok |-> TRUE,
              cfg |-> CfgV([k \in {ks[i] : i \in stored} |-> sub(CHOOSE i \in stored : ks[i] = k).cfg],
                           {ks[i] : i \in stored}, <<>>),
              err |-> NoErr]

---------------------------------------------------------------------------
(* validators: a small catalogue, named in S.validators; evaluated on a configuration *)
ValidatorOk(name, c) ==
    CASE name = "always_ok"   -> TRUE
      [] name = "always_fail" -> FALSE
      [] name = "x_lt_y"      -> \/ ~({"x", "y"} \subseteq DOMAIN c.vals)
                                 \/ c.vals["x"].t # "int" \/ c.vals["y"].t # "int"
                                 \/ c.vals["x"].i < c.vals["y"].i
      [] name = "needs_x"     -> "x" \in DOMAIN c.vals /\ ~IsNone(c.vals["x"])
      [] name = "needs_key"   -> "key" \in DOMAIN c.vals /\ ~IsNone(c.vals["key"])
      [] name = "host_not_x"  -> ~("host" \in DOMAIN c.vals /\ c.vals["host"] = StrV(<<"x">>))
      [] name = "x_not_3"     -> ~("x" \in DOMAIN c.vals /\ c.vals["x"] = IntV(3))

---------------------------------------------------------------------------
RECURSIVE ValidateCfgL(_, _, _, _)
RECURSIVE LoadTree(_, _, _, _, _)
RECURSIVE LoadPairs(_, _, _, _)
RECURSIVE SetValue(_, _, _, _, _)

\* Schema._validate in raising mode: first error wins.  vlog: validators run (path, name)
FeatureOn(S, c) ==
    S.flagkey = "" \/ (S.flagkey \in DOMAIN c.vals /\ Truthy(c.vals[S.flagkey]))

\* Fields in declaration order (a nested configuration validates itself completely, its own
\* validators last), then the schema's validators in registration order; the first failure
\* ends the run.  .log = the validators invoked so far, as <<path, name>> pairs.
RECURSIVE VFields(_, _, _, _, _)
RECURSIVE VVals(_, _, _, _, _)
VRes(ok, err, log) == [ok |-> ok, err |-> err, log |-> log]
ValidateCfgL(S, c, path, log) ==
    IF ~FeatureOn(S, c) THEN VRes(TRUE, NoErr, log)
    ELSE LET f == VFields(S, c, path, 1, log) IN
         IF ~f.ok THEN f ELSE VVals(S, c, path, 1, f.log)
VFields(S, c, path, i, log) ==
    IF i > Len(S.fields) THEN VRes(TRUE, NoErr, log)
    ELSE
    LET k == S.fields[i][1]  f == S.fields[i][2]
        r == IF f.kind = "virtual" THEN VRes(TRUE, NoErr, log)
             ELSE IF IsSchema(f) THEN
                 (IF IsCfg(c.vals[k]) THEN ValidateCfgL(f, c.vals[k], Append(path, k), log) ELSE VRes(TRUE, NoErr, log))
             ELSE IF f.kind = "list" /\ IsSchema(f.item) THEN
                 \* ListField.validate re-wraps the existing typed list without looking at its
                 \* items: only the list-level rules are checked here
                 (IF IsNone(c.vals[k]) THEN (IF f.required THEN VRes(FALSE, Err("ValidationError", Append(path, k)), log) ELSE VRes(TRUE, NoErr, log))
                  ELSE IF c.vals[k].t # "list" THEN VRes(FALSE, Err("ValidationError", Append(path, k)), log)
                  ELSE IF f.required /\ c.vals[k].l = <<>> THEN VRes(FALSE, Err("ValidationError", Append(path, k)), log)
                  ELSE VRes(TRUE, NoErr, log))
             ELSE LET v == Validate(f, c.vals[k]) IN
                  IF v.ok THEN VRes(TRUE, NoErr, log) ELSE VRes(FALSE, Err("ValidationError", Append(path, k)), log)
    IN  IF r.ok THEN VFields(S, c, path, i + 1, r.log) ELSE r
VVals(S, c, path, j, log) ==
    IF j > Len(S.validators) THEN VRes(TRUE, NoErr, log)
    ELSE LET log2 == log \cup {<<path, S.validators[j]>>} IN
         IF ValidatorOk(S.validators[j], c) THEN VVals(S, c, path, j + 1, log2)
         ELSE VRes(FALSE, Err("ValidationError", path), log2)
ValidateCfg(S, c, path) == ValidateCfgL(S, c, path, {})

\* ListProxy._validate for a schema / config type item: dict -> new item config + load_tree
\* (which validates); Config -> adopted, validated
NewItem(itemS, v, path) ==
    IF v.t = "dict" THEN
        LET d == DefaultCfg(itemS, path) IN
        IF ~d.ok THEN Res(FALSE, NoneV, d.err, {})
        ELSE LoadTree(itemS, d.cfg, v, path, TRUE)
    ELSE IF v.t = "cfgobj" THEN
        LET r == ValidateCfg(itemS, v.c, path) IN
        ResL(r.ok, v.c, r.err, {}, r.log)
    \* not a map and not a configuration: a plain ValueError, wrapped by the caller with the
    \* path of the list field itself (there is no configuration whose index could be named)
    ELSE Res(FALSE, NoneV, Err("ValueError", SubSeq(path, 1, Len(path) - 1)), {})

NewItems(itemS, l, path, n, acc) ==
    IF l = <<>> THEN Res(TRUE, ListV(acc), NoErr, {})
    ELSE LET r == NewItem(itemS, Head(l), Append(path, <<"#", n>>)) IN
         IF r.ok THEN LET rest == NewItems(itemS, Tail(l), path, n + 1, Append(acc, r.cfg)) IN
                      ResL(rest.ok, rest.cfg, rest.err, {}, r.log \cup rest.log)
         ELSE ResL(FALSE, NoneV, r.err, {}, r.log)

\* any exception of a field is wrapped into the library's ValidationError; "Unmodelled" marks
\* inputs whose treatment the specification does not describe (conformance skips them)
WrapCls(r) == IF r.err = "Unmodelled" THEN "Unmodelled" ELSE "ValidationError"

\* reference path of a rejected entry of a typed dict: the field's path followed by [key]
\* (DictProxy._validate raises the library's error itself, naming the raw key)
FirstBadKey(f, kv) ==
    LET bad == {i \in DOMAIN kv : ~Validate(f.keyf, kv[i][1]).ok \/ ~Validate(f.valf, kv[i][2]).ok} IN
    kv[CHOOSE i \in bad : \A j \in bad : i <= j][1]
DictErrPath(f, v, path, r) ==
    IF f.kind = "dict" /\ ~r.ok /\ r.err = "ValidationError" /\ v.t = "dict"
    THEN Append(path, <<"@", FirstBadKey(f, v.kv)>>) ELSE path

\* validation of a value for a leaf field, including lists of configurations
LeafValidate(f, v, path) ==
    IF f.kind = "list" /\ IsSchema(f.item) THEN
        IF f.required /\ IsNone(v) THEN Res(FALSE, NoneV, Err("ValidationError", path), {})
        ELSE IF IsNone(v) THEN Res(TRUE, v, NoErr, {})
        ELSE IF v.t \notin {"list", "tuple"} THEN Res(FALSE, NoneV, Err("ValidationError", path), {})
        ELSE IF f.required /\ v.l = <<>> THEN Res(FALSE, NoneV, Err("ValidationError", path), {})
        ELSE LET r == NewItems(f.item, v.l, path, 1, <<>>) IN
             IF r.ok THEN r ELSE ResL(FALSE, NoneV, Err("ValidationError", r.err.path), {}, r.log)
    ELSE LET r == Validate(f, v) IN
         IF r.ok THEN Res(TRUE, r.v, NoErr, {}) ELSE Res(FALSE, NoneV, Err(WrapCls(r), DictErrPath(f, v, path, r)), {})

\* Config._set_value(key, value) on configuration c of schema S located at `path`
SetValue(S, c, k, v, path) ==
    LET here == Append(path, k) IN
    IF ~HasField(S, k) /\ k \notin Range(c.dyn) THEN
        IF ~S.dynamic THEN Res(FALSE, c, Err("AttributeError", here), {})
        ELSE \* a new AnyField is registered on the configuration and accepts anything
             Res(TRUE, [c EXCEPT !.vals = Put(@, k, v), !.dyn = Append(@, k), !.dflt = @ \ {k}], NoErr, {})
    ELSE IF ~HasField(S, k) THEN
        Res(TRUE, [c EXCEPT !.vals = Put(@, k, v), !.dflt = @ \ {k}], NoErr, {})
    ELSE
    LET f == FieldOf(S, k) IN
    IF f.kind = "virtual" THEN
        \* validate() passes any value; __setval__ calls the setter or raises TypeError (read-only)
        (IF VKind(f) = "alias"
         THEN LET r == SetValue(S, c, f.target, v, path) IN ResL(r.ok, r.cfg, r.err, r.repl, r.log)
         ELSE Res(FALSE, c, Err("TypeError", here), {}))
    ELSE IF IsLeaf(f) THEN
        LET r == LeafValidate(f, v, here) IN
        IF r.ok THEN ResL(TRUE, [c EXCEPT !.vals = Put(@, k, r.cfg), !.dflt = @ \ {k}], NoErr, {}, r.log)
        ELSE ResL(FALSE, c, r.err, {}, r.log)
    ELSE \* sub-schema or config type
    IF v.t = "cfgobj" THEN
        Res(TRUE, [c EXCEPT !.vals = Put(@, k, v.c), !.dflt = @ \ {k}], NoErr, {here})
    ELSE IF v.t = "dict" THEN
        LET d == DefaultCfg(f, here) IN
        IF ~d.ok THEN Res(FALSE, c, d.err, {})
        ELSE LET r == LoadTree(f, d.cfg, v, here, TRUE) IN
             IF r.ok THEN ResL(TRUE, [c EXCEPT !.vals = Put(@, k, r.cfg), !.dflt = @ \ {k}], NoErr, {here}, r.log)
             ELSE ResL(FALSE, c, r.err, {}, r.log)
    ELSE Res(FALSE, c, Err("ValidationError", here), {})

\* Config.load_tree(tree, validate): keys in document order; NOT atomic
LoadPairs(S, c, kv, path) ==
    IF kv = <<>> THEN Res(TRUE, c, NoErr, {})
    ELSE
    LET kk == Head(kv)[1]
        v  == Head(kv)[2]
    IN  IF kk.t # "str" THEN Res(FALSE, c, Err("AttributeError", path), {})
        ELSE
        LET k == CHOOSE s \in KeyNames : KeyChars[s] = kk.s
            known == \E s \in KeyNames : KeyChars[s] = kk.s
        IN  IF ~known THEN
                \* an unknown key: AttributeError, or a new dynamic field (not modelled: the
                \* candidate trees only use declared keys plus one unknown key "zz")
                Res(FALSE, c, Err("AttributeError", path), {})
            ELSE
            LET leaf == HasField(S, k) /\ IsLeaf(FieldOf(S, k))
                f == FieldOf(S, k)
            IN  IF leaf /\ EnvBound(f) THEN LoadPairs(S, c, Tail(kv), path)     \* variable wins: key skipped
                ELSE
                LET py == IF leaf /\ ~(f.kind = "list" /\ IsSchema(f.item)) THEN ToPythonK(f, v, NKey(S))
                          \* ListField(schema).to_python: ListProxy(cfg, f, None) is the empty list;
                          \* the items are turned into configurations by the validation that follows
                          ELSE IF leaf /\ ~Truthy(v) THEN Ok(ListV(<<>>))
                          ELSE Ok(v) IN
                IF ~py.ok THEN Res(FALSE, c, Err(WrapCls(py), DictErrPath(f, v, Append(path, k), py)), {})
                ELSE LET r == SetValue(S, c, k, py.v, path) IN
                     IF ~r.ok THEN r
                     ELSE LET rest == LoadPairs(S, r.cfg, Tail(kv), path) IN
                          ResL(rest.ok, rest.cfg, rest.err, r.repl \cup rest.repl, r.log \cup rest.log)

LoadTree(S, c, tree, path, validate) ==
    LET r == LoadPairs(S, c, tree.kv, path) IN
    IF ~r.ok \/ ~validate THEN r
    ELSE LET vr == ValidateCfg(S, r.cfg, path) IN
         ResL(vr.ok, r.cfg, IF vr.ok THEN NoErr ELSE vr.err, r.repl, r.log \cup vr.log)

---------------------------------------------------------------------------
(* navigation by path (sequence of keys) through nested configurations *)
RECURSIVE SchemaAt(_, _)
SchemaAt(S, p) == IF p = <<>> THEN S ELSE SchemaAt(FieldOf(S, Head(p)), Tail(p))
RECURSIVE CfgAt(_, _)
CfgAt(c, p) == IF p = <<>> THEN c ELSE CfgAt(c.vals[Head(p)], Tail(p))
RECURSIVE PutAt(_, _, _)
PutAt(c, p, new) == IF p = <<>> THEN new
                    ELSE [c EXCEPT !.vals = Put(@, Head(p), PutAt(c.vals[Head(p)], Tail(p), new))]

\* cfg.a.b.key = v  /  cfg["a.b.key"] = v : walk to the owning configuration, then _set_value
SetPath(S, c, p, k, v) ==
    LET r == SetValue(SchemaAt(S, p), CfgAt(c, p), k, v, p) IN
    ResL(r.ok, PutAt(c, p, r.cfg), r.err, r.repl, r.log)

\* Config(schema, **kw): keywords through _set_value first, everything else gets its default.
\* No object results when a keyword is rejected.
Construct(S, kw) ==
    LET d == DefaultCfg(S, <<>>) IN
    IF ~d.ok THEN Res(FALSE, NoneV, d.err, {})
    ELSE
    LET RECURSIVE Apply(_, _)
        Apply(c, pairs) ==
            IF pairs = <<>> THEN Res(TRUE, c, NoErr, {})
            ELSE LET r == SetValue(S, c, Head(pairs)[1], Head(pairs)[2], <<>>) IN
                 IF r.ok THEN Apply(r.cfg, Tail(pairs)) ELSE Res(FALSE, NoneV, r.err, {})
        r == Apply(d.cfg, kw)
        kwkeys == {kw[i][1] : i \in DOMAIN kw}
    IN  IF ~r.ok THEN r
        ELSE \* __init__ applies the keywords first and then gives every field that was not named
             \* its default - also a field a keyword's setter had just written
             Res(TRUE,
                 [r.cfg EXCEPT !.vals = [k \in DOMAIN r.cfg.vals |-> IF k \in kwkeys \/ k \notin DOMAIN d.cfg.vals THEN r.cfg.vals[k] ELSE d.cfg.vals[k]],
                               !.dflt = DOMAIN d.cfg.vals \ kwkeys],
                 NoErr, {})

\* support.reset_value(cfg, "a.b.key")
ResetValue(S, c, p, k) ==
    LET Sp == SchemaAt(S, p)
        cp == CfgAt(c, p)
    IN  IF ~HasField(Sp, k) THEN
            IF k \in Range(cp.dyn)
            THEN \* AnyField.__setdefault__: value None, marked default
                 Res(TRUE, PutAt(c, p, [cp EXCEPT !.vals = Put(@, k, NoneV), !.dflt = @ \cup {k}]), NoErr, {})
            ELSE Res(FALSE, c, Err("AttributeError", Append(p, k)), {})
        ELSE
        LET f == FieldOf(Sp, k) IN
        IF f.kind = "virtual" THEN Res(TRUE, c, NoErr, {})
        ELSE IF IsSchema(f) THEN
            LET d == DefaultCfg(f, Append(p, k)) IN
            IF ~d.ok THEN Res(FALSE, c, d.err, {})
            ELSE Res(TRUE, PutAt(c, p, [cp EXCEPT !.vals = Put(@, k, d.cfg), !.dflt = @ \cup {k}]), NoErr, {Append(p, k)})
        ELSE LET r == FieldDefault(f) IN
             IF ~r.ok THEN Res(FALSE, c, Err("ValidationError", Append(p, k)), {})
             ELSE Res(TRUE, PutAt(c, p, [cp EXCEPT !.vals = Put(@, k, r.v), !.dflt = @ \cup {k}]), NoErr, {})

---------------------------------------------------------------------------
(* typed list / dict values held in a configuration: in-place mutation.  `f` is the
   ListField / DictField, `cur` the stored value, the result is the new stored value. *)
\* pos: number of items the list holds while the item is validated (ListProxy._get_item_position
\* falls back to len(self) for an item that is not in the list yet)
ItemValidate(f, v, path, pos) ==
    IF IsSchema(f.item) THEN NewItem(f.item, v, Append(path, <<"#", pos + 1>>))
    ELSE LET r == Validate(f.item, v) IN
         IF r.ok THEN Res(TRUE, r.v, NoErr, {}) ELSE Res(FALSE, NoneV, Err("ValueError", path), {})

RECURSIVE ItemsValidate(_, _, _, _, _, _)
\* on failure .cfg is the prefix that was validated before the failing item.  grow: the list
\* grows while the items are validated (extend) or not (slice assignment)
ItemsValidate(f, l, path, acc, pos, grow) ==
    IF l = <<>> THEN Res(TRUE, acc, NoErr, {})
    ELSE LET r == ItemValidate(f, Head(l), path, pos) IN
         IF r.ok THEN ItemsValidate(f, Tail(l), path, Append(acc, r.cfg), IF grow THEN pos + 1 ELSE pos, grow)
         ELSE Res(FALSE, acc, r.err, {})

InsertAt(s, i, x) == SubSeq(s, 1, i - 1) \o <<x>> \o SubSeq(s, i, Len(s))
RemoveAt(s, i) == SubSeq(s, 1, i - 1) \o SubSeq(s, i + 1, Len(s))
\* Python index normalisation for insert(i): clamp into 0..len
ClampIns(i, n) == IF i < 0 THEN (IF n + i < 0 THEN 0 ELSE n + i) ELSE (IF i > n THEN n ELSE i)

\* op: [m |-> "append"|"insert"|"setitem"|"extend"|"iadd"|"pop"|"remove_at"|"clear"|"setslice_all", ...]
ListOp(f, cur, op, path) ==
    LET l == cur.l  n == Len(cur.l) IN
    CASE op.m = "append" ->
            LET r == ItemValidate(f, op.v, path, n) IN
            IF r.ok THEN Res(TRUE, ListV(Append(l, r.cfg)), NoErr, {}) ELSE Res(FALSE, cur, r.err, {})
      [] op.m = "insert" ->
            LET r == ItemValidate(f, op.v, path, n) IN
            IF r.ok THEN Res(TRUE, ListV(InsertAt(l, ClampIns(op.i, n) + 1, r.cfg)), NoErr, {})
            ELSE Res(FALSE, cur, r.err, {})
      [] op.m = "setitem" ->
            LET r == ItemValidate(f, op.v, path, n)
                j == IF op.i < 0 THEN n + op.i ELSE op.i
            IN  IF ~r.ok THEN Res(FALSE, cur, r.err, {})
                ELSE IF j < 0 \/ j >= n THEN Res(FALSE, cur, Err("IndexError", path), {})
                ELSE Res(TRUE, ListV([l EXCEPT ![j + 1] = r.cfg]), NoErr, {})
      [] op.m \in {"extend", "iadd"} ->
            \* list.extend(generator): items validated before the failing one are already in
            LET r == ItemsValidate(f, op.vs, path, <<>>, n, TRUE) IN
            Res(r.ok, ListV(l \o r.cfg), r.err, {})
      [] op.m = "setslice_all" ->
            LET r == ItemsValidate(f, op.vs, path, <<>>, n, FALSE) IN
            IF r.ok THEN Res(TRUE, ListV(r.cfg), NoErr, {}) ELSE Res(FALSE, cur, r.err, {})
      [] op.m \in {"slice_from", "extend_from"} ->
            \* target[:] = cfg.<src> / target.extend(cfg.<src>): the source is a typed list of
            \* ANOTHER field, so every item is validated by the target's item field
            LET r == ItemsValidate(f, op.items, path, <<>>, n, op.m = "extend_from") IN
            IF op.m = "slice_from"
            THEN (IF r.ok THEN Res(TRUE, ListV(r.cfg), NoErr, {}) ELSE Res(FALSE, cur, r.err, {}))
            ELSE Res(r.ok, ListV(l \o r.cfg), r.err, {})
      [] op.m = "item_set" ->
            \* cfg.<list>[i].<k> = v : assignment on a configuration held in the list
            IF op.i >= n THEN Res(FALSE, cur, Err("IndexError", path), {})
            ELSE LET r == SetValue(f.item, l[op.i + 1], op.k, op.v, Append(path, <<"#", op.i + 1>>)) IN
                 Res(r.ok, ListV([l EXCEPT ![op.i + 1] = r.cfg]), r.err, {})
      [] op.m = "item_reset" ->
            \* reset_value(cfg.<list>[i], k): no validation, a required field may become unset
            IF op.i >= n THEN Res(FALSE, cur, Err("IndexError", path), {})
            ELSE LET r == ResetValue(f.item, l[op.i + 1], <<>>, op.k) IN
                 Res(r.ok, ListV([l EXCEPT ![op.i + 1] = r.cfg]), r.err, {})
      [] op.m = "setitem_same" ->
            \* lst[i] = lst[i]: the configuration object the list already holds is inserted again
            \* and is held to the rule like any other inserted configuration
            IF op.i >= n THEN Res(FALSE, cur, Err("IndexError", path), {})
            ELSE LET r == NewItem(f.item, [t |-> "cfgobj", c |-> l[op.i + 1]], Append(path, <<"#", op.i + 1>>)) IN
                 IF r.ok THEN Res(TRUE, cur, NoErr, {}) ELSE Res(FALSE, cur, r.err, {})
      [] op.m = "pop" ->
            IF n = 0 THEN Res(FALSE, cur, Err("IndexError", path), {})
            ELSE Res(TRUE, ListV(SubSeq(l, 1, n - 1)), NoErr, {})
      [] op.m = "remove_at" ->
            IF op.i >= n THEN Res(FALSE, cur, Err("IndexError", path), {})
            ELSE Res(TRUE, ListV(RemoveAt(l, op.i + 1)), NoErr, {})
      [] op.m = "clear" -> Res(TRUE, ListV(<<>>), NoErr, {})

PairValidate(f, k, v, path) ==
    LET rk == Validate(f.keyf, k) IN
    IF ~rk.ok THEN Res(FALSE, NoneV, Err("ValidationError", Append(path, <<"@", k>>)), {})
    ELSE LET rv == Validate(f.valf, v) IN
         IF ~rv.ok THEN Res(FALSE, NoneV, Err("ValidationError", Append(path, <<"@", k>>)), {})
         ELSE Res(TRUE, <<rk.v, rv.v>>, NoErr, {})
RECURSIVE PairsValidate(_, _, _, _)
PairsValidate(f, kv, path, acc) ==
    IF kv = <<>> THEN Res(TRUE, acc, NoErr, {})
    ELSE LET r == PairValidate(f, Head(kv)[1], Head(kv)[2], path) IN
         IF r.ok THEN PairsValidate(f, Tail(kv), path, Append(acc, r.cfg)) ELSE r

\* op: [m |-> "setitem"|"update"|"ior"|"setdefault"|"pop"|"clear", ...]
DictOp(f, cur, op, path) ==
    LET kv == cur.kv IN
    CASE op.m = "setitem" ->
            LET r == PairValidate(f, op.k, op.v, path) IN
            IF r.ok THEN Res(TRUE, DictV(DictSet(kv, r.cfg[1], r.cfg[2])), NoErr, {}) ELSE Res(FALSE, cur, r.err, {})
      [] op.m \in {"update", "ior"} ->
            LET r == PairsValidate(f, op.kv, path, <<>>) IN
            IF r.ok THEN Res(TRUE, DictV(DictFromPairs(r.cfg, kv)), NoErr, {}) ELSE Res(FALSE, cur, r.err, {})
      [] op.m = "setdefault" ->
            LET r == PairValidate(f, op.k, op.v, path) IN
            IF ~r.ok THEN Res(FALSE, cur, r.err, {})
            ELSE IF DictHas(kv, r.cfg[1]) THEN Res(TRUE, cur, NoErr, {})
            ELSE Res(TRUE, DictV(Append(kv, r.cfg)), NoErr, {})
      [] op.m = "pop" ->
            IF DictHas(kv, op.k) THEN Res(TRUE, DictV(DictDel(kv, op.k)), NoErr, {})
            ELSE Res(FALSE, cur, Err("KeyError", path), {})
      [] op.m = "clear" -> Res(TRUE, DictV(<<>>), NoErr, {})

\* apply a container operation to the list/dict stored at p.k (the stored object is mutated
\* in place: no default mark changes, no validation of the configuration)
ContainerOp(S, c, p, k, op) ==
    LET f == FieldOf(SchemaAt(S, p), k)
        cp == CfgAt(c, p)
        cur == cp.vals[k]
        here == Append(p, k)
    IN  IF f.kind = "list" /\ cur.t = "list" THEN
            LET op2 == IF op.m \in {"slice_from", "extend_from"}
                       THEN (IF cp.vals[op.src].t = "list" THEN op @@ [items |-> cp.vals[op.src].l]
                             ELSE op @@ [items |-> <<>>])
                       ELSE op
                r == ListOp(f, cur, op2, here) IN
            Res(r.ok, PutAt(c, p, [cp EXCEPT !.vals = Put(@, k, r.cfg)]), r.err, {})
        ELSE IF f.kind = "dict" /\ cur.t = "dict" THEN
            LET r == DictOp(f, cur, op, here) IN
            Res(r.ok, PutAt(c, p, [cp EXCEPT !.vals = Put(@, k, r.cfg)]), r.err, {})
        ELSE Res(FALSE, c, Err("NoContainer", here), {})     \* the value is None: nothing to operate on

---------------------------------------------------------------------------
(* Config.to_tree(virtual, sensitive_mask)  (core.py:1252-1311).  mask: "nomask" or a
   character sequence.  Fields in schema order, then the dynamic fields. *)
RECURSIVE NumLen(_)
NumLen(n) == IF n < 10 THEN 1 ELSE 1 + NumLen(n \div 10)
\* len(str(value)) for the value types the models mark sensitive
StrLen(v) == CASE v.t = "str" -> Len(v.s)
               [] v.t = "int" -> IF v.i < 0 THEN 1 + NumLen(-v.i) ELSE NumLen(v.i)
               [] OTHER -> 1
NoMask == [m |-> "none"]
MaskS(s) == [m |-> "str", s |-> s]
MaskOf(mask, v) == IF Len(mask.s) = 1 THEN StrV([i \in 1..StrLen(v) |-> mask.s[1]]) ELSE StrV(mask.s)
VirtualValue == IntV(42)        \* what the harness's plain virtual field getters return
\* value a computed field shows for configuration c
VirtualOf(f, c) ==
    CASE VKind(f) = "alias"  -> c.vals[f.target]
      [] VKind(f) = "method" -> c.vals[f.target]
      [] VKind(f) = "modeis" -> BoolV(c.vals[f.of] = StrV(f.val))
      [] OTHER -> VirtualValue

RECURSIVE ToTree(_, _, _, _)
ToTree(S, c, virtual, mask) ==
    LET render(f, v) ==
            IF IsCfg(v) THEN ToTree(f, v, virtual, mask)
            ELSE IF f.kind # "nofield" /\ f.sensitive /\ mask.m # "none" THEN
                (IF ~Truthy(v) THEN NoneV ELSE MaskOf(mask, v))
            ELSE IF v.t = "list" /\ v.l # <<>> /\ \A i \in DOMAIN v.l : IsCfg(v.l[i]) THEN
                ListV([i \in DOMAIN v.l |-> ToTree(f.item, v.l[i], virtual, mask)])
            ELSE ToBasicK(f, v, NKey(S))
        one(i) ==
            LET k == S.fields[i][1]  f == S.fields[i][2] IN
            IF f.kind = "virtual" THEN
                (IF virtual /\ ~("imethod" \in DOMAIN f)
                 THEN << <<StrV(KeyChars[k]),
                          IF "sensitive" \in DOMAIN f /\ f.sensitive /\ mask.m # "none" THEN MaskOf(mask, VirtualOf(f, c)) ELSE VirtualOf(f, c)>> >>
                 ELSE <<>>)
            ELSE IF k \notin DOMAIN c.vals THEN <<>>
            ELSE << <<StrV(KeyChars[k]), render(f, c.vals[k])>> >>
        RECURSIVE Walk(_)
        Walk(i) == IF i > Len(S.fields) THEN <<>> ELSE one(i) \o Walk(i + 1)
        dynp == [j \in DOMAIN c.dyn |-> <<StrV(KeyChars[c.dyn[j]]), c.vals[c.dyn[j]]>>]
    IN  DictV(Walk(1) \o dynp)

\* support.asdict(config, virtual): values as they are (typed containers as plain list/dict,
\* nested configurations as maps), plus the computed fields of each level when asked
RECURSIVE AsDict(_, _, _)
AsDict(Sx, c, virtual) ==
    LET plain(f, v) ==
            IF IsCfg(v) THEN AsDict(f, v, virtual)
            ELSE IF v.t = "list" /\ f.kind = "list" /\ IsSchema(f.item)
                 THEN ListV([i \in DOMAIN v.l |-> IF IsCfg(v.l[i]) THEN AsDict(f.item, v.l[i], virtual) ELSE v.l[i]])
            ELSE v
        stored == {i \in DOMAIN Sx.fields : Sx.fields[i][2].kind # "virtual" /\ Sx.fields[i][1] \in DOMAIN c.vals}
        virt == {i \in DOMAIN Sx.fields : Sx.fields[i][2].kind = "virtual" /\ VKind(Sx.fields[i][2]) # "method"}
    IN  [k \in {Sx.fields[i][1] : i \in stored} \cup (IF virtual THEN {Sx.fields[i][1] : i \in virt} ELSE {}) \cup Range(c.dyn) |->
            IF k \in Range(c.dyn) /\ ~HasField(Sx, k) THEN c.vals[k]
            ELSE LET f == FieldOf(Sx, k) IN
                 IF f.kind = "virtual" THEN VirtualOf(f, c) ELSE plain(f, c.vals[k])]

---------------------------------------------------------------------------
(* C01: every value a configuration holds satisfies its field's constraints *)
RECURSIVE AllValid(_, _)
AllValid(S, c) ==
    \A i \in DOMAIN S.fields :
        LET k == S.fields[i][1]  f == S.fields[i][2] IN
        f.kind = "virtual" \/
        (k \in DOMAIN c.vals /\
         IF IsSchema(f) THEN IsCfg(c.vals[k]) /\ AllValid(f, c.vals[k])
         ELSE IF f.kind = "list" /\ IsSchema(f.item) THEN
              \/ IsNone(c.vals[k])
              \/ c.vals[k].t = "list" /\ \A j \in DOMAIN c.vals[k].l :
                                            IsCfg(c.vals[k].l[j]) /\ AllValid(f.item, c.vals[k].l[j])
         \* ("required" is not one of the constraints C01 lists - being set is C11's subject: a
         \* required list emptied in place is still a list of valid items)
         ELSE IsNone(c.vals[k]) \/ Meets([f EXCEPT !.required = FALSE], c.vals[k]))

\* all (path, key) pairs of stored fields, for frame conditions
RECURSIVE LeafPaths(_, _)
LeafPaths(S, p) ==
    UNION {LET k == S.fields[i][1]  f == S.fields[i][2] IN
           IF IsSchema(f) THEN {<<p, k>>} \cup LeafPaths(f, Append(p, k))
           ELSE IF f.kind = "virtual" THEN {} ELSE {<<p, k>>} : i \in DOMAIN S.fields}

(* What a document format does to a plain tree on the way out and back in.  The formats are a
   typed channel (their fidelity is C04's subject, CincoFormats.tla) with two observable
   effects: YAML writes the keys of every map in sorted order, and XML can only carry maps whose
   keys are XML names (C04's stated domain) and strings of XML characters without CR. *)
RECURSIVE StrLess(_, _)
StrLess(a, b) == IF a = <<>> THEN b # <<>>
                 ELSE IF b = <<>> THEN FALSE
                 ELSE IF Head(a) = Head(b) THEN StrLess(Tail(a), Tail(b))
                 ELSE CharCode[Head(a)] < CharCode[Head(b)]
RECURSIVE InsertKV(_, _)
InsertKV(sorted, p) == IF sorted = <<>> THEN <<p>>
                       ELSE IF StrLess(p[1].s, Head(sorted)[1].s) THEN <<p>> \o sorted
                       ELSE <<Head(sorted)>> \o InsertKV(Tail(sorted), p)
RECURSIVE SortKV(_)
SortKV(kv) == IF kv = <<>> THEN <<>> ELSE InsertKV(SortKV(SubSeq(kv, 1, Len(kv) - 1)), kv[Len(kv)])
RECURSIVE YamlChannel(_)
YamlChannel(t) == CASE t.t = "dict" -> DictV(SortKV([i \in DOMAIN t.kv |-> <<t.kv[i][1], YamlChannel(t.kv[i][2])>>]))
                    [] t.t = "list" -> ListV([i \in DOMAIN t.l |-> YamlChannel(t.l[i])])
                    [] OTHER        -> t
XmlName(s) == /\ s # <<>> /\ s[1] \in AsciiLetters \cup {"_"}
              /\ \A i \in 2..Len(s) : s[i] \in AsciiLetters \cup Digits \cup {"_", "-", "."}
RECURSIVE XmlDomain(_)
XmlDomain(t) == CASE t.t = "dict" -> \A i \in DOMAIN t.kv : t.kv[i][1].t = "str" /\ XmlName(t.kv[i][1].s) /\ XmlDomain(t.kv[i][2])
                  [] t.t = "list" -> \A i \in DOMAIN t.l : XmlDomain(t.l[i])
                  [] t.t = "str"  -> \A i \in DOMAIN t.s : t.s[i] \notin {"\r", "\f"}
                  [] OTHER        -> TRUE
RECURSIVE KeysEncodable(_)
KeysEncodable(t) == CASE t.t = "dict" -> \A i \in DOMAIN t.kv : t.kv[i][1].t = "str" /\ Encodable(t.kv[i][1].s) /\ KeysEncodable(t.kv[i][2])
                      [] t.t = "list" -> \A i \in DOMAIN t.l : KeysEncodable(t.l[i])
                      [] OTHER        -> TRUE
InFormatDomain(fmt, t) == IsPlain(t) /\ KeysEncodable(t) /\ (fmt = "xml" => XmlDomain(t))
Channel(fmt, t) == IF fmt = "yaml" THEN YamlChannel(t) ELSE t

(* C02: what "the same configuration after save and load" means *)
\* persistent values equal, modulo the two stated normalisations: an unset typed list/dict
\* may come back empty, an empty secret comes back unset
\* equality of values as Python sees it: maps are equal whatever the order of their entries (at
\* any depth, also inside untyped values - YAML writes keys sorted)
RECURSIVE EqV(_, _)
EqV(x, y) ==
    IF x.t = "dict" /\ y.t = "dict" THEN
        /\ Len(x.kv) = Len(y.kv)
        /\ \A j \in DOMAIN x.kv : \E i \in DOMAIN y.kv : EqV(x.kv[j][1], y.kv[i][1]) /\ EqV(x.kv[j][2], y.kv[i][2])
    ELSE IF x.t \in {"list", "tuple"} /\ y.t = x.t THEN
        Len(x.l) = Len(y.l) /\ \A j \in DOMAIN x.l : EqV(x.l[j], y.l[j])
    ELSE y = x
RECURSIVE SameLeaf(_, _, _)
SameLeaf(f, x, y) ==
    \/ EqV(x, y)
    \/ IsNone(x) /\ f.kind = "list" /\ y = ListV(<<>>)
    \/ IsNone(x) /\ f.kind = "dict" /\ y = DictV(<<>>)
    \/ f.kind = "secure" /\ ~Truthy(x) /\ IsNone(y)
    \/ /\ f.kind = "list" /\ f.item.kind # "nofield" /\ x.t = "list" /\ y.t = "list" /\ Len(x.l) = Len(y.l)
       /\ \A j \in DOMAIN x.l : SameLeaf(f.item, x.l[j], y.l[j])
    \/ /\ f.kind = "dict" /\ f.valf.kind # "nofield" /\ x.t = "dict" /\ y.t = "dict" /\ Len(x.kv) = Len(y.kv)
       \* (maps are equal whatever the order of their entries)
       /\ \A j \in DOMAIN x.kv : \E i \in DOMAIN y.kv : x.kv[j][1] = y.kv[i][1] /\ SameLeaf(f.valf, x.kv[j][2], y.kv[i][2])
RECURSIVE SameVals(_, _, _)
SameVals(Sx, a, b) ==
    \A i \in DOMAIN Sx.fields :
        LET k == Sx.fields[i][1]  f == Sx.fields[i][2] IN
        f.kind = "virtual" \/
        (k \in DOMAIN a.vals /\ k \in DOMAIN b.vals /\
         LET x == a.vals[k]  y == b.vals[k] IN
         IF IsCfg(x) THEN IsCfg(y) /\ SameVals(f, x, y)
         ELSE IF f.kind = "list" /\ IsSchema(f.item) /\ x.t = "list" THEN
              y.t = "list" /\ Len(y.l) = Len(x.l) /\ \A j \in DOMAIN x.l : SameVals(f.item, x.l[j], y.l[j])
         \* a field bound to an environment variable that is set: C14 governs what a fresh configuration
         \* holds after a load (the validated variable; the document never overrides it), so what C02 can ask
         \* of the reloaded configuration is that value, not the one that was assigned over it before saving
         ELSE IF EnvBound(f) /\ f.kind \notin {"list", "dict"} THEN
              LET r == FieldDefault(f) IN r.ok => EqV(y, r.v)
         ELSE SameLeaf(f, x, y))
=============================================================================
