---- MODULE MC_Containers ----
EXTENDS CincoContainers
MCItemF == With(IntF, [hasmin |-> TRUE, min |-> 0])
MCOtherF == IntF    \* same storage type as the item field, weaker constraints
MCKeyF == With(StringF, [tcase |-> "upper"])
MCValF == With(IntF, [hasmin |-> TRUE, min |-> 0])
MCItemCands == {IntV(0), IntV(2), StrV(<<"1">>), IntV(-1), StrV(<<"x">>), StrV(<<" ", "3">>)}
MCKeyCands == {StrV(<<"a">>), StrV(<<"A">>), StrV(<<"b">>), IntV(1)}
MCValCands == {IntV(1), StrV(<<"2">>), IntV(-1)}
====
