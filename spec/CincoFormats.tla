---------------------------- MODULE CincoFormats ----------------------------
(***************************************************************************)
(* C04 - the five file formats of cincoconfig over plain-data trees.       *)
(*                                                                         *)
(* What cincoconfig itself implements is modelled in detail, in the order  *)
(* of the code:                                                            *)
(*   - XmlConfigFormat._to_element / _from_element (type attribute per     *)
(*     element, isinstance chain with bool tested before int, "item"       *)
(*     children, empty text <-> "", forced type for the root, fall back to *)
(*     the text when a typed text does not parse), loads' root tag check;  *)
(*   - YamlConfigFormat root_key wrap / unwrap;                            *)
(*   - JsonConfigFormat pretty;  Bson / Pickle thin wrappers;              *)
(*   - ConfigFormat.get (name -> format class, keyword options).           *)
(* The third-party serialisers (json, yaml, bson, pickle, ElementTree +    *)
(* minidom) are TYPED CHANNELS: a document is the abstract value that was   *)
(* handed to the serialiser and the parser hands it back unchanged (XML:   *)
(* the element tree, with the line-end normalisation every XML parser      *)
(* performs).  Whether the real serialisers are such channels is what the  *)
(* conformance harness (harness/props/c04.py) measures.                    *)
(*                                                                         *)
(* Values are those of CincoValues plus three tags needed for numbers TLC   *)
(* cannot hold:                                                            *)
(*   [t |-> "fspec", k |-> "nzero"]      the float -0.0 (sign-of-zero AWARE)*)
(*   [t |-> "big",  d |-> <<"-","9",..>>] int with |n| >= 2^31, d = str(n)  *)
(*   [t |-> "fbig", r |-> <<"1","e",..>>] float that is not a half-integer  *)
(*                                        below 2^30, r = repr(x)          *)
(***************************************************************************)
EXTENDS CincoValues

BigV(d)  == [t |-> "big", d |-> d]
FBigV(r) == [t |-> "fbig", r |-> r]
NZeroV   == FSpec("nzero")
\* a Python result the model does not compute (never produced from a dumped document)
UnmodelledV == [t |-> "unmodelled"]

RECURSIVE IsTree(_)
IsTree(v) ==
    CASE v.t \in {"none", "bool", "int", "big", "float", "fspec", "fbig", "str"} -> TRUE
      [] v.t = "list" -> \A i \in DOMAIN v.l : IsTree(v.l[i])
      [] v.t = "dict" -> /\ \A i \in DOMAIN v.kv : v.kv[i][1].t = "str" /\ IsTree(v.kv[i][2])
                         /\ \A i, j \in DOMAIN v.kv : v.kv[i][1] = v.kv[j][1] => i = j
      [] OTHER -> FALSE

RECURSIVE HasUnmodelled(_)
HasUnmodelled(v) ==
    CASE v.t = "unmodelled" -> TRUE
      [] v.t = "list" -> \E i \in DOMAIN v.l : HasUnmodelled(v.l[i])
      [] v.t = "dict" -> \E i \in DOMAIN v.kv : HasUnmodelled(v.kv[i][2])
      [] OTHER -> FALSE

(***************************************************************************)
(* Equality of plain-data trees as the property means it: same type tag at  *)
(* every node (bool / int / float / str / null / list / map), same payload, *)
(* lists element by element, maps by key set (the order of a map's keys is  *)
(* not data: yaml.dump sorts them).  NaN is one abstract value, so it is    *)
(* equal to itself; 0.0 and -0.0 are different values.                      *)
(***************************************************************************)
RECURSIVE SameTree(_, _)
SameTree(a, b) ==
    IF a = b THEN TRUE                \* (identical values: decided by TLC natively)
    ELSE IF a.t # b.t THEN FALSE
    ELSE IF a.t = "list"
    THEN Len(a.l) = Len(b.l) /\ \A i \in DOMAIN a.l : SameTree(a.l[i], b.l[i])
    ELSE IF a.t = "dict"
    THEN /\ Len(a.kv) = Len(b.kv)
         /\ \A i \in DOMAIN a.kv : \E j \in DOMAIN b.kv :
               a.kv[i][1] = b.kv[j][1] /\ SameTree(a.kv[i][2], b.kv[j][2])
    ELSE a = b

---------------------------------------------------------------------------
(* characters *)
FmtAsciiPunct == {" ", "!", "\"", "#", "$", "%", "&", "'", "(", ")", "*", "+", ",", "-", ".", "/",
                  ":", ";", "<", "=", ">", "?", "@", "[", "\\", "]", "^", "_", "`", "{", "|", "}", "~"}
FmtAscii == AsciiLetters \cup Digits \cup FmtAsciiPunct \cup {"\t", "\n", "\r", "\f"}
\* Characters outside FmtAscii come only from the random driver, which builds strings from
\* the XML Char production and keys from the XML NameStartChar / NameChar productions; the
\* model cannot compute code points and takes their class from the position they occur in.
IsWide(c) == c \notin FmtAscii

\* XML 1.0 Char, without carriage return (the property's XML string domain)
XmlCharOk(c) == c \notin {"\r", "\f"}
\* XML 1.0 Name production, for the ASCII model alphabet:
\*   NameStartChar ::= ":" | [A-Z] | "_" | [a-z] | (non-ASCII ranges)
\*   NameChar      ::= NameStartChar | "-" | "." | [0-9] | (non-ASCII ranges)
\* NC* are the same without the colon (names of a namespace-less document).
NcNameStart(c)  == c \in AsciiLetters \cup {"_"} \/ IsWide(c)
NcNameChar(c)   == NcNameStart(c) \/ c \in Digits \cup {"-", "."}
XmlNameStart(c) == NcNameStart(c) \/ c = ":"
XmlNameChar(c)  == NcNameChar(c) \/ c = ":"
\* keys: XML Names (the property's XML key domain), colon included
IsXmlName(s) == s # <<>> /\ XmlNameStart(s[1]) /\ \A i \in DOMAIN s : XmlNameChar(s[i])
\* root tags: colon-free names
IsNCName(s) == s # <<>> /\ NcNameStart(s[1]) /\ \A i \in DOMAIN s : NcNameChar(s[i])

\* Known finding C04-xml-colon-key: the real XmlConfigFormat cannot write a map key that
\* contains ":" (ElementTree / expat read it as a namespace prefix).  The specification keeps
\* the INTENDED behaviour (such keys round-trip like any other Name); this predicate only
\* names the cause, so that conformance failures of XML runs on such trees are labelled.
RECURSIVE HasColonKey(_)
HasColonKey(v) ==
    CASE v.t = "list" -> \E i \in DOMAIN v.l : HasColonKey(v.l[i])
      [] v.t = "dict" -> \E i \in DOMAIN v.kv :
                            \/ \E j \in DOMAIN v.kv[i][1].s : v.kv[i][1].s[j] = ":"
                            \/ HasColonKey(v.kv[i][2])
      [] OTHER -> FALSE
ColonCause(fmt, t) == fmt = "xml" /\ HasColonKey(t)

---------------------------------------------------------------------------
(* decimal digit strings (numbers TLC cannot hold) *)
RECURSIVE FmtDigitsLeq(_, _)
\* a <= b for digit sequences of equal length
FmtDigitsLeq(a, b) ==
    IF a = <<>> THEN TRUE
    ELSE IF DigitVal[Head(a)] < DigitVal[Head(b)] THEN TRUE
    ELSE IF DigitVal[Head(a)] > DigitVal[Head(b)] THEN FALSE
    ELSE FmtDigitsLeq(Tail(a), Tail(b))
\* a <= b for magnitudes without leading zeros
MagLeq(a, b) == Len(a) < Len(b) \/ (Len(a) = Len(b) /\ FmtDigitsLeq(a, b))
StripZeros(d) == LET z == LStrip(d, {"0"}) IN IF z = <<>> THEN <<"0">> ELSE z

Mag31  == <<"2","1","4","7","4","8","3","6","4","7">>                              \* 2^31 - 1
Mag30  == <<"1","0","7","3","7","4","1","8","2","3">>                              \* 2^30 - 1
Mag63  == <<"9","2","2","3","3","7","2","0","3","6","8","5","4","7","7","5","8","0","7">>   \* 2^63 - 1
Mag63n == <<"9","2","2","3","3","7","2","0","3","6","8","5","4","7","7","5","8","0","8">>   \* 2^63

\* the abstract int with sign neg and magnitude mag (canonical digits)
IntOfMag(neg, mag) ==
    IF MagLeq(mag, Mag31) THEN IntV(IF neg THEN -ToNat(mag) ELSE ToNat(mag))
    ELSE BigV(IF neg THEN <<"-">> \o mag ELSE mag)

BigNeg(d) == d # <<>> /\ Head(d) = "-"
BigMag(d) == IF BigNeg(d) THEN Tail(d) ELSE d
\* a signed 64-bit integer
In64(d) == IF BigNeg(d) THEN MagLeq(BigMag(d), Mag63n) ELSE MagLeq(d, Mag63)

---------------------------------------------------------------------------
(* Python:  isinstance, str(), int(text), float(text) *)
PyIsStr(v)   == v.t = "str"
PyIsBool(v)  == v.t = "bool"
PyIsInt(v)   == v.t \in {"int", "big", "bool"}       \* bool is a subclass of int
PyIsFloat(v) == v.t \in {"float", "fspec", "fbig"}

IntStr(i) == IF i < 0 THEN <<"-">> \o NatStr(-i) ELSE NatStr(i)
HalfStr(h) ==
    LET a == IF h < 0 THEN -h ELSE h
    IN  (IF h < 0 THEN <<"-">> ELSE <<>>) \o NatStr(a \div 2) \o <<".">> \o
        (IF a % 2 = 1 THEN <<"5">> ELSE <<"0">>)
\* str(v) for numbers and booleans
PyStr(v) ==
    CASE v.t = "bool"  -> IF v.b THEN <<"T","r","u","e">> ELSE <<"F","a","l","s","e">>
      [] v.t = "int"   -> IntStr(v.i)
      [] v.t = "big"   -> v.d
      [] v.t = "float" -> HalfStr(v.h)
      [] v.t = "fbig"  -> v.r
      [] v.t = "fspec" -> CASE v.k = "inf"   -> <<"i","n","f">>
                            [] v.k = "ninf"  -> <<"-","i","n","f">>
                            [] v.k = "nan"   -> <<"n","a","n">>
                            [] v.k = "nzero" -> <<"-","0",".","0">>

RECURSIVE FmtCat(_)
FmtCat(ps) == IF ps = <<>> THEN <<>> ELSE Head(ps) \o FmtCat(Tail(ps))

NoParse == [ok |-> FALSE]
\* int(text): whitespace stripped, optional sign, decimal digits with single underscores
\* between digits.  [ok, v]; v = UnmodelledV for text outside the ASCII model.
IntOfText(s) ==
    LET u     == Strip(s, Whitespace)
        neg   == u # <<>> /\ u[1] = "-"
        body  == IF u # <<>> /\ u[1] \in {"+", "-"} THEN Tail(u) ELSE u
        parts == Split(body, "_")
        okay  == body # <<>> /\ \A i \in DOMAIN parts : IsDigits(parts[i])
    IN  IF \E i \in DOMAIN s : IsWide(s[i]) THEN [ok |-> TRUE, v |-> UnmodelledV]
        ELSE IF okay THEN [ok |-> TRUE, v |-> IntOfMag(neg, StripZeros(FmtCat(parts)))]
        ELSE NoParse

\* float(text).  Half-integers below 2^30 become FloatH / -0.0; any other well-formed
\* literal is kept by its text, which for a dumped document is repr(x) (float(repr(x)) = x
\* is Python's guarantee, not modelled).
AllZeros(d) == \A i \in DOMAIN d : d[i] = "0"
FloatOfText(s) ==
    LET u     == Strip(s, Whitespace)
        neg   == u # <<>> /\ u[1] = "-"
        body  == IF u # <<>> /\ u[1] \in {"+", "-"} THEN Tail(u) ELSE u
        low   == Lower(body)
        ep    == Find(low, "e")
        mant  == IF ep = 0 THEN low ELSE SubSeq(low, 1, ep - 1)
        expo  == IF ep = 0 THEN <<>> ELSE SubSeq(low, ep + 1, Len(low))
        expd  == IF expo # <<>> /\ expo[1] \in {"+", "-"} THEN Tail(expo) ELSE expo
        mp    == Split(mant, ".")
        ip    == mp[1]
        fp    == IF Len(mp) = 2 THEN mp[2] ELSE <<>>
        digs(x) == x = <<>> \/ IsDigits(x)
        wellformed == /\ Len(mp) <= 2 /\ digs(ip) /\ digs(fp) /\ (ip # <<>> \/ fp # <<>>)
                      /\ (ep # 0 => IsDigits(expd))
        half  == /\ ep = 0 /\ MagLeq(StripZeros(ip), Mag30)
                 /\ (AllZeros(fp) \/ (Head(fp) = "5" /\ AllZeros(Tail(fp))))
        h     == 2 * ToNat(StripZeros(ip)) + (IF AllZeros(fp) THEN 0 ELSE 1)
    IN  IF \E i \in DOMAIN s : IsWide(s[i]) THEN [ok |-> TRUE, v |-> UnmodelledV]
        ELSE IF low \in {<<"i","n","f">>, <<"i","n","f","i","n","i","t","y">>}
        THEN [ok |-> TRUE, v |-> FSpec(IF neg THEN "ninf" ELSE "inf")]
        ELSE IF low = <<"n","a","n">> THEN [ok |-> TRUE, v |-> FSpec("nan")]
        ELSE IF \E i \in DOMAIN body : body[i] = "_" THEN
             \* underscores between digits are legal in float(); outside the model
             [ok |-> TRUE, v |-> UnmodelledV]
        ELSE IF ~wellformed THEN NoParse
        ELSE IF ep = 0 /\ Len(StripZeros(ip)) > 16 THEN
             \* repr() writes doubles from 1e16 on with an exponent: this text is no repr
             [ok |-> TRUE, v |-> UnmodelledV]
        ELSE IF half THEN [ok |-> TRUE, v |-> IF h = 0 THEN (IF neg THEN NZeroV ELSE FloatH(0))
                                               ELSE FloatH(IF neg THEN -h ELSE h)]
        ELSE [ok |-> TRUE, v |-> FBigV(u)]

\* BoolField.TRUE_VALUES / FALSE_VALUES
XmlBoolTrue  == {<<"t">>, <<"t","r","u","e">>, <<"1">>, <<"o","n">>, <<"y","e","s">>, <<"y">>}
XmlBoolFalse == {<<"f">>, <<"f","a","l","s","e">>, <<"0">>, <<"o","f","f">>, <<"n","o">>, <<"n">>}

---------------------------------------------------------------------------
(***************************************************************************)
(* XML.  An element is [tag, ty, text, kids]:  ty is the value of the       *)
(* "type" attribute ("absent" when there is none), text the character data  *)
(* directly inside a childless element (ElementTree's None and "" are both  *)
(* <<>>; the indentation the pretty printer puts between children is not    *)
(* data and not represented), kids the child elements in document order.    *)
(***************************************************************************)
Elem(tag, ty, text, kids) == [tag |-> tag, ty |-> ty, text |-> text, kids |-> kids]
ItemTag == <<"i","t","e","m">>

\* XmlConfigFormat._to_element(key, value): the isinstance chain in the order of the code
RECURSIVE ToElement(_, _)
ToElement(key, v) ==
    IF PyIsStr(v) THEN Elem(key, "str", v.s, <<>>)
    ELSE IF PyIsBool(v)
    THEN Elem(key, "bool", IF v.b THEN <<"t","r","u","e">> ELSE <<"f","a","l","s","e">>, <<>>)
    ELSE IF PyIsInt(v) THEN Elem(key, "int", PyStr(v), <<>>)
    ELSE IF PyIsFloat(v) THEN Elem(key, "float", PyStr(v), <<>>)
    ELSE IF v.t = "none" THEN Elem(key, "none", <<>>, <<>>)
    ELSE IF v.t = "list"
    THEN Elem(key, "list", <<>>, [i \in DOMAIN v.l |-> ToElement(ItemTag, v.l[i])])
    ELSE IF v.t = "dict"
    THEN Elem(key, "dict", <<>>, [i \in DOMAIN v.kv |-> ToElement(v.kv[i][1].s, v.kv[i][2])])
    ELSE Elem(key, "TypeError", <<>>, <<>>)

\* What an XML parser hands back for the character data it was given: line ends are
\* normalised (CR LF and a lone CR become LF).  Everything else in the XML domain is kept.
RECURSIVE NormNL(_)
NormNL(s) ==
    IF \A i \in DOMAIN s : s[i] # "\r" THEN s
    ELSE IF s = <<>> THEN <<>>
    ELSE IF Head(s) = "\r"
    THEN <<"\n">> \o NormNL(IF Len(s) >= 2 /\ s[2] = "\n" THEN Tail(Tail(s)) ELSE Tail(s))
    ELSE <<Head(s)>> \o NormNL(Tail(s))
RECURSIVE XmlChannel(_)
XmlChannel(e) == [e EXCEPT !.text = NormNL(@), !.kids = [i \in DOMAIN e.kids |-> XmlChannel(e.kids[i])]]

\* XmlConfigFormat._from_element(ele, py_type): forced = "" stands for py_type=None
RECURSIVE FromElement(_, _)
FromElement(e, forced) ==
    LET pytype == IF forced # "" THEN forced ELSE e.ty        \* py_type or attrib.get("type")
        text   == e.text                                      \* ele.text or ""
    IN  IF pytype = "str" THEN StrV(text)
        ELSE IF pytype = "bool"
        THEN IF Lower(text) \in XmlBoolTrue THEN BoolV(TRUE)
             ELSE IF Lower(text) \in XmlBoolFalse THEN BoolV(FALSE)
             ELSE IF \E i \in DOMAIN text : IsWide(text[i]) THEN UnmodelledV
             ELSE StrV(text)
        ELSE IF pytype = "int"
        THEN LET r == IntOfText(text) IN IF r.ok THEN r.v ELSE StrV(text)
        ELSE IF pytype = "float"
        THEN LET r == FloatOfText(text) IN IF r.ok THEN r.v ELSE StrV(text)
        ELSE IF pytype = "none" THEN NoneV
        ELSE IF pytype = "list"
        THEN ListV([i \in DOMAIN e.kids |-> FromElement(e.kids[i], "")])
        ELSE IF pytype = "dict"
        THEN DictV(DictFromPairs([i \in DOMAIN e.kids |->
                                     <<StrV(e.kids[i].tag), FromElement(e.kids[i], "")>>], <<>>))
        ELSE StrV(text)                                       \* unknown or missing type

---------------------------------------------------------------------------
(***************************************************************************)
(* Format instances:  ConfigFormat.get(name, **options)                     *)
(* One uniform option record; each class reads its own option:              *)
(*   pretty   (json)  BOOLEAN                                               *)
(*   root_tag (xml)   character sequence                                    *)
(*   root_key (yaml)  NoneV or StrV(..)                                     *)
(***************************************************************************)
FormatNames == {"json", "pickle", "xml", "yaml", "bson"}      \* formats/__init__.py FORMATS
DefaultOpts == [pretty |-> TRUE, root_tag |-> <<"c","o","n","f","i","g">>, root_key |-> NoneV]
Opts(pretty, tag, key) == [pretty |-> pretty, root_tag |-> tag, root_key |-> key]
\* the registry maps the name to the class; the instance keeps its options
FmtGet(name, opts) == [fmt |-> name, opts |-> opts]

RECURSIVE XmlOk(_)
XmlOk(v) ==
    CASE v.t = "str"  -> \A i \in DOMAIN v.s : XmlCharOk(v.s[i])
      [] v.t = "list" -> \A i \in DOMAIN v.l : XmlOk(v.l[i])
      [] v.t = "dict" -> \A i \in DOMAIN v.kv : IsXmlName(v.kv[i][1].s) /\ XmlOk(v.kv[i][2])
      [] OTHER -> TRUE
RECURSIVE BsonOk(_)
BsonOk(v) ==
    CASE v.t = "big"  -> In64(v.d)
      [] v.t = "list" -> \A i \in DOMAIN v.l : BsonOk(v.l[i])
      [] v.t = "dict" -> \A i \in DOMAIN v.kv : BsonOk(v.kv[i][2])
      [] OTHER -> TRUE

\* the representable domain of each format (the property's quantifier); a tree handed to
\* dumps is a dict
InDomain(fmt, t) ==
    /\ IsTree(t) /\ t.t = "dict"
    /\ fmt = "xml" => XmlOk(t)
    /\ fmt = "bson" => BsonOk(t)
OptsInDomain(fmt, opts) == fmt = "xml" => IsNCName(opts.root_tag)

NoDoc == [fmt |-> "none"]

\* inst.dumps(config, tree) -> document
FmtDumps(inst, t) ==
    CASE inst.fmt = "json" ->
            \* json.dumps(tree, indent=2 if pretty else None): indentation is not data
            [fmt |-> "json", indent |-> IF inst.opts.pretty THEN 2 ELSE 0, top |-> t]
      [] inst.fmt = "pickle" -> [fmt |-> "pickle", top |-> t]
      [] inst.fmt = "bson" -> [fmt |-> "bson", top |-> t]
      [] inst.fmt = "yaml" ->
            \* if self.root_key: tree = {self.root_key: tree}
            [fmt |-> "yaml",
             top |-> IF Truthy(inst.opts.root_key) THEN DictV(<< <<inst.opts.root_key, t>> >>) ELSE t]
      [] inst.fmt = "xml" ->
            \* ele = _to_element(root_tag, tree); _prettify(ele)
            [fmt |-> "xml", root |-> XmlChannel(ToElement(inst.opts.root_tag, t))]

\* `key in tree` for the Python object the YAML parser returned
PyContains(tree, key) ==
    CASE tree.t = "dict" -> DictHas(tree.kv, key)
      [] tree.t = "list" -> \E i \in DOMAIN tree.l : tree.l[i] = key
      [] OTHER -> FALSE

\* inst.loads(config, content) -> [ok, v] or [ok |-> FALSE, err]
FmtLoads(inst, doc) ==
    CASE inst.fmt \in {"json", "pickle", "bson"} -> [ok |-> TRUE, v |-> doc.top]
      [] inst.fmt = "yaml" ->
            \* if self.root_key and self.root_key in tree: tree = tree[self.root_key]
            IF Truthy(inst.opts.root_key) /\ PyContains(doc.top, inst.opts.root_key) /\ doc.top.t = "dict"
            THEN [ok |-> TRUE, v |-> DictGet(doc.top.kv, inst.opts.root_key)]
            ELSE [ok |-> TRUE, v |-> doc.top]
      [] inst.fmt = "xml" ->
            \* if root.tag != self.root_tag: raise ValueError;  _from_element(root, "dict")
            IF doc.root.tag # inst.opts.root_tag THEN [ok |-> FALSE, err |-> "ValueError"]
            ELSE [ok |-> TRUE, v |-> FromElement(doc.root, "dict")]

\* decode(encode(t)) with one instance
RoundTrip(fmt, opts, t) == LET inst == FmtGet(fmt, opts) IN FmtLoads(inst, FmtDumps(inst, t))

---------------------------------------------------------------------------
(***************************************************************************)
(* C04 as predicates on observations (a tree, and runs                      *)
(*   [fmt, opts, lopts, skipped, out]  = dumps with opts, loads with lopts).*)
(* Used by the FormatLab invariants on specification states and by          *)
(* Trace_Formats on what the real library was seen to do.                   *)
(***************************************************************************)
Normal(r) == ~r.skipped /\ r.lopts = r.opts
\* decoding what was encoded yields an equal tree, types intact
P_RoundTrip(t, r) == Normal(r) => r.out.ok /\ SameTree(r.out.v, t)
\* an XML document whose root tag is not the loader's root tag is rejected
P_WrongRootRejected(r) ==
    (~r.skipped /\ r.fmt = "xml" /\ r.lopts.root_tag # r.opts.root_tag) => ~r.out.ok
\* options never change the decoded result
P_OptionsNeutral(runs) ==
    \A i, j \in DOMAIN runs :
        (i < j /\ Normal(runs[i]) /\ Normal(runs[j]) /\ runs[i].fmt = runs[j].fmt
            /\ runs[i].out.ok /\ runs[j].out.ok)
        => SameTree(runs[i].out.v, runs[j].out.v)
\* every format maps the same tree back to the same tree
P_Agree(runs) ==
    \A i, j \in DOMAIN runs :
        (i < j /\ Normal(runs[i]) /\ Normal(runs[j]) /\ runs[i].out.ok /\ runs[j].out.ok)
        => SameTree(runs[i].out.v, runs[j].out.v)

\* the XML mapping cincoconfig owns is invertible on the XML domain, for every root tag
P_XmlInverse(t, tags) ==
    InDomain("xml", t) =>
        \A tag \in tags : SameTree(FromElement(XmlChannel(ToElement(tag, t)), "dict"), t)
=============================================================================
