---- MODULE MC_Stubs ----
(* Model instances for C20: a family of schema descriptors (every built-in field class, typed
   lists / dicts, nested schemas, config types, virtual fields, instance methods over a grid of
   signature shapes x annotation patterns x return annotations; custom fields whose storage type
   is, and methods annotated with, a class whose qualified name differs from its name - a class
   defined in a function body, a class nested in a class - alone and inside typing generics,
   PEP 585 generics and PEP 604 unions) x the GenStub machine.
   Tier = "quick" | "thorough" selects the size of the family. *)
EXTENDS CincoStubs, SequencesExt, Json

CONSTANT Tier
Big == Tier = "thorough"

VARIABLE sid           \* index of the schema in FamilySeq (exported instead of the descriptor)
mcvars == <<vars, sid>>

---------------------------------------------------------------------------
(* fields *)
Scalars == {Sc(k) : k \in ScalarKinds \ {"appmode"}} \cup {AppModeF(TRUE), AppModeF(FALSE)}

S0 == Sig(<<P("cfg", "pos", FALSE, "noann")>>, "noret")
S1 == Sig(<<P("cfg", "pos", FALSE, "config"), P("x", "pos", FALSE, "int"), P("y", "pos", TRUE, "optstr"),
            P("k", "kwonly", TRUE, "noann"), P("kw", "varkw", FALSE, "noann")>>, "int")

ItemSchema == SchemaF(<< <<"q", Sc("int")>> >>)
ItemType   == CTypeF("Item", << <<"q", Sc("int")>>, <<"w", VirtualF>> >>)
Items == {NoF, Sc("string"), Sc("int"), Sc("bytes"), Sc("challenge"), Sc("any"), Sc("float"),
          ListF(Sc("string")), DictF(Sc("string"), Sc("int")), ItemSchema, ItemType}
Lists == {ListF(i) : i \in Items}
Dicts == {DictF(NoF, NoF), DictF(Sc("string"), Sc("int")), DictF(NoF, ListF(Sc("int"))),
          DictF(Sc("string"), NoF), DictF(Sc("int"), DictF(Sc("string"), Sc("float"))),
          DictF(Sc("hostname"), Sc("challenge"))}
Nested == {SchemaF(<<>>),
           SchemaF(<< <<"x", Sc("int")>>, <<"vs", VSetterF>> >>),
           SchemaF(<< <<"x", Sc("int")>>, <<"hello", MethodF(S1)>>,
                      <<"deep", SchemaF(<< <<"y", Sc("string")>>, <<"w", VirtualF>> >>)>> >>)}
CTypes == {CTypeF("Inner", << <<"q", Sc("int")>> >>),
           CTypeF("Inner", << <<"q", Sc("int")>>, <<"v", VirtualF>>, <<"vs", VSetterF>>, <<"hello", MethodF(S1)>>,
                              <<"sub", SchemaF(<< <<"y", Sc("string")>> >>)>> >>)}
FieldVariants == Scalars \cup Lists \cup Dicts \cup Nested \cup CTypes
Virtuals == {VirtualF, VSetterF}

---------------------------------------------------------------------------
(* signatures: shape x annotation pattern x return annotation *)
PosOnlyParts == {<<>>, <<P("p", "posonly", FALSE, "noann")>>}
                \cup (IF Big THEN {<<P("p", "posonly", FALSE, "noann"), P("q", "posonly", TRUE, "noann")>>}
                      ELSE {})
PosParts == {<<>>,
             <<P("x", "pos", FALSE, "noann")>>,
             <<P("x", "pos", FALSE, "noann"), P("y", "pos", TRUE, "noann")>>,
             <<P("x", "pos", TRUE, "noann"), P("y", "pos", TRUE, "noann")>>}
VarargParts == {<<>>, <<P("args", "vararg", FALSE, "noann")>>}
KwParts == {<<>>,
            <<P("k", "kwonly", FALSE, "noann")>>,
            <<P("k", "kwonly", TRUE, "noann"), P("j", "kwonly", FALSE, "noann")>>}
VarkwParts == {<<>>, <<P("kw", "varkw", FALSE, "noann")>>}

\* the configuration parameter is positional-only as soon as another one is
Shapes ==
    {<<P("cfg", ck, FALSE, "noann")>> \o po \o ps \o va \o ko \o vk :
        ck \in {"pos", "posonly"}, po \in PosOnlyParts, ps \in PosParts, va \in VarargParts,
        ko \in KwParts, vk \in VarkwParts}

\* annotation patterns: parameter i gets Cycle[(i + off) mod n]
Cycle == <<"int", "noann", "listint", "class", "optstr", "fwd", "none", "pep585", "ctype", "config">>
         \o (IF Big THEN <<"callable", "literal">> ELSE <<>>)
Annotate(ps, off) ==
    IF off < 0 THEN ps
    ELSE [i \in DOMAIN ps |-> [ps[i] EXCEPT !.a = Cycle[((i + off) % Len(Cycle)) + 1]]]
Offsets == IF Big THEN {-1, 0, 1, 2, 3, 4, 5, 6, 7, 8, 9} ELSE {-1, 0, 5}
Rets == IF Big THEN {"noret", "int", "none", "listint", "class", "fwd", "ctype", "union604", "tupleann"}
        ELSE {"noret", "listint", "tupleann"}

GridSigs == {s \in {Sig(Annotate(sh, off), r) : sh \in Shapes, off \in Offsets, r \in Rets} : SigWF(s)}

\* annotations that have no rendering in get_annotation_typestr: PEP 604 unions
UnionSigs == {Sig(<<P("cfg", "pos", FALSE, "noann"), P("x", "pos", FALSE, "union604")>>, "noret"),
              Sig(<<P("cfg", "pos", FALSE, "noann"), P("k", "kwonly", TRUE, "union604")>>, "int"),
              Sig(<<P("cfg", "pos", FALSE, "noann"), P("x", "pos", FALSE, "int")>>, "union604")}

SmallSigs == {S0, S1,
              Sig(<<P("cfg", "posonly", FALSE, "noann"), P("a", "posonly", FALSE, "int"),
                    P("b", "pos", FALSE, "listint"), P("args", "vararg", FALSE, "int"),
                    P("k", "kwonly", FALSE, "noann"), P("kw", "varkw", FALSE, "class")>>, "none"),
              Sig(<<P("cfg", "pos", FALSE, "noann"), P("args", "vararg", FALSE, "noann")>>, "noret")}

\* classes whose qualified name differs from their name: every kind as the annotation of a
\* positional parameter, of a keyword-only parameter with a default and as return annotation ...
Cfg0 == P("cfg", "pos", FALSE, "noann")
QualSigs == {Sig(<<Cfg0, P("x", "pos", FALSE, k)>>, "noret") : k \in QualKinds}
            \cup {Sig(<<Cfg0>>, k) : k \in QualKinds}
            \cup (IF Big THEN {Sig(<<Cfg0, P("k", "kwonly", TRUE, k)>>, k) : k \in QualKinds}
                              \cup {Sig(<<P("cfg", "posonly", FALSE, k), P("p", "posonly", FALSE, k),
                                          P("args", "vararg", FALSE, k), P("kw", "varkw", FALSE, k)>>, "int") :
                                        k \in QualKinds}
                   ELSE {})
\* ... and (thorough) all over every signature shape
QualGridSigs == IF ~Big THEN {}
                ELSE {s \in {Sig([i \in DOMAIN sh |-> [sh[i] EXCEPT !.a = IF i = 1 THEN "noann" ELSE k]], r) :
                                  sh \in Shapes, k \in {"optlocal", "u604nested"},
                                  r \in {"noret", "pep585local"}} : SigWF(s)}
\* custom fields: the storage type itself, and as the item / key / value of a typed list / dict
\* (ListField and DictField build typing.List[...] / typing.Dict[...] from it)
Customs == {CustomF(st) : st \in StorageKinds}
CustomContainers ==
    {ListF(CustomF(st)) : st \in {"local", "nested", "class"} \cup (IF Big THEN {"optlocal", "u604nested"} ELSE {})}
    \cup {DictF(Sc("string"), CustomF(st)) : st \in {"local", "nested"}}
    \cup (IF Big THEN {DictF(CustomF("nested"), CustomF("local")), DictF(CustomF("local"), NoF),
                       ListF(ListF(CustomF("local"))), ListF(DictF(NoF, CustomF("nested")))}
          ELSE {})

---------------------------------------------------------------------------
(* schemas *)
Root(fs)    == [kind |-> "schema", fields |-> fs, dynamic |-> FALSE]
DynRoot(fs) == [kind |-> "schema", fields |-> fs, dynamic |-> TRUE]

FamA == {Root(<<>>)} \cup {Root(<< <<"v", vf>> >>) : vf \in Virtuals}
        \cup {Root(<< <<"a", f>> >>) : f \in FieldVariants}
FamB == {Root(<< <<"a", f>>, <<"v", vf>>, <<"m", MethodF(s)>>, <<"b", g>> >>) :
            f \in FieldVariants, vf \in Virtuals,
            s \in (IF Big THEN SmallSigs ELSE {S1}),
            g \in (IF Big THEN {Sc("int"), ListF(ItemType), Sc("secure")} ELSE {Sc("int")})}
FamC == {Root(<< <<"a", Sc("string")>>, <<"m", MethodF(s)>> >>) : s \in GridSigs \cup UnionSigs}
FamD == {Root(<< <<"m", MethodF(s1)>>, <<"v", VirtualF>>, <<"n", MethodF(s2)>>, <<"a", Sc("bool")>> >>) :
            s1 \in SmallSigs, s2 \in SmallSigs}

\* dynamic schemas: a configuration gains a field at run time, then GenStub(config)
FamE == {DynRoot(fs) : fs \in {<<>>,
                               << <<"a", Sc("string")>> >>,
                               << <<"a", Sc("int")>>, <<"v", VirtualF>>, <<"vs", VSetterF>>, <<"m", MethodF(S1)>> >>,
                               << <<"a", AppModeF(TRUE)>>, <<"b", ListF(ItemType)>>, <<"sub", SchemaF(<< <<"x", Sc("int")>> >>)>> >>}
                    \cup (IF Big THEN {<< <<"a", f>>, <<"vs", VSetterF>> >> : f \in FieldVariants} ELSE {})}

\* classes whose qualified name differs from their name
FamQ == {Root(<< <<"a", f>> >>) : f \in Customs \cup CustomContainers}
        \cup {Root(<< <<"a", Sc("string")>>, <<"m", MethodF(s)>> >>) : s \in QualSigs \cup QualGridSigs}
        \cup {Root(<< <<"a", CustomF("local")>>, <<"v", VirtualF>>, <<"m", MethodF(S1)>>,
                      <<"b", ListF(CustomF("nested"))>>, <<"c", CustomF("listnested")>> >>),
              DynRoot(<< <<"a", CustomF("nested")>>,
                         <<"m", MethodF(Sig(<<Cfg0, P("x", "pos", FALSE, "local")>>, "nested"))>> >>)}
        \cup (IF Big THEN {Root(<< <<"a", f>>, <<"m", MethodF(S1)>>, <<"b", g>> >>) :
                               f \in Customs, g \in {Sc("int"), ListF(CustomF("nested"))}}
              ELSE {})

Family == FamA \cup FamB \cup FamC \cup FamD \cup FamE \cup FamQ
FamilySeq == SetToSeq(Family)

ASSUME \A s \in Family : SchemaWF(s)
ASSUME PrintT(<<"FAM", ToJson(FamilySeq)>>)

MCInit == \E i \in DOMAIN FamilySeq : sid = i /\ InitWith(FamilySeq[i])
MCNext == Next /\ UNCHANGED sid
MCView == <<sid, heap, stdout>>

MCSt   == [sid |-> sid] @@ St
Export == PrintT(<<"EDGE", ToJson([from |-> MCSt, ev |-> ev', to |-> MCSt'])>>)
PInit  == (TLCGet("level") = 1) => PrintT(<<"INIT", ToJson(MCSt)>>)
\* the mirror's annotation strings, once per schema (drift information)
PTypes == (TLCGet("level") = 1) => PrintT(<<"TYPES", ToJson([sid |-> sid, types |-> StubTypes(schema)])>>)

C20_ReturnedMC     == [][ev'.op = "GenStub" => ev'.out = "ok" /\ P_Valid(ev'.res)
                                                /\ P_Complete(schema, ev'.res, FreeKeys(ev'.target, ev'.c))]_mcvars
C20_NoSideEffectMC == [][ev'.op = "GenStub" => (schema' = schema /\ heap' = heap /\ stdout' = stdout)]_mcvars
====
