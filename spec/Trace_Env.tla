---- MODULE Trace_Env ----
(* code -> spec for C14: logs recorded from real schemas (random setting combinations of the
   full family) under a random process environment are replayed against EnvMachine's actions.
   The environment is a constant of the run, so the harness validates the traces of each
   environment in a TLC run of its own (a generated module defines TrEnviron). *)
EXTENDS EnvMachine, IOUtils, TLCExt

Traces == JsonDeserialize(IOEnv.TRACE_FILE)
VARIABLES tid, l
TrKeyNames == {"a", "sub", "b", "deep", "c"}
TrKeyChars == [k \in TrKeyNames |-> CASE k = "a" -> <<"a">> [] k = "sub" -> <<"s","u","b">> [] k = "b" -> <<"b">>
                                       [] k = "deep" -> <<"d","e","e","p">> [] k = "c" -> <<"c">>]
RECURSIVE FixV(_)
FixV(v) ==
    IF v.t = "cfg" THEN CfgV([k \in DOMAIN v.vals |-> FixV(v.vals[k])], Range(v.dflt), v.dyn)
    ELSE IF v.t \in {"list", "tuple"} THEN [v EXCEPT !.l = [i \in DOMAIN v.l |-> FixV(v.l[i])]]
    ELSE IF v.t = "dict" THEN [v EXCEPT !.kv = [i \in DOMAIN v.kv |-> <<FixV(v.kv[i][1]), FixV(v.kv[i][2])>>]]
    ELSE v
TraceInit ==
    /\ tid \in 1..Len(Traces) /\ l = 1
    /\ LET g == Traces[tid].settings IN sch = SchemaE(g[1], g[2], g[3], g[4], g[5])
    /\ cfg = NoCfg /\ assigned = {} /\ ev = [op |-> "Init"] /\ steps = 0
Ev == Traces[tid].events[l]
Step(e) ==
    CASE e.op = "Build"  -> Build
      [] e.op = "Load"   -> Load(FixV(e.tree))
      [] e.op = "Assign" -> Assign(<<e.p, e.k>>, FixV(e.v))
      [] e.op = "Reset"  -> Reset(<<e.p, e.k>>)
TraceNext == l <= Len(Traces[tid].events) /\ Step(Ev) /\ l' = l + 1 /\ UNCHANGED <<tid, steps>>
BadObs ==
    LET e == Ev IN
    {n \in {"out", "errpath", "cfg", "names"} :
        CASE n = "out"     -> ev'.out # e.out
          [] n = "errpath" -> ev'.out = "ValidationError" /\ ev'.errpath # e.errpath
          [] n = "cfg"     -> cfg' # (IF e.cfg.t = "cfg" THEN FixV(e.cfg) ELSE NoCfg)
          [] n = "names"   -> Names # e.names}
BadAct == {n \in {"C14_AssignWins", "C14_NoBinding"} :
              CASE n = "C14_AssignWins" -> ~A_AssignWins [] n = "C14_NoBinding" -> ~A_NoBinding}
Report ==
    LET bo == BadObs
        bi == IF bo = {} THEN BadAct ELSE {}
        rec == IF bo = {} THEN [t |-> tid, l |-> l, bo |-> bo, bi |-> bi]
               ELSE [t |-> tid, l |-> l, bo |-> bo, bi |-> bi, m |-> [out |-> ev'.out, errpath |-> ev'.errpath, cfg |-> cfg', names |-> Names]]
    IN PrintT(<<"TRACE", ToJson(rec)>>) /\ bo = {}
BadState == {n \in {"C14_Name", "C14_EnvWins", "C14_InvalidFailsBuild"} :
                CASE n = "C14_Name" -> ~C14_Name [] n = "C14_EnvWins" -> ~C14_EnvWins
                  [] n = "C14_InvalidFailsBuild" -> ~C14_InvalidFailsBuild}
ReportState == l > 1 => PrintT(<<"TRACE", ToJson([t |-> tid, l |-> l - 1, bo |-> {}, bi |-> BadState, st |-> TRUE])>>)
TraceView == <<sch, cfg, assigned, tid, l>>
====
