---- MODULE MC_KeyFile ----
EXTENDS CincoKeyFile, Json

MCObjects == {"o1", "o2", "o3"}
MCPaths   == {"p1", "p2"}
MCPathOf  == [o \in MCObjects |-> IF o = "o3" THEN "p2" ELSE "p1"]

Export == PrintT(<<"EDGE", ToJson([from |-> St, ev |-> ev', to |-> St'])>>)
PInit  == (TLCGet("level") = 1) => PrintT(<<"INIT", ToJson(St)>>)
====
