CONSTANTS
  MaxOps = 3
INIT Init
NEXT Next
VIEW View
INVARIANT C08_ConcreteMethod
INVARIANT C08_Inverse
INVARIANT C08_FreshIV
INVARIANT C08_WrongKey
INVARIANT C08_XorInvolution
INVARIANT C08_MalformedRejected
INVARIANT C09_Exact
INVARIANT C09_SaltLen
INVARIANT C09_HandWrittenHashed
PROPERTY C09_FreshSalt
PROPERTY C09_Survives
