CONSTANTS
  Environ <- MCEnviron
  KeyNames <- MCKeyNames
  KeyChars <- MCKeyChars
  TheSchema <- SchemaA
  SetCands <- MCSetCands
  Trees <- MCTrees
  Kwargs <- MCKwargs
  ListOps <- MCListOps
  DictOps <- MCDictOps
  MaxDepth = 3
INIT Init
NEXT Next
VIEW View
CONSTRAINT Bound
INVARIANT C01_AllValid
INVARIANT C12_Fresh
PROPERTY C01_Readback
PROPERTY C06_Unchanged
PROPERTY C12_Marks
PROPERTY C12_Reset
PROPERTY C13_Isolated
