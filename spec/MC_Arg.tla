---- MODULE MC_Arg ----
EXTENDS ArgMachine

AuthS == SchemaF(<< <<"user_name", StringF>> >>)
DbS == SchemaF(<< <<"host", StringF>>, <<"pool_size", With(IntF, [default |-> IntV(5), hasmin |-> TRUE, min |-> 1]) @@ [help |-> "documented"]>>,
                  <<"ssl", With(BoolF, [default |-> BoolV(TRUE)])>>, <<"auth", AuthS>> >>)
SchemaG == SchemaF(<<
    <<"host", With(StringF, [default |-> StrV(<<"h", "0">>)]) @@ [help |-> "documented"]>>,
    <<"port", With(IntF, [hasmin |-> TRUE, min |-> 1, hasmax |-> TRUE, max |-> 9999, default |-> IntV(80)]) @@ [help |-> "documented"]>>,
    <<"rate", With(FloatF, [default |-> FloatH(3)])>>,
    <<"debug", With(BoolF, [default |-> BoolV(FALSE)])>>,
    <<"log_level", With(StringF, [tcase |-> "lower", choices |-> << <<"i", "n", "f", "o">>, <<"d", "e", "b", "u", "g">> >>, default |-> StrV(<<"i", "n", "f", "o">>)])>>,
    <<"tags", With(ListF(StringF), [default |-> ListV(<<>>)])>>,
    <<"db", DbS>>,
    <<"virt", VirtualF>> >>)
MCKeyNames == {"host", "port", "rate", "debug", "log_level", "tags", "db", "pool_size", "ssl", "auth", "user_name", "virt", "srv", "bind_ip", "net", "peer", "site_url", "conf_file", "api_key", "blob", "hash", "opts", "l1", "l2", "l3", "max_conn", "ratio", "on", "name2", "ct", "inner_flag", "a1", "feat", "enabled", "mode"}
MCKeyChars == [k \in MCKeyNames |-> CASE k = "host" -> <<"h", "o", "s", "t">> [] k = "port" -> <<"p", "o", "r", "t">> [] k = "rate" -> <<"r", "a", "t", "e">> [] k = "debug" -> <<"d", "e", "b", "u", "g">> [] k = "log_level" -> <<"l", "o", "g", "_", "l", "e", "v", "e", "l">> [] k = "tags" -> <<"t", "a", "g", "s">> [] k = "db" -> <<"d", "b">> [] k = "pool_size" -> <<"p", "o", "o", "l", "_", "s", "i", "z", "e">> [] k = "ssl" -> <<"s", "s", "l">> [] k = "auth" -> <<"a", "u", "t", "h">> [] k = "user_name" -> <<"u", "s", "e", "r", "_", "n", "a", "m", "e">> [] k = "virt" -> <<"v", "i", "r", "t">> [] k = "srv" -> <<"s", "r", "v">> [] k = "bind_ip" -> <<"b", "i", "n", "d", "_", "i", "p">> [] k = "net" -> <<"n", "e", "t">> [] k = "peer" -> <<"p", "e", "e", "r">> [] k = "site_url" -> <<"s", "i", "t", "e", "_", "u", "r", "l">> [] k = "conf_file" -> <<"c", "o", "n", "f", "_", "f", "i", "l", "e">> [] k = "api_key" -> <<"a", "p", "i", "_", "k", "e", "y">> [] k = "blob" -> <<"b", "l", "o", "b">> [] k = "hash" -> <<"h", "a", "s", "h">> [] k = "opts" -> <<"o", "p", "t", "s">> [] k = "l1" -> <<"l", "1">> [] k = "l2" -> <<"l", "2">> [] k = "l3" -> <<"l", "3">> [] k = "max_conn" -> <<"m", "a", "x", "_", "c", "o", "n", "n">> [] k = "ratio" -> <<"r", "a", "t", "i", "o">> [] k = "on" -> <<"o", "n">> [] k = "name2" -> <<"n", "a", "m", "e", "2">> [] k = "ct" -> <<"c", "t">> [] k = "inner_flag" -> <<"i", "n", "n", "e", "r", "_", "f", "l", "a", "g">> [] k = "a1" -> <<"a", "1">> [] k = "feat" -> <<"f", "e", "a", "t">> [] k = "enabled" -> <<"e", "n", "a", "b", "l", "e", "d">> [] k = "mode" -> <<"m", "o", "d", "e">>]
MCEnviron == [x \in {} |-> <<>>]
MCSetCands ==
    [pk \in {<< <<>>, "port">>, << <<>>, "debug">>, << <<"db">>, "ssl">>, << <<"db">>, "host">>, << <<>>, "log_level">>} |->
        CASE pk[2] = "port" -> {IntV(8000)}
          [] pk[2] = "debug" -> {BoolV(TRUE)}
          [] pk[2] = "ssl" -> {BoolV(FALSE)}
          [] pk[2] = "host" -> {StrV(<<"d", "b", "h", "o", "s", "t">>)}
          [] pk[2] = "log_level" -> {StrV(<<"d", "e", "b", "u", "g">>)}]
MCArgPool == {<<>>,
              <<[o |-> <<"-", "-", "p", "o", "r", "t">>, v |-> <<"8", "0", "8", "0">>]>>,
              <<[o |-> <<"-", "-", "p", "o", "r", "t">>, v |-> <<"a", "b", "c">>]>>,
              <<[o |-> <<"-", "-", "p", "o", "r", "t">>, v |-> <<"0">>]>>,
              <<[o |-> <<"-", "-", "d", "e", "b", "u", "g">>]>>,
              <<[o |-> <<"-", "-", "n", "o", "-", "d", "e", "b", "u", "g">>]>>,
              <<[o |-> <<"-", "-", "d", "e", "b", "u", "g">>], [o |-> <<"-", "-", "n", "o", "-", "d", "e", "b", "u", "g">>]>>,
              <<[o |-> <<"-", "-", "p", "o", "r", "t">>, v |-> <<"1">>], [o |-> <<"-", "-", "p", "o", "r", "t">>, v |-> <<"2">>]>>,
              <<[o |-> <<"-", "-", "d", "b", "-", "p", "o", "o", "l", "-", "s", "i", "z", "e">>, v |-> <<"9">>], [o |-> <<"-", "-", "n", "o", "-", "d", "b", "-", "s", "s", "l">>]>>,
              <<[o |-> <<"-", "-", "d", "b", "-", "a", "u", "t", "h", "-", "u", "s", "e", "r", "-", "n", "a", "m", "e">>, v |-> <<"b", "o", "b">>], [o |-> <<"-", "-", "l", "o", "g", "-", "l", "e", "v", "e", "l">>, v |-> <<"D", "E", "B", "U", "G">>]>>,
              <<[o |-> <<"-", "-", "r", "a", "t", "e">>, v |-> <<"2", ".", "5">>], [o |-> <<"-", "-", "h", "o", "s", "t">>, v |-> <<"x", ".", "y">>]>>,
              <<[o |-> <<"-", "-", "h", "o", "s", "t">>, v |-> <<"n", "e", "w">>], [o |-> <<"-", "-", "p", "o", "r", "t">>, v |-> <<"a", "b", "c">>], [o |-> <<"-", "-", "d", "b", "-", "s", "s", "l">>]>>,
              <<[o |-> <<"-", "-", "b", "o", "g", "u", "s">>]>>,
              <<[o |-> <<"-", "-", "p", "o", "r", "t">>]>>,
              <<[o |-> <<"-", "-", "d", "e", "b", "u", "g">>, v |-> <<"1">>]>>,
              <<[o |-> <<"-", "-", "l", "o", "g", "-", "l", "e", "v", "e", "l">>, v |-> <<"n", "o", "p", "e">>]>>,
              <<[o |-> <<"-", "-", "d", "b", "-", "h", "o", "s", "t">>, v |-> <<"d", "b", "h">>], [o |-> <<"-", "-", "d", "b", "-", "s", "s", "l">>]>>}
MCIgnore == {{}, {<<"port">>}, {<<"db", "ssl">>, <<"debug">>}}

(* ---- further schemas and pools derived from the schema itself: the quantifier "for every root
        schema" of C16 is sampled over shapes instead of one hand-written instance ---- *)
\* every string-like field class, numbers, switches, fields without an option (bytes, digest, typed
\* dict), three levels of nesting with "_" and digits in the keys, a config type (not recursed into)
L3S == SchemaF(<< <<"max_conn", With(IntF, [default |-> IntV(4)])>>, <<"inner_flag", With(BoolF, [default |-> BoolV(TRUE)])>> >>)
L2S == SchemaF(<< <<"ratio", FloatF>>, <<"l3", L3S>>, <<"name2", With(StringF, [maxlen |-> 3])>> >>)
L1S == SchemaF(<< <<"l2", L2S>>, <<"on", BoolF>> >>)
CtA == [ctype |-> TRUE] @@ SchemaF(<< <<"a1", With(IntF, [default |-> IntV(1)])>> >>)
SchemaG2 == SchemaF(<<
    <<"bind_ip", With(IPv4AddrF, [default |-> StrV(<<"1", "0", ".", "0", ".", "0", ".", "1">>)])>>,
    <<"net", IPv4NetF>>,
    <<"peer", HostnameF>>,
    <<"site_url", UrlF>>,
    <<"conf_file", FilenameF>>,
    <<"blob", BytesF>>,
    <<"hash", ChallengeF>>,
    <<"opts", With(DictF(StringF, IntF), [default |-> DictV(<<>>)])>>,
    <<"l1", L1S>>,
    <<"ct", CtA>>,
    <<"srv", With(PortF, [default |-> IntV(8080)])>>,
    \* sensitive scalars (and a secure field, whose storage is text) get their option like any other
    <<"api_key", With(StringF, [sensitive |-> TRUE])>>,
    <<"max_conn", With(IntF, [sensitive |-> TRUE, default |-> IntV(3)])>>,
    <<"on", With(BoolF, [sensitive |-> TRUE])>> >>)
\* a single nested level only, booleans only / nothing with an option at the root
SchemaG3 == SchemaF(<< <<"tags", With(ListF(StringF), [default |-> ListV(<<>>)])>>,
                       <<"l3", L3S>>, <<"virt", VirtualF>> >>)

\* pools derived from the option table
GTok(op, v) == IF op.action = "store" THEN [o |-> op.name, v |-> v] ELSE [o |-> op.name]
GVals(op) == IF op.action = "store" THEN {<<"7">>, <<"x", "y">>, <<"1", "0", ".", "0", ".", "0", ".", "9">>} ELSE {<<>>}
GenArgPool ==
    LET o == Options
        n == Len(o)
        one == {<<GTok(o[i], v)>> : i \in DOMAIN o, v \in {<<>>}} \cup UNION {{<<GTok(o[i], v)>> : v \in GVals(o[i])} : i \in DOMAIN o}
        two == IF n < 2 THEN {}
               ELSE {<<GTok(o[1], <<"7">>), GTok(o[n], <<"7">>)>>, <<GTok(o[n], <<"8">>), GTok(o[n], <<"9">>)>>,
                     <<GTok(o[1], <<"x", "y">>), GTok(o[2], <<"7">>)>>}
        novalue == {<<[o |-> o[i].name]>> : i \in {j \in DOMAIN o : o[j].action = "store"}}
        switchval == {<<[o |-> o[i].name, v |-> <<"1">>]>> : i \in {j \in DOMAIN o : o[j].action # "store"}}
    IN  {<<>>, <<[o |-> <<"-", "-", "b", "o", "g", "u", "s">>]>>} \cup one \cup two \cup novalue \cup switchval
GenIgnore == LET ds == DestOrder IN
             {{}} \cup (IF Len(ds) >= 1 THEN {{ds[1]}} ELSE {}) \cup (IF Len(ds) >= 3 THEN {{ds[Len(ds)], ds[2]}} ELSE {})
GenSetCandsA ==
    LET ds == DestSet IN
    [pk \in {<<SubSeq(d, 1, Len(d) - 1), d[Len(d)]>> : d \in ds} |->
        LET f == FieldOf(SchemaAt(S, pk[1]), pk[2]) IN
        CASE f.kind = "bool" -> {BoolV(TRUE), BoolV(FALSE)}
          [] f.kind \in {"int", "float"} -> {IntV(3)}
          [] OTHER -> {StrV(<<"1", "0", ".", "0", ".", "0", ".", "2">>)}]
====
