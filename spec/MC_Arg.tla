---- MODULE MC_Arg ----
EXTENDS ArgMachine

AuthS == SchemaF(<< <<"user_name", StringF>> >>)
DbS == SchemaF(<< <<"host", StringF>>, <<"pool_size", With(IntF, [default |-> IntV(5), hasmin |-> TRUE, min |-> 1]) @@ [help |-> "documented"]>>,
                  <<"ssl", With(BoolF, [default |-> BoolV(TRUE)])>>, <<"auth", AuthS>> >>)
SchemaG == SchemaF(<<
    <<"host", With(StringF, [default |-> StrV(<<"h", "0">>)]) @@ [help |-> "documented"]>>,
    <<"port", With(IntF, [hasmin |-> TRUE, min |-> 1, hasmax |-> TRUE, max |-> 9999, default |-> IntV(80)]) @@ [help |-> "documented"]>>,
    <<"rate", With(FloatF, [default |-> FloatH(3)])>>,
    <<"debug", With(BoolF, [default |-> BoolV(FALSE)])>>,
    <<"log_level", With(StringF, [tcase |-> "lower", choices |-> << <<"i", "n", "f", "o">>, <<"d", "e", "b", "u", "g">> >>, default |-> StrV(<<"i", "n", "f", "o">>)])>>,
    <<"tags", With(ListF(StringF), [default |-> ListV(<<>>)])>>,
    <<"db", DbS>>,
    <<"virt", VirtualF>> >>)
MCKeyNames == {"host", "port", "rate", "debug", "log_level", "tags", "db", "pool_size", "ssl", "auth", "user_name", "virt"}
MCKeyChars == [k \in MCKeyNames |-> CASE k = "host" -> <<"h", "o", "s", "t">> [] k = "port" -> <<"p", "o", "r", "t">> [] k = "rate" -> <<"r", "a", "t", "e">> [] k = "debug" -> <<"d", "e", "b", "u", "g">> [] k = "log_level" -> <<"l", "o", "g", "_", "l", "e", "v", "e", "l">> [] k = "tags" -> <<"t", "a", "g", "s">> [] k = "db" -> <<"d", "b">> [] k = "pool_size" -> <<"p", "o", "o", "l", "_", "s", "i", "z", "e">> [] k = "ssl" -> <<"s", "s", "l">> [] k = "auth" -> <<"a", "u", "t", "h">> [] k = "user_name" -> <<"u", "s", "e", "r", "_", "n", "a", "m", "e">> [] k = "virt" -> <<"v", "i", "r", "t">>]
MCEnviron == [x \in {} |-> <<>>]
MCSetCands ==
    [pk \in {<< <<>>, "port">>, << <<>>, "debug">>, << <<"db">>, "ssl">>, << <<"db">>, "host">>, << <<>>, "log_level">>} |->
        CASE pk[2] = "port" -> {IntV(8000)}
          [] pk[2] = "debug" -> {BoolV(TRUE)}
          [] pk[2] = "ssl" -> {BoolV(FALSE)}
          [] pk[2] = "host" -> {StrV(<<"d", "b", "h", "o", "s", "t">>)}
          [] pk[2] = "log_level" -> {StrV(<<"d", "e", "b", "u", "g">>)}]
MCArgPool == {<<>>,
              <<[o |-> <<"-", "-", "p", "o", "r", "t">>, v |-> <<"8", "0", "8", "0">>]>>,
              <<[o |-> <<"-", "-", "p", "o", "r", "t">>, v |-> <<"a", "b", "c">>]>>,
              <<[o |-> <<"-", "-", "p", "o", "r", "t">>, v |-> <<"0">>]>>,
              <<[o |-> <<"-", "-", "d", "e", "b", "u", "g">>]>>,
              <<[o |-> <<"-", "-", "n", "o", "-", "d", "e", "b", "u", "g">>]>>,
              <<[o |-> <<"-", "-", "d", "e", "b", "u", "g">>], [o |-> <<"-", "-", "n", "o", "-", "d", "e", "b", "u", "g">>]>>,
              <<[o |-> <<"-", "-", "p", "o", "r", "t">>, v |-> <<"1">>], [o |-> <<"-", "-", "p", "o", "r", "t">>, v |-> <<"2">>]>>,
              <<[o |-> <<"-", "-", "d", "b", "-", "p", "o", "o", "l", "-", "s", "i", "z", "e">>, v |-> <<"9">>], [o |-> <<"-", "-", "n", "o", "-", "d", "b", "-", "s", "s", "l">>]>>,
              <<[o |-> <<"-", "-", "d", "b", "-", "a", "u", "t", "h", "-", "u", "s", "e", "r", "-", "n", "a", "m", "e">>, v |-> <<"b", "o", "b">>], [o |-> <<"-", "-", "l", "o", "g", "-", "l", "e", "v", "e", "l">>, v |-> <<"D", "E", "B", "U", "G">>]>>,
              <<[o |-> <<"-", "-", "r", "a", "t", "e">>, v |-> <<"2", ".", "5">>], [o |-> <<"-", "-", "h", "o", "s", "t">>, v |-> <<"x", ".", "y">>]>>,
              <<[o |-> <<"-", "-", "h", "o", "s", "t">>, v |-> <<"n", "e", "w">>], [o |-> <<"-", "-", "p", "o", "r", "t">>, v |-> <<"a", "b", "c">>], [o |-> <<"-", "-", "d", "b", "-", "s", "s", "l">>]>>,
              <<[o |-> <<"-", "-", "b", "o", "g", "u", "s">>]>>,
              <<[o |-> <<"-", "-", "p", "o", "r", "t">>]>>,
              <<[o |-> <<"-", "-", "d", "e", "b", "u", "g">>, v |-> <<"1">>]>>,
              <<[o |-> <<"-", "-", "l", "o", "g", "-", "l", "e", "v", "e", "l">>, v |-> <<"n", "o", "p", "e">>]>>,
              <<[o |-> <<"-", "-", "d", "b", "-", "h", "o", "s", "t">>, v |-> <<"d", "b", "h">>], [o |-> <<"-", "-", "d", "b", "-", "s", "s", "l">>]>>}
MCIgnore == {{}, {<<"port">>}, {<<"db", "ssl">>, <<"debug">>}}
====
