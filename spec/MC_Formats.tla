----------------------------- MODULE MC_Formats -----------------------------
(***************************************************************************)
(* Model instances of FormatLab for C04.                                    *)
(*                                                                         *)
(* Trees are all plain-data dicts of bounded WEIGHT: a core leaf, an empty  *)
(* list and an empty dict weigh 1, an exotic leaf weighs 2, a container     *)
(* weighs 1 plus its children.  Budget is the weight allowed below the root *)
(* (Budget = 4: "up to 5 nodes").  The top level uses RootKeys, nested maps *)
(* NestKeys (deliberately not in alphabetical order).                       *)
(***************************************************************************)
EXTENDS FormatLab, Json

CONSTANTS Budget,     \* weight allowed below the root dict
          MaxDepth    \* nesting depth of containers below the root

S(x) == StrV(x)
K1     == <<"k","1">>
KItem  == <<"i","t","e","m">>
KA     == <<"a">>
KConf  == <<"c","o","n","f","i","g">>
RootKeys == << S(K1), S(KItem), S(KA), S(KConf) >>
NestKeys == << S(KItem), S(KA) >>

CoreLeaves == {BoolV(TRUE), IntV(1), FloatH(2), S(<<>>), S(<<"1">>), NoneV}
ExoticLeaves ==
    { BoolV(FALSE), IntV(0), IntV(-1),
      BigV(<<"2","1","4","7","4","8","3","6","4","8">>),                               \* 2^31
      BigV(Mag63), BigV(<<"-">> \o Mag63n),                                            \* 2^63-1, -2^63
      BigV(Mag63n),                                                                    \* 2^63: outside BSON
      FloatH(0), NZeroV, FloatH(3), FloatH(-5), FSpec("inf"), FSpec("ninf"), FSpec("nan"),
      FBigV(<<"1","e","+","1","6">>), FBigV(<<"0",".","1">>),
      S(<<"t","r","u","e">>), S(<<"T","r","u","e">>), S(<<"n","u","l","l">>), S(<<"1",".","0">>),
      S(<<" ","a"," ">>), S(<<"a","\n","b">>), S(<<"\n"," ","\n","\n","a","\n">>), S(<<"<","&">>), S(<<"\t">>), S(<<" ">>),
      S(<<"a","\r">>) }                                                                \* outside XML

\* increasing subsequences of ks with m elements
RECURSIVE KeySeqs(_, _)
KeySeqs(ks, m) ==
    IF m = 0 THEN {<<>>}
    ELSE IF Len(ks) < m THEN {}
    ELSE {<<Head(ks)>> \o r : r \in KeySeqs(Tail(ks), m - 1)} \cup KeySeqs(Tail(ks), m)
Zip(ks, vs) == [i \in DOMAIN ks |-> <<ks[i], vs[i]>>]

(* The candidate sets are tabulated bottom-up (TLCEval forces each table once; a plain
   recursive definition would recompute the lower levels exponentially often).  Unions of
   many sets are folded with \cup: TLC's UNION tests membership by linear search. *)
RECURSIVE CupFold(_, _, _)
CupFold(F(_), lo, hi) == IF lo > hi THEN {} ELSE F(lo) \cup CupFold(F, lo + 1, hi)

W == 0..Budget
LeafTab == [w \in W |-> IF w = 1 THEN CoreLeaves ELSE IF w = 2 THEN ExoticLeaves ELSE {}]

\* SeqTabs(T, m)[k + 1][w] = sequences of k values drawn from table T with total weight w
RECURSIVE SeqTabs(_, _)
SeqTabs(T, m) ==
    IF m = 0 THEN << [w \in W |-> IF w = 0 THEN {<<>>} ELSE {}] >>
    ELSE LET p    == SeqTabs(T, m - 1)
             last == p[m]
         IN  Append(p, TLCEval([w \in W |->
                 CupFold(LAMBDA a : {<<x>> \o s : x \in T[a], s \in last[w - a]}, 1, w)]))

\* values by weight one level further up: the leaves, and lists / dicts over the values of T
Up(T, keys) ==
    LET st == SeqTabs(T, Budget)
    IN  TLCEval([w \in W |->
            IF w = 0 THEN {}
            ELSE LeafTab[w]
                 \cup CupFold(LAMBDA m : {ListV(s) : s \in st[m + 1][w - 1]}, 0, w - 1)
                 \cup CupFold(LAMBDA m : {DictV(Zip(ks, s)) : ks \in KeySeqs(keys, m), s \in st[m + 1][w - 1]},
                              0, w - 1)])
RECURSIVE TabAt(_)
\* values by weight, d container levels below the root
TabAt(d) == IF d = MaxDepth THEN LeafTab ELSE Up(TabAt(d + 1), NestKeys)

\* a few trees outside some format's domain or with awkward keys
MCFixedTrees ==
    { DictV(<< <<S(<<"1">>), IntV(1)>> >>),                       \* key is not an XML name
      DictV(<< <<S(<<"a"," ","b">>), BoolV(TRUE)>> >>),
      DictV(<< <<S(<<>>), S(<<>>)>> >>),                          \* empty key
      DictV(<< <<S(<<"a",".","b","-","c","_">>), ListV(<<DictV(<<>>), ListV(<<NoneV>>)>>)>> >>),
      DictV(<< <<S(<<"_">>), DictV(<< <<S(<<"=">>), IntV(1)>> >>)>> >>),
      DictV(<< <<S(<<"x","m","l">>), FloatH(-1)>>, <<S(<<"A">>), S(<<"a">>)>>, <<S(<<"a">>), S(<<"A">>)>> >>) }

\* keys that are XML Names with a colon (known finding C04-xml-colon-key): every leaf under
\* each of them, and a few nested / mixed placements
ColonKeys == { <<"a",":","b">>, <<":","a">>, <<"a",":">>, <<"x",":","y",":","z">>, <<"x","m","l",":","a">>,
               <<"x","m","l","n","s",":","a">> }
MCColonTrees ==
    {DictV(<< <<S(k), v>> >>) : k \in ColonKeys,
                               v \in CoreLeaves \cup ExoticLeaves \cup {ListV(<<>>), DictV(<<>>)}}
    \cup {DictV(<< <<S(KA), DictV(<< <<S(k), IntV(1)>> >>)>> >>) : k \in ColonKeys}
    \cup {DictV(<< <<S(K1), BoolV(TRUE)>>, <<S(k), ListV(<<DictV(<< <<S(k), S(<<>>)>> >>)>>)>>, <<S(KItem), NoneV>> >>) :
             k \in ColonKeys}

\* All trees of weight <= Budget below the root, as initial states.  The trees are enumerated
\* by nested quantifiers (entry by entry, keys in the order of RootKeys) instead of being
\* collected into one constant set: TLC builds large sets with quadratically many comparisons.
RECURSIVE TreeFrom(_, _, _, _)
TreeFrom(T, kv, nk, rem) ==
    \/ lab = Session(DictV(kv))
    \/ \E i \in nk..Len(RootKeys) : \E w \in 1..rem : \E v \in T[w] :
          TreeFrom(T, Append(kv, <<RootKeys[i], v>>), i + 1, rem - w)
MCInit ==
    \/ LET T == TLCEval(TabAt(0)) IN TreeFrom(T, <<>>, 1, Budget)
    \/ \E t \in MCFixedTrees \cup MCColonTrees : lab = Session(t)
    \/ \E e \in Elems : lab = ElemSession(e)

\* the plan: every format, every option value, and two loads with the wrong root tag
O == DefaultOpts
WithO(f, x) == [O EXCEPT ![f] = x]
Same(fmt, o) == [fmt |-> fmt, opts |-> o, lopts |-> o]
MCPlan ==
    << Same("json", O), Same("json", WithO("pretty", FALSE)),
       Same("pickle", O), Same("bson", O),
       Same("yaml", O), Same("yaml", WithO("root_key", S(<<>>))),
       Same("yaml", WithO("root_key", S(KA))), Same("yaml", WithO("root_key", S(KConf))),
       Same("xml", O), Same("xml", WithO("root_tag", KA)), Same("xml", WithO("root_tag", KItem)),
       [fmt |-> "xml", opts |-> O, lopts |-> WithO("root_tag", KA)],
       [fmt |-> "xml", opts |-> WithO("root_tag", KItem), lopts |-> O] >>
MCRootTags == {KConf, KA, KItem, K1}

\* hand-written documents  <config><x type=TY>TEXT</x>...</config>
ElemTypes == {"str", "bool", "int", "float", "none", "list", "dict", "absent", "bogus"}
ElemTexts == { <<>>, <<"1">>, <<"0">>, <<" ","7"," ">>, <<"-","0">>, <<"+","5">>, <<"0","0","7">>, <<"1","_","0">>,
               <<"1",".","5">>, <<"2",".">>, <<".","5">>, <<"-","0",".","0">>, <<"i","n","f">>, <<"-","I","N","F">>,
               <<"N","a","N">>, <<"T","R","U","E">>, <<"y","e","s">>, <<"O","f","f">>, <<"n">>, <<"t","r","u">>,
               <<"b","l","a","h">>, <<"1","x">>, <<"1",".","5",".">>, <<" ">>, <<"\n">>,
               <<"9","2","2","3","3","7","2","0","3","6","8","5","4","7","7","5","8","0","8">> }
X == <<"x">>
MCElems ==
    {Elem(KConf, "dict", <<>>, <<Elem(X, ty, tx, <<>>)>>) : ty \in ElemTypes, tx \in ElemTexts}
    \cup {Elem(KConf, rt, <<>>, <<Elem(X, ty, <<>>, <<Elem(KA, "int", <<"1">>, <<>>), Elem(ItemTag, "absent", <<"v">>, <<>>),
                                                        Elem(KA, "bool", <<"n","o">>, <<>>)>>)>>) :
             ty \in {"list", "dict", "str", "absent"}, rt \in {"dict", "list", "str", "absent"}}
    \cup {Elem(tag, "dict", <<>>, <<>>) : tag \in {KConf, KA}}

---------------------------------------------------------------------------
(* sanity of the specification itself, evaluated by TLC before it starts *)
CRTree == DictV(<< <<S(KA), S(<<"a","\r","\n","b","\r">>)>> >>)
ASSUME ~InDomain("xml", CRTree) /\ InDomain("json", CRTree)
\* the restriction "without carriage return" is needed: outside it the XML mapping is not invertible
ASSUME ~SameTree(FromElement(XmlChannel(ToElement(KConf, CRTree)), "dict"), CRTree)
ASSUME ToElement(X, BoolV(TRUE)) = Elem(X, "bool", <<"t","r","u","e">>, <<>>)
ASSUME ToElement(X, FloatH(-5)).text = <<"-","2",".","5">> /\ ToElement(X, IntV(-7)).text = <<"-","7">>
ASSUME FloatOfText(<<"-","0",".","0">>).v = NZeroV /\ FloatOfText(<<"2",".","5","0">>).v = FloatH(5)
ASSUME IntOfText(<<"2","1","4","7","4","8","3","6","4","7">>).v = IntV(2147483647)
ASSUME IntOfText(<<"-","2","1","4","7","4","8","3","6","4","8">>).v.t = "big"
ASSUME In64(<<"-">> \o Mag63n) /\ In64(Mag63) /\ ~In64(Mag63n)
ASSUME IsXmlName(<<"a",":","b">>) /\ IsXmlName(<<":","a">>) /\ ~IsXmlName(<<"1",":">>) /\ ~IsXmlName(<<"a"," ","b">>)
ASSUME \A t \in MCColonTrees : HasColonKey(t) /\ (InDomain("xml", t) \/ ~XmlOk(DictV(<< <<S(KA), t>> >>)))
ASSUME ~IsNCName(<<"a",":","b">>) /\ ~IsNCName(<<"1">>) /\ ~IsNCName(<<>>) /\ IsNCName(<<"_","a",".","1","-">>)

(* export: the plan once, one line per session start, one JSON line per complete session *)
Slim(r) ==
    [skipped |-> r.skipped, elem |-> r.elem,
     out |-> IF r.out.ok /\ r.out.v = lab.t THEN [ok |-> TRUE, same |-> TRUE] ELSE r.out]
IsStart == lab.mode = "tree" /\ lab.pc = 1 /\ lab.stage = "idle"
PCase ==
    /\ (TLCGet("level") = 1 /\ lab.mode = "tree" /\ lab.t.kv = <<>>) => PrintT(<<"PLAN", ToJson(Plan)>>)
    /\ IsStart => PrintT(<<"INIT", ToJson([n |-> Len(lab.t.kv)])>>)
    /\ Final => IF lab.mode = "tree"
                THEN PrintT(<<"CASE", ToJson([mode |-> "tree", t |-> lab.t, colon |-> HasColonKey(lab.t),
                                              runs |-> [i \in DOMAIN lab.runs |-> Slim(lab.runs[i])]])>>)
                ELSE PrintT(<<"CASE", ToJson([mode |-> "elem", e |-> lab.e, out |-> lab.out])>>)
=============================================================================
