---- MODULE Trace_Arg ----
(* code -> spec for C16: logs of random assignments and random command lines (options of the
   generated parser with random values, repeated and contradictory switches, unknown options;
   random ignore lists) parsed by the real ArgumentParser and applied by cmdline_args_override
   are replayed against ArgMachine's actions. *)
EXTENDS MC_Arg, IOUtils, TLCExt

Traces == JsonDeserialize(IOEnv.TRACE_FILE)
VARIABLES tid, l
RECURSIVE FixV(_)
FixV(v) ==
    IF v.t = "cfg" THEN CfgV([k \in DOMAIN v.vals |-> FixV(v.vals[k])], Range(v.dflt), v.dyn)
    ELSE IF v.t \in {"list", "tuple"} THEN [v EXCEPT !.l = [i \in DOMAIN v.l |-> FixV(v.l[i])]]
    ELSE IF v.t = "dict" THEN [v EXCEPT !.kv = [i \in DOMAIN v.kv |-> <<FixV(v.kv[i][1]), FixV(v.kv[i][2])>>]]
    ELSE v
TraceInit == tid \in 1..Len(Traces) /\ l = 1 /\ Init
Ev == Traces[tid].events[l]
Step(e) ==
    CASE e.op = "Set"      -> Set(<<e.p, e.k>>, FixV(e.v))
      [] e.op = "Override" -> Override(e.argv, Range(e.ignore))
TraceNext == l <= Len(Traces[tid].events) /\ Step(Ev) /\ l' = l + 1 /\ UNCHANGED <<tid, steps>>
BadObs ==
    LET e == Ev IN
    {n \in {"out", "ns", "cfg"} :
        CASE n = "out" -> ev'.out # e.out
          [] n = "ns"  -> "ns" \in DOMAIN ev' /\ ev'.out # "SystemExit" /\ Range(ev'.ns) # Range(e.ns)
          [] n = "cfg" -> cfg' # FixV(e.cfg)}
Report ==
    LET bo == BadObs
        bi == IF bo = {} /\ ~A_OnlySupplied THEN {"C16_OnlySupplied"} ELSE {}
        rec == IF bo = {} THEN [t |-> tid, l |-> l, bo |-> bo, bi |-> bi]
               ELSE [t |-> tid, l |-> l, bo |-> bo, bi |-> bi, m |-> [ev |-> ev', cfg |-> cfg']]
    IN  IF ev'.out = "Unmodelled"
        THEN PrintT(<<"TRACE", ToJson([t |-> tid, l |-> l, bo |-> {}, bi |-> {}, skip |-> TRUE])>>) /\ FALSE
        ELSE PrintT(<<"TRACE", ToJson(rec)>>) /\ bo = {}
ReportState == TRUE
TraceView == <<cfg, tid, l>>
====
