---- MODULE Trace_Containers ----
(* code -> spec for C17: logs of random method calls on a real ListProxy / DictProxy are
   replayed against ListStep / DictStep; the logged outcome, return value, "still typed" flag
   and contents must equal the specification's (whose reference side is the built-in on
   normalised arguments), and C17_Same / C17_Return / C17_Validated are evaluated on every step. *)
EXTENDS MC_Containers, IOUtils, TLCExt

Traces == JsonDeserialize(IOEnv.TRACE_FILE)
VARIABLES tid, l
TraceInit == tid \in 1..Len(Traces) /\ l = 1 /\ Init
Ev == Traces[tid].events[l]
TraceNext ==
    /\ l <= Len(Traces[tid].events)
    /\ IF Ev.c = "list" THEN ListStep(Ev.op) ELSE DictStep(Ev.op)
    /\ l' = l + 1 /\ UNCHANGED <<tid, steps>>
BadObs ==
    LET e == Ev IN
    {n \in {"out", "ret", "typed", "L", "D"} :
        CASE n = "out"   -> ev'.out # e.out
          [] n = "ret"   -> ev'.ret # e.ret
          [] n = "typed" -> ev'.typed # e.typed
          [] n = "L"     -> L' # e.L
          [] n = "D"     -> D' # e.D}
Report ==
    LET bo == BadObs
        rec == IF bo = {} THEN [t |-> tid, l |-> l, bo |-> bo, bi |-> {}]
               ELSE [t |-> tid, l |-> l, bo |-> bo, bi |-> {}, m |-> [out |-> ev'.out, ret |-> ev'.ret, typed |-> ev'.typed, L |-> L', D |-> D']]
    IN PrintT(<<"TRACE", ToJson(rec)>>) /\ bo = {}
BadState == {n \in {"C17_Same", "C17_Return", "C17_StillTyped", "C17_Validated"} :
                CASE n = "C17_Same" -> ~C17_Same [] n = "C17_Return" -> ~C17_Return
                  [] n = "C17_StillTyped" -> ~C17_StillTyped [] n = "C17_Validated" -> ~C17_Validated}
ReportState == l > 1 => PrintT(<<"TRACE", ToJson([t |-> tid, l |-> l - 1, bo |-> {}, bi |-> BadState, st |-> TRUE])>>)
TraceView == <<L, R, D, RD, tid, l>>
====
