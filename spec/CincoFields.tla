---------------------------- MODULE CincoFields ----------------------------
(***************************************************************************)
(* The built-in field classes of cincoconfig as TLA+ operators over the    *)
(* abstract values of CincoValues:                                         *)
(*                                                                         *)
(*   Validate(f, v)  - Field.validate: the required check, the None        *)
(*                     short-circuit, then the class's _validate,          *)
(*                     transcribed branch by branch IN THE ORDER OF THE    *)
(*                     CODE (fields/*.py)                                  *)
(*   ToBasic(f, n)   - Field.to_basic      ToPython(f, b) - Field.to_python *)
(*   Meets(f, n)     - DECLARATIVE: the stored value n satisfies every     *)
(*                     constraint f declares (written from the documented  *)
(*                     constraints, not from the code order)               *)
(*   Coerce(f, v)    - DECLARATIVE: the normal form of an input value      *)
(*                                                                         *)
(* A field descriptor is a record  [kind |-> ..., <options>]  built with   *)
(* the constructor operators below; harness/fieldmap.py builds the real    *)
(* field object from the same record.                                      *)
(***************************************************************************)
EXTENDS CincoValues

Ok(v)    == [ok |-> TRUE, v |-> v]
Fail(e)  == [ok |-> FALSE, err |-> e]      \* e: exception class raised by the field

---------------------------------------------------------------------------
(* field descriptors *)
\* environment settings of fields and schemas: None / True / False / "NAME"
EnvInherit == [m |-> "inherit"]
EnvAuto    == [m |-> "auto"]
EnvOff     == [m |-> "off"]
EnvName(n) == [m |-> "name", n |-> n]      \* n: character sequence
Common == [required |-> FALSE, default |-> NoneV, sensitive |-> FALSE, fname |-> "",
           env |-> EnvInherit, fval |-> "none"]      \* fval: custom field validator (catalogue name)

StrOpts == [minlen |-> -1, maxlen |-> -1, regex |-> "none", choices |-> <<>>,
            tcase |-> "none", stripm |-> "none", stripcs |-> {}]

AnyF        == [kind |-> "any"] @@ Common
StringF     == [kind |-> "string"] @@ StrOpts @@ Common
IPv4AddrF   == [kind |-> "ipv4addr"] @@ StrOpts @@ Common
IPv4NetF    == [kind |-> "ipv4net", minpfx |-> -1, maxpfx |-> -1] @@ StrOpts @@ Common
HostnameF   == [kind |-> "hostname", allow_ipv4 |-> TRUE] @@ StrOpts @@ Common
UrlF        == [kind |-> "url"] @@ StrOpts @@ Common
FilenameF   == [kind |-> "filename", exists |-> "none", startdir |-> <<>>] @@ StrOpts @@ Common
IntF        == [kind |-> "int", hasmin |-> FALSE, min |-> 0, hasmax |-> FALSE, max |-> 0] @@ Common
FloatF      == [kind |-> "float", hasmin |-> FALSE, min |-> 0, hasmax |-> FALSE, max |-> 0] @@ Common
\* (cls: the harness builds the named subclass with its OWN defaults - PortField(), LogLevelField(),
\* ApplicationModeField() - so that the bounds / choices / transforms below are the class's, not ours)
PortF       == [cls |-> "port", kind |-> "int", hasmin |-> TRUE, min |-> 1, hasmax |-> TRUE, max |-> 65535] @@ Common
LogLevels   == << <<"d", "e", "b", "u", "g">>, <<"i", "n", "f", "o">>, <<"w", "a", "r", "n", "i", "n", "g">>,
                  <<"e", "r", "r", "o", "r">>, <<"c", "r", "i", "t", "i", "c", "a", "l">> >>
LogLevelF   == [cls |-> "loglevel"] @@ [StringF EXCEPT !.tcase = "lower", !.stripm = "ws", !.choices = LogLevels]
AppModes    == << <<"d", "e", "v", "e", "l", "o", "p", "m", "e", "n", "t">>, <<"p", "r", "o", "d", "u", "c", "t", "i", "o", "n">> >>
AppModeF    == [cls |-> "appmode_default"] @@ [StringF EXCEPT !.tcase = "lower", !.stripm = "ws", !.choices = AppModes]
BoolF       == [kind |-> "bool"] @@ Common
BytesF      == [kind |-> "bytes", encoding |-> "base64"] @@ Common
ListF(item) == [kind |-> "list", item |-> item] @@ Common
DictF(k, v) == [kind |-> "dict", keyf |-> k, valf |-> v] @@ Common
\* SecureField: plaintext in memory, encrypted on disk under the configuration's key file
SecureF     == [kind |-> "secure", method |-> "best"] @@ [Common EXCEPT !.sensitive = TRUE]
\* ChallengeField: in memory a digest value [t |-> "digest", alg, pt] (the random salt is not
\* part of the abstract value; salts are the subject of CincoCrypto / C09)
ChallengeF  == [kind |-> "challenge", alg |-> "sha256"] @@ Common
DigestV(alg, pt) == [t |-> "digest", alg |-> alg, pt |-> pt]
NoF         == [kind |-> "nofield"]          \* ListField(None) / untyped DictField side

With(f, g) == g @@ f        \* override options:  With(IntF, [hasmin |-> TRUE, min |-> 0])

StringKinds == {"string", "ipv4addr", "ipv4net", "hostname", "url", "filename"}

---------------------------------------------------------------------------
(* character codes (str.encode for the characters the models use) *)
CharCodePairs == {
    <<" ", 32>>, <<"!", 33>>, <<"\"", 34>>, <<"#", 35>>, <<"$", 36>>, <<"%", 37>>, <<"&", 38>>,
    <<"'", 39>>, <<"(", 40>>, <<")", 41>>, <<"*", 42>>, <<"+", 43>>, <<",", 44>>, <<"-", 45>>,
    <<".", 46>>, <<"/", 47>>, <<"0", 48>>, <<"1", 49>>, <<"2", 50>>, <<"3", 51>>, <<"4", 52>>,
    <<"5", 53>>, <<"6", 54>>, <<"7", 55>>, <<"8", 56>>, <<"9", 57>>, <<":", 58>>, <<";", 59>>,
    <<"<", 60>>, <<"=", 61>>, <<">", 62>>, <<"?", 63>>, <<"@", 64>>, <<"A", 65>>, <<"B", 66>>,
    <<"C", 67>>, <<"D", 68>>, <<"E", 69>>, <<"F", 70>>, <<"G", 71>>, <<"H", 72>>, <<"I", 73>>,
    <<"J", 74>>, <<"K", 75>>, <<"L", 76>>, <<"M", 77>>, <<"N", 78>>, <<"O", 79>>, <<"P", 80>>,
    <<"Q", 81>>, <<"R", 82>>, <<"S", 83>>, <<"T", 84>>, <<"U", 85>>, <<"V", 86>>, <<"W", 87>>,
    <<"X", 88>>, <<"Y", 89>>, <<"Z", 90>>, <<"[", 91>>, <<"\\", 92>>, <<"]", 93>>, <<"^", 94>>,
    <<"_", 95>>, <<"`", 96>>, <<"a", 97>>, <<"b", 98>>, <<"c", 99>>, <<"d", 100>>, <<"e", 101>>,
    <<"f", 102>>, <<"g", 103>>, <<"h", 104>>, <<"i", 105>>, <<"j", 106>>, <<"k", 107>>, <<"l",
    108>>, <<"m", 109>>, <<"n", 110>>, <<"o", 111>>, <<"p", 112>>, <<"q", 113>>, <<"r", 114>>,
    <<"s", 115>>, <<"t", 116>>, <<"u", 117>>, <<"v", 118>>, <<"w", 119>>, <<"x", 120>>, <<"y",
    121>>, <<"z", 122>>, <<"{", 123>>, <<"|", 124>>, <<"}", 125>>, <<"~", 126>>, <<"\t", 9>>,
    <<"\n", 10>>, <<"\r", 13>>, <<"\f", 12>>}
CharCode == [c \in {p[1] : p \in CharCodePairs} |-> (CHOOSE p \in CharCodePairs : p[1] = c)[2]]
CodeChar == [n \in {p[2] : p \in CharCodePairs} |-> (CHOOSE p \in CharCodePairs : p[2] = n)[1]]
Encodable(s) == \A i \in DOMAIN s : s[i] \in DOMAIN CharCode
Encode(s) == [i \in DOMAIN s |-> CharCode[s[i]]]

HexDigit == [d \in 0..15 |->
    CASE d < 10 -> DigitChar[d]
      [] d = 10 -> "a" [] d = 11 -> "b" [] d = 12 -> "c" [] d = 13 -> "d" [] d = 14 -> "e"
      [] d = 15 -> "f"]
HexVal(c) == IF c \in Digits THEN DigitVal[c]
             ELSE CASE LowerC(c) = "a" -> 10 [] LowerC(c) = "b" -> 11 [] LowerC(c) = "c" -> 12
                    [] LowerC(c) = "d" -> 13 [] LowerC(c) = "e" -> 14 [] LowerC(c) = "f" -> 15
IsHexChar(c) == c \in Digits \/ LowerC(c) \in {"a", "b", "c", "d", "e", "f"}
RECURSIVE HexEnc(_)
HexEnc(y) == IF y = <<>> THEN <<>>
             ELSE <<HexDigit[Head(y) \div 16], HexDigit[Head(y) % 16]>> \o HexEnc(Tail(y))
RECURSIVE HexDec(_)
HexDec(s) == IF s = <<>> THEN <<>>
             ELSE <<HexVal(s[1]) * 16 + HexVal(s[2])>> \o HexDec(SubSeq(s, 3, Len(s)))
\* bytes.fromhex: ASCII whitespace is skipped between bytes (not inside one)
RECURSIVE HexScan(_, _)
HexScan(s, acc) ==
    IF s = <<>> THEN [ok |-> TRUE, y |-> acc]
    ELSE IF Head(s) \in Whitespace \cup {"\f"} THEN HexScan(Tail(s), acc)
    ELSE IF Len(s) >= 2 /\ IsHexChar(s[1]) /\ IsHexChar(s[2])
         THEN HexScan(SubSeq(s, 3, Len(s)), Append(acc, HexVal(s[1]) * 16 + HexVal(s[2])))
    ELSE [ok |-> FALSE, y |-> acc]
HexOk(s) == HexScan(s, <<>>).ok

B64Alphabet == <<"A","B","C","D","E","F","G","H","I","J","K","L","M","N","O","P","Q","R","S","T",
                 "U","V","W","X","Y","Z","a","b","c","d","e","f","g","h","i","j","k","l","m","n",
                 "o","p","q","r","s","t","u","v","w","x","y","z","0","1","2","3","4","5","6","7",
                 "8","9","+","/">>
B64Val(c) == (CHOOSE i \in DOMAIN B64Alphabet : B64Alphabet[i] = c) - 1
IsB64Char(c) == \E i \in DOMAIN B64Alphabet : B64Alphabet[i] = c
RECURSIVE B64Enc(_)
B64Enc(y) ==
    IF y = <<>> THEN <<>>
    ELSE IF Len(y) = 1 THEN
        <<B64Alphabet[(y[1] \div 4) + 1], B64Alphabet[((y[1] % 4) * 16) + 1], "=", "=">>
    ELSE IF Len(y) = 2 THEN
        <<B64Alphabet[(y[1] \div 4) + 1], B64Alphabet[((y[1] % 4) * 16 + y[2] \div 16) + 1],
          B64Alphabet[((y[2] % 16) * 4) + 1], "=">>
    ELSE
        <<B64Alphabet[(y[1] \div 4) + 1], B64Alphabet[((y[1] % 4) * 16 + y[2] \div 16) + 1],
          B64Alphabet[((y[2] % 16) * 4 + y[3] \div 64) + 1], B64Alphabet[(y[3] % 64) + 1]>>
        \o B64Enc(SubSeq(y, 4, Len(y)))
\* canonical base64 only (what to_basic produces); anything else is outside the model
B64Ok(s) ==
    /\ Len(s) % 4 = 0
    /\ \A i \in DOMAIN s : IsB64Char(s[i]) \/ (s[i] = "=" /\ i >= Len(s) - 1)
    /\ (Len(s) >= 2 /\ s[Len(s) - 1] = "=") => s[Len(s)] = "="
RECURSIVE B64Dec(_)
B64Dec(s) ==
    IF s = <<>> THEN <<>>
    ELSE LET a == B64Val(s[1])  b == B64Val(s[2]) IN
         IF s[3] = "=" THEN <<a * 4 + b \div 16>>
         ELSE LET c == B64Val(s[3]) IN
              IF s[4] = "=" THEN <<a * 4 + b \div 16, (b % 16) * 16 + c \div 4>>
              ELSE <<a * 4 + b \div 16, (b % 16) * 16 + c \div 4, (c % 4) * 64 + B64Val(s[4])>>
                   \o B64Dec(SubSeq(s, 5, Len(s)))

---------------------------------------------------------------------------
(* regular-expression catalogue: name -> predicate (re.match semantics: anchored at the
   start only).  harness/fieldmap.py holds the concrete pattern strings. *)
RegexOk(r, s) ==
    CASE r = "none" -> TRUE
      [] r = "R1" -> s # <<>> /\ \A i \in DOMAIN s : s[i] \in LowerLetters      \* [a-z]+\Z
      [] r = "R2" -> s # <<>> /\ s[1] = "a"                                      \* a
      [] r = "R3" -> Len(s) >= 2 /\ s[1] \in Digits /\ s[2] \in Digits           \* [0-9]{2}

---------------------------------------------------------------------------
(* textual grammars *)

\* one decimal octet as ipaddress parses it: 1-3 ASCII digits, no leading zero, <= 255
OctetOk(p) == IsDigits(p) /\ Len(p) <= 3 /\ (Len(p) > 1 => p[1] # "0") /\ ToNat(p) <= 255
IsIPv4(s) == LET ps == Split(s, ".") IN Len(ps) = 4 /\ \A i \in 1..4 : OctetOk(ps[i])
Octets(s) == LET ps == Split(s, ".") IN [i \in 1..4 |-> ToNat(ps[i])]

Pow2 == [k \in 0..8 |-> CASE k = 0 -> 1 [] k = 1 -> 2 [] k = 2 -> 4 [] k = 3 -> 8 [] k = 4 -> 16
                           [] k = 5 -> 32 [] k = 6 -> 64 [] k = 7 -> 128 [] k = 8 -> 256]
\* no host bits set below prefix length p
HostBitsClear(oct, p) ==
    \A i \in 1..4 :
        IF p >= 8 * i THEN TRUE
        ELSE IF p <= 8 * (i - 1) THEN oct[i] = 0
        ELSE oct[i] % Pow2[8 - (p - 8 * (i - 1))] = 0
\* "a.b.c.d" or "a.b.c.d/p" with p decimal digits (netmask / hostmask notations are
\* outside the model and are never generated)
NetParts(s) == Split(s, "/")
IsIPv4Net(s) ==
    LET ps == NetParts(s) IN
    /\ Len(ps) \in {1, 2}
    /\ IsIPv4(ps[1])
    /\ Len(ps) = 2 => IsDigits(ps[2]) /\ ToNat(ps[2]) <= 32
    /\ HostBitsClear(Octets(ps[1]), IF Len(ps) = 2 THEN ToNat(ps[2]) ELSE 32)
NetPrefix(s) == LET ps == NetParts(s) IN IF Len(ps) = 2 THEN ToNat(ps[2]) ELSE 32
NetCanon(s) == LET ps == NetParts(s) IN ps[1] \o <<"/">> \o NatStr(NetPrefix(s))

AlnumAscii == AsciiLetters \cup Digits
\* HOSTNAME_REGEX ^[a-zA-Z0-9][a-zA-Z0-9.\-]+$   ('$' also matches before one trailing \n)
DropNL(s) == IF s # <<>> /\ s[Len(s)] = "\n" THEN SubSeq(s, 1, Len(s) - 1) ELSE s
DnsNameOk(s) ==
    LET u == DropNL(s) IN
    /\ Len(u) >= 2 /\ u[1] \in AlnumAscii
    /\ \A i \in 2..Len(u) : u[i] \in AlnumAscii \cup {".", "-"}
\* NETBIOS_REGEX ^[\w!@#$%^()\-'{}\.~]{1,15}$
NetbiosChars == AlnumAscii \cup {"_", "!", "@", "#", "$", "%", "^", "(", ")", "-", "'", "{", "}", ".", "~"}
NetbiosOk(s) ==
    LET u == DropNL(s) IN
    Len(u) \in 1..15 /\ \A i \in DOMAIN u : u[i] \in NetbiosChars

\* urllib.parse.urlparse(value).scheme is non-empty
SchemeChars == AlnumAscii \cup {"+", "-", "."}
UrlC0 == {" ", "\t", "\n", "\r", "\f"}
RECURSIVE Remove(_, _)
Remove(s, cs) == IF s = <<>> THEN <<>>
                 ELSE IF Head(s) \in cs THEN Remove(Tail(s), cs) ELSE <<Head(s)>> \o Remove(Tail(s), cs)
HasScheme(s) ==
    LET u == Remove(LStrip(s, UrlC0), {"\t", "\r", "\n"})
        i == Find(u, ":")
    IN  /\ i > 1
        /\ u[1] \in AsciiLetters
        /\ \A j \in 1..(i - 1) : u[j] \in SchemeChars

\* int(str): optional whitespace, sign, digits with single underscores between digits
IntText(s) ==
    LET u == Strip(s, Whitespace)
        neg == u # <<>> /\ u[1] = "-"
        d == IF u # <<>> /\ u[1] \in {"+", "-"} THEN Tail(u) ELSE u
        parts == Split(d, "_")
        okay == d # <<>> /\ \A i \in DOMAIN parts : IsDigits(parts[i])
        RECURSIVE Cat(_)
        Cat(ps) == IF ps = <<>> THEN <<>> ELSE Head(ps) \o Cat(Tail(ps))
        digits == Cat(parts)
    IN  IF okay /\ Len(digits) <= 9
        THEN [ok |-> TRUE, i |-> IF neg THEN -ToNat(digits) ELSE ToNat(digits)]
        ELSE [ok |-> FALSE]

\* float(str) for the textual forms the models use: [ws][sign] digits [. [0|5|]] [ws],
\* inf / infinity / nan in any case.  Other Python float syntax (exponents, more
\* fraction digits, underscores) is outside the model and never generated.
FloatText(s) ==
    LET u == Strip(s, Whitespace)
        neg == u # <<>> /\ u[1] = "-"
        d == IF u # <<>> /\ u[1] \in {"+", "-"} THEN Tail(u) ELSE u
        low == Lower(d)
        ps0 == Split(d, ".")
        \* single underscores between digits are allowed in the integer part
        up == IF ps0 # <<>> THEN Split(ps0[1], "_") ELSE <<>>
        RECURSIVE Cat(_)
        Cat(xs) == IF xs = <<>> THEN <<>> ELSE Head(xs) \o Cat(Tail(xs))
        ipart == IF up # <<>> /\ \A i \in DOMAIN up : IsDigits(up[i]) THEN Cat(up) ELSE <<"x">>
        ps == IF ps0 = <<>> THEN ps0 ELSE [ps0 EXCEPT ![1] = ipart]
    IN  IF low \in {<<"i","n","f">>, <<"i","n","f","i","n","i","t","y">>}
        THEN [ok |-> TRUE, v |-> FSpec(IF neg THEN "ninf" ELSE "inf")]
        ELSE IF low = <<"n","a","n">> THEN [ok |-> TRUE, v |-> FSpec("nan")]
        ELSE IF Len(ps) = 1 /\ IsDigits(ps[1]) /\ Len(ps[1]) <= 8
        THEN [ok |-> TRUE, v |-> FloatH((IF neg THEN -2 ELSE 2) * ToNat(ps[1]))]
        ELSE IF Len(ps) = 2 /\ IsDigits(ps[1]) /\ Len(ps[1]) <= 8 /\ ps[2] \in {<<>>, <<"0">>, <<"5">>}
        THEN [ok |-> TRUE,
              v |-> FloatH((IF neg THEN -1 ELSE 1) * (2 * ToNat(ps[1]) + (IF ps[2] = <<"5">> THEN 1 ELSE 0)))]
        ELSE [ok |-> FALSE]

BoolTrue  == {<<"t">>, <<"t","r","u","e">>, <<"1">>, <<"o","n">>, <<"y","e","s">>, <<"y">>}
BoolFalse == {<<"f">>, <<"f","a","l","s","e">>, <<"0">>, <<"o","f","f">>, <<"n","o">>, <<"n">>}

---------------------------------------------------------------------------
(* abstract file system for FilenameField: the character "$" stands for the scratch root
   directory of the harness; under it  f  is a regular file,  d  a directory holding the
   regular file  g,  m  missing. *)
IsAbsPath(s) == s # <<>> /\ s[1] \in {"/", "$"}
FsKind(p) ==
    CASE p = <<"$", "/", "f">> -> "file"
      [] p = <<"$", "/", "d">> -> "dir"
      [] p = <<"$", "/", "d", "/", "g">> -> "file"
      [] p = <<"$">>           -> "dir"
      [] OTHER                 -> "missing"
\* relative names are looked up from the process's working directory, which the harness
\* sets to the scratch root
FsLookup(s) == IF IsAbsPath(s) THEN FsKind(s) ELSE FsKind(<<"$", "/">> \o s)

---------------------------------------------------------------------------
(* StringField._validate, in the order of string_field.py: type, strip, case (+ strip
   again), required-empty, min/max length, regex, choices *)
StringValidate(f, v) ==
    IF ~IsStr(v) THEN Fail("ValueError")
    ELSE
    LET s1 == CASE f.stripm = "ws"    -> Strip(v.s, Whitespace)
                [] f.stripm = "chars" -> Strip(v.s, f.stripcs)
                [] OTHER              -> v.s
        sc == CASE f.tcase = "lower" -> Lower(s1) [] f.tcase = "upper" -> Upper(s1) [] OTHER -> s1
        \* strip again after a case transform (characters of the strip set may have appeared)
        s2 == IF f.tcase # "none" /\ f.stripm = "chars" THEN Strip(sc, f.stripcs) ELSE sc
    IN  IF f.required /\ s2 = <<>> THEN Fail("ValueError")
        ELSE
            IF f.minlen >= 0 /\ Len(s2) < f.minlen THEN Fail("ValueError")
            ELSE IF f.maxlen >= 0 /\ Len(s2) > f.maxlen THEN Fail("ValueError")
            ELSE IF ~RegexOk(f.regex, s2) THEN Fail("ValueError")
            ELSE IF f.choices # <<>> /\ s2 \notin Range(f.choices) THEN Fail("ValueError")
            ELSE Ok(StrV(s2))

\* NumberField._validate (number_field.py:41-74); bounds of a float field are given in
\* halves like float values
NumberValidate(f, v) ==
    IF v.t \notin {"str", "int", "float", "fspec"} THEN Fail("ValueError")
    ELSE
    LET conv ==
        IF f.kind = "int" THEN
            CASE v.t = "int"   -> Ok(v)
              [] v.t = "float" -> Ok(IntV(TruncHalf(v.h)))
              [] v.t = "fspec" -> IF v.k = "nan" THEN Fail("ValueError") ELSE Fail("OverflowError")
              [] v.t = "str"   -> LET r == IntText(v.s) IN IF r.ok THEN Ok(IntV(r.i)) ELSE Fail("ValueError")
        ELSE
            CASE v.t = "int"   -> Ok(FloatH(2 * v.i))
              [] v.t = "float" -> Ok(v)
              [] v.t = "fspec" -> Ok(v)
              [] v.t = "str"   -> LET r == FloatText(v.s) IN IF r.ok THEN Ok(r.v) ELSE Fail("ValueError")
    IN  IF ~conv.ok THEN conv
        ELSE
        LET n == conv.v
            \* `not num >= min`: comparisons with NaN are all false, so NaN fails any bound
            ge(a, b) == CASE a.t = "fspec" -> a.k = "inf"
                          [] OTHER -> (IF a.t = "int" THEN a.i ELSE a.h) >= b
            le(a, b) == CASE a.t = "fspec" -> a.k = "ninf"
                          [] OTHER -> (IF a.t = "int" THEN a.i ELSE a.h) <= b
        IN  IF f.hasmin /\ ~ge(n, f.min) THEN Fail("ValueError")
            ELSE IF f.hasmax /\ ~le(n, f.max) THEN Fail("ValueError")
            ELSE Ok(n)

BoolValidate(f, v) ==
    CASE v.t = "bool"  -> Ok(v)
      [] v.t \in {"int", "float", "fspec"} -> Ok(BoolV(Truthy(v)))
      [] v.t = "str"   -> IF Lower(v.s) \in BoolTrue THEN Ok(BoolV(TRUE))
                          ELSE IF Lower(v.s) \in BoolFalse THEN Ok(BoolV(FALSE))
                          ELSE Fail("ValueError")
      [] OTHER -> Fail("ValueError")

BytesValidate(f, v) ==
    CASE v.t = "str"   -> IF Encodable(v.s) THEN Ok(BytesV(Encode(v.s))) ELSE Fail("Unmodelled")
      [] v.t = "bytes" -> Ok(v)
      [] OTHER -> Fail("ValueError")

FilenameCheck(f, s) ==
    IF s = <<>> THEN Ok(StrV(s))
    ELSE
    LET \* os.path.abspath(os.path.join(startdir, value)): a relative start directory is taken
        \* from the working directory (the scratch root), so the result is always absolute
        sd == IF IsAbsPath(f.startdir) THEN f.startdir ELSE <<"$", "/">> \o f.startdir
        p == IF ~IsAbsPath(s) /\ f.startdir # <<>> THEN sd \o <<"/">> \o s ELSE s
        k == FsLookup(p)
    IN  IF f.exists = "true" /\ k = "missing" THEN Fail("ValueError")
        ELSE IF f.exists = "false" /\ k # "missing" THEN Fail("ValueError")
        ELSE IF f.exists = "dir" /\ k # "dir" THEN Fail("ValueError")
        ELSE IF f.exists = "file" /\ k # "file" THEN Fail("ValueError")
        ELSE Ok(StrV(p))

RECURSIVE Validate(_, _)
RECURSIVE ValidateItems(_, _, _)
\* ListProxy(cfg, field, iterable): every item through the item field, first failure wins
ValidateItems(item, l, acc) ==
    IF l = <<>> THEN Ok(ListV(acc))
    ELSE LET r == Validate(item, Head(l)) IN
         IF r.ok THEN ValidateItems(item, Tail(l), Append(acc, r.v)) ELSE r

RECURSIVE ValidatePairs(_, _, _)
\* DictProxy(cfg, field, iterable): key then value through their fields; dict() of the pairs
ValidatePairs(f, kv, acc) ==
    IF kv = <<>> THEN Ok(DictV(DictFromPairs(acc, <<>>)))
    ELSE LET rk == Validate(f.keyf, Head(kv)[1]) IN
         IF ~rk.ok THEN Fail("ValidationError")
         ELSE LET rv == Validate(f.valf, Head(kv)[2]) IN
              IF ~rv.ok THEN Fail("ValidationError")
              ELSE ValidatePairs(f, Tail(kv), Append(acc, <<rk.v, rv.v>>))

\* the class's _validate
ClassValidate(f, v) ==
    CASE f.kind = "any"      -> Ok(v)
      [] f.kind = "nofield"  -> Ok(v)
      [] f.kind = "string"   -> StringValidate(f, v)
      [] f.kind = "ipv4addr" ->
            LET r == StringValidate(f, v) IN
            IF ~r.ok THEN r ELSE IF IsIPv4(r.v.s) THEN r ELSE Fail("ValueError")
      [] f.kind = "ipv4net"  ->
            LET r == StringValidate(f, v) IN
            IF ~r.ok THEN r
            ELSE IF ~IsIPv4Net(r.v.s) THEN Fail("ValueError")
            ELSE IF f.minpfx >= 0 /\ NetPrefix(r.v.s) < f.minpfx THEN Fail("ValueError")
            ELSE IF f.maxpfx >= 0 /\ NetPrefix(r.v.s) > f.maxpfx THEN Fail("ValueError")
            ELSE Ok(StrV(NetCanon(r.v.s)))
      [] f.kind = "hostname" ->
            LET r == StringValidate(f, v) IN
            IF ~r.ok THEN r
            ELSE IF IsIPv4(r.v.s) THEN (IF f.allow_ipv4 THEN r ELSE Fail("ValueError"))
            ELSE IF DnsNameOk(r.v.s) \/ NetbiosOk(r.v.s) THEN r ELSE Fail("ValueError")
      [] f.kind = "url"      ->
            LET r == StringValidate(f, v) IN
            IF ~r.ok THEN r ELSE IF HasScheme(r.v.s) THEN r ELSE Fail("ValueError")
      [] f.kind = "filename" ->
            LET r == StringValidate(f, v) IN
            IF ~r.ok THEN r ELSE FilenameCheck(f, r.v.s)
      [] f.kind \in {"int", "float"} -> NumberValidate(f, v)
      [] f.kind = "bool"     -> BoolValidate(f, v)
      [] f.kind = "bytes"    -> BytesValidate(f, v)
      [] f.kind = "secure"   -> Ok(v)            \* SecureField has no _validate of its own
      [] f.kind = "challenge" ->
            IF v.t \in {"str", "bytes"} THEN Ok(DigestV(f.alg, v))
            ELSE IF v.t = "digest" THEN Ok(v)
            ELSE Fail("ValueError")
      [] f.kind = "list"     ->
            IF v.t \notin {"list", "tuple"} THEN Fail("ValueError")
            ELSE IF f.required /\ v.l = <<>> THEN Fail("ValueError")
            ELSE IF f.item.kind \in {"nofield", "any"} THEN Ok(ListV(v.l))   \* list(value)
            ELSE ValidateItems(f.item, v.l, <<>>)
      [] f.kind = "dict"     ->
            IF v.t # "dict" THEN Fail("ValueError")
            ELSE IF f.required /\ v.kv = <<>> THEN Fail("ValueError")
            ELSE IF f.keyf.kind = "nofield" /\ f.valf.kind = "nofield" THEN Ok(v)
            ELSE ValidatePairs(f, v.kv, <<>>)

\* custom field validators (validator(field) / Field(validator=...)): a small catalogue; a
\* validator receives the value the class accepted and may transform or reject it
FieldVal(name, v) ==
    CASE name = "v_even" -> IF v.t = "int" /\ v.i % 2 = 0 THEN Ok(v) ELSE Fail("ValueError")
      [] name = "v_fail" -> Fail("ValueError")
      [] name = "v_neg"  -> IF v.t = "int" THEN Ok(IntV(-v.i)) ELSE Ok(v)      \* transforms (not idempotent on purpose)

\* Field.validate (core.py:443-461)
Validate(f, v) ==
    IF f.kind = "nofield" THEN Ok(v)
    ELSE IF f.required /\ IsNone(v) THEN Fail("ValueError")
    ELSE IF IsNone(v) THEN Ok(v)
    ELSE LET r == ClassValidate(f, v) IN
         IF ~r.ok \/ f.fval = "none" THEN r ELSE FieldVal(f.fval, r.v)

---------------------------------------------------------------------------
(* on-disk encoding.  `key` names the key file of the configuration that owns the field
   (only SecureField uses it).  An encrypted secret is the opaque leaf
       [t |-> "enc", m |-> "aes"|"xor", key |-> <key file name>, pt |-> <plaintext value>]
   which stands for the map {"method": m, "ciphertext": base64(...)}; a digest leaf
   [t |-> "digest", alg, pt] stands for the map {"salt": ..., "digest": ...}.  The conformance
   harness converts between these leaves and real documents with independent cipher / hash
   implementations. *)
ConcreteMethod(m) == IF m = "best" THEN "aes" ELSE m
EncV(m, key, pt) == [t |-> "enc", m |-> m, key |-> key, pt |-> pt]

RECURSIVE ToBasicK(_, _, _)
ToBasicK(f, n, key) ==
    CASE f.kind = "bytes" ->
            IF IsNone(n) THEN n
            ELSE IF f.encoding = "hex" THEN StrV(HexEnc(n.y)) ELSE StrV(B64Enc(n.y))
      [] f.kind = "secure" ->
            IF ~Truthy(n) THEN NoneV ELSE EncV(ConcreteMethod(f.method), key, n)
      [] f.kind = "list" ->
            IF IsNone(n) THEN n
            ELSE IF n.l = <<>> THEN ListV(<<>>)
            ELSE IF f.item.kind = "nofield" THEN ListV(n.l)
            ELSE ListV([i \in DOMAIN n.l |-> ToBasicK(f.item, n.l[i], key)])
      [] f.kind = "dict" ->
            IF IsNone(n) THEN n
            ELSE IF n.kv = <<>> THEN DictV(<<>>)
            ELSE IF f.keyf.kind = "nofield" /\ f.valf.kind = "nofield" THEN n
            ELSE DictV(DictFromPairs([i \in DOMAIN n.kv |->
                        <<ToBasicK(f.keyf, n.kv[i][1], key), ToBasicK(f.valf, n.kv[i][2], key)>>], <<>>))
      [] OTHER -> n          \* incl. challenge: the digest value is its own leaf
ToBasic(f, n) == ToBasicK(f, n, "nokey")

RECURSIVE ToPythonK(_, _, _)
RECURSIVE ToPythonItems(_, _, _, _)
ToPythonItems(item, l, acc, key) ==
    IF l = <<>> THEN Ok(acc)
    ELSE LET r == ToPythonK(item, Head(l), key) IN
         IF r.ok THEN ToPythonItems(item, Tail(l), Append(acc, r.v), key) ELSE r
RECURSIVE ToPythonPairs(_, _, _, _)
ToPythonPairs(f, kv, acc, key) ==
    IF kv = <<>> THEN Ok(acc)
    ELSE LET rk == ToPythonK(f.keyf, Head(kv)[1], key)  rv == ToPythonK(f.valf, Head(kv)[2], key) IN
         IF ~rk.ok THEN rk ELSE IF ~rv.ok THEN rv
         ELSE ToPythonPairs(f, Tail(kv), Append(acc, <<rk.v, rv.v>>), key)

ToPythonK(f, b, key) ==
    CASE f.kind = "bytes" ->
            IF IsNone(b) THEN Ok(b)
            ELSE IF ~IsStr(b) THEN Fail("ValueError")
            ELSE IF f.encoding = "hex"
                 THEN IF HexOk(b.s) THEN Ok(BytesV(HexScan(b.s, <<>>).y)) ELSE Fail("ValueError")
                 ELSE IF B64Ok(b.s) THEN Ok(BytesV(B64Dec(b.s))) ELSE Fail("Unmodelled")
      [] f.kind = "secure" ->
            \* secure_field.py to_python: None and plain strings pass through; a stored secret
            \* decrypts only under the key file it was encrypted with
            IF IsNone(b) \/ IsStr(b) THEN Ok(b)
            ELSE IF b.t = "enc" THEN (IF b.key = key THEN Ok(b.pt) ELSE Fail("ValueError"))
            ELSE IF b.t = "dict" THEN Fail("Unmodelled")     \* malformed stored secrets: CincoCrypto / C08
            ELSE Fail("ValueError")
      [] f.kind = "challenge" ->
            IF IsNone(b) THEN Ok(b)
            ELSE IF b.t = "digest" THEN Ok([b EXCEPT !.alg = f.alg])
            ELSE IF IsStr(b) THEN Ok(DigestV(f.alg, b))      \* plaintext written by hand is hashed
            ELSE IF b.t = "dict" THEN Fail("Unmodelled")
            ELSE Fail("ValueError")
      [] f.kind = "list" ->
            \* list_field.py to_python: decode every item with the item field, then validate
            IF f.item.kind \in {"nofield", "any"} \/ b.t \notin {"list", "tuple"} THEN
                (IF f.item.kind \in {"nofield", "any"} THEN Ok(b)
                 ELSE IF ~Truthy(b) THEN Ok(ListV(<<>>))     \* ListProxy(cfg, f, None | {} | "" | 0): `iterable or []`
                 ELSE Fail("Unmodelled"))
            ELSE LET d == ToPythonItems(f.item, b.l, <<>>, key) IN
                 IF ~d.ok THEN d ELSE ValidateItems(f.item, d.v, <<>>)
      [] f.kind = "dict" ->
            IF f.keyf.kind = "nofield" /\ f.valf.kind = "nofield" THEN Ok(b)
            ELSE IF ~Truthy(b) THEN Ok(DictV(<<>>))          \* DictProxy(cfg, f, None | [] | "" | 0): `iterable or []`
            ELSE IF b.t # "dict" THEN Fail("Unmodelled")
            ELSE LET d == ToPythonPairs(f, b.kv, <<>>, key) IN
                 IF ~d.ok THEN d ELSE ValidatePairs(f, d.v, <<>>)
      [] OTHER -> Ok(b)
ToPython(f, b) == ToPythonK(f, b, "nokey")

---------------------------------------------------------------------------
(* DECLARATIVE side: what a stored value must satisfy, and the normal form of an input *)
StringMeets(f, n) ==
    /\ IsStr(n)
    /\ f.stripm = "ws"    => n.s = Strip(n.s, Whitespace)
    /\ f.stripm = "chars" => n.s = Strip(n.s, f.stripcs)
    /\ f.tcase = "lower"  => n.s = Lower(n.s)
    /\ f.tcase = "upper"  => n.s = Upper(n.s)
    /\ f.required => n.s # <<>>
    /\ f.minlen >= 0 => Len(n.s) >= f.minlen
    /\ f.maxlen >= 0 => Len(n.s) <= f.maxlen
    /\ RegexOk(f.regex, n.s)
    /\ f.choices # <<>> => n.s \in Range(f.choices)

NumInRange(f, n) ==
    LET x == IF n.t = "int" THEN n.i ELSE n.h IN
    /\ f.hasmin => (IF n.t = "fspec" THEN n.k = "inf" ELSE x >= f.min)
    /\ f.hasmax => (IF n.t = "fspec" THEN n.k = "ninf" ELSE x <= f.max)

RECURSIVE Meets(_, _)
Meets(f, n) ==
    IF f.kind = "nofield" THEN TRUE
    ELSE IF IsNone(n) THEN ~f.required
    ELSE
    CASE f.kind \in {"any", "nofield"} -> TRUE
      [] f.kind = "string"   -> StringMeets(f, n)
      [] f.kind = "ipv4addr" -> StringMeets(f, n) /\ IsIPv4(n.s)
      [] f.kind = "ipv4net"  -> /\ StringMeets(f, n) /\ IsIPv4Net(n.s) /\ n.s = NetCanon(n.s)
                                /\ f.minpfx >= 0 => NetPrefix(n.s) >= f.minpfx
                                /\ f.maxpfx >= 0 => NetPrefix(n.s) <= f.maxpfx
      [] f.kind = "hostname" -> /\ StringMeets(f, n)
                                /\ IF IsIPv4(n.s) THEN f.allow_ipv4 ELSE DnsNameOk(n.s) \/ NetbiosOk(n.s)
      [] f.kind = "url"      -> StringMeets(f, n) /\ HasScheme(n.s)
      [] f.kind = "filename" -> /\ IsStr(n)
                                /\ n.s # <<>> =>
                                    /\ f.startdir # <<>> => IsAbsPath(n.s)
                                    /\ f.exists = "true"  => FsLookup(n.s) # "missing"
                                    /\ f.exists = "false" => FsLookup(n.s) = "missing"
                                    /\ f.exists = "dir"   => FsLookup(n.s) = "dir"
                                    /\ f.exists = "file"  => FsLookup(n.s) = "file"
      [] f.kind = "int"      -> IsInt(n) /\ NumInRange(f, n)
      [] f.kind = "float"    -> IsFloat(n) /\ NumInRange(f, n)
      [] f.kind = "bool"     -> IsBool(n)
      [] f.kind = "bytes"    -> IsBytes(n)
      [] f.kind = "secure"   -> TRUE
      [] f.kind = "challenge" -> n.t = "digest"
      [] f.kind = "list"     -> /\ n.t \in {"list", "tuple"}
                                /\ f.required => n.l # <<>>
                                /\ \A i \in DOMAIN n.l : Meets(f.item, n.l[i])
      [] f.kind = "dict"     -> /\ IsDict(n)
                                /\ f.required => n.kv # <<>>
                                /\ \A i \in DOMAIN n.kv : Meets(f.keyf, n.kv[i][1]) /\ Meets(f.valf, n.kv[i][2])

\* the stored value needs no further normalisation: validating it again gives it back
Stable(f, n) == LET r == Validate(f, n) IN r.ok /\ r.v = n

---------------------------------------------------------------------------
(* C05 on one completed case (f; r1 = validate(v); r2 = validate(r1.v); b = to_basic(r1.v);
   d = to_python(b); r3 = validate(d.v)); used by FieldLab on the specification and by
   Trace_FieldLab on values observed on the real code *)
\* no proxy: the container is stored as given
Untyped(f) == \/ f.kind = "any"
              \/ f.kind = "list" /\ f.item.kind \in {"nofield", "any"}
              \/ f.kind = "dict" /\ (f.keyf.kind = "nofield" /\ f.valf.kind = "nofield")
\* some part of the value passes through without a typed field
HasUntypedPart(f) == \/ Untyped(f)
                     \/ f.kind = "dict" /\ (f.keyf.kind \in {"nofield", "any"} \/ f.valf.kind \in {"nofield", "any"})
RECURSIVE IsPlainK(_)
\* (C05 does not speak about map keys; C02 does, and decides string keys there)
IsPlainK(v) ==
    CASE v.t \in {"none", "bool", "int", "float", "fspec", "str", "enc", "digest"} -> TRUE
      [] v.t = "list" -> \A i \in DOMAIN v.l : IsPlainK(v.l[i])
      [] v.t = "dict" -> \A i \in DOMAIN v.kv :
                            v.kv[i][1].t \in {"str", "int", "float", "fspec", "bool", "none"} /\ IsPlainK(v.kv[i][2])
      [] OTHER -> FALSE
\* C02 names the one normalisation: an unset typed list or dict may come back empty
EmptyFor(f, n, dv) == /\ IsNone(n) /\ ~Untyped(f)
                      /\ \/ f.kind = "list" /\ dv = ListV(<<>>)
                         \/ f.kind = "dict" /\ dv = DictV(<<>>)
P_AcceptedMeets(f, r1)     == Meets(f, r1.v)
P_Idempotent(r1, r2)       == r2.ok /\ r2.v = r1.v
P_BasicPlain(f, r1, b)     == IsPlainK(b) \/ (HasUntypedPart(f) /\ ~IsPlainK(r1.v))
P_CodecInverse(f, r1, d)   == d.ok /\ (d.v = r1.v \/ EmptyFor(f, r1.v, d.v))
P_DecodedAccepted(d, r3)   == r3.ok /\ r3.v = d.v
=============================================================================
