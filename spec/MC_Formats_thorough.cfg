CONSTANTS
  Trees <- MCFixedTrees
  Plan <- MCPlan
  RootTags <- MCRootTags
  Elems <- MCElems
  Budget = 4
  MaxDepth = 2
INIT MCInit
NEXT Next
INVARIANT C04_RoundTrip
INVARIANT C04_XmlInverse
INVARIANT C04_OptionsNeutral
INVARIANT C04_WrongRootRejected
INVARIANT C04_Agree
CONSTRAINT PCase
