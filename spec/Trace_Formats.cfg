INIT TraceInit
NEXT TraceNext
CONSTRAINT PVerdict
