CONSTANTS
  Objects <- MCObjects
  Paths <- MCPaths
  PathOf <- MCPathOf
  MaxRef = 3
  MaxGen = 3
  CacheBadKey = FALSE
  ExtBad = {"empty", "short", "long", "hex", "hexnl", "keylf", "keycrlf"}
INIT Init
NEXT Next
VIEW View
ACTION_CONSTRAINT Export
CONSTRAINT PInit
