----------------------------- MODULE FormatLab -----------------------------
(***************************************************************************)
(* C04 - one session per plain-data tree.  The session takes the tree       *)
(* through every entry of Plan:  ConfigFormat.get(fmt, **opts).dumps(tree)  *)
(* and then ConfigFormat.get(fmt, **lopts).loads(document), and records     *)
(* what came back.  Format instances keep no state between calls (the only  *)
(* shared state is the registry's "initialized" flag), so the order of the  *)
(* plan carries no information and is fixed.                                *)
(*                                                                         *)
(* A second kind of session ("elem") loads a hand-written XML document, to  *)
(* bind _from_element outside the range of _to_element (fall back to text). *)
(*                                                                         *)
(* The invariants C04_* state the property on the recorded observations;    *)
(* the harness executes every session TLC enumerated on the real library.   *)
(***************************************************************************)
EXTENDS CincoFormats

CONSTANTS Trees,      \* candidate trees (plain-data dicts)
          Plan,       \* sequence of [fmt, opts, lopts]
          RootTags,   \* root tags C04_XmlInverse quantifies over
          Elems       \* hand-written XML documents (root elements)

VARIABLES lab
vars == <<lab>>

NoOut == [ok |-> FALSE, err |-> "notrun"]

Session(t) ==
    [mode |-> "tree", t |-> t, pc |-> 1, stage |-> "idle", registry |-> FALSE, doc |-> NoDoc, runs |-> <<>>]
ElemSession(e) == [mode |-> "elem", e |-> e, stage |-> "idle", registry |-> FALSE, out |-> NoOut]
\* (model instances with very many trees enumerate the same initial states without building
\*  the set Trees, see MC_Formats!MCInit)
Init ==
    \/ \E t \in Trees : lab = Session(t)
    \/ \E e \in Elems : lab = ElemSession(e)

Busy == lab.mode = "tree" /\ lab.pc <= Len(Plan)
P == Plan[lab.pc]
NoElem == Elem(<<>>, "absent", <<>>, <<>>)
\* what is remembered of a run; of the document only what cincoconfig itself shaped (the
\* XML element tree) is kept
Run(p, skipped, doc, out) ==
    [fmt |-> p.fmt, opts |-> p.opts, lopts |-> p.lopts, skipped |-> skipped,
     elem |-> IF ~skipped /\ p.fmt = "xml" /\ p.lopts = p.opts THEN doc.root ELSE NoElem, out |-> out]

\* the tree is outside this format's domain: the property says nothing, the run is skipped
Skip ==
    /\ Busy /\ lab.stage = "idle"
    /\ ~(InDomain(P.fmt, lab.t) /\ OptsInDomain(P.fmt, P.opts))
    /\ lab' = [lab EXCEPT !.pc = @ + 1, !.runs = Append(@, Run(P, TRUE, NoDoc, NoOut))]

\* ConfigFormat.get(fmt, **opts).dumps(None, tree)
Dumps ==
    /\ Busy /\ lab.stage = "idle"
    /\ InDomain(P.fmt, lab.t) /\ OptsInDomain(P.fmt, P.opts)
    /\ lab' = [lab EXCEPT !.stage = "dumped", !.registry = TRUE,
                          !.doc = FmtDumps(FmtGet(P.fmt, P.opts), lab.t)]

\* ConfigFormat.get(fmt, **lopts).loads(None, document)
Loads ==
    /\ Busy /\ lab.stage = "dumped"
    /\ lab' = [lab EXCEPT !.stage = "idle", !.pc = @ + 1, !.doc = NoDoc,
                          !.runs = Append(@, Run(P, FALSE, lab.doc,
                                                 FmtLoads(FmtGet(P.fmt, P.lopts), lab.doc)))]

\* XmlConfigFormat().loads(None, <hand-written document>)
LoadsElem ==
    /\ lab.mode = "elem" /\ lab.stage = "idle"
    /\ lab' = [lab EXCEPT !.stage = "done", !.registry = TRUE,
                          !.out = FmtLoads(FmtGet("xml", DefaultOpts), [fmt |-> "xml", root |-> lab.e])]

Next == Skip \/ Dumps \/ Loads \/ LoadsElem

---------------------------------------------------------------------------
(* C04 *)
IsTreeMode == lab.mode = "tree"

\* each format decodes what it encodes, types intact
C04_RoundTrip == IsTreeMode => \A i \in DOMAIN lab.runs : P_RoundTrip(lab.t, lab.runs[i])
\* the XML element mapping is invertible on the XML domain (a predicate of the tree alone)
\* (evaluated once per session, when it is complete)
C04_XmlInverse == (IsTreeMode /\ lab.pc > Len(Plan)) => P_XmlInverse(lab.t, RootTags)
\* YAML root key, XML root tag, JSON pretty / compact never change the decoded result
\* (runs is append-only, so the complete session is the strongest instance)
C04_OptionsNeutral == (IsTreeMode /\ lab.pc > Len(Plan)) => P_OptionsNeutral(lab.runs)
\* an XML document with the wrong root tag is rejected
C04_WrongRootRejected == IsTreeMode => \A i \in DOMAIN lab.runs : P_WrongRootRejected(lab.runs[i])
\* every format maps the same tree back to the same tree
C04_Agree == (IsTreeMode /\ lab.pc > Len(Plan)) => P_Agree(lab.runs)

\* a session is complete
Final == \/ lab.mode = "tree" /\ lab.pc > Len(Plan)
         \/ lab.mode = "elem" /\ lab.stage = "done"
=============================================================================
