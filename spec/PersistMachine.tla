--------------------------- MODULE PersistMachine ---------------------------
(***************************************************************************)
(* Saving, masking and re-loading a configuration (properties C02, C03,    *)
(* C10).  One configuration of a schema with persistent fields of every    *)
(* kind (scalars, bytes, digests, secrets, typed lists/dicts of those,     *)
(* nested schemas, a config type naming its own key file, lists of         *)
(* schemas, virtual fields) is brought into various valid states by        *)
(* assignments, then                                                       *)
(*                                                                         *)
(*   RoundTrip(fmt)  : tree = to_tree(); document = dumps(fmt) ; a FRESH   *)
(*                     configuration of the same schema and key file       *)
(*                     loads it; the machine continues with the re-loaded  *)
(*                     configuration (a new session)                       *)
(*   Render(v, mask) : to_tree(virtual = v, sensitive_mask = mask)         *)
(*                                                                         *)
(* The five file formats are a typed channel here (their own fidelity is   *)
(* C04's subject); which format a RoundTrip uses is an event parameter so  *)
(* that the conformance harness exercises every real format.               *)
(***************************************************************************)
EXTENDS CincoConfig, Json

CONSTANTS TheSchema, RootKey, SetCands, Masks, MaxDepth

VARIABLES cfg, ev, steps
vars == <<cfg, ev, steps>>
St == [cfg |-> cfg]

S == BindKeys(Bind(TheSchema, PNone), IF RootKey = "" THEN "default" ELSE RootKey)
Formats == {"json", "yaml", "bson", "xml", "pickle"}

Init ==
    LET d == DefaultCfg(S, <<>>) IN
    /\ d.ok /\ cfg = d.cfg /\ ev = [op |-> "Init"] /\ steps = 0

Outcome(r) == IF r.ok THEN "ok" ELSE r.err.cls

Set(pk, v) ==
    LET r == SetPath(S, cfg, pk[1], pk[2], v) IN
    /\ cfg' = r.cfg
    /\ ev' = [op |-> "Set", p |-> pk[1], k |-> pk[2], v |-> v, out |-> Outcome(r)]

\* cfg.items = [item]: a ready-made item taken out of the `items` list of ANOTHER configuration of
\* the same schema (which has a key file of its own).  Whatever it was part of before, it now
\* belongs to this configuration.
AdoptedItem == LET f == FieldOf(S, "items").item
                   d == DefaultCfg(f, <<"items">>).cfg
                   a == SetPath(f, d, <<>>, "u", StrV(<<"o">>)).cfg
               IN  SetPath(f, a, <<>>, "pw", StrV(<<"a", "d", "o", "p", "t", "p", "w", "#", "1">>)).cfg
Adopt ==
    LET r == SetPath(S, cfg, <<>>, "items", ListV(<<[t |-> "cfgobj", c |-> AdoptedItem]>>)) IN
    /\ cfg' = r.cfg
    /\ ev' = [op |-> "Adopt", out |-> Outcome(r)]

\* Config(schema, key_filename = ..., sub = <stored tree of sub>, ...): a fresh configuration built by
\* the constructor from the stored trees of its sub-configurations (everything else at its
\* default).  The maps are loaded - and their secrets decrypted - under the key files that apply
\* to the new configuration.
SubKw(tree) ==
    LET idx == {i \in DOMAIN S.fields : IsSchema(S.fields[i][2]) /\ DictHas(tree.kv, StrV(KeyChars[S.fields[i][1]]))}
        RECURSIVE W(_)
        W(i) == IF i > Len(S.fields) THEN <<>>
                ELSE (IF i \in idx THEN << <<S.fields[i][1], DictGet(tree.kv, StrV(KeyChars[S.fields[i][1]]))>> >> ELSE <<>>) \o W(i + 1)
    IN W(1)
Rebuild ==
    LET tree == ToTree(S, cfg, FALSE, NoMask)
        r == Construct(S, SubKw(tree)) IN
    /\ cfg' = IF r.ok THEN r.cfg ELSE cfg
    /\ ev' = [op |-> "Rebuild", out |-> Outcome(r)]

\* key files a save or load opens: those of configurations that hold a non-empty secret
\* a list value (at any nesting of lists) of a list field whose leaves are secrets holds a non-empty one
RECURSIVE HoldsSecret(_, _)
HoldsSecret(f, v) ==
    IF f.kind = "secure" THEN Truthy(v)
    ELSE IF f.kind = "list" /\ v.t = "list" THEN \E j \in DOMAIN v.l : HoldsSecret(f.item, v.l[j])
    ELSE FALSE
RECURSIVE KeysUsed(_, _)
KeysUsed(Sx, c) ==
    UNION {LET k == Sx.fields[i][1]  f == Sx.fields[i][2] IN
           IF f.kind = "virtual" \/ k \notin DOMAIN c.vals THEN {}
           ELSE LET v == c.vals[k] IN
                IF IsCfg(v) THEN KeysUsed(f, v)
                ELSE IF f.kind = "secure" THEN (IF Truthy(v) THEN {NKey(Sx)} ELSE {})
                ELSE IF f.kind = "list" /\ v.t = "list" THEN
                    (IF IsSchema(f.item) THEN UNION {KeysUsed(f.item, v.l[j]) : j \in DOMAIN v.l}
                     ELSE IF HoldsSecret(f, v) THEN {NKey(Sx)} ELSE {})
                ELSE {} : i \in DOMAIN Sx.fields}

RoundTrip(fmt) ==
    LET tree == ToTree(S, cfg, FALSE, NoMask)
        d == DefaultCfg(S, <<>>)
        r == LoadTree(S, d.cfg, tree, <<>>, TRUE)
    IN  /\ cfg' = IF r.ok THEN r.cfg ELSE cfg
        /\ ev' = [op |-> "RoundTrip", fmt |-> fmt, tree |-> tree, out |-> Outcome(r),
                  keys |-> KeysUsed(S, cfg)]

\* via = "tree": to_tree(virtual, sensitive_mask); otherwise the document written by
\* dumps(via, virtual, sensitive_mask), decoded again with that format
Vias == {"tree"} \cup Formats
\* a one-character mask is repeated len(str(value)) times: for a sensitive composite value (a
\* list of configurations) that length is the length of a Python repr, which is not modelled
RECURSIVE HasSensitiveComposite(_, _)
HasSensitiveComposite(Sx, c) ==
    \E i \in DOMAIN Sx.fields :
        LET k == Sx.fields[i][1]  f == Sx.fields[i][2] IN
        /\ f.kind # "virtual" /\ k \in DOMAIN c.vals
        /\ \/ IsCfg(c.vals[k]) /\ HasSensitiveComposite(f, c.vals[k])
           \/ ~IsSchema(f) /\ f.sensitive /\ c.vals[k].t \in {"list", "dict"} /\ Truthy(c.vals[k])
Render(virtual, mask, via) ==
    LET tree == ToTree(S, cfg, virtual, mask)
        unpredictable == mask.m # "none" /\ Len(mask.s) = 1 /\ HasSensitiveComposite(S, cfg) IN
    /\ UNCHANGED cfg
    /\ ev' = [op |-> "Render", virtual |-> virtual, mask |-> mask, via |-> via, tree |-> tree,
              out |-> IF unpredictable THEN "Unmodelled"
                      ELSE IF via = "tree" \/ InFormatDomain(via, tree) THEN "ok" ELSE "Unmodelled"]

\* key rotation between two saves: the content of every key file present is replaced by a fresh key.
\* A configuration holds plaintext, so nothing it holds changes - and whatever is written afterwards is
\* encrypted under the keys NOW on file (the `key` of an encrypted leaf names the file, and the harness
\* decides it by decrypting with the file's current content).
Rekey == /\ UNCHANGED cfg
         /\ ev' = [op |-> "Rekey", out |-> "ok"]

Tick == steps < MaxDepth /\ steps' = steps + 1
Next ==
    \/ \E pk \in DOMAIN SetCands : \E v \in SetCands[pk] : Tick /\ Set(pk, v)
    \/ Tick /\ Rekey
    \/ \E f \in Formats : Tick /\ RoundTrip(f)
    \/ Tick /\ Adopt
    \/ Tick /\ Rebuild
    \/ \E vi \in BOOLEAN, m \in Masks, via \in Vias : Tick /\ Render(vi, m, via)

---------------------------------------------------------------------------
(* C02 *)
\* persistent values equal, modulo the two stated normalisations: an unset typed list/dict
\* may come back empty, an empty secret comes back unset
\* (SameLeaf / SameVals: CincoConfig.tla)
A_Reproduces == (ev'.op = "RoundTrip") => ev'.out = "ok" /\ SameVals(S, cfg, cfg')
C02_Reproduces == [][A_Reproduces]_vars

\* the tree has string keys and plain leaves only, and no virtual key unless asked for
RECURSIVE TreeKeys(_)
TreeKeys(t) == IF t.t # "dict" THEN {} ELSE {t.kv[i][1] : i \in DOMAIN t.kv}
VirtualKeys == {StrV(KeyChars[S.fields[i][1]]) : i \in {j \in DOMAIN S.fields : S.fields[j][2].kind = "virtual"}}
C02_PlainTree ==
    (ev.op \in {"RoundTrip", "Render"}) =>
        /\ IsPlain(ev.tree)
        /\ (ev.op = "RoundTrip" \/ ~ev.virtual) => TreeKeys(ev.tree) \cap VirtualKeys = {}

(* C06 on this machine: a rejected assignment (also of a map to a sub-configuration that has a key
   file of its own, also after the configuration has been rendered or saved) changes nothing *)
A_SetUnchanged == (ev'.op \in {"Set", "Adopt"} /\ ev'.out # "ok") => cfg' = cfg
C06_SetUnchanged == [][A_SetUnchanged]_vars

(* C03 *)
\* every encrypted leaf carries a concrete method and the key of the nearest ancestor that
\* names one - computed here from the CONTAINMENT path, independently of BindKeys
RECURSIVE NearestKey(_, _, _)
NearestKey(Sx, path, cur) ==
    LET own == IF "keyfile" \in DOMAIN Sx /\ Sx.keyfile # "" THEN Sx.keyfile ELSE cur IN
    IF path = <<>> THEN own
    ELSE LET f == FieldOf(Sx, Head(path)) IN
         IF f.kind = "schema" THEN NearestKey(f, Tail(path), own)
         ELSE IF f.kind = "list" /\ f.item.kind = "schema" THEN NearestKey(f.item, Tail(path), own)
         ELSE own
KeyName(s) == CHOOSE k \in KeyNames : KeyChars[k] = s
RECURSIVE EncOk(_, _)
\* t: tree (sub)value, path: keys from the root to it
EncOk(t, path) ==
    CASE t.t = "enc"  -> /\ t.m \in {"aes", "xor"}
                         /\ t.key = NearestKey(TheSchema, SubSeq(path, 1, Len(path) - 1),
                                               IF RootKey = "" THEN "default" ELSE RootKey)
      [] t.t = "dict" -> \A i \in DOMAIN t.kv : EncOk(t.kv[i][2], Append(path, KeyName(t.kv[i][1].s)))
      [] t.t = "list" -> \A i \in DOMAIN t.l : EncOk(t.l[i], path)
      [] OTHER -> TRUE
C03_KeyIsNearest == (ev.op = "RoundTrip") => EncOk(ev.tree, <<>>)

\* no leaf of the saved tree is the plaintext of a non-empty secret
RECURSIVE Leaves(_)
Leaves(t) == CASE t.t = "dict" -> UNION {Leaves(t.kv[i][2]) : i \in DOMAIN t.kv}
               [] t.t = "list" -> UNION {Leaves(t.l[i]) : i \in DOMAIN t.l}
               [] OTHER -> {t}
RECURSIVE Secrets(_, _)
Secrets(Sx, c) ==
    UNION {LET k == Sx.fields[i][1]  f == Sx.fields[i][2] IN
           IF f.kind = "virtual" \/ k \notin DOMAIN c.vals THEN {}
           ELSE LET v == c.vals[k] IN
                IF IsCfg(v) THEN Secrets(f, v)
                ELSE IF f.kind = "secure" /\ Truthy(v) THEN {v}
                ELSE IF f.kind = "list" /\ v.t = "list" /\ IsSchema(f.item) THEN UNION {Secrets(f.item, v.l[j]) : j \in DOMAIN v.l}
                ELSE IF f.kind = "list" /\ v.t = "list" /\ f.item.kind = "secure" THEN {v.l[j] : j \in {x \in DOMAIN v.l : Truthy(v.l[x])}}
                ELSE {} : i \in DOMAIN Sx.fields}
\* (a value that also is the legitimate content of a non-secret field may of course appear)
RECURSIVE PlainLeaves(_, _)
PlainLeaves(Sx, c) ==
    UNION {LET k == Sx.fields[i][1]  f == Sx.fields[i][2] IN
           IF f.kind = "virtual" \/ k \notin DOMAIN c.vals THEN {}
           ELSE LET v == c.vals[k] IN
                IF IsCfg(v) THEN PlainLeaves(f, v)
                ELSE IF f.kind \in {"string", "any"} THEN {v}
                ELSE IF f.kind = "list" /\ v.t = "list" /\ IsSchema(f.item) THEN UNION {PlainLeaves(f.item, v.l[j]) : j \in DOMAIN v.l}
                ELSE {} : i \in DOMAIN Sx.fields}
NonSecretLeaves(c) == PlainLeaves(S, c)
A_NoPlaintext == (ev'.op = "RoundTrip") => Leaves(ev'.tree) \cap (Secrets(S, cfg) \ NonSecretLeaves(cfg)) = {}
C03_NoPlaintext == [][A_NoPlaintext]_vars

(* C10 *)
\* with a mask every non-empty sensitive value is replaced by the mask and every other
\* leaf is rendered exactly as without a mask; stated per field over the schema
RECURSIVE MaskedOk(_, _, _, _, _)
\* m: tree rendered with the mask, u: tree rendered without, same virtual flag
MaskedOk(Sx, c, m, u, mask) ==
    /\ DictKeys(m.kv) = DictKeys(u.kv)
    /\ \A i \in DOMAIN Sx.fields :
        LET k == Sx.fields[i][1]  f == Sx.fields[i][2]  kc == StrV(KeyChars[k]) IN
        DictHas(m.kv, kc) =>
            LET mv == DictGet(m.kv, kc)  uv == DictGet(u.kv, kc) IN
            IF f.kind = "virtual" THEN
                (IF "sensitive" \in DOMAIN f /\ f.sensitive THEN mv = MaskOf(mask, VirtualValue) ELSE mv = uv)
            ELSE IF IsCfg(c.vals[k]) THEN MaskedOk(f, c.vals[k], mv, uv, mask)
            ELSE IF f.sensitive THEN
                (IF Truthy(c.vals[k]) THEN mv = MaskOf(mask, c.vals[k]) ELSE IsNone(mv))
            ELSE IF f.kind = "list" /\ IsSchema(f.item) /\ c.vals[k].t = "list" /\ c.vals[k].l # <<>> THEN
                /\ mv.t = "list" /\ Len(mv.l) = Len(c.vals[k].l)
                /\ \A j \in DOMAIN mv.l : MaskedOk(f.item, c.vals[k].l[j], mv.l[j], uv.l[j], mask)
            ELSE mv = uv
C10_Mask ==
    (ev.op = "Render" /\ ev.mask.m # "none" /\ ev.out = "ok") =>
        MaskedOk(S, cfg, ev.tree, ToTree(S, cfg, ev.virtual, NoMask), ev.mask)

Export == PrintT(<<"EDGE", ToJson([from |-> St, ev |-> ev', to |-> St'])>>)
PInit  == (steps = 0) => PrintT(<<"INIT", ToJson(St)>>)
View == <<cfg, steps>>
=============================================================================
