CONSTANTS
  MaxCfg = 4
  MaxTouch = 6
INIT TraceInit
NEXT TraceNext
ACTION_CONSTRAINT Report
VIEW TraceView
