CONSTANTS
  MaxCfg = 4
  MaxTouch = 6
  DynKeys = {"extra", "dyn_b", "wq7"}
  MaxDyn = 3
INIT TraceInit
NEXT TraceNext
ACTION_CONSTRAINT Report
VIEW TraceView
