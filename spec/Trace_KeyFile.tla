---- MODULE Trace_KeyFile ----
(* Trace specification for C07: replays event logs recorded from the real
   cincoconfig.encryption.KeyFile against the actions of CincoKeyFile.  Every argument is
   logged, so the search is linear; the reference count is not observable through the
   public API and is inferred by the specification. *)
EXTENDS CincoKeyFile, Json, IOUtils, TLCExt

Traces == JsonDeserialize(IOEnv.TRACE_FILE)

VARIABLES tid, l
tvars == <<vars, tid, l>>

TrObjects == {"o1", "o2", "o3", "o4"}
TrPaths   == {"p1", "p2"}
TrPathOf  == [o \in TrObjects |-> IF o \in {"o3", "o4"} THEN "p2" ELSE "p1"]

TraceInit ==
    /\ tid \in 1..Len(Traces)
    /\ l = 1
    /\ file = Traces[tid].init.file
    /\ dirok = Traces[tid].init.dirok
    /\ key = [o \in Objects |-> "none"]
    /\ ref = [o \in Objects |-> 0]
    /\ gen = 0
    /\ dirty = {}
    /\ ev = [op |-> "Init"]

Ev == Traces[tid].events[l]

Step(e) ==
    CASE e.op = "Enter"       -> Enter(e.o)
      [] e.op = "Exit"        -> Exit(e.o, IF "exc" \in DOMAIN e THEN e.exc ELSE FALSE)
      [] e.op = "Encrypt"     -> Encrypt(e.o, e.m)
      [] e.op = "Decrypt"     -> Decrypt(e.o, e.m)
      [] e.op = "GenerateKey" -> GenerateKey(e.o)
      [] e.op = "External"    -> External(e.p, e.c) \/ ExternalDuring(e.p, e.c)
      [] e.op = "ExternalDir" -> ExternalDir(e.p, e.b)

TraceNext ==
    /\ l <= Len(Traces[tid].events)
    /\ Step(Ev)
    /\ l' = l + 1
    /\ UNCHANGED tid

Has(r, f) == f \in DOMAIN r

\* logged observations that differ from the specification's step
BadObs ==
    LET e == Ev IN
    {n \in {"out", "usedkey", "method", "file", "key"} :
        CASE n = "out"     -> ev'.out # e.out
          [] n = "usedkey" -> Has(ev', "usedkey") /\ (~Has(e, "usedkey") \/ ev'.usedkey # e.usedkey)
          [] n = "method"  -> Has(ev', "method") /\ (~Has(e, "method") \/ ev'.method # e.method)
          [] n = "file"    -> file' # e.file
          [] n = "key"     -> key' # e.key}

\* the property's own predicates on the observed step / state.  (With bo = {} the
\* specification's state equals the logged one on every observed variable.)
A_Verbatim ==
    \A p \in Paths : (file[p] # "absent" /\ ev'.op \notin EnvOps) => file'[p] = file[p]
A_BadAlwaysRejected ==
    \A o \in Objects :
        (ev'.op = "Enter" /\ ev'.o = o /\ ref[o] = 0 /\ file[PathOf[o]] \in BadContents) =>
            ev'.out = "EncryptionError" /\ ref'[o] = ref[o]
A_NestedShareKey ==
    \A o \in Objects :
        (ev'.op = "Enter" /\ ev'.o = o /\ ref[o] > 0) => ev'.out = "ok" /\ key' = key /\ file' = file

BadInv ==
    {n \in {"C07_Released", "C07_OpenHoldsFileKey", "C07_CryptGate", "C07_Verbatim",
            "C07_BadAlwaysRejected", "C07_NestedShareKey"} :
        CASE n = "C07_Released"          -> ~C07_Released'
          [] n = "C07_OpenHoldsFileKey"  -> ~C07_OpenHoldsFileKey'
          [] n = "C07_CryptGate"         -> ~C07_CryptGate'
          [] n = "C07_Verbatim"          -> ~A_Verbatim
          [] n = "C07_BadAlwaysRejected" -> ~A_BadAlwaysRejected
          [] n = "C07_NestedShareKey"    -> ~A_NestedShareKey}

Report ==
    LET bo == BadObs
        bi == BadInv
        rec == IF bo = {}
               THEN [t |-> tid, l |-> l, bo |-> bo, bi |-> bi]
               ELSE [t |-> tid, l |-> l, bo |-> bo, bi |-> bi,
                     m |-> [out |-> ev'.out, file |-> file', key |-> key', ev |-> ev']]
    IN  /\ PrintT(<<"TRACE", ToJson(rec)>>)
        /\ bo = {} /\ bi = {}

TraceSpec == TraceInit /\ [][TraceNext]_tvars
TraceView == <<St, tid, l>>
====
