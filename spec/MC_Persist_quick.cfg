CONSTANTS
  Environ <- MCEnviron
  KeyNames <- MCKeyNames
  KeyChars <- MCKeyChars
  TheSchema <- SchemaP
  RootKey = "kroot"
  SetCands <- MCSetCands
  Masks <- MCMasks
  MaxDepth = 3
INIT Init
NEXT Next
VIEW View
INVARIANT C02_PlainTree
INVARIANT C03_KeyIsNearest
INVARIANT C10_Mask
PROPERTY C02_Reproduces
PROPERTY C03_NoPlaintext
