--------------------------- MODULE Trace_Formats ---------------------------
(***************************************************************************)
(* code -> spec for C04.  Every logged case                                 *)
(*    [t, runs : <<[fmt, opts, lopts, skipped, dumped, elem, out]>>]        *)
(* records what the REAL library did with one seeded random tree: the tree, *)
(* the options of each dumps / loads pair, the element tree of the real XML *)
(* document (parsed independently of cincoconfig) and what loads returned.  *)
(* TLC evaluates the specification's operators on these observations:       *)
(*   element  the real document is not the specification's _to_element      *)
(*   decode   loads did not return what _from_element / the unwrap rule     *)
(*            gives for the observed document                               *)
(*   C04_*    the property's own predicates on the observed results         *)
(*   xml:key-with-colon   any of the above on an XML run whose tree has a   *)
(*            map key containing ":" (known finding C04-xml-colon-key)      *)
(* One initial state per case; nothing is compared outside a format's       *)
(* domain as the specification defines it.                                  *)
(***************************************************************************)
EXTENDS CincoFormats, Json, IOUtils

Cases == JsonDeserialize(IOEnv.TRACE_FILE)

VARIABLE tid

InDom(c, r) == ~r.skipped /\ InDomain(r.fmt, c.t) /\ OptsInDomain(r.fmt, r.opts)
Runs(c) == [i \in DOMAIN c.runs |-> [c.runs[i] EXCEPT !.skipped = ~InDom(c, c.runs[i])]]

SpecDoc(c, r) == FmtDumps(FmtGet(r.fmt, r.opts), c.t)
\* the document the loader was given: for XML the observed one, else the channel's
SeenDoc(c, r) == IF r.fmt = "xml" THEN [fmt |-> "xml", root |-> r.elem] ELSE SpecDoc(c, r)
SpecOut(c, r) == FmtLoads(FmtGet(r.fmt, r.lopts), SeenDoc(c, r))
SameOut(m, o) == IF m.ok THEN o.ok /\ SameTree(m.v, o.v) ELSE ~o.ok

Flag(name, i) == {[c |-> name, i |-> i]}
RunBad0(c, r, i) ==
    IF r.skipped THEN {}
    ELSE (IF ~r.dumped THEN Flag("dumps-raised", i)
          ELSE (IF r.fmt = "xml" /\ r.elem # SpecDoc(c, r).root THEN Flag("element", i) ELSE {})
               \cup (LET m == SpecOut(c, r)
                     IN  IF m.ok /\ HasUnmodelled(m.v) THEN {}
                         ELSE IF SameOut(m, r.out) THEN {} ELSE Flag("decode", i)))
         \cup (IF P_RoundTrip(c.t, r) THEN {} ELSE Flag("C04_RoundTrip", i))
         \cup (IF P_WrongRootRejected(r) THEN {} ELSE Flag("C04_WrongRootRejected", i))
\* every failure of an XML run on a tree with a colon key is the known finding, under one name
RunBad(c, r, i) ==
    LET b == RunBad0(c, r, i)
    IN  IF b # {} /\ ColonCause(r.fmt, c.t) THEN Flag("xml:key-with-colon", i) ELSE b

Verdict(c) ==
    LET runs == Runs(c)
        \* the cross-run predicates leave those runs out (their failure is already named)
        rest == [i \in DOMAIN runs |-> IF ColonCause(runs[i].fmt, c.t) THEN [runs[i] EXCEPT !.skipped = TRUE]
                                        ELSE runs[i]]
    IN  [t |-> tid,
         checked |-> Cardinality({i \in DOMAIN runs : ~runs[i].skipped}),
         bad |-> UNION {RunBad(c, runs[i], i) : i \in DOMAIN runs}
                 \cup (IF P_OptionsNeutral(rest) THEN {} ELSE Flag("C04_OptionsNeutral", 0))
                 \cup (IF P_Agree(rest) THEN {} ELSE Flag("C04_Agree", 0))
                 \cup (IF P_XmlInverse(c.t, {r.opts.root_tag : r \in {runs[i] : i \in {j \in DOMAIN runs : runs[j].fmt = "xml" /\ ~runs[j].skipped}}})
                       THEN {} ELSE Flag("C04_XmlInverse", 0))]

TraceInit == tid \in 1..Len(Cases)
TraceNext == FALSE /\ UNCHANGED tid
PVerdict == PrintT(<<"TRACE", ToJson(Verdict(Cases[tid]))>>)
=============================================================================
