CONSTANTS
  ItemF <- MCItemF
  OtherF <- MCOtherF
  KeyF <- MCKeyF
  ValF <- MCValF
  ItemCands <- MCItemCands
  KeyCands <- MCKeyCands
  ValCands <- MCValCands
  MaxLen = 4
  MaxDepth = 3
INIT Init
NEXT Next
VIEW View
INVARIANT C17_Same
INVARIANT C17_Return
INVARIANT C17_StillTyped
INVARIANT C17_Validated
