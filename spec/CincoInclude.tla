---------------------------- MODULE CincoInclude ----------------------------
(***************************************************************************)
(* C18 - including files is a deep merge in the including scope, included  *)
(* values win.  (Also the document-load clause of C06: a load that fails   *)
(* in the parser or while resolving an include changes nothing.)           *)
(*                                                                         *)
(* Modelled, in the order of the code:                                     *)
(*                                                                         *)
(*   Merge            IncludeField.combine_trees  (include_field.py)       *)
(*   ValidatePath     FilenameField._validate with exists="file" and       *)
(*                    startdir, as inherited by IncludeField (file_field)  *)
(*   IncludeOne       IncludeField.include        (validate, open, parse,  *)
(*                                                 combine)                *)
(*   ProcIncs         Config._process_includes    (core.py: the include    *)
(*                    fields of a scope in declaration order, each result  *)
(*                    feeding the next, then the nested schemas whose      *)
(*                    value in the tree is a map)                          *)
(*   LoadTreeOp       Config.load_tree / _set_value for the field kinds    *)
(*                    the instances use (plain Field, IntField,            *)
(*                    IncludeField, nested Schema); not atomic             *)
(*   FmtLoads         ConfigFormat.loads of the format the caller named,   *)
(*                    created with the caller's options (YAML root_key,    *)
(*                    XML root_tag, JSON pretty); the SAME options for the *)
(*                    document and for every included file (core.py hands  *)
(*                    partial(ConfigFormat.get, format, **kwargs) down)    *)
(*   Parse, Includes, LoadTree   the three steps of Config.loads;          *)
(*                    Config.load(filename, format) reads the file and     *)
(*                    calls loads(content, format): it takes NO options    *)
(*                                                                         *)
(* over an abstract file system  path -> file(tree) | unparseable |        *)
(* unreadable | dir | (absent = missing).  Plain-data trees are the tagged *)
(* values of CincoValues (a map is an ordered list of <<key, value>>).     *)
(* File names are character sequences; "$" stands for the scratch root,    *)
(* the process works in $/W and its home directory ("~") is $/H.           *)
(*                                                                         *)
(* The property is stated separately from these operators: C18_MergeLaw    *)
(* (per leaf path), C18_Pure, C18_Equivalent (against the declarative      *)
(* Decl / LawMerge, for every format and option value), C18_OptionsUniform *)
(* (options only say how each file is read), C18_PathRule,                 *)
(* C06_LoadUnchanged.                                                      *)
(***************************************************************************)
EXTENDS CincoValues

IsMap(v)   == v.t = "dict"
EmptyMap   == DictV(<<>>)
K(key)     == StrV(key)                     \* a field key (character sequence) as a tree key
\* dict.get(key): None when absent
TGet(t, k) == IF DictHas(t.kv, k) THEN DictGet(t.kv, k) ELSE NoneV

\* equality of plain data that ignores the order of map keys (Python's ==, but typed)
RECURSIVE SameTree(_, _)
SameTree(a, b) ==
    IF IsMap(a) /\ IsMap(b) THEN
        /\ Len(a.kv) = Len(b.kv)
        /\ \A i \in DOMAIN a.kv :
              /\ DictHas(b.kv, a.kv[i][1])
              /\ SameTree(a.kv[i][2], DictGet(b.kv, a.kv[i][1]))
    ELSE IF a.t = "list" /\ b.t = "list" THEN
        /\ Len(a.l) = Len(b.l)
        /\ \A i \in DOMAIN a.l : SameTree(a.l[i], b.l[i])
    ELSE a = b

---------------------------------------------------------------------------
(* IncludeField.combine_trees(base, child), as written:
       ret = dict(base)
       for key, value in child.items():
           if key in base and both are dicts: ret[key] = combine_trees(base[key], value)
           else:                              ret[key] = value                          *)
RECURSIVE Merge(_, _)
RECURSIVE MergeItems(_, _, _)
MergeItems(base, items, ret) ==
    IF items = <<>> THEN ret
    ELSE LET key   == Head(items)[1]
             value == Head(items)[2]
             new   == IF DictHas(base, key)
                      THEN LET bv == DictGet(base, key) IN
                           IF IsMap(bv) /\ IsMap(value) THEN Merge(bv, value) ELSE value
                      ELSE value
         IN  MergeItems(base, Tail(items), DictSet(ret, key, new))
Merge(base, child) == DictV(MergeItems(base.kv, child.kv, base.kv))

---------------------------------------------------------------------------
(* The merge law, stated on paths.  A path is a sequence of keys leading through maps. *)
RECURSIVE PathsOf(_)
PathsOf(t) ==
    IF ~IsMap(t) THEN {<<>>}
    ELSE {<<>>} \cup UNION {{<<t.kv[i][1]>> \o p : p \in PathsOf(t.kv[i][2])} : i \in DOMAIN t.kv}
Has(t, p) == p \in PathsOf(t)
RECURSIVE At(_, _)
At(t, p) == IF p = <<>> THEN t ELSE At(DictGet(t.kv, Head(p)), Tail(p))

LeafPaths(t) == {p \in PathsOf(t) : ~IsMap(At(t, p))}       \* where a non-map value sits
MapPaths(t)  == {p \in PathsOf(t) : IsMap(At(t, p))}        \* where a map sits (the root included)
Prefixes(p)  == {SubSeq(p, 1, n) : n \in 1..Len(p)}
\* the child holds a non-map somewhere on the way to p (at p itself included)
ChildCuts(c, p) == \E q \in Prefixes(p) : Has(c, q) /\ ~IsMap(At(c, q))

\* r is the deep merge of child c into base b:
\*   every value of the child is in the result (included values win, whole subtrees where the
\*   base has no map to merge with); a value of the base survives exactly when the child
\*   says nothing at or above its path; maps of both sides are merged key by key; no key of
\*   either side is lost and none is invented.
MergeLaw(b, c, r) ==
    /\ IsMap(r)
    /\ LeafPaths(r) = LeafPaths(c) \cup {p \in LeafPaths(b) : ~ChildCuts(c, p) /\ ~Has(c, p)}
    /\ \A p \in LeafPaths(r) : At(r, p) = IF Has(c, p) THEN At(c, p) ELSE At(b, p)
    /\ MapPaths(r) = MapPaths(c) \cup {p \in MapPaths(b) : ~ChildCuts(c, p)}

\* the same law key by key (used to build the expected merged tree of a whole load)
RECURSIVE LawMerge(_, _)
LawMerge(b, c) ==
    LET keys == DictKeys(b.kv) \o SelectSeq(DictKeys(c.kv), LAMBDA k : ~DictHas(b.kv, k)) IN
    DictV([i \in DOMAIN keys |->
        LET k == keys[i] IN
        <<k, IF ~DictHas(c.kv, k) THEN DictGet(b.kv, k)
             ELSE IF DictHas(b.kv, k) /\ IsMap(DictGet(b.kv, k)) /\ IsMap(DictGet(c.kv, k))
                  THEN LawMerge(DictGet(b.kv, k), DictGet(c.kv, k))
             ELSE DictGet(c.kv, k)>>])

---------------------------------------------------------------------------
(* file names *)
Cwd == <<"$", "/", "W">>
\* "$" is the scratch root; "^" stands for the directory above it (reached with ".."), where
\* nothing of ours exists
IsAbs(s) == s # <<>> /\ Head(s) \in {"$", "^"}
RECURSIVE JoinComps(_)
JoinComps(cs) == IF Len(cs) = 1 THEN cs[1] ELSE cs[1] \o <<"/">> \o JoinComps(Tail(cs))
RECURSIVE NormAcc(_, _)
NormAcc(cs, acc) ==
    IF cs = <<>> THEN acc
    ELSE LET c == Head(cs) IN
         IF c = <<>> \/ c = <<".">> THEN NormAcc(Tail(cs), acc)
         ELSE IF c = <<".", ".">>
              THEN NormAcc(Tail(cs), IF Len(acc) > 1 THEN SubSeq(acc, 1, Len(acc) - 1) ELSE << <<"^">> >>)
         ELSE NormAcc(Tail(cs), Append(acc, c))
\* os.path.abspath of an absolute name (below the scratch root)
NormPath(s) == JoinComps(NormAcc(Split(s, "/"), <<>>))
\* os.path.expanduser: a leading "~" is the home directory ($HOME = $/H); "~user" is not modelled
Home == <<"$", "/", "H">>
Expand(s) == IF s # <<>> /\ Head(s) = "~" THEN Home \o Tail(s) ELSE s
\* the file the operating system reaches for a name the process uses
OsPath(s) == IF s = <<>> THEN <<>>
             ELSE NormPath(IF IsAbs(s) THEN s ELSE Cwd \o <<"/">> \o s)

\* file system: sequence of <<normalised absolute path, entry>>; anything else is missing
Missing == [k |-> "missing"]
FsGet(fs, p) ==
    IF \E i \in DOMAIN fs : fs[i][1] = p
    THEN fs[CHOOSE i \in DOMAIN fs : fs[i][1] = p][2]
    ELSE Missing
\* os.path.isfile
IsFileEntry(e) == e.k \in {"file", "unparseable", "unreadable"}

---------------------------------------------------------------------------
(* formats and formatter options.

   A document / an included file is what the third-party parser of the format yields: a plain
   value (`v`), and - in XML only - the name of the root element (`tag`; other formats have no
   such thing and ignore it).  A YAML document "wrapped under root key R" is simply the map
   {R: {...}}.

   Options of a load:  [fmt, rk, tag, pretty, explicit]
       fmt       "json" | "yaml" | "xml" | "bson" | "pickle"; "any" = whichever, with default
                 options and files whose root element is the default one (then the format makes
                 no difference to anything below)
       rk        YAML root_key (<<>> = None / "": falsy, no root key)
       tag       XML root_tag (default "config")
       pretty    JSON pretty (no effect on loading)
       explicit  whether keyword arguments were passed at all (non-default values are)     *)
DefaultTag == <<"c", "o", "n", "f", "i", "g">>
TagOf(e)   == IF "tag" \in DOMAIN e THEN e.tag ELSE DefaultTag
DefOpt(fmt) == [fmt |-> fmt, rk |-> <<>>, tag |-> DefaultTag, pretty |-> TRUE, explicit |-> FALSE]
TagMatters(o) == o.fmt \in {"xml", "any"}

IsSubstr(r, s) == \E i \in 0..(Len(s) - Len(r)) : SubSeq(s, i + 1, i + Len(r)) = r

(* formatter.loads(config, content) after the third-party parser accepted the bytes:
     XmlConfigFormat:   if root.tag != self.root_tag: raise ValueError
     YamlConfigFormat:  if self.root_key and self.root_key in tree: tree = tree[self.root_key]
                        (`in` and the subscript on whatever the document is: a map is looked up
                        by key; a list / tuple is searched and then cannot be subscripted by a
                        string; a string is searched as a substring, likewise; anything else
                        raises in `in`)
     others:            the parsed value                                                  *)
FmtRes(ok, v) == [ok |-> ok, v |-> v]
FmtLoads(o, tag, raw) ==
    IF TagMatters(o) /\ tag # o.tag THEN FmtRes(FALSE, NoneV)
    ELSE IF o.fmt = "yaml" /\ o.rk # <<>> THEN
        CASE IsMap(raw) -> IF DictHas(raw.kv, StrV(o.rk)) THEN FmtRes(TRUE, DictGet(raw.kv, StrV(o.rk)))
                           ELSE FmtRes(TRUE, raw)
          [] raw.t \in {"list", "tuple"} ->
                IF \E i \in DOMAIN raw.l : raw.l[i] = StrV(o.rk) THEN FmtRes(FALSE, NoneV) ELSE FmtRes(TRUE, raw)
          [] raw.t = "str" -> IF IsSubstr(o.rk, raw.s) THEN FmtRes(FALSE, NoneV) ELSE FmtRes(TRUE, raw)
          [] OTHER -> FmtRes(FALSE, NoneV)
    ELSE FmtRes(TRUE, raw)

---------------------------------------------------------------------------
(* schema descriptors: fields is a sequence of <<key (character sequence), field>> *)
FAny       == [kind |-> "any"]                                 \* Field()
FInt       == [kind |-> "int"]                                 \* IntField()
FInc(sd)   == [kind |-> "include", startdir |-> sd]            \* IncludeField(startdir=sd); <<>> = None
FSch(fs)   == [kind |-> "schema", fields |-> fs]
HasField(S, key) == \E i \in DOMAIN S.fields : S.fields[i][1] = key
FieldOf(S, key)  == S.fields[CHOOSE i \in DOMAIN S.fields : S.fields[i][1] = key][2]
IncFields(S) == SelectSeq(S.fields, LAMBDA kf : kf[2].kind = "include")
SubFields(S) == SelectSeq(S.fields, LAMBDA kf : kf[2].kind = "schema")

\* Field.validate -> StringField._validate -> FilenameField._validate(exists="file")
\* looked / ekind: the path whose existence was tested and what is there (for the record)
PathRes(ok, v, looked, ekind) == [ok |-> ok, v |-> v, looked |-> looked, ekind |-> ekind]
ValidatePath(f, v, fs) ==
    IF IsNone(v) THEN PathRes(TRUE, v, <<>>, "none")            \* not required: None passes
    ELSE IF ~IsStr(v) THEN PathRes(FALSE, NoneV, <<>>, "notstr") \* "value must be a string"
    ELSE IF v.s = <<>> THEN PathRes(TRUE, v, <<>>, "empty")      \* `if not value: return value`
    ELSE LET r == IF ~IsAbs(v.s) /\ f.startdir # <<>>
                  \* abspath(expanduser(join(startdir, value)))
                  THEN NormPath(Expand(f.startdir \o <<"/">> \o v.s))
                  ELSE v.s
             e == FsGet(fs, OsPath(r))
         IN  IF IsFileEntry(e) THEN PathRes(TRUE, StrV(r), OsPath(r), e.k)
             ELSE PathRes(FALSE, NoneV, OsPath(r), e.k)

\* IncludeField.include(config, fmt, filename, base); fmt = format_factory(): the caller's
\* format created with the caller's options o
IncRes(ok, tree, why, opened, kind) ==
    [ok |-> ok, tree |-> tree, why |-> why, opened |-> opened, kind |-> kind]
IncludeOne(f, filename, base, fs, o) ==
    LET pv == ValidatePath(f, filename, fs) IN
    IF ~pv.ok THEN IncRes(FALSE, base, "path", pv.looked, pv.ekind)
    ELSE LET p == OsPath(pv.v.s)
             e == FsGet(fs, p)                      \* open(expanduser(filename), "rb")
         IN  IF e.k = "file" THEN
                 LET c == FmtLoads(o, TagOf(e), e.v) IN              \* child = fmt.loads(config, content)
                 IF ~c.ok THEN IncRes(FALSE, base, "parse", p, "file-notdoc")
                 ELSE IF IsMap(c.v) THEN IncRes(TRUE, Merge(base, c.v), "", p, "file")
                 ELSE IncRes(FALSE, base, "notmap", p, "file-notmap")     \* child.items()
             ELSE IF e.k = "unparseable" THEN IncRes(FALSE, base, "parse", p, e.k)
             ELSE IncRes(FALSE, base, "open", p, IF pv.ekind = "empty" THEN "empty" ELSE e.k)

\* Config._process_includes(schema, tree, format_factory)
ProcRes(ok, tree, why, used) == [ok |-> ok, tree |-> tree, why |-> why, used |-> used]
RECURSIVE ProcIncs(_, _, _, _, _)
RECURSIVE IncLoop(_, _, _, _, _, _)
RECURSIVE SubLoop(_, _, _, _, _, _)
IncLoop(incs, tree, fs, scope, used, o) ==
    IF incs = <<>> THEN ProcRes(TRUE, tree, "", used)
    ELSE LET key == Head(incs)[1]
             f   == Head(incs)[2]
             filename == TGet(tree, K(key))         \* tree.get(key)
         IN  IF IsNone(filename) THEN IncLoop(Tail(incs), tree, fs, scope, used, o)
             ELSE LET r == IncludeOne(f, filename, tree, fs, o)
                      u == [scope |-> scope, key |-> key, given |-> filename, sd |-> f.startdir,
                            opened |-> r.opened, kind |-> r.kind]
                  IN  IF r.ok THEN IncLoop(Tail(incs), r.tree, fs, scope, Append(used, u), o)
                      ELSE ProcRes(FALSE, tree, r.why, Append(used, u))
SubLoop(subs, tree, fs, scope, used, o) ==
    IF subs = <<>> THEN ProcRes(TRUE, tree, "", used)
    ELSE LET key == Head(subs)[1]
             v   == TGet(tree, K(key))
         IN  IF ~IsMap(v) THEN SubLoop(Tail(subs), tree, fs, scope, used, o)  \* if isinstance(tree.get(key), dict):
             ELSE LET r == ProcIncs(Head(subs)[2], v, fs, Append(scope, key), o) IN
                  IF ~r.ok THEN ProcRes(FALSE, tree, r.why, used \o r.used)
                  ELSE SubLoop(Tail(subs), DictV(DictSet(tree.kv, K(key), r.tree)), fs, scope,
                               used \o r.used, o)
ProcIncs(S, tree, fs, scope, o) ==
    IF ~IsMap(tree) THEN
        \* tree.get(...) is evaluated only when there is an include field or a nested schema
        IF IncFields(S) # <<>> \/ SubFields(S) # <<>>
        THEN ProcRes(FALSE, tree, "notmap", <<>>) ELSE ProcRes(TRUE, tree, "", <<>>)
    ELSE LET r == IncLoop(IncFields(S), tree, fs, scope, <<>>, o) IN
         IF ~r.ok THEN r ELSE SubLoop(SubFields(S), r.tree, fs, scope, r.used, o)

---------------------------------------------------------------------------
(* configurations:  [t |-> "cfg", kv |-> <<key, value>>* in declaration order,
                     dflt |-> keys still holding their default] *)
CfgV(kv, dflt) == [t |-> "cfg", kv |-> kv, dflt |-> dflt]
IsCfg(v) == v.t = "cfg"
RECURSIVE Default(_)
Default(S) ==
    CfgV([i \in DOMAIN S.fields |->
            <<S.fields[i][1], IF S.fields[i][2].kind = "schema" THEN Default(S.fields[i][2]) ELSE NoneV>>],
         {S.fields[i][1] : i \in DOMAIN S.fields})
CfgSet(c, key, v) == [c EXCEPT !.kv = DictSet(@, key, v), !.dflt = @ \ {key}]

\* NumberField._validate for int; inputs whose treatment is not described are "unmodelled"
IntValidate(v) ==
    CASE v.t \in {"none", "int"} -> [ok |-> TRUE, v |-> v, unmodelled |-> FALSE]
      [] v.t \in {"bool", "list", "dict", "tuple", "bytes"} -> [ok |-> FALSE, v |-> v, unmodelled |-> FALSE]
      [] v.t = "str" /\ v.s # <<>> /\ (\A i \in DOMAIN v.s : v.s[i] \in AsciiLetters) ->
            [ok |-> FALSE, v |-> v, unmodelled |-> FALSE]
      [] OTHER -> [ok |-> FALSE, v |-> v, unmodelled |-> TRUE]

\* Config.load_tree(tree): keys in document order through _set_value, then validate();
\* NOT atomic: what was set before the failing key stays.   repl: paths of nested
\* configurations whose object was replaced
LoadRes(ok, cfg, repl, unmodelled) == [ok |-> ok, cfg |-> cfg, repl |-> repl, unmodelled |-> unmodelled]
RECURSIVE LoadTreeOp(_, _, _, _, _)
RECURSIVE LoadPairs(_, _, _, _, _)
LoadPairs(S, c, kv, fs, path) ==
    IF kv = <<>> THEN LoadRes(TRUE, c, {}, FALSE)
    ELSE
    LET kk == Head(kv)[1]
        v  == Head(kv)[2]
    IN  IF ~IsStr(kk) \/ ~HasField(S, kk.s) THEN LoadRes(FALSE, c, {}, FALSE)       \* AttributeError
        ELSE
        LET f == FieldOf(S, kk.s)
            here == Append(path, kk.s)
            step ==
              CASE f.kind = "any" -> LoadRes(TRUE, CfgSet(c, kk.s, v), {}, FALSE)
                [] f.kind = "int" ->
                     LET r == IntValidate(v) IN
                     IF r.ok THEN LoadRes(TRUE, CfgSet(c, kk.s, r.v), {}, FALSE)
                     ELSE LoadRes(FALSE, c, {}, r.unmodelled)
                [] f.kind = "include" ->
                     LET r == ValidatePath(f, v, fs) IN
                     IF r.ok THEN LoadRes(TRUE, CfgSet(c, kk.s, r.v), {}, FALSE)
                     ELSE LoadRes(FALSE, c, {}, FALSE)
                [] f.kind = "schema" ->
                     \* a new nested configuration is built, loaded, and only then stored
                     IF ~IsMap(v) THEN LoadRes(FALSE, c, {}, FALSE)
                     ELSE LET r == LoadTreeOp(f, Default(f), v, fs, here) IN
                          IF r.ok THEN LoadRes(TRUE, CfgSet(c, kk.s, r.cfg), {here}, FALSE)
                          ELSE LoadRes(FALSE, c, {}, r.unmodelled)
        IN  IF ~step.ok THEN step
            ELSE LET rest == LoadPairs(S, step.cfg, Tail(kv), fs, path) IN
                 LoadRes(rest.ok, rest.cfg, step.repl \cup rest.repl, rest.unmodelled)
LoadTreeOp(S, c, tree, fs, path) ==
    IF ~IsMap(tree) THEN LoadRes(FALSE, c, {}, FALSE)            \* tree.items()
    ELSE LoadPairs(S, c, tree.kv, fs, path)
    \* the final validate() re-validates stored values (idempotent for these field kinds,
    \* include fields are skipped by Schema._validate) and cannot fail here

\* observable equality of two configurations (map values compared without key order)
RECURSIVE SameCfg(_, _)
SameCfg(a, b) ==
    /\ a.dflt = b.dflt
    /\ DictKeys(a.kv) = DictKeys(b.kv)
    /\ \A i \in DOMAIN a.kv :
          IF IsCfg(a.kv[i][2]) /\ IsCfg(b.kv[i][2]) THEN SameCfg(a.kv[i][2], b.kv[i][2])
          ELSE ~IsCfg(a.kv[i][2]) /\ ~IsCfg(b.kv[i][2]) /\ SameTree(a.kv[i][2], b.kv[i][2])

---------------------------------------------------------------------------
(* The single merged tree a document with includes stands for - declaratively: in every
   scope the named files are deep-merged (LawMerge) into the scope's map, in the order the
   include fields are declared; then the same in each nested scope that holds a map (any
   other value there is left for load_tree to reject).  A name is resolved
   against the field's start directory (the working directory without one) unless it is
   absolute, and must be an existing regular file holding a map.  Undefined (ok = FALSE)
   when some name that is reached does not: then the load must fail.

   What a file (and the document itself) holds is read under the options of the call, the
   same for all of them: an XML file is a document only if its root element is the root tag
   of the call; with a YAML root key R the configuration is what the file holds under R - and
   a file that has no key R stands for itself (the library defines that: "scoped to root_key,
   if it exists") *)
Good(t) == [ok |-> TRUE, tree |-> t]
Bad     == [ok |-> FALSE, tree |-> NoneV]
Holds(o, tag, raw) ==
    IF TagMatters(o) /\ tag # o.tag THEN Bad
    ELSE IF o.fmt = "yaml" /\ o.rk # <<>> /\ IsMap(raw) /\ K(o.rk) \in Range(DictKeys(raw.kv))
         THEN Good(TGet(raw, K(o.rk)))
    ELSE Good(raw)
NamedFile(f, v) ==
    NormPath(IF IsAbs(v.s) THEN v.s
             ELSE (IF f.startdir # <<>> THEN Expand(f.startdir) ELSE Cwd) \o <<"/">> \o v.s)
Named(f, v, fs, o) ==
    IF ~IsStr(v) \/ v.s = <<>> THEN Bad
    ELSE LET e == FsGet(fs, NamedFile(f, v)) IN
         IF e.k # "file" THEN Bad
         ELSE LET h == Holds(o, TagOf(e), e.v) IN
              IF h.ok /\ IsMap(h.tree) THEN h ELSE Bad
RECURSIVE DeclScope(_, _, _, _)
DeclScope(incs, tree, fs, o) ==
    IF incs = <<>> THEN Good(tree)
    ELSE LET v == TGet(tree, K(Head(incs)[1])) IN
         IF IsNone(v) THEN DeclScope(Tail(incs), tree, fs, o)
         ELSE LET n == Named(Head(incs)[2], v, fs, o) IN
              IF ~n.ok THEN Bad ELSE DeclScope(Tail(incs), LawMerge(tree, n.tree), fs, o)
RECURSIVE Decl(_, _, _, _)
Decl(S, tree, fs, o) ==
    IF ~IsMap(tree) THEN (IF IncFields(S) # <<>> \/ SubFields(S) # <<>> THEN Bad ELSE Good(tree))
    ELSE LET m == DeclScope(IncFields(S), tree, fs, o) IN
         IF ~m.ok THEN Bad
         ELSE LET kv == m.tree.kv
                  sub(i) == LET k == kv[i][1]  v == kv[i][2] IN
                            IF IsStr(k) /\ HasField(S, k.s) /\ FieldOf(S, k.s).kind = "schema" /\ IsMap(v)
                            THEN Decl(FieldOf(S, k.s), v, fs, o) ELSE Good(v)
              IN  IF \E i \in DOMAIN kv : ~sub(i).ok THEN Bad
                  ELSE Good(DictV([i \in DOMAIN kv |-> <<kv[i][1], sub(i).tree>>]))
\* the merged tree of a whole document (root element `tag`, parsed value `raw`) under options o
DeclDoc(S, o, tag, raw, fs) ==
    LET h == Holds(o, tag, raw) IN
    IF ~h.ok THEN Bad
    ELSE IF o.fmt = "yaml" /\ o.rk # <<>> /\ ~IsMap(raw) THEN Bad    \* no document to scope to the root key
    ELSE Decl(S, h.tree, fs, o)

---------------------------------------------------------------------------
(* one whole call, as one operator (the actions of IncludeLab take the same steps one by one;
   the trace specification and C18_OptionsUniform use this) *)
RunRes(out, failedAt, why, cfg, repl, used, unmodelled) ==
    [out |-> out, failedAt |-> failedAt, why |-> why, cfg |-> cfg, repl |-> repl, used |-> used,
     unmodelled |-> unmodelled]
\* Config.load(filename, format) has no **kwargs: passing options is a TypeError at the call
CallOk(via, o) == ~(via = "load" /\ o.explicit)
RunLoad(S, cfg0, via, o, doc, fs) ==
    IF ~CallOk(via, o) THEN RunRes("rejected", "call", "options", cfg0, {}, <<>>, FALSE)
    ELSE IF doc.k # "tree" THEN RunRes("rejected", "parse", doc.how, cfg0, {}, <<>>, FALSE)
    ELSE LET p == FmtLoads(o, TagOf(doc), doc.v) IN
         IF ~p.ok THEN RunRes("rejected", "parse", "notdoc", cfg0, {}, <<>>, FALSE)
         ELSE LET r1 == ProcIncs(S, p.v, fs, <<>>, o) IN
              IF ~r1.ok THEN RunRes("rejected", "include", r1.why, cfg0, {}, r1.used, FALSE)
              ELSE LET r2 == LoadTreeOp(S, cfg0, r1.tree, fs, <<>>) IN
                   RunRes(IF r2.ok THEN "ok" ELSE "rejected", IF r2.ok THEN "" ELSE "loadtree", "",
                          r2.cfg, r2.repl, r1.used, r2.unmodelled)

(* the option-free twin of a case: every file rewritten as the plain document (default root
   element, no root key) of what it holds under options o; a file that holds no map under o
   becomes one that is not a document *)
PlainEntry(o, e) ==
    IF e.k # "file" THEN e
    ELSE LET h == Holds(o, TagOf(e), e.v) IN
         IF h.ok /\ IsMap(h.tree) THEN [k |-> "file", v |-> h.tree] ELSE [k |-> "unparseable"]
PlainFs(o, fs) == [i \in DOMAIN fs |-> <<fs[i][1], PlainEntry(o, fs[i][2])>>]
PlainDoc(o, doc) ==
    IF doc.k # "tree" THEN doc
    ELSE LET h == Holds(o, TagOf(doc), doc.v) IN
         IF h.ok /\ IsMap(h.tree) THEN [k |-> "tree", v |-> h.tree]
         ELSE [k |-> "unparseable", how |-> "notdoc"]

---------------------------------------------------------------------------
(* the property's predicates, on observations (used by the machines below and by the trace
   specification on what the real library did) *)

\* combine_trees left both arguments as they were
P_Pure(before, after) == after = before

\* loads(document) against load_tree(merged tree) on an equal configuration: both accepted
\* and the configurations are equal, or both rejected
P_Equivalent(outA, cfgA, outB, cfgB) ==
    /\ outA = outB
    /\ outA = "ok" => SameCfg(cfgA, cfgB)

\* every include that was reached was looked up where the start directory says, and a
\* name that is not an existing readable file holding a document makes the load fail
P_PathRule(used, out) ==
    \A i \in DOMAIN used :
        LET u == used[i] IN
        /\ (IsStr(u.given) /\ u.given.s # <<>>) => u.opened = NamedFile([startdir |-> u.sd], u.given)
        /\ u.kind # "file" => out = "rejected"

\* C06 (document-load clause): a load that failed in the parser or in include resolution
\* left values, default marks and nested configuration objects alone
P_Unchanged(cfgBefore, cfgAfter, repl) == cfgAfter = cfgBefore /\ repl = {}
=============================================================================
