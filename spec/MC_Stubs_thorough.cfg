CONSTANTS
  MaxCfg = 1
  MaxTouch = 1
  DynKeys = {"extra"}
  MaxDyn = 1
  Tier = "thorough"
INIT MCInit
NEXT MCNext
VIEW MCView
INVARIANT C20_Valid
INVARIANT C20_Complete
INVARIANT C20_Quiet
PROPERTY C20_ReturnedMC
PROPERTY C20_NoSideEffectMC
