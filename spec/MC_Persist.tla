---- MODULE MC_Persist ----
EXTENDS PersistMachine

D1(k, v) == DictV(<< <<StrV(k), v>> >>)
D2(k, v, k2, v2) == DictV(<< <<StrV(k), v>>, <<StrV(k2), v2>> >>)

ItemP  == [ctype |-> TRUE] @@ SchemaF(<< <<"u", StringF>>, <<"pw", With(SecureF, [method |-> "xor"])>> >>)   \* (a configuration TYPE: the items are instances of it)
InnerS == SchemaF(<< <<"tok", With(SecureF, [method |-> "aes"])>>, <<"n", With(IntF, [default |-> IntV(1)])>> >>)
\* (`shared` / `tname`: the harness builds ONE Schema object for both vault types and gives the two types the same
\*  class name - an application calling make_type(schema, "Vault", key_filename=...) once per environment)
VaultT == [ctype |-> TRUE, keyfile |-> "kv", shared |-> "vt", tname |-> "Vault"] @@ SchemaF(<< <<"sec", SecureF>>, <<"inner", InnerS>> >>)
VaultT2 == [VaultT EXCEPT !.keyfile = "kv2"]
SubP   == SchemaF(<< <<"tok", With(SecureF, [method |-> "aes"])>>, <<"port", With(IntF, [default |-> IntV(80)])>> >>)
SchemaP == SchemaF(<<
    \* (bound to a variable that is set to the EMPTY string: no binding, documents load normally)
    <<"name", With(StringF, [default |-> StrV(<<"n", "0">>), env |-> EnvName(<<"N", "V">>)])>>,
    <<"pw", With(SecureF, [method |-> "xor"])>>,
    <<"hash", With(ChallengeF, [alg |-> "md5"])>>,
    <<"blob", BytesF>>,
    \* an unbounded float: the infinities are values every format writes and reads back
    <<"ratio", FloatF>>,
    <<"bl", ListF(With(BytesF, [encoding |-> "hex"]))>>,
    <<"sl", ListF(SecureF)>>,
    \* secrets two list levels down (rotation history per credential): every leaf is a secret all the same
    <<"nl", ListF(ListF(SecureF))>>,
    <<"dd", DictF(StringF, BytesF)>>,
    <<"api", With(StringF, [sensitive |-> TRUE])>>,
    <<"dflt", With(DictF(StringF, IntF), [default |-> D2(<<"a">>, IntV(1), <<"b">>, IntV(2))])>>,
    <<"dl", With(ListF(IntF), [default |-> ListV(<<IntV(1), IntV(2)>>)])>>,
    <<"sub", SubP>>,
    <<"vault", VaultT>>,
    <<"vault2", VaultT2>>,
    <<"items", ListF(ItemP)>>,
    \* a whole list of configurations marked sensitive: masked as one value, not item by item
    <<"sitems", With(ListF(ItemP), [sensitive |-> TRUE])>>,
    <<"virt", VirtualF>>,
    <<"svirt", VirtualF @@ [sensitive |-> TRUE]>> >>)

MCKeyNames == {"ratio", "vault2", "nl", "sitems", "dflt", "dl", "name", "pw", "hash", "blob", "bl", "sl", "dd", "api", "sub", "tok", "port", "vault", "sec", "inner", "n", "items", "u", "virt", "svirt"}
MCKeyChars == [k \in MCKeyNames |-> CASE k = "ratio" -> <<"r", "a", "t", "i", "o">> [] k = "vault2" -> <<"v", "a", "u", "l", "t", "2">> [] k = "nl" -> <<"n", "l">> [] k = "sitems" -> <<"s", "i", "t", "e", "m", "s">> [] k = "dflt" -> <<"d", "f", "l", "t">> [] k = "dl" -> <<"d", "l">> [] k = "name" -> <<"n", "a", "m", "e">> [] k = "pw" -> <<"p", "w">> [] k = "hash" -> <<"h", "a", "s", "h">> [] k = "blob" -> <<"b", "l", "o", "b">> [] k = "bl" -> <<"b", "l">> [] k = "sl" -> <<"s", "l">> [] k = "dd" -> <<"d", "d">> [] k = "api" -> <<"a", "p", "i">> [] k = "sub" -> <<"s", "u", "b">> [] k = "tok" -> <<"t", "o", "k">> [] k = "port" -> <<"p", "o", "r", "t">> [] k = "vault" -> <<"v", "a", "u", "l", "t">> [] k = "sec" -> <<"s", "e", "c">> [] k = "inner" -> <<"i", "n", "n", "e", "r">> [] k = "n" -> <<"n">> [] k = "items" -> <<"i", "t", "e", "m", "s">> [] k = "u" -> <<"u">> [] k = "virt" -> <<"v", "i", "r", "t">> [] k = "svirt" -> <<"s", "v", "i", "r", "t">>]
MCEnviron == [x \in {<<"N", "V">>} |-> <<>>]

\* a ready-made instance of the vault type (it names its own key file) with secrets already set
VaultF == FieldOf(S, "vault")
VaultObj == LET d == DefaultCfg(VaultF, <<"vault">>).cfg
                a == SetPath(VaultF, d, <<>>, "sec", StrV(<<"o", "b", "j", "s", "e", "c", "#", "9">>)).cfg
            IN  SetPath(VaultF, a, <<"inner">>, "tok", StrV(<<"o", "b", "j", "t", "o", "k", "#", "8">>)).cfg
LongSecret == StrV(<<"0", "1", "2", "3", "4", "5", "6", "7", "8", "9", "a", "b", "c", "d", "e", "f", "g", "h", "i", "j",
                     "k", "l", "m", "n", "o", "p", "q", "r", "s", "t", "u", "v", "w", "x", "y", "z", "A", "B", "C", "D", "#", "!">>)
MCSetCands ==
    [pk \in {<< <<>>, "nl">>, << <<>>, "sitems">>, << <<>>, "dflt">>, << <<>>, "dl">>, << <<>>, "name">>, << <<>>, "pw">>, << <<>>, "hash">>, << <<>>, "blob">>, << <<>>, "bl">>, << <<>>, "sl">>,
             << <<>>, "dd">>, << <<>>, "api">>, << <<"sub">>, "tok">>, << <<>>, "vault">>, << <<"vault">>, "sec">>,
             << <<"vault", "inner">>, "tok">>, << <<>>, "items">>, << <<>>, "vault2">>, << <<"vault2">>, "sec">>, << <<>>, "ratio">>} |->
        CASE pk[2] = "sitems" -> {ListV(<<D2(<<"u">>, StrV(<<"s", "a", "m">>), <<"p", "w">>, StrV(<<"s", "i", "t", "e", "m", "p", "w", "#", "7">>))>>)}
          [] pk[2] = "dflt"  -> {D1(<<"a">>, IntV(5)), DictV(<<>>)}
          [] pk[2] = "dl"    -> {ListV(<<>>), ListV(<<IntV(2)>>)}
          [] pk[2] = "name"  -> {StrV(<<"b", "o", "b">>), StrV(<<" ", "p", "a", "d", " ", "<", "&", ">", "\t", "\n">>)}
          \* (a blank secret is a secret)
          [] pk[2] = "pw"    -> {StrV(<<"s", "3", "c", "r", "e", "t", "!", "p", "w">>), StrV(<<>>), LongSecret, StrV(<<" ">>)}
          \* (an imported, unsalted hash: a DigestValue the application built with an empty salt)
          [] pk[2] = "hash"  -> {StrV(<<"h", "u", "n", "t", "e", "r", "2", "!">>),
                                 [t |-> "digest", alg |-> "md5", pt |-> StrV(<<"l", "e", "g", "a", "c", "y", "#", "5">>), salt |-> "empty"]}
          \* (60 bytes: longer than one 76-column line of base64)
          [] pk[2] = "blob"  -> {BytesV(<<0, 255, 65>>), BytesV(<<>>), BytesV([i \in 1..60 |-> (i * 7) % 256])}
          [] pk[2] = "bl"    -> {ListV(<<BytesV(<<1, 2>>), StrV(<<"a", "b">>)>>)}
          [] pk[2] = "sl"    -> {ListV(<<StrV(<<"l", "i", "s", "t", "s", "e", "c", "r", "e", "t", "1">>), StrV(<<>>)>>)}
          \* (map keys that are XML names with "-" and ".")
          [] pk[2] = "nl"    -> {ListV(<<ListV(<<StrV(<<"n", "e", "s", "t", "e", "d", "s", "e", "c", "#", "1">>), StrV(<<>>)>>), ListV(<<>>)>>)}
          [] pk[2] = "dd"    -> {D1(<<"k">>, BytesV(<<7>>)), D2(<<"k", "-", "1", ".", "x">>, BytesV(<<8>>), <<"k", "_", "1", "_", "x">>, BytesV(<<9>>))}
          [] pk[2] = "api"   -> {StrV(<<"A", "P", "I", "K", "E", "Y", "-", "7", "7">>)}
          \* (an AES secret of exactly one cipher block: the padding block must still be written)
          [] pk[1] = <<"sub">> -> {StrV(<<"s", "u", "b", "t", "o", "k", "e", "n", "#", "1">>),
                                  StrV(<<"b", "l", "o", "c", "k", "-", "o", "f", "-", "1", "6", "-", "c", "h", "#", "!">>)}
          [] pk[2] = "vault" -> {D1(<<"s", "e", "c">>, StrV(<<"v", "a", "u", "l", "t", "s", "e", "c", "#", "2">>)), [t |-> "cfgobj", c |-> VaultObj],
                                 \* a rejected map: the valid entries come first
                                 D2(<<"s", "e", "c">>, StrV(<<"r", "e", "j", "e", "c", "t", "e", "d", "#", "1">>), <<"i", "n", "n", "e", "r">>, D1(<<"n">>, StrV(<<"x">>)))}
          [] pk[2] = "ratio" -> {FloatH(3), FSpec("inf"), FSpec("ninf")}
          [] pk[2] = "vault2" -> {D1(<<"s", "e", "c">>, StrV(<<"v", "a", "u", "l", "t", "2", "s", "e", "c", "#", "1">>))}
          [] pk[2] = "sec"   -> {StrV(<<"v", "a", "u", "l", "t", "s", "e", "c", "#", "3">>)}
          [] pk[1] = <<"vault", "inner">> -> {StrV(<<"i", "n", "n", "e", "r", "t", "o", "k", "#", "4">>)}
          [] pk[2] = "items" -> {ListV(<<D2(<<"u">>, StrV(<<"a", "l", "i", "c", "e">>), <<"p", "w">>, StrV(<<"i", "t", "e", "m", "p", "a", "s", "s", "#", "5">>))>>),
                                 ListV(<<D1(<<"u">>, StrV(<<"a", "l", "i", "c", "e">>)), D2(<<"u">>, StrV(<<"c", "a", "r", "o", "l">>), <<"p", "w">>, StrV(<<"i", "t", "e", "m", "p", "a", "s", "s", "#", "6">>))>>)}]
MCMasks == {NoMask, MaskS(<<>>), MaskS(<<"*">>), MaskS(<<"X", "X">>)}

(* ---- key-file placement family (C03: "the key file of the nearest ancestor that names one", for
        every placement): root { pw; sub { tok }; v1: type[k1] { sec; inner { tok; v2: type[k2] { s2 } } };
        items: list of type[ki] { u; pw }; api (sensitive) }, each of k1 / k2 / ki either absent ("")
        or a key file of its own; the root's key file is the default one or kroot (RootKey). ---- *)
KItem(ki) == [ctype |-> TRUE, keyfile |-> ki] @@ SchemaF(<< <<"u", StringF>>, <<"pw", With(SecureF, [method |-> "xor"])>> >>)
KLeaf(k2) == [ctype |-> TRUE, keyfile |-> k2] @@ SchemaF(<< <<"s2", With(SecureF, [method |-> "aes"])>> >>)
KInner(k2) == SchemaF(<< <<"tok", With(SecureF, [method |-> "aes"])>>, <<"v2", KLeaf(k2)>> >>)
KV1(k1, k2) == [ctype |-> TRUE, keyfile |-> k1] @@ SchemaF(<< <<"sec", SecureF>>, <<"inner", KInner(k2)>> >>)
SchemaK(k1, k2, ki) == SchemaF(<<
    <<"pw", With(SecureF, [method |-> "xor"])>>,
    <<"sub", SchemaF(<< <<"tok", With(SecureF, [method |-> "aes"])>> >>)>>,
    <<"v1", KV1(k1, k2)>>,
    <<"items", ListF(KItem(ki))>>,
    <<"api", With(StringF, [sensitive |-> TRUE])>> >>)
SchemaK000 == SchemaK("", "", "")
SchemaK001 == SchemaK("", "", "ki")
SchemaK010 == SchemaK("", "kw", "")
SchemaK011 == SchemaK("", "kw", "ki")
SchemaK100 == SchemaK("kv", "", "")
SchemaK101 == SchemaK("kv", "", "ki")
SchemaK110 == SchemaK("kv", "kw", "")
SchemaK111 == SchemaK("kv", "kw", "ki")
MCKeyNamesK == {"pw", "sub", "tok", "v1", "sec", "inner", "v2", "s2", "items", "u", "api"}
MCKeyCharsK == [k \in MCKeyNamesK |-> CASE k = "pw" -> <<"p", "w">> [] k = "sub" -> <<"s", "u", "b">> [] k = "tok" -> <<"t", "o", "k">>
                    [] k = "v1" -> <<"v", "1">> [] k = "sec" -> <<"s", "e", "c">> [] k = "inner" -> <<"i", "n", "n", "e", "r">>
                    [] k = "v2" -> <<"v", "2">> [] k = "s2" -> <<"s", "2">> [] k = "items" -> <<"i", "t", "e", "m", "s">>
                    [] k = "u" -> <<"u">> [] k = "api" -> <<"a", "p", "i">>]
Sx(t) == StrV(t)
\* ready-made instances (they name their own key file when the placement gives them one)
KV1Obj == LET f == FieldOf(S, "v1")
              d == DefaultCfg(f, <<"v1">>).cfg
              a == SetPath(f, d, <<>>, "sec", Sx(<<"o", "b", "j", "s", "e", "c", "#", "1">>)).cfg
              b == SetPath(f, a, <<"inner">>, "tok", Sx(<<"o", "b", "j", "t", "o", "k", "#", "2">>)).cfg
          IN  SetPath(f, b, <<"inner", "v2">>, "s2", Sx(<<"o", "b", "j", "s", "2", "#", "3", "!">>)).cfg
KItemObj == LET f == FieldOf(S, "items").item
                d == DefaultCfg(f, <<"items">>).cfg
            IN  SetPath(f, d, <<>>, "pw", Sx(<<"o", "b", "j", "i", "t", "e", "m", "#", "4">>)).cfg
MCSetCandsK ==
    [pk \in {<< <<>>, "pw">>, << <<"sub">>, "tok">>, << <<>>, "v1">>, << <<"v1">>, "sec">>, << <<"v1", "inner">>, "tok">>,
             << <<"v1", "inner">>, "v2">>, << <<"v1", "inner", "v2">>, "s2">>, << <<>>, "items">>, << <<>>, "api">>} |->
        CASE pk = << <<>>, "pw">> -> {Sx(<<"r", "o", "o", "t", "p", "w", "#", "5">>), Sx(<<>>)}
          [] pk = << <<"sub">>, "tok">> -> {Sx(<<"s", "u", "b", "t", "o", "k", "#", "6">>)}
          [] pk = << <<>>, "v1">> -> {D1(<<"s", "e", "c">>, Sx(<<"v", "1", "s", "e", "c", "#", "7", "!">>)), [t |-> "cfgobj", c |-> KV1Obj],
                                     D2(<<"s", "e", "c">>, Sx(<<"r", "e", "j", "e", "c", "t", "e", "d", "#", "2">>), <<"z", "z">>, IntV(1))}
          [] pk = << <<"v1">>, "sec">> -> {Sx(<<"v", "1", "s", "e", "c", "#", "8", "!">>)}
          [] pk = << <<"v1", "inner">>, "tok">> -> {Sx(<<"i", "n", "t", "o", "k", "#", "9", "!">>)}
          [] pk = << <<"v1", "inner">>, "v2">> -> {D1(<<"s", "2">>, Sx(<<"v", "2", "s", "2", "#", "1", "0", "!">>))}
          [] pk = << <<"v1", "inner", "v2">>, "s2">> -> {Sx(<<"v", "2", "s", "2", "#", "1", "1", "!">>)}
          [] pk = << <<>>, "items">> -> {ListV(<<D2(<<"u">>, Sx(<<"a">>), <<"p", "w">>, Sx(<<"i", "t", "e", "m", "p", "w", "#", "1", "2">>))>>),
                                        ListV(<<[t |-> "cfgobj", c |-> KItemObj], D1(<<"u">>, Sx(<<"b">>))>>),
                                        \* two equal, separately created instances
                                        ListV(<<[t |-> "cfgobj", c |-> KItemObj], [t |-> "cfgobj", c |-> KItemObj]>>)}
          [] pk = << <<>>, "api">> -> {Sx(<<"A", "P", "I", "-", "K", "E", "Y", "-", "1", "3">>)}]
====
