----------------------------- MODULE CincoCrypto -----------------------------
(***************************************************************************)
(* The cipher layer (C08) and challenge values (C09).                      *)
(*                                                                         *)
(* AES-256-CBC is a symbolic injective term  aes(key, iv, pt): decryption  *)
(* with the same key gives pt, with any other key an error or garbage but  *)
(* never pt; the IV is a fresh nonce (the n-th output of os.urandom).      *)
(* That real ciphertexts ARE standard AES-CBC/PKCS7 of (key, iv, pt) is    *)
(* decided by the conformance harness with an independent implementation.  *)
(* XOR is concrete: bytes are computed in TLA+ with the 32-byte key        *)
(* repeated over the data.  A digest is the symbolic term                  *)
(* H(alg, salt, pt) with a fresh salt nonce of the algorithm's digest size.*)
(***************************************************************************)
EXTENDS CincoFields, Bitwise, Json

CONSTANTS MaxOps

VARIABLES store,     \* history of encryptions: [sv |-> SecureValue(method, ciphertext), key, pt]
          nonce,     \* number of random draws so far (IVs and salts)
          chal,      \* the challenge field's value: NoChal or [alg, salt, saltlen, pt]
          onfile,    \* which key each key FILE holds right now (the KeyFile objects are named after
                     \* the key their file held at the start; files can be swapped between sessions)
          dflt,      \* the challenge field of the schema declares a default (every fresh configuration
                     \* hashes it with a salt of its own)
          ev, steps
vars == <<store, nonce, chal, onfile, dflt, ev, steps>>
St == [store |-> store, nonce |-> nonce, chal |-> chal, onfile |-> onfile, dflt |-> dflt]

Keys == {"K1", "K2"}
\* (K1 contains the bytes 10 and 13; K2 ENDS in a line feed - a key is 32 arbitrary bytes)
KeyBytes(k) == IF k = "K1" THEN [i \in 1..32 |-> i] ELSE [i \in 1..32 |-> IF i = 32 THEN 10 ELSE 100 + i]
Methods == {"aes", "xor", "best"}
Concrete(m) == IF m = "best" THEN "aes" ELSE m

\* plaintext byte strings: empty, shorter / equal / longer than a block, longer than the key,
\* with bytes >= 128 (not UTF-8)
PT(n, sd) == [i \in 1..n |-> (i * 37 + sd) % 256]
\* (PT(40, 186): the 16th byte is 10, so its first block LOOKS like it ends in padding)
Plaintexts == {PT(0, 0), PT(1, 65), PT(15, 3), PT(16, 200), PT(17, 90), PT(33, 129), PT(40, 7), PT(40, 186)}

XorBytes(data, key) == [i \in DOMAIN data |-> data[i] ^^ key[((i - 1) % Len(key)) + 1]]

\* a secure value
AesV(key, iv, pt) == [m |-> "aes", ct |-> [k |-> "aes", key |-> key, iv |-> iv, pt |-> pt]]
XorV(bytes)       == [m |-> "xor", ct |-> [k |-> "raw", y |-> bytes]]

EncryptV(key, m, pt, iv) ==
    IF Concrete(m) = "aes" THEN AesV(key, iv, pt) ELSE XorV(XorBytes(pt, KeyBytes(key)))

\* result of decrypting: [ok, pt] ; ok = FALSE means an error was raised; garbage = TRUE
\* means some bytes that are not the plaintext came back
Dec(ok, pt, garbage) == [ok |-> ok, pt |-> pt, garbage |-> garbage]
DecryptV(key, sv) ==
    IF sv.m \notin {"aes", "xor", "best"} THEN Dec(FALSE, <<>>, FALSE)             \* unknown method
    ELSE IF Concrete(sv.m) = "xor" THEN
        (IF sv.ct.k = "raw" THEN Dec(TRUE, XorBytes(sv.ct.y, KeyBytes(key)), FALSE)
         ELSE Dec(TRUE, <<>>, TRUE))                                                \* xor of an aes blob: garbage
    ELSE \* aes
        IF sv.ct.k = "raw" THEN
            \* raw bytes handed to AES: shorter than 32 -> error; otherwise bad padding (error) in the model's cases
            Dec(FALSE, <<>>, FALSE)
        ELSE IF sv.ct.key = key THEN Dec(TRUE, sv.ct.pt, FALSE)
        ELSE Dec(FALSE, <<>>, TRUE)                                                 \* wrong key: error or garbage, never pt

NoChal == [alg |-> "none", salt |-> 0, saltlen |-> 0, pt |-> ""]
Init == store = <<>> /\ nonce = 0 /\ chal = NoChal /\ onfile = [k \in Keys |-> k] /\ dflt = FALSE /\ ev = [op |-> "Init"] /\ steps = 0
Tick == steps < MaxOps /\ steps' = steps + 1

\* key names the KeyFile object; the key that encrypts is the one its file holds when the session opens
Encrypt(kf, m, pt) ==
    LET aes == Concrete(m) = "aes"
        key == onfile[kf]
        sv == EncryptV(key, m, pt, nonce + 1)
    IN  /\ store' = Append(store, [sv |-> sv, key |-> key, pt |-> pt])
        /\ nonce' = IF aes THEN nonce + 1 ELSE nonce
        /\ UNCHANGED <<chal, onfile, dflt>>
        /\ ev' = [op |-> "Encrypt", key |-> kf, m |-> m, pt |-> pt, out |-> "ok", sv |-> sv]

\* the same bytes encrypted twice while ONE key session is open (nested: the second call inside
\* an inner `with` of the same key file): two independent encryptions, each with its own IV
PairPlaintexts == {PT(0, 0), PT(16, 200), PT(33, 129)}
EncryptPair(kf, m, pt, nested) ==
    LET aes == Concrete(m) = "aes"
        key == onfile[kf]
        sv1 == EncryptV(key, m, pt, nonce + 1)
        sv2 == EncryptV(key, m, pt, nonce + 2)
    IN  /\ store' = store \o <<[sv |-> sv1, key |-> key, pt |-> pt], [sv |-> sv2, key |-> key, pt |-> pt]>>
        /\ nonce' = IF aes THEN nonce + 2 ELSE nonce
        /\ UNCHANGED <<chal, onfile, dflt>>
        /\ ev' = [op |-> "EncryptPair", key |-> kf, m |-> m, pt |-> pt, nested |-> nested, out |-> "ok", sv |-> sv1, sv2 |-> sv2]

\* the files of the two key-file objects exchange their contents (between sessions): every later
\* session of an object uses what its file holds now
Swap ==
    /\ onfile' = [k \in Keys |-> onfile[IF k = "K1" THEN "K2" ELSE "K1"]]
    /\ UNCHANGED <<store, nonce, chal, dflt>>
    /\ ev' = [op |-> "Swap", out |-> "ok"]

\* a session of object kf is attempted while its file is malformed (31 bytes) and fails; the file is put back
\* as it was.  Nothing is left behind: the next session of the object opens, uses and releases the key its
\* file holds then (so a later Swap still takes effect for this object).
FailedOpen(kf) ==
    /\ UNCHANGED <<store, nonce, chal, onfile, dflt>>
    /\ ev' = [op |-> "FailedOpen", key |-> kf, out |-> "error"]

Decrypt(kf, i) ==
    LET key == onfile[kf]
        r == DecryptV(key, store[i].sv) IN
    /\ UNCHANGED <<store, nonce, chal, onfile, dflt>>
    \* with a wrong AES key the implementation raises or returns garbage (which of the two
    \* depends on the random IV): the property only says "never the plaintext"
    /\ ev' = [op |-> "Decrypt", key |-> kf, i |-> i,
              out |-> IF r.garbage \/ (~r.ok /\ store[i].sv.m = "aes" /\ store[i].key # key) THEN "notpt"
                      ELSE IF r.ok THEN "ok" ELSE "error",
              ret |-> IF r.ok /\ ~r.garbage THEN BytesV(r.pt) ELSE NoneV,
              notpt |-> r.garbage \/ ~r.ok \/ r.pt # store[i].pt]

\* a real AES ciphertext cut down to IV + first block: PKCS7 unpadding of the first plaintext
\* block must fail unless that block happens to end in valid padding
PadOk(blk) == LET last == blk[16] IN last \in 1..16 /\ \A j \in (17 - last)..16 : blk[j] = last
DecryptTruncated(i) ==
    /\ store[i].sv.m = "aes" /\ Len(store[i].pt) >= 17
    /\ UNCHANGED <<store, nonce, chal, onfile, dflt>>
    /\ ev' = [op |-> "DecryptTruncated", i |-> i,
              out |-> IF PadOk(SubSeq(store[i].pt, 1, 16)) THEN "ok" ELSE "error"]

\* a real AES ciphertext with n more bytes after its last block (1 <= n <= 15: no longer a whole number of
\* blocks): rejected, whatever the appended bytes are - the genuine blocks in front must not be honoured
DecryptExtended(i, n) ==
    /\ store[i].sv.m = "aes"
    /\ UNCHANGED <<store, nonce, chal, onfile, dflt>>
    /\ ev' = [op |-> "DecryptExtended", i |-> i, n |-> n, out |-> "error"]

\* malformed ciphertexts handed to KeyFile.decrypt
BadCts == {[m |-> "aes", ct |-> [k |-> "raw", y |-> PT(0, 0)]],       \* empty
           [m |-> "aes", ct |-> [k |-> "raw", y |-> PT(16, 1)]],      \* shorter than IV + one block
           [m |-> "aes", ct |-> [k |-> "raw", y |-> PT(31, 2)]],
           [m |-> "aes", ct |-> [k |-> "raw", y |-> PT(33, 3)]],      \* not block aligned
           [m |-> "aes", ct |-> [k |-> "raw", y |-> PT(47, 4)]],
           [m |-> "rot13", ct |-> [k |-> "raw", y |-> PT(32, 5)]],    \* unknown method
           [m |-> "", ct |-> [k |-> "raw", y |-> PT(32, 6)]]}
DecryptBad(key, sv) ==
    LET r == DecryptV(key, sv) IN
    /\ UNCHANGED <<store, nonce, chal, onfile, dflt>>
    /\ ev' = [op |-> "DecryptBad", key |-> key, sv |-> sv, out |-> IF r.ok THEN "ok" ELSE "error"]

\* SecureField.to_python on stored values of the wrong shape or encoding.  shape names are
\* interpreted by the harness (harness/props/crypto.py stored_value); the result is always an
\* error except for the two pass-through shapes.  fm is the method the field is configured
\* with; wherever a shape carries a well-formed ciphertext it is a genuine ciphertext of the
\* field's own method and key, so that only the malformation named by the shape is wrong.
StoredShapes == {"none", "plain-str", "dict-no-method", "dict-null-method", "dict-empty-method", "dict-unknown-method",
                 "dict-int-method", "dict-no-ciphertext", "dict-int-ciphertext", "dict-bad-padding-b64",
                 "dict-foreign-chars-b64", "dict-aes-short", "dict-aes-unaligned", "dict-aes-wrong-key", "list", "int"}
LoadStored(shape, fm) ==
    /\ UNCHANGED <<store, nonce, chal, onfile, dflt>>
    /\ ev' = [op |-> "LoadStored", shape |-> shape, fm |-> fm,
              out |-> IF shape \in {"none", "plain-str"} THEN "ok" ELSE "error"]

---------------------------------------------------------------------------
(* challenge values *)
Algs == {"md5", "sha1", "sha224", "sha256", "sha384", "sha512"}
DigestSize(a) == CASE a = "md5" -> 16 [] a = "sha1" -> 20 [] a = "sha224" -> 28 [] a = "sha256" -> 32
                   [] a = "sha384" -> 48 [] a = "sha512" -> 64
\* secrets: text and byte strings (names interpreted by the harness)
SecretNames == {"empty", "a", "ab", "unicode", "nfkc", "long", "bytes", "colon"}
DV(alg, salt, pt) == [alg |-> alg, salt |-> salt, saltlen |-> DigestSize(alg), pt |-> pt]

Assign(alg, p) ==        \* cfg.password = plaintext   (the field's algorithm is alg)
    /\ (chal = NoChal \/ chal.alg = alg)
    /\ chal' = DV(alg, nonce + 1, p)
    /\ nonce' = nonce + 1
    /\ UNCHANGED <<store, onfile, dflt>>
    /\ ev' = [op |-> "Assign", alg |-> alg, p |-> p, out |-> "ok"]
\* the first configuration of a schema whose challenge field declares a text default: the default
\* is stored hashed like any other plaintext (also the empty one)
BuildDefault(alg, p) ==
    /\ chal = NoChal /\ p # "bytes"
    /\ chal' = DV(alg, nonce + 1, p)
    /\ nonce' = nonce + 1
    /\ UNCHANGED <<store, onfile>> /\ dflt' = TRUE
    /\ ev' = [op |-> "BuildDefault", alg |-> alg, p |-> p, out |-> "ok"]
LoadPlain(alg, p) ==     \* a plaintext written by hand into a document is hashed on load
    /\ p # "bytes"                              \* (documents hold text)
    /\ (chal = NoChal \/ chal.alg = alg)
    /\ chal' = DV(alg, nonce + 1, p)
    /\ nonce' = nonce + 1
    /\ UNCHANGED <<store, onfile, dflt>>
    /\ ev' = [op |-> "LoadPlain", alg |-> alg, p |-> p, out |-> "ok"]
Challenge(q) ==
    /\ chal # NoChal
    /\ UNCHANGED <<store, nonce, chal, onfile, dflt>>
    /\ ev' = [op |-> "Challenge", q |-> q, out |-> IF q = chal.pt THEN "ok" ELSE "error"]
SaveLoad(fmt) ==         \* dumps(fmt) then loads into a fresh configuration
    /\ chal # NoChal
    \* (the fresh configuration first hashes the declared default, drawing a salt, then takes the loaded value)
    /\ nonce' = IF dflt THEN nonce + 1 ELSE nonce
    /\ UNCHANGED <<store, chal, onfile, dflt>>
    /\ ev' = [op |-> "SaveLoad", fmt |-> fmt, out |-> "ok"]

Next ==
    \/ \E k \in Keys, m \in Methods, p \in Plaintexts : Tick /\ Encrypt(k, m, p)
    \/ \E k \in Keys, i \in DOMAIN store : Tick /\ Decrypt(k, i)
    \/ Tick /\ Swap
    \/ \E k \in Keys, sv \in BadCts : Tick /\ DecryptBad(k, sv)
    \/ \E i \in DOMAIN store : Tick /\ DecryptTruncated(i)
    \/ \E k \in Keys : Tick /\ FailedOpen(k)
    \/ \E i \in DOMAIN store, n \in {1, 15} : Tick /\ DecryptExtended(i, n)
    \/ \E s \in StoredShapes, fm \in Methods : Tick /\ LoadStored(s, fm)
    \/ \E k \in Keys, m \in Methods, p \in PairPlaintexts, nested \in BOOLEAN : Tick /\ EncryptPair(k, m, p, nested)
    \/ \E a \in Algs, p \in SecretNames : Tick /\ Assign(a, p)
    \/ \E a \in Algs, p \in SecretNames : Tick /\ LoadPlain(a, p)
    \/ \E a \in Algs, p \in {"empty", "a", "colon"} : Tick /\ BuildDefault(a, p)
    \/ \E q \in SecretNames : Tick /\ Challenge(q)
    \/ \E f \in {"json", "yaml", "bson", "xml", "pickle"} : Tick /\ SaveLoad(f)

---------------------------------------------------------------------------
(* C08 *)
C08_ConcreteMethod == \A i \in DOMAIN store : store[i].sv.m \in {"aes", "xor"}
\* decrypting what was encrypted with the same key returns the original bytes
C08_Inverse ==
    (ev.op = "Decrypt" /\ onfile[ev.key] = store[ev.i].key) => ev.out = "ok" /\ ev.ret = BytesV(store[ev.i].pt)
\* two encryptions never share an IV, so equal plaintexts never give equal ciphertexts
C08_FreshIV ==
    \A i, j \in DOMAIN store :
        (i # j /\ store[i].sv.m = "aes" /\ store[j].sv.m = "aes") =>
            store[i].sv.ct.iv # store[j].sv.ct.iv /\ store[i].sv # store[j].sv
\* a different key never yields the plaintext of an AES value
C08_WrongKey ==
    (ev.op = "Decrypt" /\ store[ev.i].sv.m = "aes" /\ store[ev.i].key # onfile[ev.key]) => ev.notpt
\* XOR is its own inverse with the key repeated over the data
C08_XorInvolution ==
    \A k \in Keys, p \in Plaintexts :
        LET c == XorBytes(p, KeyBytes(k)) IN
        /\ XorBytes(c, KeyBytes(k)) = p
        /\ \A i \in DOMAIN p : c[i] = p[i] ^^ KeyBytes(k)[((i - 1) % 32) + 1]
C08_MalformedRejected ==
    /\ ev.op = "DecryptBad" => ev.out = "error"
    /\ ev.op = "DecryptExtended" => ev.out = "error"
    /\ (ev.op = "DecryptTruncated" /\ ~PadOk(SubSeq(store[ev.i].pt, 1, 16))) => ev.out = "error"
    /\ (ev.op = "LoadStored" /\ ev.shape \notin {"none", "plain-str"}) => ev.out = "error"

(* C09 *)
C09_Exact == ev.op = "Challenge" => (ev.out = "ok" <=> ev.q = chal.pt)
A_FreshSalt == (ev'.op \in {"Assign", "LoadPlain", "BuildDefault"}) => chal'.salt = nonce + 1 /\ (chal # NoChal => chal'.salt # chal.salt)
C09_FreshSalt == [][A_FreshSalt]_vars
C09_SaltLen == chal # NoChal => chal.saltlen = DigestSize(chal.alg)
A_Survives == (ev'.op \in {"SaveLoad", "Challenge"}) => chal' = chal
C09_Survives == [][A_Survives]_vars
C09_HandWrittenHashed == ev.op = "LoadPlain" => chal.pt = ev.p /\ chal.salt = nonce

Export == PrintT(<<"EDGE", ToJson([from |-> St, ev |-> ev', to |-> St'])>>)
PInit  == (steps = 0) => PrintT(<<"INIT", ToJson(St)>>)
View == <<store, nonce, chal, onfile, dflt, steps>>
=============================================================================
