-------------------------- MODULE CincoContainers --------------------------
(***************************************************************************)
(* C17 - a typed list / dict value (ListProxy / DictProxy) next to the     *)
(* built-in list / dict holding the NORMALISED forms of what was put in.   *)
(*                                                                         *)
(*   L  : contents of the typed list as the implementation computes them   *)
(*        (fields/list_field.py: overridden entry points validate, the     *)
(*        inherited ones do not; fast paths for compatible proxies)        *)
(*   R  : contents of a plain Python list on which the same operation is   *)
(*        performed with the normalised arguments (the reference)          *)
(*   D, RD : the same for the typed dict (fields/dict_field.py)            *)
(*                                                                         *)
(* C17 says L = R, D = RD and equal return values after every operation    *)
(* with acceptable arguments, and that copies / concatenations stay typed. *)
(***************************************************************************)
EXTENDS CincoFields, Json

CONSTANTS ItemF,      \* item field of the list under test
          OtherF,     \* item field of ANOTHER typed list used as an argument
          KeyF, ValF, \* key / value fields of the dict under test
          ItemCands,  \* raw candidate items (valid, normalising, invalid)
          KeyCands, ValCands,
          MaxLen,     \* bound on container length
          MaxDepth

VARIABLES L, R, D, RD, ev, steps
vars == <<L, R, D, RD, ev, steps>>
St == [L |-> L, R |-> R, D |-> D, RD |-> RD]

NormI(v) == Validate(ItemF, v)
AllOk(vs) == \A i \in DOMAIN vs : NormI(vs[i]).ok
NormAll(vs) == [i \in DOMAIN vs |-> NormI(vs[i]).v]
\* first index whose item is rejected (0 if none)
FirstBad(vs) == IF AllOk(vs) THEN 0 ELSE CHOOSE i \in DOMAIN vs : ~NormI(vs[i]).ok /\ \A j \in 1..(i - 1) : NormI(vs[j]).ok

\* the items an iterable argument yields:  kind "list" | "tuple" | "iter" (raw values),
\* "same" (a typed list of the SAME field: a copy of L), "other" (a typed list of OtherF)
Yield(src) ==
    CASE src.k = "same"  -> L
      [] src.k = "other" -> [i \in DOMAIN src.vs |-> Validate(OtherF, src.vs[i]).v]
      [] OTHER           -> src.vs
SrcOk(src) == src.k # "other" \/ \A i \in DOMAIN src.vs : Validate(OtherF, src.vs[i]).ok

\* Python index arithmetic
NormIdx(i, n) == IF i < 0 THEN i + n ELSE i
Clamp(i, n) == LET j == NormIdx(i, n) IN IF j < 0 THEN 0 ELSE IF j > n THEN n ELSE j
SliceLo(lo, n) == Clamp(lo, n)
SliceHi(lo, hi, n) == LET a == Clamp(lo, n)  b == Clamp(hi, n) IN IF b < a THEN a ELSE b
InsertAt(s, i, x) == SubSeq(s, 1, i) \o <<x>> \o SubSeq(s, i + 1, Len(s))      \* i = 0-based position
SetSlice(s, lo, hi, xs) == SubSeq(s, 1, SliceLo(lo, Len(s))) \o xs \o SubSeq(s, SliceHi(lo, hi, Len(s)) + 1, Len(s))
RemoveIdx(s, j) == SubSeq(s, 1, j) \o SubSeq(s, j + 2, Len(s))                  \* j = 0-based
FirstIdx(s, x) == IF \E i \in DOMAIN s : s[i] = x THEN (CHOOSE i \in DOMAIN s : s[i] = x /\ \A j \in 1..(i - 1) : s[j] # x) ELSE 0
Count(s, x) == Cardinality({i \in DOMAIN s : s[i] = x})
RECURSIVE Repeat(_, _)
Repeat(s, k) == IF k <= 0 THEN <<>> ELSE s \o Repeat(s, k - 1)
Reverse(s) == [i \in DOMAIN s |-> s[Len(s) + 1 - i]]
\* sorting integers (only used with an int item field)
RECURSIVE SortInts(_)
SortInts(s) ==
    IF s = <<>> THEN <<>>
    ELSE LET m == CHOOSE i \in DOMAIN s : \A j \in DOMAIN s : s[i].i <= s[j].i /\ (s[i].i = s[j].i => i <= j)
         IN  <<s[m]>> \o SortInts(RemoveIdx(s, m - 1))

Result(ok, new, ret, err, typed) == [ok |-> ok, new |-> new, ret |-> ret, err |-> err, typed |-> typed]
NoRet == NoneV
Raise(cur, e) == Result(FALSE, cur, NoRet, e, FALSE)

---------------------------------------------------------------------------
(* the built-in list on normalised arguments (reference side).  Arguments are already
   normalised; out-of-range and missing-value errors as Python raises them. *)
RefList(cur, op) ==
    LET n == Len(cur) IN
    CASE op.m = "append"   -> Result(TRUE, Append(cur, op.x), NoRet, "", FALSE)
      [] op.m = "insert"   -> Result(TRUE, InsertAt(cur, Clamp(op.i, n), op.x), NoRet, "", FALSE)
      [] op.m = "setitem"  -> LET j == NormIdx(op.i, n) IN
                              IF j < 0 \/ j >= n THEN Raise(cur, "IndexError")
                              ELSE Result(TRUE, [cur EXCEPT ![j + 1] = op.x], NoRet, "", FALSE)
      [] op.m \in {"extend", "iadd"} -> Result(TRUE, cur \o op.xs, NoRet, "", FALSE)
      [] op.m = "setslice" -> Result(TRUE, SetSlice(cur, op.lo, op.hi, op.xs), NoRet, "", FALSE)
      [] op.m = "delitem"  -> LET j == NormIdx(op.i, n) IN
                              IF j < 0 \/ j >= n THEN Raise(cur, "IndexError")
                              ELSE Result(TRUE, RemoveIdx(cur, j), NoRet, "", FALSE)
      [] op.m = "delslice" -> Result(TRUE, SetSlice(cur, op.lo, op.hi, <<>>), NoRet, "", FALSE)
      [] op.m = "pop"      -> IF n = 0 THEN Raise(cur, "IndexError")
                              ELSE Result(TRUE, SubSeq(cur, 1, n - 1), cur[n], "", FALSE)
      [] op.m = "popi"     -> LET j == NormIdx(op.i, n) IN
                              IF j < 0 \/ j >= n THEN Raise(cur, "IndexError")
                              ELSE Result(TRUE, RemoveIdx(cur, j), cur[j + 1], "", FALSE)
      [] op.m = "remove"   -> LET j == FirstIdx(cur, op.x) IN
                              IF j = 0 THEN Raise(cur, "ValueError") ELSE Result(TRUE, RemoveIdx(cur, j - 1), NoRet, "", FALSE)
      [] op.m = "index"    -> LET j == FirstIdx(cur, op.x) IN
                              IF j = 0 THEN Raise(cur, "ValueError") ELSE Result(TRUE, cur, IntV(j - 1), "", FALSE)
      [] op.m = "count"    -> Result(TRUE, cur, IntV(Count(cur, op.x)), "", FALSE)
      [] op.m = "contains" -> Result(TRUE, cur, BoolV(FirstIdx(cur, op.x) # 0), "", FALSE)
      [] op.m = "getitem"  -> LET j == NormIdx(op.i, n) IN
                              IF j < 0 \/ j >= n THEN Raise(cur, "IndexError") ELSE Result(TRUE, cur, cur[j + 1], "", FALSE)
      [] op.m = "getslice" -> Result(TRUE, cur, ListV(SubSeq(cur, SliceLo(op.lo, n) + 1, SliceHi(op.lo, op.hi, n))), "", FALSE)
      [] op.m = "len"      -> Result(TRUE, cur, IntV(n), "", FALSE)
      [] op.m = "sort"     -> Result(TRUE, SortInts(cur), NoRet, "", FALSE)
      [] op.m = "reverse"  -> Result(TRUE, Reverse(cur), NoRet, "", FALSE)
      [] op.m = "clear"    -> Result(TRUE, <<>>, NoRet, "", FALSE)
      [] op.m = "copy"     -> Result(TRUE, cur, ListV(cur), "", FALSE)
      [] op.m = "add"      -> Result(TRUE, cur, ListV(cur \o op.xs), "", FALSE)
      \* plain_list + typed_list: a plain list, the plain items first, nothing validated
      [] op.m = "radd"     -> Result(TRUE, cur, ListV(op.xs \o cur), "", FALSE)
      [] op.m = "mul"      -> Result(TRUE, cur, ListV(Repeat(cur, op.n)), "", FALSE)
      [] op.m = "imul"     -> Result(TRUE, Repeat(cur, op.n), NoRet, "", FALSE)
      [] op.m = "eq"       -> Result(TRUE, cur, BoolV(cur = op.xs), "", FALSE)

(* the typed list as implemented *)
\* validate the items of an iterable one by one (generator): [ok, prefix validated so far]
ProxList(cur, op) ==
    LET n == Len(cur) IN
    CASE op.m \in {"append", "insert", "setitem"} ->
            \* overridden: validate first, then delegate to list
            LET r == NormI(op.x) IN
            IF ~r.ok THEN Raise(cur, "ValueError")
            ELSE RefList(cur, [op EXCEPT !.x = r.v])
      [] op.m \in {"extend", "iadd"} ->
            IF ~SrcOk(op.src) THEN Raise(cur, "ArgError")
            ELSE IF op.src.k = "same" THEN Result(TRUE, cur \o L, NoRet, "", FALSE)       \* fast path, no validation
            ELSE LET ys == Yield(op.src)  b == FirstBad(ys) IN
                 \* list.extend(generator): the items before the rejected one are already in
                 IF b = 0 THEN Result(TRUE, cur \o NormAll(ys), NoRet, "", FALSE)
                 ELSE Result(FALSE, cur \o NormAll(SubSeq(ys, 1, b - 1)), NoRet, "ValueError", FALSE)
      [] op.m = "setslice" ->
            IF ~SrcOk(op.src) THEN Raise(cur, "ArgError")
            ELSE LET ys == Yield(op.src) IN
                 IF AllOk(ys) THEN Result(TRUE, SetSlice(cur, op.lo, op.hi, NormAll(ys)), NoRet, "", FALSE)
                 ELSE Raise(cur, "ValueError")
      [] op.m = "copy" -> Result(TRUE, cur, ListV(cur), "", TRUE)
      [] op.m = "add" ->
            IF ~SrcOk(op.src) THEN Raise(cur, "ArgError")
            ELSE IF op.src.k = "same" THEN Result(TRUE, cur, ListV(cur \o L), "", TRUE)
            ELSE LET ys == Yield(op.src) IN
                 IF AllOk(ys) THEN Result(TRUE, cur, ListV(cur \o NormAll(ys)), "", TRUE)
                 ELSE Raise(cur, "ValueError")
      [] op.m = "radd" -> Result(TRUE, cur, ListV(op.src.vs \o cur), "", FALSE)
      [] OTHER -> RefList(cur, op)        \* inherited from list unchanged

\* the reference operation: same method on the plain list, arguments normalised
RefArgs(op) ==
    CASE op.m \in {"append", "insert", "setitem"} -> [op EXCEPT !.x = NormI(op.x).v]
      [] op.m \in {"extend", "iadd", "setslice", "add"} ->
            op @@ [xs |-> IF op.src.k = "same" THEN R ELSE NormAll(Yield(op.src))]
      [] op.m = "radd" -> op @@ [xs |-> op.src.vs]
      [] OTHER -> op
Acceptable(op) ==
    CASE op.m \in {"append", "insert", "setitem"} -> NormI(op.x).ok
      [] op.m \in {"extend", "iadd", "setslice", "add"} -> SrcOk(op.src) /\ (op.src.k = "same" \/ AllOk(Yield(op.src)))
      [] OTHER -> TRUE

ListStep(op) ==
    LET p == ProxList(L, op) IN
    /\ "src" \in DOMAIN op => SrcOk(op.src)          \* the argument can be constructed at all
    /\ Len(p.new) <= MaxLen
    \* (a rejected multi-item call may leave the accepted prefix in place, as the code does, or
    \* nothing at all: C17 speaks about acceptable arguments only)
    /\ \/ L' = p.new
       \/ ~p.ok /\ L' = L
    /\ IF Acceptable(op)
       THEN LET r == RefList(R, RefArgs(op)) IN
            /\ R' = r.new
            /\ ev' = [c |-> "list", op |-> op, out |-> IF p.ok THEN "ok" ELSE p.err, ret |-> p.ret, typed |-> p.typed,
                      acceptable |-> TRUE, rop |-> RefArgs(op), rout |-> IF r.ok THEN "ok" ELSE r.err, rret |-> r.ret]
       ELSE /\ R' = L'                                                     \* reference follows a rejected call
            /\ ev' = [c |-> "list", op |-> op, out |-> IF p.ok THEN "ok" ELSE p.err, ret |-> p.ret, typed |-> p.typed,
                      acceptable |-> FALSE, rout |-> "n/a", rret |-> NoRet]
    /\ UNCHANGED <<D, RD>>

---------------------------------------------------------------------------
(* dict *)
NormK(k) == Validate(KeyF, k)
NormV(v) == Validate(ValF, v)
PairOk(kv) == NormK(kv[1]).ok /\ NormV(kv[2]).ok
PairsOk(kvs) == \A i \in DOMAIN kvs : PairOk(kvs[i])
NormPairs(kvs) == [i \in DOMAIN kvs |-> <<NormK(kvs[i][1]).v, NormV(kvs[i][2]).v>>]
\* dict.update(pairs): existing keys keep their position, new keys are appended in order
UpdateKV(cur, pairs) == DictFromPairs(pairs, cur)

RefDict(cur, op) ==
    CASE op.m = "setitem"    -> Result(TRUE, DictSet(cur, op.k, op.v), NoRet, "", FALSE)
      [] op.m \in {"update", "ior"} -> Result(TRUE, UpdateKV(cur, op.kvs), NoRet, "", FALSE)
      \* plain_dict | typed_dict: a plain dict; the plain dict's keys first, the typed dict's values win
      [] op.m = "ror" -> Result(TRUE, cur, DictV(UpdateKV(op.kvs, cur)), "", FALSE)
      [] op.m = "setdefault" -> IF DictHas(cur, op.k) THEN Result(TRUE, cur, DictGet(cur, op.k), "", FALSE)
                                ELSE Result(TRUE, Append(cur, <<op.k, op.v>>), op.v, "", FALSE)
      [] op.m = "pop"        -> IF DictHas(cur, op.k) THEN Result(TRUE, DictDel(cur, op.k), DictGet(cur, op.k), "", FALSE)
                                ELSE Raise(cur, "KeyError")
      [] op.m = "popd"       -> IF DictHas(cur, op.k) THEN Result(TRUE, DictDel(cur, op.k), DictGet(cur, op.k), "", FALSE)
                                ELSE Result(TRUE, cur, op.v, "", FALSE)
      [] op.m = "popitem"    -> IF cur = <<>> THEN Raise(cur, "KeyError")
                                ELSE Result(TRUE, SubSeq(cur, 1, Len(cur) - 1), TupleV(<<cur[Len(cur)][1], cur[Len(cur)][2]>>), "", FALSE)
      [] op.m = "delitem"    -> IF DictHas(cur, op.k) THEN Result(TRUE, DictDel(cur, op.k), NoRet, "", FALSE) ELSE Raise(cur, "KeyError")
      [] op.m = "clear"      -> Result(TRUE, <<>>, NoRet, "", FALSE)
      [] op.m = "copy"       -> Result(TRUE, cur, DictV(cur), "", FALSE)
      [] op.m = "get"        -> Result(TRUE, cur, IF DictHas(cur, op.k) THEN DictGet(cur, op.k) ELSE NoneV, "", FALSE)
      [] op.m = "contains"   -> Result(TRUE, cur, BoolV(DictHas(cur, op.k)), "", FALSE)
      [] op.m = "keys"       -> Result(TRUE, cur, ListV(DictKeys(cur)), "", FALSE)
      [] op.m = "len"        -> Result(TRUE, cur, IntV(Len(cur)), "", FALSE)

\* the pairs an update argument yields: "dict" | "pairs" | "kwargs" (raw), "same" (copy of D,
\* same field and configuration), "other" (typed dict of another field: plain pairs here)
\* ("other": the typed dict value of ANOTHER configuration of the same schema, holding the
\* normalised pairs; it is not compatible (different configuration), so it is validated)
DYield(src) == IF src.k = "same" THEN D ELSE IF src.k = "other" THEN NormPairs(src.kvs) ELSE src.kvs
DSrcOk(src) == /\ src.k = "other" => PairsOk(src.kvs)
               /\ src.k = "kwargs" => \A i \in DOMAIN src.kvs : IsStr(src.kvs[i][1])

RECURSIVE ProxDict(_, _)
ProxDict(cur, op) ==
    CASE op.m = "update_kw" ->
            \* d.update(src, **kw): the positional argument first, then the keywords one at a time
            LET first == ProxDict(cur, [m |-> "update", src |-> op.src]) IN
            IF ~first.ok THEN first
            ELSE ProxDict(first.new, [m |-> "update", src |-> [k |-> "kwargs", kvs |-> op.kw]])
      [] op.m = "setitem" ->
            IF ~PairOk(<<op.k, op.v>>) THEN Raise(cur, "ValueError")
            ELSE RefDict(cur, [op EXCEPT !.k = NormK(op.k).v, !.v = NormV(op.v).v])
      [] op.m = "setdefault" ->
            IF ~PairOk(<<op.k, op.v>>) THEN Raise(cur, "ValueError")
            ELSE RefDict(cur, [op EXCEPT !.k = NormK(op.k).v, !.v = NormV(op.v).v])
      [] op.m \in {"update", "ior"} ->
            IF op.src.k = "same" THEN Result(TRUE, UpdateKV(cur, D), NoRet, "", FALSE)      \* compatible proxy: no validation
            ELSE IF op.src.k = "kwargs" THEN
                 \* keywords go through __setitem__ one at a time: those before a rejected one stay
                 LET ys == DYield(op.src)
                     b == IF PairsOk(ys) THEN 0 ELSE CHOOSE i \in DOMAIN ys : ~PairOk(ys[i]) /\ \A j \in 1..(i - 1) : PairOk(ys[j])
                 IN  IF b = 0 THEN Result(TRUE, UpdateKV(cur, NormPairs(ys)), NoRet, "", FALSE)
                     ELSE Result(FALSE, UpdateKV(cur, NormPairs(SubSeq(ys, 1, b - 1))), NoRet, "ValueError", FALSE)
            ELSE LET ys == DYield(op.src) IN
                 \* the whole argument is validated into a list before dict.update: atomic
                 IF PairsOk(ys) THEN Result(TRUE, UpdateKV(cur, NormPairs(ys)), NoRet, "", FALSE)
                 ELSE Raise(cur, "ValueError")
      [] op.m = "copy" -> Result(TRUE, cur, DictV(cur), "", TRUE)
      [] op.m = "ror" -> Result(TRUE, cur, DictV(UpdateKV(op.src.kvs, cur)), "", FALSE)
      [] OTHER -> RefDict(cur, op)

DRefArgs(op) ==
    CASE op.m \in {"setitem", "setdefault"} -> [op EXCEPT !.k = NormK(op.k).v, !.v = NormV(op.v).v]
      [] op.m \in {"update", "ior"} -> op @@ [kvs |-> IF op.src.k = "same" THEN RD ELSE NormPairs(DYield(op.src))]
      [] op.m = "ror" -> op @@ [kvs |-> op.src.kvs]
      [] op.m = "update_kw" -> [m |-> "update", kvs |-> (IF op.src.k = "same" THEN RD ELSE NormPairs(DYield(op.src))) \o NormPairs(op.kw)]
      [] OTHER -> op
DAcceptable(op) ==
    CASE op.m \in {"setitem", "setdefault"} -> PairOk(<<op.k, op.v>>)
      [] op.m \in {"update", "ior"} -> op.src.k = "same" \/ PairsOk(DYield(op.src))
      [] op.m = "update_kw" -> (op.src.k = "same" \/ PairsOk(DYield(op.src))) /\ PairsOk(op.kw)
      [] OTHER -> TRUE

DictStep(op) ==
    LET p == ProxDict(D, op) IN
    /\ "src" \in DOMAIN op => DSrcOk(op.src) /\ (op.m = "ior" => op.src.k # "kwargs")
    /\ Len(p.new) <= MaxLen
    /\ \/ D' = p.new
       \/ ~p.ok /\ D' = D
    /\ IF DAcceptable(op)
       THEN LET r == RefDict(RD, DRefArgs(op)) IN
            /\ RD' = r.new
            /\ ev' = [c |-> "dict", op |-> op, out |-> IF p.ok THEN "ok" ELSE p.err, ret |-> p.ret, typed |-> p.typed,
                      acceptable |-> TRUE, rop |-> DRefArgs(op), rout |-> IF r.ok THEN "ok" ELSE r.err, rret |-> r.ret]
       ELSE /\ RD' = D'             \* the reference follows a call with unacceptable arguments
            /\ ev' = [c |-> "dict", op |-> op, out |-> IF p.ok THEN "ok" ELSE p.err, ret |-> p.ret, typed |-> p.typed,
                      acceptable |-> FALSE, rout |-> "n/a", rret |-> NoRet]
    /\ UNCHANGED <<L, R>>

---------------------------------------------------------------------------
(* operation pools *)
Idx == {-4, -1, 0, 1, 3}
Seqs2(S) == {<<>>} \cup {<<a>> : a \in S} \cup {<<a, b>> : a \in S, b \in S}
SrcCands == {x \in ItemCands : x \in {IntV(2), StrV(<<"1">>), IntV(-1), StrV(<<" ", "3">>)}}
Srcs == {[k |-> kk, vs |-> vs] : kk \in {"list", "tuple", "iter", "other"}, vs \in Seqs2(SrcCands)} \cup {[k |-> "same", vs |-> <<>>]}
ListOps ==
    {[m |-> mm, x |-> x] : mm \in {"append", "remove", "index", "count", "contains"}, x \in ItemCands}
    \cup {[m |-> mm, i |-> i, x |-> x] : mm \in {"insert", "setitem"}, i \in Idx, x \in ItemCands}
    \cup {[m |-> mm, src |-> s] : mm \in {"extend", "iadd", "add"}, s \in Srcs}
    \cup {[m |-> "radd", src |-> s] : s \in {x \in Srcs : x.k = "list"}}
    \cup {[m |-> "setslice", lo |-> lo, hi |-> hi, src |-> s] : lo \in {0, 1, -1}, hi \in {0, 2, 9}, s \in Srcs}
    \cup {[m |-> mm, i |-> i] : mm \in {"delitem", "popi", "getitem"}, i \in Idx}
    \cup {[m |-> mm, lo |-> lo, hi |-> hi] : mm \in {"delslice", "getslice"}, lo \in {0, 1, -1}, hi \in {0, 2, 9}}
    \cup {[m |-> mm] : mm \in {"pop", "len", "sort", "reverse", "clear", "copy"}}
    \cup {[m |-> mm, n |-> k] : mm \in {"mul", "imul"}, k \in {0, 1, 2}}
    \cup {[m |-> "eq", xs |-> xs] : xs \in {<<>>, <<IntV(1)>>, <<IntV(0), IntV(2)>>}}
Pairs2 == {<<>>} \cup {<< <<k, v>> >> : k \in KeyCands, v \in ValCands}
          \cup {<< <<k, v>>, <<k2, v2>> >> : k \in KeyCands, v \in ValCands, k2 \in KeyCands, v2 \in ValCands}
DSrcs == {[k |-> kk, kvs |-> p] : kk \in {"dict", "pairs", "kwargs", "other"}, p \in Pairs2} \cup {[k |-> "same", kvs |-> <<>>]}
\* a dict / keyword argument cannot carry the same key twice
DistinctKeys(p) == \A i, j \in DOMAIN p : i # j => p[i][1] # p[j][1]
DictOps ==
    {[m |-> mm, k |-> k, v |-> v] : mm \in {"setitem", "setdefault", "popd"}, k \in KeyCands, v \in ValCands}
    \cup {[m |-> mm, src |-> s] : mm \in {"update", "ior"}, s \in {x \in DSrcs : x.k = "pairs" \/ DistinctKeys(x.kvs)}}
    \cup {[m |-> "ror", src |-> s] : s \in {x \in DSrcs : x.k = "dict" /\ DistinctKeys(x.kvs) /\ PairsOk(x.kvs) /\ NormPairs(x.kvs) = x.kvs}}
    \cup {[m |-> "update_kw", src |-> s, kw |-> p] :
              s \in {x \in DSrcs : x.k \in {"same", "dict", "other"} /\ Len(x.kvs) <= 1},
              p \in {q \in Pairs2 : Len(q) = 1 /\ IsStr(q[1][1])}}
    \cup {[m |-> mm, k |-> k] : mm \in {"pop", "delitem", "get", "contains"}, k \in KeyCands}
    \cup {[m |-> mm] : mm \in {"popitem", "clear", "copy", "keys", "len"}}

Init == L = <<>> /\ R = <<>> /\ D = <<>> /\ RD = <<>> /\ ev = [c |-> "init"] /\ steps = 0
Tick == steps < MaxDepth /\ steps' = steps + 1
Next == \/ \E op \in ListOps : Tick /\ ListStep(op)
        \/ \E op \in DictOps : Tick /\ DictStep(op)

---------------------------------------------------------------------------
(* C17 *)
C17_Same == L = R /\ D = RD
C17_Return == (ev.c # "init" /\ ev.acceptable) => ev.out = ev.rout /\ ev.ret = ev.rret
C17_StillTyped == (ev.c # "init" /\ ev.out = "ok" /\ ev.op.m \in {"copy", "add"}) => ev.typed
\* every element the container holds is in normal form for its field
C17_Validated ==
    /\ \A i \in DOMAIN L : Stable(ItemF, L[i])
    /\ \A i \in DOMAIN D : Stable(KeyF, D[i][1]) /\ Stable(ValF, D[i][2])

Export == PrintT(<<"EDGE", ToJson([from |-> St, ev |-> ev', to |-> St'])>>)
PInit  == (steps = 0) => PrintT(<<"INIT", ToJson(St)>>)
View == <<L, R, D, RD, steps>>
=============================================================================
