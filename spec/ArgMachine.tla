----------------------------- MODULE ArgMachine -----------------------------
(***************************************************************************)
(* C16 - all ways of naming a field agree; command-line overrides touch    *)
(* only what is given.                                                     *)
(*                                                                         *)
(*   Enumerate   support.get_all_fields: (path, field) in declaration      *)
(*               order, recursing into nested schemas                      *)
(*   Lookup      Schema.__getitem__ / Config.__getitem__: dotted walk      *)
(*   Options     support.generate_argparse_parser: one --option per field  *)
(*               whose storage type is str / int / float, a --x / --no-x   *)
(*               pair per bool field, destination = path                   *)
(*   Parse       argparse semantics of those options (store / store_true / *)
(*               store_false, later occurrences win, destinations default  *)
(*               to None)                                                  *)
(*   Override    support.cmdline_args_override: every destination that is  *)
(*               not None and not ignored goes through config[path] = v    *)
(*               in declaration order                                      *)
(***************************************************************************)
EXTENDS CincoConfig, Json

CONSTANTS TheSchema, SetCands, ArgPool, IgnoreLists, MaxDepth

VARIABLES cfg, ev, steps
vars == <<cfg, ev, steps>>
St == [cfg |-> cfg]
S == Bind(TheSchema, PNone)

---------------------------------------------------------------------------
(* naming *)
RECURSIVE Enumerate(_, _)
\* sequence of [path |-> <<keys>>, f |-> field]
Enumerate(Sx, prefix) ==
    LET RECURSIVE Walk(_)
        Walk(i) ==
            IF i > Len(Sx.fields) THEN <<>>
            ELSE LET k == Sx.fields[i][1]  f == Sx.fields[i][2]  here == Append(prefix, k) IN
                 <<[path |-> here, f |-> f]>>
                 \o (IF IsSchema(f) /\ ~f.ctype THEN Enumerate(f, here) ELSE <<>>)
                 \o Walk(i + 1)
    IN Walk(1)
RECURSIVE Lookup(_, _)
\* Schema.__getitem__: [ok, f]
Lookup(Sx, path) ==
    IF ~HasField(Sx, Head(path)) THEN [ok |-> FALSE, f |-> [kind |-> "nofield"]]
    ELSE LET f == FieldOf(Sx, Head(path)) IN
         IF Len(path) = 1 THEN [ok |-> TRUE, f |-> f]
         ELSE IF IsSchema(f) /\ ~f.ctype THEN Lookup(f, Tail(path))
         ELSE [ok |-> FALSE, f |-> [kind |-> "nofield"]]

\* text of a path / of an option
Dotted(path) == LET RECURSIVE J(_)
                    J(p) == IF Len(p) = 1 THEN KeyChars[p[1]] ELSE KeyChars[p[1]] \o <<".">> \o J(Tail(p))
                IN J(path)
Dashed(path) == [i \in DOMAIN Dotted(path) |-> IF Dotted(path)[i] \in {".", "_"} THEN "-" ELSE LowerC(Dotted(path)[i])]
OptName(path) == <<"-", "-">> \o Dashed(path)
OffName(path) == <<"-", "-", "n", "o", "-">> \o Dashed(path)

StorageOf(f) ==
    CASE f.kind \in {"string", "ipv4addr", "ipv4net", "hostname", "url", "filename", "secure"} -> "str"
      [] f.kind = "int" -> "int"
      [] f.kind = "float" -> "float"
      [] f.kind = "bool" -> "bool"
      [] OTHER -> "other"
\* the generated options: [name, dest, action]
Options ==
    LET e == Enumerate(S, <<>>)
        one(i) == LET st == StorageOf(e[i].f) IN
                  IF st \in {"str", "int", "float"} THEN <<[name |-> OptName(e[i].path), dest |-> e[i].path, action |-> "store"]>>
                  ELSE IF st = "bool" THEN <<[name |-> OptName(e[i].path), dest |-> e[i].path, action |-> "store_true"],
                                             [name |-> OffName(e[i].path), dest |-> e[i].path, action |-> "store_false"]>>
                  ELSE <<>>
        RECURSIVE W(_)
        W(i) == IF i > Len(e) THEN <<>> ELSE one(i) \o W(i + 1)
    IN W(1)
Dests == LET o == Options IN [i \in DOMAIN o |-> o[i].dest]

\* argparse: argv is a sequence of tokens; a token is [o |-> option text] or [o |-> ..., v |-> value]
\* ("--opt value" / "--opt=value" are both written as one token with v).  Result: [ok, ns] with
\* ns a function from destination index (position in Options) ... kept as a sequence of
\* <<dest, value>> in destination order
\* (the option table is computed once per use and passed along: TLC re-evaluates a
\* definition at every reference)
OptIdx(o, name) == IF \E i \in DOMAIN o : o[i].name = name THEN CHOOSE i \in DOMAIN o : o[i].name = name ELSE 0
RECURSIVE ParseAcc(_, _, _)
ParseAcc(o, argv, acc) ==
    IF argv = <<>> THEN [ok |-> TRUE, ns |-> acc]
    ELSE LET t == Head(argv)  i == OptIdx(o, t.o) IN
         IF i = 0 THEN [ok |-> FALSE, ns |-> acc]                                    \* unrecognised argument
         ELSE LET op == o[i] IN
              IF op.action = "store" THEN
                  (IF "v" \in DOMAIN t THEN ParseAcc(o, Tail(argv), [acc EXCEPT ![op.dest] = StrV(t.v)])
                   ELSE [ok |-> FALSE, ns |-> acc])                                  \* expected one argument
              ELSE IF "v" \in DOMAIN t THEN [ok |-> FALSE, ns |-> acc]               \* switch given a value
              ELSE ParseAcc(o, Tail(argv), [acc EXCEPT ![op.dest] = BoolV(op.action = "store_true")])
DestSetOf(o) == {o[i].dest : i \in DOMAIN o}
DestSet == DestSetOf(Options)
ParseWith(o, argv) == ParseAcc(o, argv, [d \in DestSetOf(o) |-> NoneV])
Parse(argv) == ParseWith(Options, argv)

\* destinations in the order argparse registered them (first option of each destination)
DestOrderOf(o) ==
    LET RECURSIVE W(_, _)
        W(i, seen) == IF i > Len(o) THEN <<>>
                      ELSE IF o[i].dest \in seen THEN W(i + 1, seen)
                      ELSE <<o[i].dest>> \o W(i + 1, seen \cup {o[i].dest})
    IN W(1, {})
DestOrder == DestOrderOf(Options)

\* cmdline_args_override: in namespace order; the first rejected value ends it (partial)
RECURSIVE Apply(_, _, _, _)
Apply(c, ns, ignore, dests) ==
    IF dests = <<>> THEN Res(TRUE, c, NoErr, {})
    ELSE LET d == Head(dests) IN
         IF d \in ignore \/ IsNone(ns[d]) THEN Apply(c, ns, ignore, Tail(dests))
         ELSE LET r == SetPath(S, c, SubSeq(d, 1, Len(d) - 1), d[Len(d)], ns[d]) IN
              IF r.ok THEN Apply(r.cfg, ns, ignore, Tail(dests)) ELSE r

---------------------------------------------------------------------------
Init == LET d == DefaultCfg(S, <<>>) IN d.ok /\ cfg = d.cfg /\ ev = [op |-> "Init"] /\ steps = 0
Tick == steps < MaxDepth /\ steps' = steps + 1
Outcome(r) == IF r.ok THEN "ok" ELSE r.err.cls

Set(pk, v) ==
    LET r == SetPath(S, cfg, pk[1], pk[2], v) IN
    /\ cfg' = r.cfg
    /\ ev' = [op |-> "Set", p |-> pk[1], k |-> pk[2], v |-> v, out |-> Outcome(r)]

\* parse the command line with the generated parser and apply it
Override(argv, ignore) ==
    LET o == Options
        pr == ParseWith(o, argv)
        order == DestOrderOf(o) IN
    IF ~pr.ok THEN /\ UNCHANGED cfg
                   /\ ev' = [op |-> "Override", argv |-> argv, ignore |-> ignore, out |-> "SystemExit", ns |-> <<>>]
    ELSE LET r == Apply(cfg, pr.ns, ignore, order) IN
         /\ cfg' = r.cfg
         /\ ev' = [op |-> "Override", argv |-> argv, ignore |-> ignore, out |-> Outcome(r),
                   ns |-> [i \in DOMAIN order |-> <<order[i], pr.ns[order[i]]>>]]

\* the naming queries (no state change): enumeration, option table
\* mode: how the harness builds the schema before asking - "topdown", or "mounted": the nested
\* schemas are built on their own first, their fields' reference paths are read, and only
\* then are they attached to their parents.  The answers must not depend on it.
Describe(mode) ==
    /\ UNCHANGED cfg
    /\ ev' = [op |-> "Describe", mode |-> mode, out |-> "ok",
              paths |-> [i \in DOMAIN Enumerate(S, <<>>) |-> Dotted(Enumerate(S, <<>>)[i].path)],
              options |-> {Options[i].name : i \in DOMAIN Options},
              dests |-> [i \in DOMAIN Options |-> <<Options[i].name, Dotted(Options[i].dest)>>]]

Next ==
    \/ \E pk \in DOMAIN SetCands : \E v \in SetCands[pk] : Tick /\ Set(pk, v)
    \/ \E a \in ArgPool, ig \in IgnoreLists : Tick /\ Override(a, ig)
    \* ("late": the schema was enumerated and given a parser once BEFORE its last nested field was
    \* added - what is asked afterwards is about the schema as it is now)
    \/ \E mode \in {"topdown", "mounted", "late"} : Tick /\ Describe(mode)

---------------------------------------------------------------------------
(* C16 *)
\* every enumerated path resolves on the schema to that same field, and the enumeration has
\* no duplicates
C16_PathsAgree ==
    LET e == Enumerate(S, <<>>) IN
    /\ \A i \in DOMAIN e : Lookup(S, e[i].path).ok /\ Lookup(S, e[i].path).f = e[i].f
    /\ \A i, j \in DOMAIN e : i # j => e[i].path # e[j].path
\* exactly one option per scalar field (an on and an off switch for booleans), destination = path
C16_Options ==
    LET e == Enumerate(S, <<>>)  o == Options IN
    /\ \A i \in DOMAIN e :
         LET st == StorageOf(e[i].f)
             mine == {j \in DOMAIN o : o[j].dest = e[i].path} IN
         Cardinality(mine) = (IF st \in {"str", "int", "float"} THEN 1 ELSE IF st = "bool" THEN 2 ELSE 0)
    /\ \A j, k \in DOMAIN o : j # k => o[j].name # o[k].name
    /\ \A j \in DOMAIN o : \E i \in DOMAIN e : e[i].path = o[j].dest
\* an override changes exactly the supplied, non-ignored destinations, each to the validated
\* value, and nothing else; the empty command line changes nothing
ValueAtD(c, d) == CfgAt(c, SubSeq(d, 1, Len(d) - 1)).vals[d[Len(d)]]
A_OnlySupplied ==
    (ev'.op = "Override" /\ ev'.out = "ok") =>
        LET o == Options
            pr == ParseWith(o, ev'.argv)
            dests == DestSetOf(o) IN
        /\ \A d \in dests :
             IF ~IsNone(pr.ns[d]) /\ d \notin ev'.ignore
             THEN LET f == FieldOf(SchemaAt(S, SubSeq(d, 1, Len(d) - 1)), d[Len(d)])  r == Validate(f, pr.ns[d]) IN
                  r.ok /\ ValueAtD(cfg', d) = r.v
             ELSE ValueAtD(cfg', d) = ValueAtD(cfg, d)
        /\ (ev'.argv = <<>>) => cfg' = cfg
        \* everything that has no option is untouched
        /\ \A pk \in LeafPaths(S, <<>>) :
             (Append(pk[1], pk[2]) \notin dests /\ ~IsSchema(FieldOf(SchemaAt(S, pk[1]), pk[2]))) =>
                 CfgAt(cfg', pk[1]).vals[pk[2]] = CfgAt(cfg, pk[1]).vals[pk[2]]
C16_OnlySupplied == [][A_OnlySupplied]_vars

Export == PrintT(<<"EDGE", ToJson([from |-> St, ev |-> ev', to |-> St'])>>)
PInit  == (steps = 0) => PrintT(<<"INIT", ToJson(St)>>)
View == <<cfg, steps>>
=============================================================================
