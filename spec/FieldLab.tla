------------------------------ MODULE FieldLab ------------------------------
(***************************************************************************)
(* C05 - the life of one value in one field, as a five-step machine:       *)
(*                                                                         *)
(*    V1 validate(v) -> V2 validate(result) -> Enc to_basic -> Dec         *)
(*    to_python -> V3 validate(decoded)                                    *)
(*                                                                         *)
(* Init picks a field descriptor f of the family under test and a          *)
(* candidate input v.  The invariants state C05; the conformance harness   *)
(* executes every case TLC enumerated on the real field object and         *)
(* compares each stage.                                                    *)
(***************************************************************************)
EXTENDS CincoFields, Json

CONSTANTS Fam,      \* which family of descriptors / candidates
          Big       \* TRUE: thorough-size families

VARIABLES lab      \* [f, v, stage, r1, r2, b, d, r3]
vars == <<lab>>

Nil == [ok |-> FALSE, err |-> "notrun"]

---------------------------------------------------------------------------
(* candidate inputs *)
RECURSIVE SeqsUpTo(_, _)
SeqsUpTo(S, n) == IF n = 0 THEN {<<>>}
                  ELSE LET shorter == SeqsUpTo(S, n - 1) IN
                       shorter \cup {Append(s, c) : s \in {t \in shorter : Len(t) = n - 1}, c \in S}

NonStrings == {NoneV, IntV(1), IntV(0), BoolV(TRUE), FloatH(3), ListV(<<>>), DictV(<<>>),
               BytesV(<<97>>), ObjV("set")}

StrCands == {StrV(s) : s \in SeqsUpTo({"a", "A", " ", "b"}, IF Big THEN 4 ELSE 3)}
            \* characters whose upper / lower case is longer than they are
            \cup {StrV(s) : s \in {<<"&szlig;">>, <<"a", "&szlig;">>, <<"&Idot;">>, <<"&Idot;", "b">>, <<"&napos;", "a">>}}

StringFamily ==
    {With(StringF, [minlen |-> mn, maxlen |-> mx, regex |-> rx, choices |-> ch, tcase |-> tc,
                    stripm |-> sp[1], stripcs |-> sp[2], required |-> rq]) :
        mn \in (IF Big THEN {-1, 0, 1, 2} ELSE {-1, 1}),
        mx \in (IF Big THEN {-1, 0, 1, 2} ELSE {-1, 2}),
        rx \in (IF Big THEN {"none", "R1", "R2"} ELSE {"none", "R1"}),
        ch \in {<<>>, << <<"a">>, <<"A", "b">> >>},
        tc \in {"none", "lower", "upper"},
        sp \in {<<"none", {}>>, <<"ws", {}>>, <<"chars", {"a"}>>},
        rq \in BOOLEAN}
    \cup {With(c, [required |-> rq]) : c \in {LogLevelF, AppModeF}, rq \in BOOLEAN}
ClsCands == {StrV(s) : s \in {<<" ", "I", "N", "F", "O", " ">>, <<"w", "a", "r", "n", "i", "n", "g">>, <<"W", "a", "r", "n">>,
                               <<"D", "E", "B", "U", "G">>, <<"c", "r", "i", "t", "i", "c", "a", "l", "\n">>, <<"e", "r", "r", "o", "r">>,
                               <<"p", "r", "o", "d", "u", "c", "t", "i", "o", "n">>, <<" ", "D", "e", "v", "e", "l", "o", "p", "m", "e", "n", "t">>,
                               <<"p", "r", "o", "d">>, <<>>, <<"i", "n", "f", "o", "x">>}}

NumCands ==
    {IntV(i) : i \in -2..3} \cup {FloatH(h) : h \in {-3, -1, 0, 1, 3, 4}} \cup
    {FSpec("inf"), FSpec("ninf"), FSpec("nan")} \cup
    {BoolV(TRUE), BoolV(FALSE), NoneV, ListV(<<>>), ObjV("set"), BytesV(<<49>>)} \cup
    {StrV(s) : s \in {<<"1">>, <<" ", "2", " ">>, <<"-", "1">>, <<"+", "0">>, <<"1", ".", "5">>, <<"1", ".", "0">>,
                      <<"1", "_", "0">>, <<"_", "1">>, <<>>, <<"a">>, <<"i", "n", "f">>, <<"-", "I", "N", "F">>,
                      <<"n", "a", "n">>, <<"0", "2">>, <<"2", ".">>, <<"1", "e">>, <<"-">>}}
Bnd == IF Big THEN {<<FALSE, 0>>, <<TRUE, -1>>, <<TRUE, 0>>, <<TRUE, 1>>, <<TRUE, 2>>}
       ELSE {<<FALSE, 0>>, <<TRUE, 0>>, <<TRUE, 2>>}
NumberFamily ==
    {With(b, [hasmin |-> lo[1], min |-> lo[2], hasmax |-> hi[1], max |-> hi[2], required |-> rq]) :
        b \in {IntF, FloatF}, lo \in Bnd, hi \in Bnd, rq \in BOOLEAN}
    \cup {PortF}
PortCands == {IntV(0), IntV(1), IntV(65535), IntV(65536), StrV(<<"8", "0">>), StrV(<<"0">>),
              FloatH(161), BoolV(TRUE), NoneV}

BoolTokens == {<<"t">>, <<"T", "r", "u", "e">>, <<"1">>, <<"O", "N">>, <<"y", "e", "s">>, <<"Y">>,
               <<"f">>, <<"F", "A", "L", "S", "E">>, <<"0">>, <<"o", "f", "f">>, <<"N", "o">>, <<"n">>,
               <<>>, <<"2">>, <<"t", "r", "u">>, <<" ", "1">>, <<"o", "n", " ">>}
BoolCands == {StrV(s) : s \in BoolTokens} \cup NumCands
BoolFamily == {With(BoolF, [required |-> rq]) : rq \in BOOLEAN}

OctS == {<<"0">>, <<"1">>, <<"9">>, <<"1", "0">>, <<"2", "5", "5">>, <<"2", "5", "6">>, <<"0", "1">>, <<>>,
         <<"1", "2", "8">>, <<"a">>}
Dot(a, b) == a \o <<".">> \o b
AddrS == {Dot(Dot(Dot(a, b), c), d) : a \in {<<"1">>, <<"2", "5", "5">>, <<"0", "1">>, <<"1", "0">>},
                                       b \in {<<"0">>, <<"2", "5", "6">>},
                                       c \in {<<"0">>, <<>>, <<"1", "2", "8">>},
                                       d \in OctS}
         \cup {<<"1", ".", "2", ".", "3">>, <<"1", ".", "2", ".", "3", ".", "4", ".", "5">>,
               <<" ", "1", ".", "2", ".", "3", ".", "4">>, <<"1", ".", "2", ".", "3", ".", "4", "\n">>, <<>>}
AddrCands == {StrV(s) : s \in AddrS} \cup NonStrings
AddrFamily == {With(IPv4AddrF, [required |-> rq, stripm |-> sp]) : rq \in BOOLEAN, sp \in {"none", "ws"}}

PfxS == {<<"0">>, <<"1">>, <<"8">>, <<"2", "4">>, <<"2", "5">>, <<"3", "1">>, <<"3", "2">>, <<"3", "3">>,
         <<"0", "8">>, <<>>, <<"a">>, <<"-", "1">>}
NetBase == {<<"1", "0", ".", "0", ".", "0", ".", "0">>, <<"1", "0", ".", "0", ".", "0", ".", "1">>,
            <<"1", "0", ".", "1", ".", "1", "2", "8", ".", "0">>, <<"0", ".", "0", ".", "0", ".", "0">>,
            <<"1", "2", "8", ".", "0", ".", "0", ".", "0">>, <<"1", "0", ".", "0", ".", "0">>}
NetS == {b \o <<"/">> \o p : b \in NetBase, p \in PfxS} \cup NetBase
        \cup {<<"1", "0", ".", "0", ".", "0", ".", "0", "/", "8", "/", "8">>}
NetCands == {StrV(s) : s \in NetS} \cup NonStrings
PB == IF Big THEN {-1, 0, 8, 24, 31, 32} ELSE {-1, 0, 8, 32}
NetFamily == {With(IPv4NetF, [minpfx |-> a, maxpfx |-> b, required |-> rq]) : a \in PB, b \in PB, rq \in BOOLEAN}

HostS == SeqsUpTo({"a", "1", ".", "-", "_", "!"}, IF Big THEN 4 ELSE 3)
         \cup {<<"a", " ">>, <<" ", "a">>, <<"a", "b", "\n">>, <<"a", "\n">>, <<"1", ".", "2", ".", "3", ".", "4">>,
               <<"0", "1", ".", "2", ".", "3", ".", "4">>, <<"2", "5", "6", ".", "1", ".", "1", ".", "1">>,
               <<"a","b","c","d","e","f","g","h","i","j","k","l","m","n","_">>,
               <<"a","b","c","d","e","f","g","h","i","j","k","l","m","n","o","_">>,
               <<"a","b","c","d","e","f","g","h","i","j","k","l","m","n","o","p">>}
HostCands == {StrV(s) : s \in HostS} \cup NonStrings
HostFamily == {With(HostnameF, [allow_ipv4 |-> a, required |-> rq]) : a \in BOOLEAN, rq \in BOOLEAN}

UrlS == SeqsUpTo({"a", "1", "+", ":", "/"}, IF Big THEN 4 ELSE 3)
        \cup {<<" ", "a", ":">>, <<"a", "\t", ":", "x">>, <<"A", ".", "-", ":">>, <<"a", " ", ":">>, <<"_", ":">>}
UrlCands == {StrV(s) : s \in UrlS} \cup NonStrings
UrlFamily == {With(UrlF, [required |-> rq]) : rq \in BOOLEAN}

ByteS == SeqsUpTo({0, 65, 255}, IF Big THEN 4 ELSE 3)
\* (57 / 58 bytes: exactly one 76-column line of base64 text, and the first length beyond it)
LongBytes == {[i \in 1..n |-> (i * 11) % 256] : n \in {57, 58}}
\* (ObjV("bytearray"): a mutable byte buffer is not a bytes value)
BytesCands == {BytesV(y) : y \in ByteS \cup LongBytes} \cup {StrV(s) : s \in SeqsUpTo({"a", "=", " "}, 2)} \cup NonStrings \cup {ObjV("bytearray")}
BytesFamily == {With(BytesF, [encoding |-> e, required |-> rq]) : e \in {"base64", "hex"}, rq \in BOOLEAN}

FileS == {<<"f">>, <<"d">>, <<"m">>, <<"g">>, <<"d", "/", "g">>, <<"$", "/", "f">>, <<"$", "/", "d">>, <<"$", "/", "d", "/", "g">>, <<"$", "/", "m">>, <<>>, <<"$">>}
FileCands == {StrV(s) : s \in FileS} \cup NonStrings
FileFamily == {With(FilenameF, [exists |-> e, startdir |-> sd, required |-> rq]) :
                 e \in {"none", "true", "false", "dir", "file"}, sd \in {<<>>, <<"$">>, <<"$", "/", "d">>, <<"d">>}, rq \in BOOLEAN}

\* typed containers whose items have a non-trivial normal form and on-disk form
ItemFields == {With(IntF, [hasmin |-> TRUE, min |-> 0]),
               With(StringF, [tcase |-> "lower", stripm |-> "ws"]),
               BytesF, With(BytesF, [encoding |-> "hex"]), BoolF}
ItemCands == {IntV(1), IntV(-1), StrV(<<"2">>), StrV(<<" ", "A">>), StrV(<<"a">>), BytesV(<<0, 255>>),
              BytesV(<<65>>), BoolV(TRUE), NoneV}
ListFamily == {With(ListF(it), [required |-> rq]) : it \in ItemFields \cup {NoF, AnyF}, rq \in BOOLEAN}
ListCands == {ListV(l) : l \in SeqsUpTo(ItemCands, 2)} \cup {TupleV(<<IntV(1)>>), TupleV(<<>>)} \cup NonStrings
             \cup {StrV(<<"a">>)}
KeyFields == {With(StringF, [tcase |-> "upper"]), With(IntF, [hasmin |-> TRUE, min |-> 0]), NoF}
DictFamily == {With(DictF(k, v), [required |-> rq]) : k \in KeyFields, v \in ItemFields \cup {NoF}, rq \in BOOLEAN}
DictCands == {DictV(kv) : kv \in {<<>>} \cup {<< <<k, v>> >> : k \in {StrV(<<"a">>), StrV(<<"A">>), IntV(1), StrV(<<"1">>)},
                                                          v \in ItemCands}
                                  \cup {<< <<StrV(<<"a">>), v>>, <<StrV(<<"A">>), w>> >> : v \in {IntV(1), StrV(<<"x">>)},
                                                                                         w \in {IntV(2), BytesV(<<1>>)}}}
             \cup NonStrings

Family ==
    CASE Fam = "string"   -> StringFamily
      [] Fam = "number"   -> NumberFamily
      [] Fam = "bool"     -> BoolFamily
      [] Fam = "ipv4addr" -> AddrFamily
      [] Fam = "ipv4net"  -> NetFamily
      [] Fam = "hostname" -> HostFamily
      [] Fam = "url"      -> UrlFamily
      [] Fam = "bytes"    -> BytesFamily
      [] Fam = "filename" -> FileFamily
      [] Fam = "list"     -> ListFamily
      [] Fam = "dict"     -> DictFamily
Cands(f) ==
    CASE Fam = "string"   -> (IF "cls" \in DOMAIN f THEN ClsCands ELSE StrCands) \cup NonStrings
      [] Fam = "number"   -> IF f = PortF THEN PortCands ELSE NumCands
      [] Fam = "bool"     -> BoolCands
      [] Fam = "ipv4addr" -> AddrCands
      [] Fam = "ipv4net"  -> NetCands
      [] Fam = "hostname" -> HostCands
      [] Fam = "url"      -> UrlCands
      [] Fam = "bytes"    -> BytesCands
      [] Fam = "filename" -> FileCands
      [] Fam = "list"     -> ListCands
      [] Fam = "dict"     -> DictCands

---------------------------------------------------------------------------
Init == \E f \in Family : \E v \in Cands(f) :
            lab = [f |-> f, v |-> v, stage |-> 0, r1 |-> Nil, r2 |-> Nil, b |-> NoneV, d |-> Nil, r3 |-> Nil]

V1  == lab.stage = 0 /\ lab' = [lab EXCEPT !.stage = 1, !.r1 = Validate(lab.f, lab.v)]
V2  == lab.stage = 1 /\ lab.r1.ok /\ lab' = [lab EXCEPT !.stage = 2, !.r2 = Validate(lab.f, lab.r1.v)]
Enc == lab.stage = 2 /\ lab.r2.ok /\ lab' = [lab EXCEPT !.stage = 3, !.b = ToBasic(lab.f, lab.r1.v)]
Dec == lab.stage = 3 /\ lab' = [lab EXCEPT !.stage = 4, !.d = ToPython(lab.f, lab.b)]
V3  == lab.stage = 4 /\ lab.d.ok /\ lab' = [lab EXCEPT !.stage = 5, !.r3 = Validate(lab.f, lab.d.v)]
Next == V1 \/ V2 \/ Enc \/ Dec \/ V3

---------------------------------------------------------------------------
(* C05 *)
Modelled(r) == r.ok \/ r.err # "Unmodelled"

\* an accepted value satisfies every declared constraint of the field
C05_AcceptedMeets == (lab.stage >= 1 /\ lab.r1.ok) => P_AcceptedMeets(lab.f, lab.r1)
\* and nothing that already is a stored normal form satisfying the constraints is rejected
C05_MeetingAccepted ==
    (lab.stage >= 1 /\ Meets(lab.f, lab.v) /\ Stable(lab.f, lab.v)) => lab.r1.ok
\* validating an accepted result again returns an equal value and never rejects it
C05_Idempotent == lab.stage >= 2 => P_Idempotent(lab.r1, lab.r2)
\* the on-disk form is plain data and converting back yields an equal accepted value
C05_BasicPlain == lab.stage >= 3 => P_BasicPlain(lab.f, lab.r1, lab.b)
C05_CodecInverse == (lab.stage >= 4 /\ Modelled(lab.d)) => P_CodecInverse(lab.f, lab.r1, lab.d)
C05_DecodedAccepted == lab.stage >= 5 => P_DecodedAccepted(lab.d, lab.r3)

\* export: one line per completed case (or per case that stopped early)
Final == \/ lab.stage = 5
         \/ lab.stage = 1 /\ ~lab.r1.ok
         \/ lab.stage = 2 /\ ~lab.r2.ok
         \/ lab.stage = 4 /\ ~lab.d.ok
PCase == Final => PrintT(<<"CASE", ToJson(lab)>>)
=============================================================================
