---------------------------- MODULE CincoValues ----------------------------
(***************************************************************************)
(* The abstract value universe shared by all cincoconfig specifications.   *)
(*                                                                         *)
(* Python values are tagged records with a DIFFERENT payload field per tag,*)
(* so TLC decides equality of differently-typed values from the record     *)
(* domains and never compares an integer with a sequence:                  *)
(*                                                                         *)
(*   [t |-> "none"]                 [t |-> "bool",  b |-> TRUE]            *)
(*   [t |-> "int",  i |-> 5]        [t |-> "float", h |-> 3]   (= 1.5)     *)
(*   [t |-> "fspec", k |-> "inf" | "ninf" | "nan"]                         *)
(*   [t |-> "str",  s |-> <<"a", "B", " ">>]   1-character strings         *)
(*   [t |-> "bytes", y |-> <<0, 255>>]                                     *)
(*   [t |-> "list", l |-> <<...>>]  [t |-> "tuple", l |-> <<...>>]         *)
(*   [t |-> "dict", kv |-> << <<k, v>>, ... >>]      ordered, like Python  *)
(*   [t |-> "obj",  n |-> "set"]    any other Python object                *)
(*                                                                         *)
(* Strings are character sequences so that strip, case transforms, length  *)
(* bounds, dotted-quad syntax and character classes are COMPUTED in TLA+.  *)
(* Floats are half-integers (h/2) plus three specials: enough for ordering *)
(* against bounds, truncation in int(), bool() and typed round trips.      *)
(* harness/codec.py is the bijection with real Python values.              *)
(***************************************************************************)
EXTENDS Naturals, Integers, Sequences, FiniteSets, TLC

NoneV        == [t |-> "none"]
BoolV(b)     == [t |-> "bool", b |-> b]
IntV(i)      == [t |-> "int", i |-> i]
FloatH(h)    == [t |-> "float", h |-> h]
FSpec(k)     == [t |-> "fspec", k |-> k]
StrV(s)      == [t |-> "str", s |-> s]
BytesV(y)    == [t |-> "bytes", y |-> y]
ListV(l)     == [t |-> "list", l |-> l]
TupleV(l)    == [t |-> "tuple", l |-> l]
DictV(kv)    == [t |-> "dict", kv |-> kv]
ObjV(n)      == [t |-> "obj", n |-> n]

IsNone(v)  == v.t = "none"
IsStr(v)   == v.t = "str"
IsBool(v)  == v.t = "bool"
IsInt(v)   == v.t = "int"
IsFloat(v) == v.t \in {"float", "fspec"}
IsBytes(v) == v.t = "bytes"
IsList(v)  == v.t = "list"
IsTuple(v) == v.t = "tuple"
IsDict(v)  == v.t = "dict"

---------------------------------------------------------------------------
(* sequences *)
Range(s) == {s[i] : i \in DOMAIN s}

\* drop leading elements that are in set cs
RECURSIVE LStrip(_, _)
LStrip(s, cs) == IF s # <<>> /\ Head(s) \in cs THEN LStrip(Tail(s), cs) ELSE s
RECURSIVE RStrip(_, _)
RStrip(s, cs) == IF s # <<>> /\ s[Len(s)] \in cs THEN RStrip(SubSeq(s, 1, Len(s) - 1), cs) ELSE s
Strip(s, cs) == RStrip(LStrip(s, cs), cs)

\* split a sequence on a separator element (like str.split(sep))
RECURSIVE SplitAcc(_, _, _)
SplitAcc(s, sep, cur) ==
    IF s = <<>> THEN <<cur>>
    ELSE IF Head(s) = sep THEN <<cur>> \o SplitAcc(Tail(s), sep, <<>>)
    ELSE SplitAcc(Tail(s), sep, Append(cur, Head(s)))
Split(s, sep) == SplitAcc(s, sep, <<>>)

\* index of first occurrence (0 if none)
RECURSIVE FindAcc(_, _, _)
FindAcc(s, c, i) == IF i > Len(s) THEN 0 ELSE IF s[i] = c THEN i ELSE FindAcc(s, c, i + 1)
Find(s, c) == FindAcc(s, c, 1)

---------------------------------------------------------------------------
(* characters *)
LowerLetters == {"a","b","c","d","e","f","g","h","i","j","k","l","m",
                 "n","o","p","q","r","s","t","u","v","w","x","y","z"}
UpperLetters == {"A","B","C","D","E","F","G","H","I","J","K","L","M",
                 "N","O","P","Q","R","S","T","U","V","W","X","Y","Z"}
Digits       == {"0","1","2","3","4","5","6","7","8","9"}
AsciiLetters == LowerLetters \cup UpperLetters
\* str.strip() with no argument / str.isspace for the characters the harness uses
Whitespace   == {" ", "\t", "\n", "\r", "\f"}

LowerOf == [c \in UpperLetters |->
    CASE c = "A" -> "a" [] c = "B" -> "b" [] c = "C" -> "c" [] c = "D" -> "d" [] c = "E" -> "e"
      [] c = "F" -> "f" [] c = "G" -> "g" [] c = "H" -> "h" [] c = "I" -> "i" [] c = "J" -> "j"
      [] c = "K" -> "k" [] c = "L" -> "l" [] c = "M" -> "m" [] c = "N" -> "n" [] c = "O" -> "o"
      [] c = "P" -> "p" [] c = "Q" -> "q" [] c = "R" -> "r" [] c = "S" -> "s" [] c = "T" -> "t"
      [] c = "U" -> "u" [] c = "V" -> "v" [] c = "W" -> "w" [] c = "X" -> "x" [] c = "Y" -> "y"
      [] c = "Z" -> "z"]
UpperOf == [c \in LowerLetters |->
    CASE c = "a" -> "A" [] c = "b" -> "B" [] c = "c" -> "C" [] c = "d" -> "D" [] c = "e" -> "E"
      [] c = "f" -> "F" [] c = "g" -> "G" [] c = "h" -> "H" [] c = "i" -> "I" [] c = "j" -> "J"
      [] c = "k" -> "K" [] c = "l" -> "L" [] c = "m" -> "M" [] c = "n" -> "N" [] c = "o" -> "O"
      [] c = "p" -> "P" [] c = "q" -> "Q" [] c = "r" -> "R" [] c = "s" -> "S" [] c = "t" -> "T"
      [] c = "u" -> "U" [] c = "v" -> "V" [] c = "w" -> "W" [] c = "x" -> "X" [] c = "y" -> "Y"
      [] c = "z" -> "Z"]
LowerC(c) == IF c \in DOMAIN LowerOf THEN LowerOf[c] ELSE c
UpperC(c) == IF c \in DOMAIN UpperOf THEN UpperOf[c] ELSE c
\* Characters outside ASCII are written by NAME in the specification (TLA+ source is ASCII; the
\* harness codec maps the names to the characters): the three whose case mapping changes the
\* LENGTH of a string - str.upper() / str.lower() work on strings, not on characters.
\*   "&szlig;"  U+00DF  upper -> "SS"          "&napos;" U+0149 upper -> U+02BC "N"
\*   "&Idot;"   U+0130  lower -> "i" U+0307    ("&cdot;" = U+0307, "&apos2;" = U+02BC)
UpperS(c) == CASE c = "&szlig;" -> <<"S", "S">> [] c = "&napos;" -> <<"&apos2;", "N">> [] OTHER -> <<UpperC(c)>>
LowerS(c) == CASE c = "&Idot;" -> <<"i", "&cdot;">> [] OTHER -> <<LowerC(c)>>
RECURSIVE Lower(_), Upper(_)
Lower(s) == IF s = <<>> THEN <<>> ELSE LowerS(Head(s)) \o Lower(Tail(s))
Upper(s) == IF s = <<>> THEN <<>> ELSE UpperS(Head(s)) \o Upper(Tail(s))

DigitVal == [c \in Digits |->
    CASE c = "0" -> 0 [] c = "1" -> 1 [] c = "2" -> 2 [] c = "3" -> 3 [] c = "4" -> 4
      [] c = "5" -> 5 [] c = "6" -> 6 [] c = "7" -> 7 [] c = "8" -> 8 [] c = "9" -> 9]
IsDigits(s) == s # <<>> /\ \A i \in DOMAIN s : s[i] \in Digits
RECURSIVE ToNatAcc(_, _)
ToNatAcc(s, acc) == IF s = <<>> THEN acc ELSE ToNatAcc(Tail(s), acc * 10 + DigitVal[Head(s)])
ToNat(s) == ToNatAcc(s, 0)

\* decimal digits of a natural number, as a character sequence (str(n))
DigitChar == [d \in 0..9 |->
    CASE d = 0 -> "0" [] d = 1 -> "1" [] d = 2 -> "2" [] d = 3 -> "3" [] d = 4 -> "4"
      [] d = 5 -> "5" [] d = 6 -> "6" [] d = 7 -> "7" [] d = 8 -> "8" [] d = 9 -> "9"]
RECURSIVE NatStr(_)
NatStr(n) == IF n < 10 THEN <<DigitChar[n]>> ELSE Append(NatStr(n \div 10), DigitChar[n % 10])

\* sequence-of-chars from a TLA+ string literal is not computable in TLA+; literals are
\* written as tuples, e.g. <<"t","r","u","e">>.

---------------------------------------------------------------------------
(* Python semantics used by several fields *)

\* bool(v)
Truthy(v) ==
    CASE v.t = "none"  -> FALSE
      [] v.t = "bool"  -> v.b
      [] v.t = "int"   -> v.i # 0
      [] v.t = "float" -> v.h # 0
      [] v.t = "fspec" -> TRUE
      [] v.t = "str"   -> v.s # <<>>
      [] v.t = "bytes" -> v.y # <<>>
      [] v.t = "list"  -> v.l # <<>>
      [] v.t = "tuple" -> v.l # <<>>
      [] v.t = "dict"  -> v.kv # <<>>
      [] OTHER         -> TRUE

\* truncation toward zero of the half-integer h/2  (int(float))
TruncHalf(h) == IF h >= 0 THEN h \div 2 ELSE -((-h) \div 2)

\* plain data (what a serialised tree may contain): str, numbers, bool, null, lists,
\* string-keyed maps
RECURSIVE IsPlain(_)
IsPlain(v) ==
    CASE v.t \in {"none", "bool", "int", "float", "fspec", "str"} -> TRUE
      [] v.t \in {"enc", "digest"} -> TRUE     \* opaque leaves standing for {"method", "ciphertext"} / {"salt", "digest"}
      [] v.t = "list" -> \A i \in DOMAIN v.l : IsPlain(v.l[i])
      [] v.t = "dict" -> \A i \in DOMAIN v.kv : v.kv[i][1].t = "str" /\ IsPlain(v.kv[i][2])
      [] OTHER -> FALSE

\* dict helpers (ordered association lists with unique keys)
DictKeys(kv) == [i \in DOMAIN kv |-> kv[i][1]]
DictHas(kv, k) == \E i \in DOMAIN kv : kv[i][1] = k
DictGet(kv, k) == kv[CHOOSE i \in DOMAIN kv : kv[i][1] = k][2]
DictSet(kv, k, v) ==
    IF DictHas(kv, k)
    THEN [i \in DOMAIN kv |-> IF kv[i][1] = k THEN <<k, v>> ELSE kv[i]]
    ELSE Append(kv, <<k, v>>)
RECURSIVE DictDel(_, _)
DictDel(kv, k) ==
    IF kv = <<>> THEN <<>>
    ELSE IF Head(kv)[1] = k THEN Tail(kv) ELSE <<Head(kv)>> \o DictDel(Tail(kv), k)
\* dict(pairs): later duplicates overwrite, first position kept
RECURSIVE DictFromPairs(_, _)
DictFromPairs(pairs, acc) ==
    IF pairs = <<>> THEN acc
    ELSE DictFromPairs(Tail(pairs), DictSet(acc, Head(pairs)[1], Head(pairs)[2]))

SeqMap(Op(_), s) == [i \in DOMAIN s |-> Op(s[i])]
=============================================================================
