#!/venv/bin/python
"""tools/fixmatrix.py: for every "fix:" commit in /repo, revert it in a scratch worktree and run the owning
check against that tree: a repaired defect must be reported again when it returns.  Results: seeded/FIXMATRIX.json"""
import json, os, shutil, subprocess, sys, tempfile, time

VERIF = "/verif"
OWNER = {
    "KeyFile no longer caches": ["C07"],
    "ListField/DictField.to_python decode": ["C05", "C02"],
    "IPv4NetworkField honours": ["C05"],
    "NumberField rejects NaN": ["C05"],
    "StringField normalisation is stable": ["C05"],
    "an untyped ListField stores a list": ["C05"],
    "Schema.__call__ passes the parent": ["C03", "C02"],
    "DictProxy validates |=": ["C17", "C01"],
    "ListProxy slice assignment": ["C17"],
    "SecureField.to_python rejects ciphertext": ["C08"],
    "generated --flag/--no-flag": ["C16"],
    "generate_stub no longer prints": ["C20"],
    "generate_stub handles config type fields": ["C20"],
    "to_tree passes the sensitive mask": ["C10"],
    "generate_stub handles PEP 604": ["C20"],
    "a config type sub-configuration created by default": ["C15"],
    "the reference path of the first item": ["C15"],
    "ListProxy finds the position": ["C15"],
    "DictProxy errors name the path": ["C15"],
    "loading a document with a scalar": ["C15"],
    "an item that is not in the list yet": ["C15"],
    "generate_stub renders a function-local class": ["C20"],
    "a tuple default of a ListField": ["C02"],
    "an untyped DictField stores a copy": ["C13"],
}
log = subprocess.run(["git", "-C", "/repo", "log", "--format=%h %s", "--grep=^fix:"], capture_output=True, text=True).stdout.strip().splitlines()
only = sys.argv[1:]
path = os.path.join(VERIF, "seeded", "FIXMATRIX.json")
matrix = json.load(open(path)) if os.path.exists(path) else {}
for line in log:
    sha, subject = line.split(" ", 1)
    if only and sha not in only:
        continue
    props = next((v for k, v in OWNER.items() if k in subject), None)
    if not props:
        matrix[sha] = {"subject": subject, "status": "no-owner"}
        continue
    wt = "/tmp/wt/fixm-" + sha
    subprocess.run(["git", "-C", "/repo", "worktree", "remove", "--force", wt], capture_output=True)
    subprocess.run(["git", "-C", "/repo", "worktree", "add", "--detach", wt, "HEAD"], capture_output=True, check=True)
    try:
        rv = subprocess.run(["git", "revert", "--no-commit", sha], cwd=wt, capture_output=True, text=True)
        if rv.returncode != 0:
            matrix[sha] = {"subject": subject, "status": "revert-conflicts (later fixes touch the same lines)"}
            print(sha, "revert conflict", flush=True)
            continue
        results = {}
        for prop in props:
            outdir = tempfile.mkdtemp(prefix="cinco-fixm-")
            env = dict(os.environ, CINCO_REPO=wt, VERIF_OUT_DIR=outdir)
            t0 = time.time()
            r = subprocess.run([os.path.join(VERIF, "check"), prop, "--tier", "quick"], capture_output=True, text=True, env=env, timeout=3600)
            sigs = []
            rd = os.path.join(outdir, "replays")
            for f in sorted(os.listdir(rd)) if os.path.isdir(rd) else []:
                sigs.append(json.load(open(os.path.join(rd, f)))["signature"])
            results[prop] = {"exit": r.returncode, "reported": r.returncode == 1, "signatures": sigs[:4], "wall_s": round(time.time() - t0, 1)}
            shutil.rmtree(outdir, ignore_errors=True)
            print(sha, prop, r.returncode, sigs[:2], flush=True)
        matrix[sha] = {"subject": subject, "status": "reported-again" if any(v["reported"] for v in results.values()) else "NOT-reported", "checks": results}
    finally:
        subprocess.run(["git", "-C", "/repo", "worktree", "remove", "--force", wt], capture_output=True)
        shutil.rmtree(wt, ignore_errors=True)
        json.dump(matrix, open(path, "w"), indent=1, sort_keys=True)
