#!/venv/bin/python
"""tools/confirm_seed.py <ID> <n> [--check]: confirm a seeded change from /tmp/wt/<ID>-out/m<n> in a scratch
worktree of /repo's HEAD (demo passes without, fails with the change; test suite unchanged), store it as
/verif/seeded/<ID>-m<n>/ and optionally run the registered check against it."""
import json, os, shutil, subprocess, sys

ID, n = sys.argv[1], sys.argv[2]
ROUND = next((a[3:] for a in sys.argv if a.startswith("--r") and a[3:].isdigit()), "")
ROUND2 = bool(ROUND)
src = ("/tmp/wt/R" + ROUND + "-%s-out/m%s" if ROUND else "/tmp/wt/%s-out/m%s") % (ID, n)
wt = "/tmp/wt/confirm-%s-m%s" % (ID, n)
dst = ("/verif/seeded/%s-r" + ROUND + "m%s" if ROUND else "/verif/seeded/%s-m%s") % (ID, n)
PY = "/venv/bin/python"

def run(cmd, cwd=None, timeout=900):
    return subprocess.run(cmd, cwd=cwd, capture_output=True, text=True, timeout=timeout)

subprocess.run(["git", "-C", "/repo", "worktree", "remove", "--force", wt], capture_output=True)
r = run(["git", "-C", "/repo", "worktree", "add", "--detach", wt, "HEAD"])
assert r.returncode == 0, r.stderr
meta = {"property": ID, "source": "independent sub-agent given only the property text and a scratch worktree", "ran": []}
try:
    head = run(["git", "-C", wt, "rev-parse", "--short", "HEAD"]).stdout.strip()
    meta["repo_head"] = head
    demo = os.path.join(src, "demo.py")
    a = run([PY, demo], cwd=wt)
    meta["ran"].append({"cmd": "demo.py on clean HEAD", "exit": a.returncode})
    ap = run(["git", "apply", os.path.join(src, "patch.diff")], cwd=wt)
    if ap.returncode != 0:
        ap = run(["patch", "-p1", "-s", "--no-backup-if-mismatch", "-i", os.path.join(src, "patch.diff")], cwd=wt)
    meta["patch_applied"] = ap.returncode == 0
    if ap.returncode == 0:
        b = run([PY, demo], cwd=wt)
        meta["ran"].append({"cmd": "demo.py with the change", "exit": b.returncode})
        t = run([PY, "-m", "pytest", "-q", "-p", "no:cacheprovider", "-x", "--deselect", "tests/test_schema.py::TestSchema::test_setattr_field"], cwd=wt)
        last = t.stdout.strip().splitlines()[-1] if t.stdout.strip() else ""
        meta["ran"].append({"cmd": "pytest (known failing test deselected) with the change", "result": last})
        diff = run(["git", "diff"], cwd=wt).stdout
        ok = a.returncode == 0 and b.returncode != 0 and "477 passed" in last and "failed" not in last
    else:
        ok = False
        diff = None
    meta["confirmed"] = ok
    print(ID, "m" + n, "confirmed" if ok else "NOT-CONFIRMED", json.dumps(meta["ran"]), "patch_applied=%s" % meta["patch_applied"])
    if ok:
        os.makedirs(dst, exist_ok=True)
        with open(os.path.join(dst, "patch.diff"), "w") as fp:
            fp.write(diff)
        shutil.copy(demo, os.path.join(dst, "demo.py"))
        notes = open(os.path.join(src, "notes.md")).read() if os.path.exists(os.path.join(src, "notes.md")) else ""
        with open(os.path.join(dst, "notes.md"), "w") as fp:
            fp.write(notes)
        meta["needs_to_manifest"] = notes.strip().splitlines()[:12]
        with open(os.path.join(dst, "meta.json"), "w") as fp:
            json.dump(meta, fp, indent=1)
finally:
    subprocess.run(["git", "-C", "/repo", "worktree", "remove", "--force", wt], capture_output=True)
    shutil.rmtree(wt, ignore_errors=True)
