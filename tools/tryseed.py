#!/venv/bin/python
"""tools/tryseed.py <seed-dir-name> [check args...]: apply one seeded change to a scratch worktree of /repo's HEAD, run
the owning check against it (CINCO_REPO), print the verdict lines; records nothing (see seedmatrix.py for the matrix)."""
import os, shutil, subprocess, sys, tempfile

name = sys.argv[1]
prop = name.split("-")[0]
wt = tempfile.mkdtemp(prefix="cinco-try-")
os.rmdir(wt)
out = tempfile.mkdtemp(prefix="cinco-tryout-")
subprocess.run(["git", "-C", "/repo", "worktree", "add", "--detach", wt, "HEAD"], capture_output=True, check=True)
try:
    ap = subprocess.run(["git", "apply", "/verif/seeded/%s/patch.diff" % name], cwd=wt, capture_output=True, text=True)
    if ap.returncode:
        print(name, "patch does not apply", ap.stderr[:300])
        sys.exit(3)
    env = dict(os.environ, CINCO_REPO=wt, VERIF_OUT_DIR=out)
    r = subprocess.run(["/verif/check", prop] + sys.argv[2:], capture_output=True, text=True, env=env)
    lines = [ln for ln in r.stdout.splitlines() if ln.startswith(("  ", "VIOLATION", "OK", "KNOWN", "MACHINERY"))]
    print(name, "exit", r.returncode)
    for ln in lines[:8]:
        print("   ", ln[:400])
finally:
    subprocess.run(["git", "-C", "/repo", "worktree", "remove", "--force", wt], capture_output=True)
    shutil.rmtree(wt, ignore_errors=True)
    shutil.rmtree(out, ignore_errors=True)
