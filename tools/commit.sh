#!/bin/sh
# tools/commit.sh "<message>": commit everything in /verif
cd /verif || exit 1
git add -A
git commit -qm "$1" && git log --oneline | head -1
