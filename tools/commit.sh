#!/bin/sh
# tools/commit.sh "<message>": commit everything in /verif except the files sub-agents are still editing (C19 / C20)
cd /verif || exit 1
git add -A -- . ':!spec/CincoSave.tla' ':!spec/MC_CincoSave*' ':!spec/Trace_CincoSave.tla' ':!harness/props/c19.py' \
    ':!spec/CincoStubs.tla' ':!spec/MC_Stubs*' ':!spec/Trace_Stubs.tla' ':!harness/props/c20.py'
git commit -qm "$1" && git log --oneline | head -1
