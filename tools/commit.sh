#!/bin/sh
# tools/commit.sh "<message>": commit everything in /verif except the files a sub-agent is still editing (C18)
cd /verif || exit 1
git add -A -- . ':!spec/CincoInclude.tla' ':!spec/IncludeLab.tla' ':!spec/MC_Include.tla' ':!spec/Trace_Include*' \
    ':!harness/props/c18.py' ':!harness/props/incworld.py' ':!harness/props/loadfail.py' ':!evidence/C18.json'
git commit -qm "$1" && git log --oneline | head -1
