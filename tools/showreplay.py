#!/venv/bin/python
"""tools/showreplay.py <PROP> : compact view of /verif/replays/<PROP>-*.json (diffs only)."""
import glob, json, sys

def diff(a, b, path=""):
    if type(a) != type(b):
        yield path, a, b; return
    if isinstance(a, dict):
        for k in sorted(set(a) | set(b)):
            if k not in a or k not in b:
                yield path + "/" + k, a.get(k, "<absent>"), b.get(k, "<absent>")
            else:
                yield from diff(a[k], b[k], path + "/" + k)
    elif isinstance(a, list):
        if len(a) != len(b):
            yield path, a, b
        else:
            for i, (x, y) in enumerate(zip(a, b)):
                yield from diff(x, y, "%s[%d]" % (path, i))
    elif a != b:
        yield path, a, b

def canon(x):
    if isinstance(x, dict):
        d = {k: canon(v) for k, v in x.items()}
        if "dflt" in d and isinstance(d["dflt"], list):
            d["dflt"] = sorted(d["dflt"])
        return d
    if isinstance(x, list):
        return [canon(i) for i in x]
    return x

def short(e):
    return json.dumps({k: v for k, v in e.items() if k not in ("cfgs", "file", "key")}, sort_keys=True)[:400]

for f in sorted(glob.glob("/verif/replays/%s-*.json" % sys.argv[1])):
    r = json.load(open(f))
    print("=====", f.split("/")[-1], r["signature"])
    rp = r["replay"]
    if rp.get("kind") == "trace-rejected":
        print(" why:", rp["why"][:160])
        evs = rp["events_up_to_failure"]
        for e in evs[-3:]:
            print("  ev", short(e))
        m = rp.get("spec_expected")
        if m and evs:
            e = evs[-1]
            print("  spec out/repl:", m.get("out"), m.get("repl"), " code:", e.get("out"), e.get("repl"))
            if "cfgs" in m:
                for p, a, b in list(diff(canon(m["cfgs"]), canon(e["cfgs"])))[:8]:
                    print("   DIFF %s\n      spec %s\n      code %s" % (p, json.dumps(a)[:300], json.dumps(b)[:300]))
    elif rp.get("kind") == "step-differs":
        for e in rp["history"][-3:]:
            print("  hist", short(e))
        print("  event", short(rp["event"]))
        print("  detail", rp["detail"][:200])
        exp = rp["expected_by_spec"][0]["to"]; obs = rp["observed_on_code"]["state"]
        for p, a, b in list(diff(canon(exp), canon(obs)))[:8]:
            print("   DIFF %s\n      spec %s\n      code %s" % (p, json.dumps(a)[:300], json.dumps(b)[:300]))
        print("  code ev", rp["observed_on_code"]["ev"])
    else:
        print(json.dumps(rp, sort_keys=True)[:1500])
