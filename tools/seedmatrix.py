#!/venv/bin/python
"""tools/seedmatrix.py [ID-mN ...]: run the owning check against every seeded change (each applied to its own
scratch worktree of /repo's HEAD, selected with CINCO_REPO; evidence/replays redirected to a scratch directory)
and record the outcome in seeded/<ID>-mN/meta.json and seeded/MATRIX.json."""
import json, os, re, shutil, subprocess, sys, tempfile, time

VERIF = "/verif"
names = sys.argv[1:] or sorted(d for d in os.listdir(os.path.join(VERIF, "seeded")) if re.match(r"C\d+-(r\d)?m\d+$", d))
matrix_path = os.path.join(VERIF, "seeded", "MATRIX.json")
matrix = json.load(open(matrix_path)) if os.path.exists(matrix_path) else {}
for name in names:
    prop = name.split("-")[0]
    sdir = os.path.join(VERIF, "seeded", name)
    wt = "/tmp/wt/matrix-" + name
    outdir = tempfile.mkdtemp(prefix="cinco-matrix-")
    subprocess.run(["git", "-C", "/repo", "worktree", "remove", "--force", wt], capture_output=True)
    subprocess.run(["git", "-C", "/repo", "worktree", "add", "--detach", wt, "HEAD"], capture_output=True, check=True)
    try:
        ap = subprocess.run(["git", "apply", os.path.join(sdir, "patch.diff")], cwd=wt, capture_output=True, text=True)
        if ap.returncode != 0:
            matrix[name] = {"status": "patch-does-not-apply"}
            continue
        env = dict(os.environ, CINCO_REPO=wt, VERIF_OUT_DIR=outdir)
        t0 = time.time()
        r = subprocess.run([os.path.join(VERIF, "check"), prop, "--tier", "quick"], capture_output=True, text=True, env=env, timeout=3600)
        lines = [ln for ln in r.stdout.splitlines() if ln.startswith("  ")]
        sigs = []
        for f in sorted(os.listdir(os.path.join(outdir, "replays"))) if os.path.isdir(os.path.join(outdir, "replays")) else []:
            sigs.append(json.load(open(os.path.join(outdir, "replays", f)))["signature"])
        entry = {
            "status": "detected" if r.returncode == 1 and "VIOLATION property=%s" % prop in r.stdout else ("machinery-error" if r.returncode == 2 else "missed"),
            "check": "./check %s --tier quick" % prop,
            "exit": r.returncode,
            "wall_s": round(time.time() - t0, 1),
            "violation_signatures": sigs[:6],
            "first_report": (lines[0].strip()[:300] if lines else ""),
            "repo_head": subprocess.run(["git", "-C", "/repo", "rev-parse", "--short", "HEAD"], capture_output=True, text=True).stdout.strip(),
        }
        matrix[name] = entry
        mp = os.path.join(sdir, "meta.json")
        meta = json.load(open(mp))
        meta["check_result"] = entry
        json.dump(meta, open(mp, "w"), indent=1)
        print(name, entry["status"], entry["exit"], entry["wall_s"], sigs[:2], flush=True)
    finally:
        subprocess.run(["git", "-C", "/repo", "worktree", "remove", "--force", wt], capture_output=True)
        shutil.rmtree(wt, ignore_errors=True)
        shutil.rmtree(outdir, ignore_errors=True)
        json.dump(matrix, open(matrix_path, "w"), indent=1, sort_keys=True)
