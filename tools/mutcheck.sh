#!/bin/sh
# tools/mutcheck.sh <PROP> <patch.diff> [tier]  : apply a seeded change to /repo, run the check, undo it
P=$1; PATCH=$2; TIER=${3:-quick}
cd /repo || exit 9
git diff --quiet || { echo "repo dirty"; exit 9; }
if ! git apply "$PATCH" 2>/dev/null; then
  if ! patch -p1 -s --no-backup-if-mismatch < "$PATCH"; then echo "PATCH-FAILED $PATCH"; git checkout -- . ; git clean -fdq; exit 8; fi
fi
cd /verif && ./check $P --tier $TIER > /tmp/mutcheck.out 2>&1; RC=$?
cp /verif/evidence/$P.json /tmp/mutcheck.evidence.json 2>/dev/null
cd /repo && git checkout -- . && git clean -fdq
cd /verif && git checkout -- evidence/$P.json 2>/dev/null
echo "rc=$RC $(grep -c VIOLATION /tmp/mutcheck.out) violation line(s)"; grep -E "^  |VIOLATION|MACHINERY|KNOWN" /tmp/mutcheck.out | cut -c1-260 | head -6
exit 0
