"""Run TLC on the specifications under /verif/spec and read back what it explored.

Everything TLC tells us comes from its own output: the summary line (states generated /
distinct states), per-action coverage (-coverage), invariant / property violations, and the
lines our specifications print through PrintT:

    <<"INIT", "<json of a state>">>                      from  CONSTRAINT   PInit
    <<"EDGE", "<json [from, ev, to]>">>                  from  ACTION_CONSTRAINT Export
    <<"TRACE", "<json verdict>">>                        from  trace specifications

The JSON is produced inside TLC with the CommunityModules operator ToJson, so no TLA+ value
parser is needed on the Python side.
"""
import json
import os
import re
import shutil
import subprocess
import tempfile
import time

VERIF = os.path.dirname(os.path.dirname(os.path.abspath(__file__)))
SPEC_DIR = os.path.join(VERIF, "spec")

_scratch_dirs = []


def scratch(prefix="cinco-verif-"):
    """A fresh scratch directory outside /repo and /verif, removed at exit."""
    d = tempfile.mkdtemp(prefix=prefix)
    _scratch_dirs.append(d)
    return d


def cleanup():
    while _scratch_dirs:
        shutil.rmtree(_scratch_dirs.pop(), ignore_errors=True)


import atexit  # noqa: E402

atexit.register(cleanup)


class TLCError(Exception):
    """TLC itself failed (parse error, evaluation error, timeout): machinery failure."""


class TLCResult:
    def __init__(self):
        self.stdout = ""
        self.generated = 0  # "states generated" == transitions taken
        self.distinct = 0
        self.depth = 0
        self.violation = None  # name of violated invariant / property, or "deadlock"
        self.cex = None  # list of states (text) of the counterexample
        self.coverage = {}  # action name -> [distinct, total]
        self.printed = {}  # tag -> list of decoded json payloads
        self.wall = 0.0
        self.cmd = ""
        self.error_text = ""

    @property
    def ok(self):
        return self.violation is None


_PRINT_RE = re.compile(r'^<<"([A-Z]+)", "(.*)">>$')
_SUMMARY_RE = re.compile(
    r"^(\d+) states generated, (\d+) distinct states found, (\d+) states left on queue"
)
_SIM_RE = re.compile(r"The number of states generated: *(\d+)")
_COV_RE = re.compile(r"^<(\w+) line \d+, col \d+ to line \d+, col \d+ of module (\w+)>: (\d+):(\d+)")


def _decode(payload):
    return json.loads(json.loads('"' + payload + '"'))


def run(module, cfg, workers=16, **kw):
    """run_once, retried single-threaded when TLC itself crashes with several workers.

    TLC normalises shared constant values lazily and in place; with many workers this
    occasionally races ("TLC threw an unexpected exception ... Attempted to check equality
    of string with non-string").  One worker cannot race."""
    try:
        return run_once(module, cfg, workers=workers, **kw)
    except TLCError as exc:
        if workers > 1 and (getattr(exc, "internal", False) or "TLC threw an unexpected exception" in str(exc)):
            print("note: TLC crashed internally with %d workers; retrying with 1 worker" % workers)
            return run_once(module, cfg, workers=1, **kw)
        raise


def run_once(
    module,
    cfg,
    workers=16,
    simulate=None,
    depth=None,
    seed=None,
    env=None,
    timeout=3600,
    coverage=False,
    extra=(),
    spec_dir=SPEC_DIR,
    keep=("INIT", "EDGE", "TRACE", "CASE", "WIT"),
    deadlock=False,
    dfid=None,
    allow_empty=False,
):
    """Run TLC; raise TLCError on machinery failure; return a TLCResult otherwise."""
    meta = scratch("cinco-tlc-")
    cmd = ["tlc", "-workers", str(workers), "-noGenerateSpecTE", "-metadir", meta, "-config", cfg]
    if not deadlock:
        cmd.append("-deadlock")  # disables deadlock checking
    if coverage:
        cmd += ["-coverage", "1"]
    if simulate is not None:
        cmd += ["-simulate", "num=%d" % simulate]
        if depth:
            cmd += ["-depth", str(depth)]
    if dfid:
        cmd += ["-dfid", str(dfid)]
    if seed is not None:
        cmd += ["-seed", str(seed)]
    cmd += list(extra)
    cmd.append(module)
    res = TLCResult()
    res.cmd = " ".join(cmd)
    full_env = dict(os.environ)
    if env:
        full_env.update({k: str(v) for k, v in env.items()})
    # TLC creates an (empty) tlc-<n> directory in java.io.tmpdir on every start and leaves it there: keep
    # them inside this run's scratch directory, which is removed at exit
    jopts = full_env.get("JAVA_TOOL_OPTIONS", "")
    if "java.io.tmpdir" not in jopts:
        full_env["JAVA_TOOL_OPTIONS"] = (jopts + " -Djava.io.tmpdir=" + meta).strip()
    t0 = time.time()
    try:
        proc = subprocess.run(
            cmd, cwd=spec_dir, env=full_env, capture_output=True, text=True, timeout=timeout
        )
    except subprocess.TimeoutExpired as exc:
        subprocess.run(["pkill", "-f", meta], capture_output=True)
        raise TLCError("TLC timed out after %ss: %s" % (timeout, res.cmd)) from exc
    finally:
        shutil.rmtree(meta, ignore_errors=True)
    res.wall = time.time() - t0
    out = proc.stdout
    res.stdout = out
    in_cex = False
    cex = []
    cur = None
    other = []
    for line in out.splitlines():
        m = _PRINT_RE.match(line)
        if m:
            tag = m.group(1)
            if tag in keep:
                res.printed.setdefault(tag, []).append(_decode(m.group(2)))
            continue
        other.append(line)
        m = _SUMMARY_RE.match(line)
        if m:
            res.generated = int(m.group(1))
            res.distinct = int(m.group(2))
            continue
        m = _SIM_RE.search(line)
        if m:
            res.generated = max(res.generated, int(m.group(1)))
            continue
        if line.startswith("The depth of the complete state graph search is"):
            res.depth = int(re.findall(r"\d+", line)[0])
        m = _COV_RE.match(line)
        if m:
            name = m.group(1)
            prev = res.coverage.get(name, [0, 0])
            res.coverage[name] = [prev[0] + int(m.group(3)), prev[1] + int(m.group(4))]
            continue
        if line.startswith("Error: Invariant "):
            res.violation = line.split()[2]
            in_cex = True
        elif line.startswith("Error: Action property "):
            res.violation = line.split()[3]
            in_cex = True
        elif line.startswith("Error: Deadlock reached"):
            res.violation = "deadlock"
            in_cex = True
        elif line.startswith("Error: Temporal properties were violated"):
            res.violation = "temporal"
            in_cex = True
        elif line.startswith("Error:") and "behavior up to this point" not in line:
            if res.violation is None and "Assumption" not in line or "evaluat" in line:
                res.error_text += line + "\n"
        if in_cex:
            if line.startswith("State ") or line.startswith("Back to state"):
                cur = [line]
                cex.append(cur)
            elif cur is not None and line.startswith("/\\"):
                cur.append(line)
            elif cur is not None and line.strip() == "":
                cur = None
    res.cex = ["\n".join(s) for s in cex] if cex else None
    text = "\n".join(other)
    res.other = text
    fatal = (
        "Parsing or semantic analysis failed" in text
        or "TLC threw an unexpected exception" in text
        or "Error: Evaluating" in text
        or "was not found" in text and "Error" in text
        or (proc.returncode not in (0, 12, 13, 11, 10) and res.violation is None)
    )
    if res.violation is None and ("Error:" in text):
        fatal = True
    if fatal:
        tail = "\n".join(
            [ln for ln in text.splitlines() if not ln.startswith(("Parsing file", "Semantic processing", "Linting of"))][-40:]
        )
        dump = os.path.join(tempfile.gettempdir(), "cinco-tlc-failure-%d.log" % os.getpid())
        try:
            with open(dump, "w") as fp:
                fp.write(out[-2000000:])
        except OSError:
            dump = "<not written>"
        err = TLCError("TLC failed (rc=%s): %s\n%s\n(full output: %s)" % (proc.returncode, res.cmd, tail, dump))
        err.internal = "TLC threw an unexpected exception" in text or "unable to fingerprint" in text
        raise err
    if simulate is None and res.generated == 0 and res.violation is None and not allow_empty:
        raise TLCError("TLC reported no states: %s\n%s" % (res.cmd, text[-2000:]))
    return res


def sany(module, spec_dir=SPEC_DIR):
    env = dict(os.environ)
    if "java.io.tmpdir" not in env.get("JAVA_TOOL_OPTIONS", ""):
        env["JAVA_TOOL_OPTIONS"] = (env.get("JAVA_TOOL_OPTIONS", "") + " -Djava.io.tmpdir=" + scratch("cinco-sany-")).strip()
    proc = subprocess.run(
        ["tla-sany", module], cwd=spec_dir, capture_output=True, text=True, timeout=300, env=env
    )
    ok = proc.returncode == 0 and "Semantic errors" not in proc.stdout and "***Parse Error***" not in proc.stdout
    return ok, proc.stdout[-3000:]
