"""Document-load clause of C06: a load that fails to parse, or whose include file cannot be
resolved, leaves the configuration exactly as it was.

extend(out, tier, seed) is called by harness/props/c06.py with C06's Outcome.  It

  * builds real configurations (schemas with scalar fields, nested sub-configurations two
    levels deep and include fields at the root and in nested scopes), brings each into a seeded
    prior state (defaults, or an earlier accepted load_tree that leaves some fields user-defined),
  * performs every failing load of the list below through Config.loads and Config.load, in
    every format (json, yaml, xml, bson, pickle), on real files in a scratch directory:
        truncated document, wrong XML root element, undecodable bytes, bytes that are not a
        document, a document that is not a map, include file missing / a directory /
        unreadable / not a document / not a map - at the root and in nested scopes, also after
        an earlier include of the same load has already been merged,
  * snapshots values at all depths, is_value_defined of every field and the identity of every
    nested configuration object before and after,
  * and lets TLC judge every logged case with the specification (spec/CincoInclude.tla through
    spec/Trace_Include.tla): the specification must also say "rejected in the parser / in
    include resolution" (otherwise the case is not a case of this clause and is only counted),
    and the predicate C06_LoadUnchanged (P_Unchanged on the observed before / after
    projections and the set of replaced objects) must hold.

Violations are added to `out` with signatures prefixed "loadfail:"; counters go to
out.coverage["loadfail"] and are added to the totals.
"""
import os
import random

from .. import codec, common, tlc
from . import c18, incworld
from .incworld import FORMATS, chars

S = c18.S
I = c18.I
D = c18.D
NONE = c18.NONE


def inc(sd):
    return {"kind": "include", "startdir": chars(sd)}


ANY = {"kind": "any"}
INT = {"kind": "int"}


def sch(*fields):
    return {"kind": "schema", "fields": [[chars(k), f] for k, f in fields]}


SCHEMAS = [
    # include fields at the root (two), in a nested scope and in a scope nested in that
    sch(("a", ANY), ("n", INT), ("inc", inc("$/A")), ("inc2", inc("")),
        ("sub", sch(("a", ANY), ("n", INT), ("inc", inc("$/A")), ("deep", sch(("a", ANY), ("inc", inc("$/B")))))),
        ("other", sch(("b", ANY), ("m", INT), ("inc", inc("~/c"))))),  # start directory below the home directory
    # no include at all: only the parser can fail
    sch(("a", ANY), ("n", INT), ("sub", sch(("a", ANY), ("deep", sch(("n", INT)))))),
]

FS = [[chars(d), {"k": "dir"}] for d in ("$/A", "$/B", "$/W", "$/A/d", "$/H", "$/H/c", "$/H/c/d")] + [
    [chars("$/H/c/good"), {"k": "file", "v": D([("b", I(107))])}],
    [chars("$/H/c/bad"), {"k": "unparseable"}],
    [chars("$/H/c/locked"), {"k": "unreadable"}],
    [chars("$/A/good"), {"k": "file", "v": D([("a", I(100)), ("sub", D([("a", I(101))]))])}],
    [chars("$/W/good2"), {"k": "file", "v": D([("n", I(102))])}],
    [chars("$/B/good"), {"k": "file", "v": D([("a", I(103))])}],
    [chars("$/A/chain"), {"k": "file", "v": D([("a", I(104)), ("inc2", S("zz"))])}],  # names a missing file for inc2
    [chars("$/A/nest"), {"k": "file", "v": D([("a", I(105)), ("sub", D([("inc", S("zz")), ("a", I(106))]))])}],
    [chars("$/A/bad"), {"k": "unparseable"}],
    [chars("$/A/locked"), {"k": "unreadable"}],
    [chars("$/B/locked"), {"k": "unreadable"}],
    [chars("$/B/bad"), {"k": "unparseable"}],
]
FS_NOTMAP = [chars("$/A/list"), {"k": "file", "v": {"t": "list", "l": [I(1)]}}]

BAD_NAMES = [
    ("missing", S("zz")),
    ("missing-abs", S("$/A/zz")),
    ("missing-elsewhere", S("good2")),  # exists in the working directory, not in the start directory
    ("directory", S("d")),
    ("directory-abs", S("$/A")),
    ("unparseable", S("bad")),
    ("unreadable", S("locked")),
    ("not-a-string", I(5)),
    ("empty-name", S("")),
    ("chain-then-missing", S("chain")),
    ("nested-then-missing", S("nest")),
]


def failing_documents(fmt):
    """(label, abstract document) of every failing load for the include schema."""
    docs = [(how, {"k": "unparseable", "how": how}) for how in ("truncated", "undecodable", "notdoc")]
    if fmt == "xml":
        docs.append(("wrongroot", {"k": "unparseable", "how": "wrongroot"}))
    if fmt in ("json", "yaml", "pickle"):
        docs += [("doc-is-list", {"k": "tree", "v": {"t": "list", "l": [I(1)]}}), ("doc-is-scalar", {"k": "tree", "v": I(5)})]
    other = [("a", I(1)), ("n", I(2)), ("other", D([("b", I(3))]))]
    for label, name in BAD_NAMES:
        docs.append(("root:" + label, {"k": "tree", "v": D(other + [("inc", name)])}))
        if label not in ("chain-then-missing", "nested-then-missing", "missing-elsewhere"):
            docs.append(("nested:" + label, {"k": "tree", "v": D(other + [("sub", D([("a", I(4)), ("inc", name)]))])}))
            docs.append(("after-include:" + label, {"k": "tree", "v": D([("inc", S("good"))] + other + [("sub", D([("a", I(4)), ("deep", D([("a", I(6)), ("inc", S("../A/" + "".join(name["s"])) if name["t"] == "str" and name["s"] and name["s"][0] != "$" else name)]))]))])}))
    for label, name in BAD_NAMES[:9]:
        if label not in ("missing-elsewhere",):
            docs.append(("home:" + label, {"k": "tree", "v": D([("a", I(1)), ("n", I(2)), ("other", D([("b", I(3)), ("inc", name)]))])}))
    docs.append(("root:second-include-missing", {"k": "tree", "v": D([("inc", S("good")), ("inc2", S("zz"))] + other)}))
    if fmt in ("json", "yaml", "pickle"):
        docs.append(("root:not-a-map", {"k": "tree", "v": D(other + [("inc", S("list"))])}))
    # a scalar where a sub-configuration is expected ({"sub": 5}) is NOT a case of this clause: the
    # document parses and no include fails; load_tree rejects it half-way, which C06 leaves open
    return docs


def prior_states(rng, desc, n):
    """Seeded earlier load_tree inputs bringing the configuration into different states."""
    pres = [D([])]
    while len(pres) < n:
        pres.append(c18.strip_bad(c18.rnd_scope_tree(rng, desc, ["$/A/good"], p_inc=0.0), desc))
    return pres


def extend(out, tier, seed):
    cinco = common.import_repo()
    rng = random.Random(seed * 104729 + 6)
    base = tlc.scratch("cinco-loadfail-")
    n_pre = 2 if tier == "quick" else 6
    cases = []
    by_format = {}
    by_kind = {}
    for fmt in FORMATS:
        fs = FS + ([FS_NOTMAP] if fmt in ("json", "yaml", "pickle") else [])
        world = incworld.FsWorld(fs, fmt, os.path.join(base, fmt))
        for si, desc in enumerate(SCHEMAS):
            schema = incworld.build_schema(cinco, desc, world.root)
            docs = failing_documents(fmt)
            if si == 1:
                docs = [d for d in docs if d[1]["k"] == "unparseable" or d[0].startswith("doc-is")]
            for pi, pre in enumerate(prior_states(rng, desc, n_pre)):
                for di, (label, doc) in enumerate(docs):
                    data = c18.document_bytes(fmt, doc, world.root)
                    if data is None:
                        continue
                    via = "load" if (pi + di) % 2 else "loads"
                    real = incworld.run_load(cinco, world, schema, desc, pre, data, via=via, doc_name="lf")
                    cases.append({"k": "load", "S": desc, "fs": fs, "pre": pre, "doc": doc, "fmt": fmt, "label": label, "via": via,
                                  "out": real.out, "cfg0": real.before, "cfg": real.after, "repl": real.repl, "exc": real.exc})
                    by_format[fmt] = by_format.get(fmt, 0) + 1
                    kind = label.split(":")[0]
                    by_kind[kind] = by_kind.get(kind, 0) + 1
    verdicts, tstates = c18.validate_cases(cases)
    judged = 0
    not_early = 0
    n_viol = 0
    for case, rec in verdicts:
        m = rec.get("m") or {}
        if rec.get("skip"):
            continue
        if not m.get("early"):
            not_early += 1  # the specification does not reject this load before load_tree: not this clause
            continue
        judged += 1
        bad = [b for b in codec.seq(rec.get("bad")) if b in ("out", "C06_LoadUnchanged")]
        if case["out"] != "rejected" and "out" not in bad:
            bad.append("out")
        if not bad:
            continue
        n_viol += 1
        if n_viol > 20:
            continue
        what = "the load was accepted" if "out" in bad else "the configuration changed (replaced nested objects: %s)" % (case["repl"],)
        out.violation(
            "loadfail:%s:%s" % (case["label"].split(":")[0] if ":" in case["label"] else "parse", ",".join(sorted(bad))),
            "Config.%s of a failing %s document (%s): %s; library raised %s" % (case["via"], case["fmt"], case["label"], what, case["exc"]),
            {"kind": "load-failure-case", "case": case, "verdict": rec},
        )
    if judged == 0 or not_early > len(cases) // 10:
        raise tlc.TLCError("loadfail: %d of %d failing loads are not rejected early by the specification" % (not_early, len(cases)))
    cov = out.coverage
    cov["loadfail"] = {
        "failing_loads_executed": len(cases),
        "judged_by_spec": judged,
        "by_format": by_format,
        "by_kind": by_kind,
        "prior_states_per_schema": n_pre,
        "tlc_states": tstates,
        "predicate": "C06_LoadUnchanged (P_Unchanged on observed before/after projection and replaced-object set), spec/Trace_Include.tla",
    }
    for key in ("traces_validated_against_impl", "evaluations"):
        if isinstance(cov.get(key), int):
            cov[key] += len(cases)
    out.assumptions.append(
        "document-load clause: failing documents are bytes the third-party parser itself rejects (checked), or documents that are not maps; "
        "an unreadable include is realised by open() raising PermissionError inside the harness process"
    )
    return out
