"""C12 - defaults, user-defined status and reset behave as a consistent state machine.
Decided on spec/ConfigMachine.tla: C12_Fresh, C12_Marks, C12_Reset."""
from . import cfgmachine


def run(tier, seed):
    return cfgmachine.run_machine("C12", ["C12_Fresh"], ["C12_Marks", "C12_Reset"], tier, seed)
