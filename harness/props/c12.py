"""C12 - defaults, user-defined status and reset behave as a consistent state machine.
Decided on spec/ConfigMachine.tla: C12_Fresh, C12_Marks, C12_Reset."""
from . import cfgfamily, cfgmachine


def run(tier, seed):
    out = cfgmachine.run_machine("C12", ["C12_Fresh"], ["C12_Marks", "C12_Reset"], tier, seed)
    # second instance: the textual / numeric field classes inside a configuration (thorough tier;
    # the quick tier meets those classes in the generated family)
    if tier != "quick":
        out = cfgmachine.merge(out, cfgmachine.run_machine("C12", ["C12_Fresh"], ["C12_Marks", "C12_Reset"], tier, seed + 7, schema="SchemaB"))
    return cfgmachine.merge(out, cfgfamily.run_family("C12", ["C12_Fresh"], ["C12_Marks", "C12_Reset"], tier, seed, then="reset"))


replay_file = cfgmachine.replay_file
