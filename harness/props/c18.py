"""C18 - including files is a deep merge in the including scope, included values win.

Specification: spec/CincoInclude.tla (Merge = combine_trees, ValidatePath, IncludeOne,
ProcIncs = Config._process_includes, LoadTreeOp, all transcribed in the order of the code, over
an abstract file system) driven by spec/IncludeLab.tla (Combine | Parse -> Includes ->
LoadTree) on the candidate sets of spec/MC_Include.tla.

  (a) TLC decides C18_MergeLaw / C18_MergeKeys / C18_Pure on every tree pair and
      C18_Equivalent / C18_OptionsUniform / C18_EntryPoints / C18_PathRule / C18_ParseRule /
      C06_LoadUnchanged on every (schema, file system, prior state, document, entry point,
      format + formatter options) case of the instance.
  (b) spec -> code: every case TLC enumerated is executed on the real library - combine_trees
      with deep-copied arguments; Config.load / loads on real files in a scratch directory, in
      the five formats - and compared with the specification's result; the reference side of
      the equivalence (load_tree of the merged tree) is executed on a second real configuration.
  (c) code -> spec: a seeded driver builds random schemas (include fields in up to three
      nested scopes), random file systems and documents, random tree pairs beyond the candidate
      sets, runs the real library, logs what happened, and TLC evaluates the specification's
      operators and the C18 predicates on the logged observations (spec/Trace_Include.tla).

Formatter options (YAML root_key, XML root_tag, JSON pretty) are part of the load event: the
default-option grid of the instance is run in the five formats in rotation (opt.fmt = "any"),
the option grid (file system FsO of MC_Include: files wrapped under a YAML root key, files
with a non-default XML root element, plain files, chains through them) in the format the case
names, with the keyword arguments the case names, through loads (and load, which takes none).
The random driver writes each world for one option value (most files consistently with it,
some not) and loads with it (sometimes with another).
"""
import collections
import concurrent.futures
import copy
import json
import os
import posixpath
import random
import time

from .. import codec, common, tlc
from . import incworld
from .incworld import FORMATS, chars, seq, text

INV_MERGE = ["C18_MergeLaw", "C18_MergeKeys", "C18_Pure"]
N_SCHEMAS_THOROUGH = 5  # Len(MCSchemaTab) of MC_Include, Size = "thorough": the export is split by schema
INV_LOAD = ["C18_Equivalent", "C18_OptionsUniform", "C18_EntryPoints", "C18_PathRule", "C18_ParseRule", "C06_LoadUnchanged"]


def write_cfg(path, fam, size, invariants=(), export=False, only_sid=0):
    lines = [
        "CONSTANTS",
        '  Fam = "%s"' % fam,
        '  Size = "%s"' % size,
        "  OnlySid = %d" % only_sid,
        "  MergePairs <- MCMergePairs",
        "  SchemaTab <- MCSchemaTab",
        "  FsTab <- MCFsTab",
        "  LoadCases <- MCLoadCases",
        "INIT Init",
        "NEXT Next",
    ]
    lines += ["INVARIANT %s" % i for i in invariants]
    if export:
        lines.append("CONSTRAINT PCase")
    with open(path, "w") as fp:
        fp.write("\n".join(lines) + "\n")


# ------------------------------------------------------------------------------ merge cases
def real_merge(cinco, base, child):
    """combine_trees on deep copies; returns the observation in abstract form."""
    field = cinco.IncludeField()
    b = codec.to_py(base)
    c = codec.to_py(child)
    b0 = copy.deepcopy(b)
    c0 = copy.deepcopy(c)
    try:
        res = field.combine_trees(b, c)
    except Exception as exc:  # noqa
        return {"raised": "%s: %s" % (type(exc).__name__, exc)}
    return {
        "res": codec.to_abs(res),
        "baseAfter": codec.to_abs(b),
        "childAfter": codec.to_abs(c),
        "base_same": typed_equal(b, b0),
        "child_same": typed_equal(c, c0),
    }


def typed_equal(a, b):
    """== that also distinguishes 1 / True / 1.0 and compares key order of maps."""
    return incworld.ordered(codec.to_abs(a)) == incworld.ordered(codec.to_abs(b))


def check_merge_case(cinco, case, stats):
    """spec -> code for one Combine case; returns [(signature, detail)]."""
    real = real_merge(cinco, case["base"], case["child"])
    if "raised" in real:
        return [("conf:merge:raised", "combine_trees raised %s" % real["raised"])], real
    bad = []
    if incworld.canon(real["res"]) != incworld.canon(case["res"]):
        bad.append(("conf:merge:result", "combine_trees result differs from the specification's Merge"))
    elif incworld.ordered(real["res"]) != incworld.ordered(case["res"]):
        stats["merge_key_order_drift"] += 1  # the property does not state the order of keys
    if not real["base_same"] or incworld.ordered(real["baseAfter"]) != incworld.ordered(case["baseAfter"]):
        bad.append(("conf:merge:mutated-base", "combine_trees changed its `base` argument"))
    if not real["child_same"] or incworld.ordered(real["childAfter"]) != incworld.ordered(case["childAfter"]):
        bad.append(("conf:merge:mutated-child", "combine_trees changed its `child` argument"))
    return bad, real


# ------------------------------------------------------------------------------ load cases
class Bench:
    """Materialised file systems and schemas, cached per (file system, format)."""

    def __init__(self, cinco, schemas, fss):
        self.cinco = cinco
        self.schemas = schemas
        self.fss = fss
        self.base = tlc.scratch("cinco-c18-")
        self.worlds = {}
        self.built = {}

    def world(self, fid, fmt):
        key = (fid, fmt)
        if key not in self.worlds:
            root = os.path.join(self.base, "fs%d" % fid, fmt)
            self.worlds[key] = incworld.FsWorld(self.fss[fid - 1], fmt, root)
        return self.worlds[key]

    def schema(self, sid, fid, fmt):
        key = (sid, fid, fmt)
        if key not in self.built:
            self.built[key] = incworld.build_schema(self.cinco, self.schemas[sid - 1], self.world(fid, fmt).root)
        return self.built[key]


_DOC_CACHE = {}


def document_bytes(fmt, doc, root):
    """Bytes of the abstract document in `fmt`, or None if it does not exist in this format."""
    key = (fmt, root, json.dumps(doc, sort_keys=True))
    if key not in _DOC_CACHE:
        if len(_DOC_CACHE) > 200000:
            _DOC_CACHE.clear()
        _DOC_CACHE[key] = _document_bytes(fmt, doc, root)
    return _DOC_CACHE[key]


def _document_bytes(fmt, doc, root):
    valid = incworld.encode(fmt, {"a": {"x": [1, 2, {"y": "zzzz"}]}, "n": 7})
    if doc["k"] == "unparseable":
        data = incworld.bad_document(fmt, doc["how"], valid)
        if data is None:
            return None
        if incworld.third_party_parse(fmt, data)[0] != "error":
            raise RuntimeError("bad document (%s, %s) is accepted by the %s parser" % (fmt, doc["how"], fmt))
        return data
    value = codec.to_py(doc["v"], root)
    tag = incworld.tag_of(doc)
    if tag != incworld.DEFAULT_TAG and fmt != "xml":
        return None  # only XML documents have a root element
    try:
        data = incworld.encode(fmt, value, tag)
    except incworld.NotRepresentable:
        return None
    status, back = incworld.third_party_parse(fmt, data, tag)
    if status == "error" or (status == "ok" and not typed_equal(back, value)):
        return None  # the encoder/parser pair does not carry this tree: not a case for this format
    return data


def check_load_case(bench, case, fmt, via, stats, with_reference=True, variant=0):
    """spec -> code for one finished load case in one format; returns [(signature, detail, extra)].

    The keyword arguments of the call are the options of the case (none for opt.explicit = false)."""
    cinco = bench.cinco
    sid, fid = case["sid"], case["fid"]
    world = bench.world(fid, fmt)
    used = seq(case["used"])
    if any(text(u["opened"]) in world.unrepresentable for u in used):
        stats["skipped_unrepresentable"] += 1
        return None
    data = document_bytes(fmt, case["doc"], world.root)
    if data is None:
        stats["skipped_unrepresentable"] += 1
        return None
    desc = bench.schemas[sid - 1]
    schema = bench.schema(sid, fid, fmt)
    kwargs = incworld.kwargs_of(case.get("opt"), variant)
    real = incworld.run_load(cinco, world, schema, desc, case["pre"], data, via=via, kwargs=kwargs)
    bad = []
    extra = {"format": fmt, "via": via, "kwargs": kwargs, "exception": real.exc, "observed": {"out": real.out, "before": real.before, "after": real.after, "repl": real.repl}}
    cls = "%s/%s/%s" % (case["out"], case["failedAt"] or "-", case["why"] or "-")
    if kwargs:
        cls += "+" + ",".join(sorted(kwargs))
        stats["loads_with_options"] += 1
    if incworld.canon(real.before) != incworld.canon(case["cfg0"]):
        stats["drift_pre_state"] += 1  # load_tree(pre) itself differs: outside this property's projection
        return []
    if real.out != case["out"]:
        bad.append(("conf:load:out:" + cls, "Config.%s(%s): specification says %s (%s), the library %s (%s)" % (via, ", ".join([fmt] + ["%s=%r" % kv for kv in sorted(kwargs.items())]), case["out"], cls, real.out, real.exc), extra))
    elif case["out"] == "ok":
        if incworld.canon(real.after) != incworld.canon(case["cfg"]):
            bad.append(("conf:load:state", "configuration after Config.%s differs from the specification's" % via, extra))
    if case["failedAt"] in ("call", "parse", "include") and real.out == "rejected":
        if incworld.canon(real.after) != incworld.canon(real.before) or real.repl:
            bad.append(("conf:load:unchanged:" + cls, "a load that failed in %s changed the configuration (replaced objects: %s)" % (case["failedAt"], real.repl), extra))
    ref = case["ref"]
    if ref["defined"] and with_reference:
        out_b, cfg_b = incworld.run_load_tree(cinco, world, schema, desc, case["pre"], ref["tree"])
        extra["reference"] = {"out": out_b, "after": cfg_b}
        if out_b != real.out or (out_b == "ok" and incworld.canon(cfg_b) != incworld.canon(real.after)):
            bad.append(("conf:load:equivalent", "Config.%s(document with includes) and load_tree(merged tree) disagree on the real library: %s vs %s" % (via, real.out, out_b), extra))
        stats["equivalence_pairs"] += 1
    stats["loads_run"] += 1
    stats["by_format"][fmt] = stats["by_format"].get(fmt, 0) + 1
    stats["by_outcome"][cls] = stats["by_outcome"].get(cls, 0) + 1
    return bad


# ------------------------------------------------------------------------------ random driver
def S(s):
    return {"t": "str", "s": list(s)}


def I(n):
    return {"t": "int", "i": n}


NONE = {"t": "none"}


def D(pairs):
    return {"t": "dict", "kv": [[S(k), v] for k, v in pairs]}


def rnd_plain(rng, depth, keys="xyzab"):
    r = rng.random()
    if depth <= 0 or r < 0.5:
        c = rng.random()
        if c < 0.35:
            return I(rng.randint(-5, 99))
        if c < 0.5:
            return NONE
        if c < 0.65:
            return S("".join(rng.choice("abcXYZ") for _ in range(rng.randint(0, 5))))
        if c < 0.75:
            return {"t": "bool", "b": rng.random() < 0.5}
        if c < 0.82:
            return {"t": "float", "h": rng.randint(-9, 9)}
        if c < 0.92:
            return {"t": "list", "l": [rnd_plain(rng, 0) for _ in range(rng.randint(0, 3))]}
        return D([])
    if r < 0.6:
        return {"t": "list", "l": [rnd_plain(rng, depth - 1, keys) for _ in range(rng.randint(0, 3))]}
    ks = rng.sample(list(keys), rng.randint(0, min(4, len(keys))))
    return D([(k, rnd_plain(rng, depth - 1, keys)) for k in ks])


def rnd_map(rng, depth, keys="abcdxy"):
    ks = rng.sample(list(keys), rng.randint(0, min(6, len(keys))))
    return D([(k, rnd_plain(rng, depth - 1, keys)) for k in ks])


def rnd_related(rng, base, depth, keys="abcdxy"):
    """A tree that overlaps `base`: same keys with map/non-map conflicts, plus new ones."""
    pairs = []
    for k, v in base["kv"]:
        r = rng.random()
        if r < 0.35:
            continue
        if v["t"] == "dict" and r < 0.75 and depth > 1:
            pairs.append((text(k["s"]), rnd_related(rng, v, depth - 1, keys)))
        else:
            pairs.append((text(k["s"]), rnd_plain(rng, depth - 1, keys)))
    have = {k for k, _ in pairs} | {text(k["s"]) for k, _ in base["kv"]}
    for k in keys:
        if k not in have and rng.random() < 0.25:
            pairs.append((k, rnd_plain(rng, depth - 1, keys)))
    rng.shuffle(pairs)
    return D(pairs)


def drive_merges(cinco, rng, n):
    cases = []
    for _ in range(n):
        base = rnd_map(rng, 4)
        child = rnd_related(rng, base, 4) if rng.random() < 0.7 else rnd_map(rng, 4)
        real = real_merge(cinco, base, child)
        if "raised" in real:
            cases.append({"k": "merge", "base": base, "child": child, "res": NONE, "baseAfter": base, "childAfter": child, "raised": real["raised"]})
            continue
        cases.append({"k": "merge", "base": base, "child": child, "res": real["res"], "baseAfter": real["baseAfter"], "childAfter": real["childAfter"]})
    return cases


FILE_DIRS = ["$/W", "$/A", "$/B", "$/A/s", "$/H", "$/H/c"]
DIRS = FILE_DIRS + ["$/W/s"]
STARTDIRS = ["", "", "$/A", "$/A", "$/B", "$/A/s", "~", "~/c"]  # "~": the home directory, $/H


def expand(startdir):
    return "$/H" + startdir[1:] if startdir.startswith("~") else startdir


def rnd_schema(rng, depth=0):
    fields = []
    pool = [("any", k) for k in rng.sample(["a", "b", "c"], rng.randint(1, 3))]
    pool += [("int", k) for k in rng.sample(["n", "m"], rng.randint(0, 2))]
    pool += [("include", k) for k in rng.sample(["inc", "inc2", "inc3"], rng.choice([0, 1, 1, 2, 2, 3]))]
    if depth < 2:
        pool += [("schema", k) for k in rng.sample(["sub", "sub2", "deep"], rng.choice([0, 1, 1, 2]))]
    rng.shuffle(pool)
    for kind, k in pool:
        if kind == "include":
            fields.append([chars(k), {"kind": "include", "startdir": chars(rng.choice(STARTDIRS))}])
        elif kind == "schema":
            fields.append([chars(k), rnd_schema(rng, depth + 1)])
        else:
            fields.append([chars(k), {"kind": kind}])
    return {"kind": "schema", "fields": fields}


def scopes_of(desc, path=()):
    yield path, desc
    for k, f in desc["fields"]:
        if f["kind"] == "schema":
            yield from scopes_of(f, path + (text(k),))


def rnd_name(rng, startdir, files):
    """A file name as a user would write it for an include field with this start directory."""
    base = expand(startdir) or "$/W"
    r = rng.random()
    if r < 0.06:
        return S(rng.choice(["zz", "s/zz", "$/A/zz", "../zz"]))  # missing
    if r < 0.09:
        return S(rng.choice(["s", "$/A", "../A", "."]))  # a directory
    if r < 0.11:
        return rng.choice([I(5), S(""), {"t": "bool", "b": False}, {"t": "list", "l": []}])
    target = rng.choice(files)
    rel = posixpath.relpath(target, base)
    form = rng.random()
    if form < 0.3:
        return S(target)
    if form < 0.75:
        return S(rel)
    if form < 0.85:
        return S("./" + rel)
    if form < 0.92:
        return S(rel.replace("/", "//", 1))
    return S(posixpath.dirname(target) + "/../" + posixpath.basename(posixpath.dirname(target)) + "/" + posixpath.basename(target))


def rnd_scope_tree(rng, desc, files, p_inc=0.5, depth=0):
    pairs = []
    fields = list(desc["fields"])
    if rng.random() < 0.5:
        rng.shuffle(fields)
    for k, f in fields:
        k = text(k)
        kind = f["kind"]
        if kind == "any":
            if rng.random() < 0.6:
                pairs.append((k, rnd_plain(rng, 3)))
        elif kind == "int":
            if rng.random() < 0.5:
                pairs.append((k, I(rng.randint(-9, 999)) if rng.random() < 0.96 else rng.choice([S("bad"), {"t": "list", "l": [I(1)]}, D([])])))
        elif kind == "include":
            if rng.random() < p_inc:
                pairs.append((k, NONE if rng.random() < 0.06 else rnd_name(rng, text(f["startdir"]), files)))
        else:
            r = rng.random()
            if r < 0.55:
                pairs.append((k, rnd_scope_tree(rng, f, files, p_inc, depth + 1)))
            elif r < 0.59:
                pairs.append((k, rng.choice([D([]), NONE, I(5), I(0), S("x"), {"t": "list", "l": []}, {"t": "list", "l": [I(1)]}])))
    if rng.random() < 0.015:
        pairs.append(("zz", I(1)))
    return D(pairs)


ROOT_KEYS = ["R", "R", "cfg", "sub", "a"]  # also names that are field names of the schemas
ROOT_TAGS = ["cfg", "root"]


def rnd_opt(rng, fmt):
    """Format `fmt` with a random value of its formatter option (or none passed)."""
    opt = incworld.default_opt(fmt)
    r = rng.random()
    if fmt == "yaml":
        if r >= 0.3:
            opt["explicit"] = True
            opt["rk"] = chars(rng.choice(ROOT_KEYS)) if r >= 0.4 else []
    elif fmt == "xml":
        if r >= 0.35:
            opt["explicit"] = True
            opt["tag"] = chars(rng.choice(ROOT_TAGS)) if r >= 0.45 else chars(incworld.DEFAULT_TAG)
    elif fmt == "json":
        if r >= 0.5:
            opt["explicit"] = True
            opt["pretty"] = r >= 0.75
    return opt


def written_for(rng, opt, tree, p_consistent):
    """A file entry holding `tree`, written for the options `opt` (consistently with probability
    p_consistent: under the YAML root key / with the XML root element; otherwise some other way)."""
    entry = {"k": "file", "v": tree}
    fmt = opt["fmt"]
    consistent = rng.random() < p_consistent
    if fmt == "yaml":
        rk = text(opt["rk"])
        if rk and consistent:
            entry["v"] = D([(rk, tree)])
        elif rk:
            r = rng.random()
            if r < 0.15:
                entry["v"] = D([(rk, D([(rk, tree)]))])  # wrapped twice
            elif r < 0.3:
                entry["v"] = D([(rk, tree), ("n", I(77))])  # the root key among other keys
            elif r < 0.4:
                entry["v"] = D([(rk, rng.choice([I(5), NONE, {"t": "list", "l": []}]))])
            # else: the plain tree, without the root key
        elif not consistent and rng.random() < 0.5:
            entry["v"] = D([("R", tree)])  # wrapped, but no root key is in force
    elif fmt == "xml":
        tag = text(opt["tag"])
        if not consistent:
            tag = rng.choice([t for t in ROOT_TAGS + [incworld.DEFAULT_TAG] if t != tag])
        if tag != incworld.DEFAULT_TAG:
            entry["tag"] = chars(tag)
    return entry


def rnd_world(rng, fmt, opt=None):
    """A random schema and a random file system for it, written for the options `opt`."""
    opt = opt or incworld.default_opt(fmt)
    desc = rnd_schema(rng)
    scopes = list(scopes_of(desc))
    names = ["f%d" % i for i in range(1, 7)]
    files = sorted({rng.choice(FILE_DIRS) + "/" + rng.choice(names) for _ in range(rng.randint(2, 7))})
    fs = [[chars(d), {"k": "dir"}] for d in DIRS]
    for p in files:
        r = rng.random()
        if r < 0.88:
            _, scope = rng.choice(scopes)
            fs.append([chars(p), written_for(rng, opt, rnd_scope_tree(rng, scope, files, p_inc=0.25), 0.85)])
        elif r < 0.92:
            fs.append([chars(p), {"k": "unparseable"}])
        elif r < 0.95:
            fs.append([chars(p), {"k": "unreadable"}])
        elif fmt in ("json", "yaml", "pickle"):
            fs.append([chars(p), {"k": "file", "v": rng.choice([{"t": "list", "l": [I(1)]}, I(3), NONE, S("s")])}])
        else:
            fs.append([chars(p), {"k": "file", "v": D([])}])
    return desc, fs, files


def rnd_load_case(rng, fmt, desc, fs, files, opt=None):
    opt = opt or incworld.default_opt(fmt)
    pre = rnd_scope_tree(rng, desc, files, p_inc=0.0) if rng.random() < 0.6 else D([])
    pre = strip_bad(pre, desc)
    r = rng.random()
    if r < 0.9:
        entry = written_for(rng, opt, rnd_scope_tree(rng, desc, files, p_inc=0.7), 0.9)
        doc = {"k": "tree", "v": entry["v"]}
        if "tag" in entry:
            doc["tag"] = entry["tag"]
    elif r < 0.95 and fmt in ("json", "yaml", "pickle"):
        doc = {"k": "tree", "v": rng.choice([{"t": "list", "l": []}, I(1), S("doc"), NONE])}
    else:
        doc = {"k": "unparseable", "how": rng.choice(["truncated", "undecodable", "notdoc"] + (["wrongroot"] if fmt == "xml" else []))}
    return {"k": "load", "S": desc, "fs": fs, "pre": pre, "doc": doc, "fmt": fmt, "opt": opt}


def strip_bad(tree, desc):
    """Keep only what an earlier, ACCEPTED load_tree could have set (no unknown keys, ints for ints...)."""
    kinds = {text(k): f for k, f in desc["fields"]}
    kv = []
    for k, v in tree["kv"]:
        f = kinds.get(text(k["s"]))
        if f is None:
            continue
        if f["kind"] == "int" and v["t"] != "int":
            continue
        if f["kind"] == "include":
            continue
        if f["kind"] == "schema":
            if v["t"] != "dict":
                continue
            v = strip_bad(v, f)
        kv.append([k, v])
    return {"t": "dict", "kv": kv}


def drive_loads(cinco, rng, n, stats, per_world=4):
    base = tlc.scratch("cinco-c18d-")
    cases = []
    tries = 0
    while len(cases) < n and tries < n:
        tries += 1
        fmt = FORMATS[tries % len(FORMATS)]
        wopt = rnd_opt(rng, fmt)  # the option value the files of this world are written for
        desc, fs, files = rnd_world(rng, fmt, wopt)
        world = incworld.FsWorld(fs, fmt, os.path.join(base, "w%d" % tries))
        try:
            if world.unrepresentable:
                continue
            schema = incworld.build_schema(cinco, desc, world.root)
            for j in range(per_world):
                # mostly the options the world was written for; sometimes others (the files then do not fit)
                opt = wopt if rng.random() < 0.85 else rnd_opt(rng, fmt)
                case = rnd_load_case(rng, fmt, desc, fs, files, opt)
                try:
                    data = document_bytes(fmt, case["doc"], world.root)
                except RuntimeError:
                    data = None
                if data is None:
                    continue
                # load() takes no options: through a file when none are passed, rarely with them
                via = "load" if ((j == 0 and not opt["explicit"]) or rng.random() < 0.03) else "loads"
                kwargs = incworld.kwargs_of(opt, rng.randrange(2))
                try:
                    real = incworld.run_load(cinco, world, schema, desc, case["pre"], data, via=via, kwargs=kwargs)
                except codec.Unrepresentable:
                    continue
                case.update({"via": via, "out": real.out, "cfg0": real.before, "cfg": real.after, "repl": real.repl, "exc": real.exc, "kwargs": kwargs})
                cases.append(case)
                stats["by_format"][fmt] = stats["by_format"].get(fmt, 0) + 1
                stats["by_out"][real.out] = stats["by_out"].get(real.out, 0) + 1
                if kwargs:
                    key = "%s:%s" % (fmt, ",".join("%s=%r" % kv for kv in sorted(kwargs.items())))
                    stats["by_options"][key] = stats["by_options"].get(key, 0) + 1
                    if real.out == "ok":
                        stats["ok_with_options"] = stats.get("ok_with_options", 0) + 1
        finally:
            world.remove()
    return cases[:n]


def prefetched(jobs, ahead=1):
    """Results of the thunks `jobs`, in order; they run one after the other in a background thread,
    at most `ahead` finished results waiting while the caller works on the previous one."""
    with concurrent.futures.ThreadPoolExecutor(max_workers=1) as pool:
        it = iter(jobs)
        pending = collections.deque()
        for _ in range(ahead + 1):
            job = next(it, None)
            if job is not None:
                pending.append(pool.submit(job))
        while pending:
            try:
                res = pending.popleft().result()
            except BaseException:
                for f in pending:
                    f.cancel()
                raise
            yield res
            job = next(it, None)
            if job is not None:
                pending.append(pool.submit(job))


NOT_LOGGED = ("exc", "raised", "label", "fmt", "kwargs")  # harness bookkeeping, not part of the observation


def validate_cases(cases, batch=4000, parallel=1):
    """TLC judges every logged case (Trace_Include.tla); returns ([(case, verdict)], tlc states).
    `parallel`: batches judged at the same time (separate TLC processes)."""
    chunks = [cases[start : start + batch] for start in range(0, len(cases), batch)]

    def judge(chunk):
        d = tlc.scratch("cinco-c18t-")
        path = os.path.join(d, "cases.json")
        with open(path, "w") as fp:
            fp.write(json.dumps([{k: v for k, v in c.items() if k not in NOT_LOGGED} for c in chunk]))
        return tlc.run("Trace_Include.tla", "Trace_Include.cfg", workers=1, env={"TRACE_FILE": path}, keep=("TRACE",))

    verdicts = []
    states = 0
    with concurrent.futures.ThreadPoolExecutor(max_workers=max(1, parallel)) as pool:
        for chunk, res in zip(chunks, pool.map(judge, chunks)):
            states += res.distinct
            seen = set()
            for rec in res.printed.get("TRACE", []):
                seen.add(rec["t"])
                verdicts.append((chunk[rec["t"] - 1], rec))
            missing = set(range(1, len(chunk) + 1)) - seen
            if missing:
                raise tlc.TLCError("trace run lost %d cases (first: %s)" % (len(missing), json.dumps(chunk[min(missing) - 1])[:600]))
    return verdicts, states


DRIFT = {"pre"}  # differences outside the property's projection: counted, not judged


def report_trace_verdicts(out, verdicts, prefix, stats, limit=30):
    n = 0
    for case, rec in verdicts:
        if rec.get("skip"):
            stats["trace_skipped_unmodelled"] += 1
            continue
        bad = sorted(seq(rec.get("bad")))
        if "pre" in bad:
            stats["trace_drift_pre_state"] += 1
            continue
        if case.get("raised"):
            bad = ["raised"]
        if not bad:
            continue
        n += 1
        if n > limit:
            continue
        kind = case["k"]
        out.violation(
            "%strace:%s:%s" % (prefix, kind, ",".join(bad)),
            "code->spec: real %s: %s false/different on the logged observation%s"
            % ("combine_trees call" if kind == "merge" else "Config.load(s) of a %s document (%s, library said %s: %s)" % (case.get("fmt"), case["doc"]["k"], case.get("out"), case.get("exc")), bad, "" if kind == "merge" else "; specification: %s" % json.dumps(rec.get("m", {}).get("out"))),
            {"kind": "logged-case", "case": case, "verdict": rec},
        )
    return n


# ------------------------------------------------------------------------------ run
def run(tier, seed):
    cinco = common.import_repo()
    out = common.Outcome("C18")
    big = tier == "thorough"
    size = "thorough" if big else "quick"
    d = tlc.scratch("cinco-c18cfg-")
    stats = {
        "merge_key_order_drift": 0,
        "skipped_unrepresentable": 0,
        "drift_pre_state": 0,
        "equivalence_pairs": 0,
        "loads_run": 0,
        "loads_with_options": 0,
        "by_format": {},
        "by_outcome": {},
        "trace_skipped_unmodelled": 0,
        "trace_drift_pre_state": 0,
    }
    states = transitions = 0
    samples = []
    distinct = set()
    n_viol = {"merge": 0, "load": 0}
    phases = {}
    clock = [time.time()]

    def phase(name):
        now = time.time()
        phases[name] = round(phases.get(name, 0.0) + now - clock[0], 1)
        clock[0] = now

    def spec_violation(res, fam):
        out.violation(
            "spec:%s:%s" % (res.violation, fam),
            "TLC: %s violated on IncludeLab family %s (%s)" % (res.violation, fam, size),
            {"kind": "tlc-counterexample", "predicate": res.violation, "family": fam, "behaviour": res.cex},
        )

    # ---- family "merge": (a) invariants, (b) every pair on the real combine_trees
    cfg = os.path.join(d, "merge.cfg")
    if big:
        write_cfg(cfg, "merge", size, INV_MERGE)
        cfgx = os.path.join(d, "merge_x.cfg")
        write_cfg(cfgx, "merge", size, (), export=True)
        with concurrent.futures.ThreadPoolExecutor(max_workers=2) as pool:  # the two TLC runs side by side
            f_inv = pool.submit(tlc.run, "MC_Include.tla", cfg, workers=16, keep=())
            f_exp = pool.submit(tlc.run, "MC_Include.tla", cfgx, workers=1, keep=("CASE",))
            res, exp = f_inv.result(), f_exp.result()
    else:
        write_cfg(cfg, "merge", size, INV_MERGE, export=True)
        res = exp = tlc.run("MC_Include.tla", cfg, workers=1, keep=("CASE",))
    states += res.distinct
    transitions += res.generated
    if not res.ok:
        spec_violation(res, "merge")
    phase("merge_tlc")
    merge_cases = exp.printed.get("CASE", [])
    nontrivial_merge = 0
    for i, case in enumerate(merge_cases):
        bad, real = check_merge_case(cinco, case, stats)
        distinct.add(common.hash_case(["m", case["base"], case["child"]]))
        if seq(case["base"]["kv"]) and seq(case["child"]["kv"]):
            nontrivial_merge += 1
        for sig, detail in bad:
            n_viol["merge"] += 1
            if n_viol["merge"] <= 15:
                out.violation(
                    sig,
                    "spec->code: %s: base %s, child %s -> %s" % (detail, json.dumps(codec.to_py(case["base"])), json.dumps(codec.to_py(case["child"])), real.get("raised") or json.dumps(codec.to_py(real["res"]))),
                    {"kind": "merge-case", "base": case["base"], "child": case["child"], "spec": case["res"], "code": real},
                )
        if not bad and len(samples) < 1 and i == 4321 % max(1, len(merge_cases)):
            samples.append({"merge_case": {"base": codec.to_py(case["base"]), "child": codec.to_py(case["child"]), "result": codec.to_py(case["res"])}})
    n_merge = len(merge_cases)
    del merge_cases, exp
    phase("merge_replay")

    # ---- family "load": (a) invariants, (b) every case on real files in the five formats
    cfg = os.path.join(d, "load.cfg")
    inv_pool = inv_run = None
    if big:
        # the invariants (16 workers) run while the cases are exported schema by schema (1 worker, one
        # export ahead) and replayed on the real library
        write_cfg(cfg, "load", size, INV_LOAD)
        inv_pool = concurrent.futures.ThreadPoolExecutor(max_workers=1)
        inv_run = inv_pool.submit(tlc.run, "MC_Include.tla", cfg, workers=16, keep=())

        def export_job(part):
            def job():
                cfgx = os.path.join(d, "load_x%d.cfg" % part)
                write_cfg(cfgx, "load", size, (), export=True, only_sid=part)
                return tlc.run("MC_Include.tla", cfgx, workers=1, keep=("INIT", "CASE")).printed

            return job

        parts = prefetched([export_job(sid) for sid in range(1, N_SCHEMAS_THOROUGH + 1)])
    else:
        write_cfg(cfg, "load", size, INV_LOAD, export=True)
        res = tlc.run("MC_Include.tla", cfg, workers=1, keep=("INIT", "CASE"))
        parts = [res.printed]
        states += res.distinct
        transitions += res.generated
        if not res.ok:
            spec_violation(res, "load")
    phase("load_tlc")
    bench = None
    n_load_cases = 0
    classes = {}
    option_cases = {}  # format:keyword arguments -> cases of the option grid
    option_chains = {}  # ... of which accepted loads that followed >= 2 includes with options passed
    for printed in parts:
        phase("load_wait_export")
        if bench is None:
            tables = printed["INIT"][0]
            if big and len(seq(tables["schemas"])) != N_SCHEMAS_THOROUGH:
                raise tlc.TLCError("MC_Include has %d schemas, the harness exports %d" % (len(seq(tables["schemas"])), N_SCHEMAS_THOROUGH))
            bench = Bench(cinco, seq(tables["schemas"]), seq(tables["fss"]))
        cases = printed.get("CASE", [])
        del printed
        for case in cases:
            n_load_cases += 1
            idx = n_load_cases
            if case.get("unmodelled"):
                raise tlc.TLCError("candidate sets contain an unmodelled input: %s" % json.dumps(case)[:500])
            cls = "%s/%s/%s" % (case["out"], case["failedAt"] or "-", case["why"] or "-")
            classes[cls] = classes.get(cls, 0) + 1
            distinct.add(common.hash_case(["l", case["sid"], case["fid"], case["pre"], case["doc"]]))
            opt = case["opt"]
            if opt["fmt"] == "any":
                # default options: two (quick) / three (thorough) of the five formats per case, rotating, so
                # that all five are used evenly; the reference side of the equivalence is executed once per case
                fmts = [FORMATS[idx % 5], FORMATS[(idx + 2) % 5]] + ([FORMATS[(idx + 4) % 5]] if big else [])
            else:
                fmts = [opt["fmt"]]  # the format whose options the case gives
                key = "%s:%s" % (opt["fmt"], ",".join("%s=%s" % kv for kv in sorted(incworld.kwargs_of(opt).items())) or "-")
                option_cases[key] = option_cases.get(key, 0) + 1
                if case["out"] == "ok" and len(seq(case["used"])) >= 2 and opt["explicit"]:
                    option_chains[key] = option_chains.get(key, 0) + 1
            eq0 = stats["equivalence_pairs"]
            for j, fmt in enumerate(fmts):
                via = case["via"] if case["via"] != "any" else ("load" if (idx + j) % 4 == 0 else "loads")
                bad = check_load_case(bench, case, fmt, via, stats, with_reference=(stats["equivalence_pairs"] == eq0), variant=idx)
                for sig, detail, extra in bad or []:
                    n_viol["load"] += 1
                    if n_viol["load"] <= 25:
                        out.violation(
                            sig,
                            "spec->code: %s [%s; schema %d, file system %d, document %s]" % (detail, fmt, case["sid"], case["fid"], json.dumps(codec.to_py(case["doc"]["v"], "$")) if case["doc"]["k"] == "tree" else case["doc"]),
                            {"kind": "load-case", "schema": bench.schemas[case["sid"] - 1], "fs": bench.fss[case["fid"] - 1], "case": case, "code": extra},
                        )
            if len(samples) < 2 and case["out"] == "ok" and len(seq(case["used"])) >= 3:
                samples.append({"load_case": {"schema": case["sid"], "fs": case["fid"], "document": codec.to_py(case["doc"]["v"], "$"), "includes_followed": [[text(u["key"]), text(u["opened"])] for u in seq(case["used"])], "merged_tree": codec.to_py(case["ref"]["tree"], "$")}})
        del cases
        phase("load_replay")
    if inv_run is not None:
        try:
            res = inv_run.result()
        finally:
            inv_pool.shutdown()
        states += res.distinct
        transitions += res.generated
        if not res.ok:
            spec_violation(res, "load")
        phase("load_wait_invariants")
    needed = ["ok/-/-", "rejected/include/path", "rejected/include/open", "rejected/include/parse", "rejected/include/notmap", "rejected/loadtree/-", "rejected/parse/truncated"]
    needed += ["rejected/call/options", "rejected/parse/notdoc"]
    lacking = [c for c in needed if not classes.get(c)]
    if lacking:
        raise tlc.TLCError("vacuous instance: no case of class %s" % lacking)
    lacking = [k for k in ("yaml:root_key=R", "xml:root_tag=cfg", "json:pretty=False") if not option_chains.get(k)]
    if lacking:
        raise tlc.TLCError("vacuous instance: no accepted chain of includes loaded with options %s" % lacking)

    # ---- (c) code -> spec
    rng = random.Random(seed * 7919 + 18)
    n_rm, n_rl = (3000, 500) if not big else (40000, 6000)
    dstats = {"by_format": {}, "by_out": {}, "by_options": {}}
    rcases = drive_merges(cinco, rng, n_rm) + drive_loads(cinco, rng, n_rl, dstats)
    phase("driver")
    verdicts, tstates = validate_cases(rcases, parallel=3 if big else 1)
    phase("driver_tlc")
    report_trace_verdicts(out, verdicts, "", stats)
    for c in rcases:
        distinct.add(common.hash_case([c["k"], c.get("base"), c.get("child"), c.get("S"), c.get("fs"), c.get("doc"), c.get("pre")]))
    if len(samples) < 3:
        rl = [c for c in rcases if c["k"] == "load" and c["out"] == "ok"]
        if rl:
            samples.append({"random_load_case": {"format": rl[0]["fmt"], "document": codec.to_py(rl[0]["doc"]["v"], "$"), "after": rl[0]["cfg"]}})

    executed = n_merge + stats["loads_run"] + len(rcases)
    out.coverage = {
        "states": states,
        "transitions": transitions,
        "exhaustive": True,
        "tlc_instance": "MC_Include Size=%s: families merge (%d tree pairs) and load (%d cases)" % (size, n_merge, n_load_cases),
        "traces_validated_against_impl": executed,
        "spec_to_code_merge_cases": n_merge,
        "spec_to_code_merge_cases_both_nonempty": nontrivial_merge,
        "spec_to_code_load_cases": n_load_cases,
        "spec_to_code_loads_executed": stats["loads_run"],
        "spec_to_code_loads_by_format": stats["by_format"],
        "spec_to_code_load_classes": classes,
        "spec_to_code_option_cases": option_cases,
        "spec_to_code_option_chains_accepted": option_chains,
        "spec_to_code_loads_with_keyword_options": stats["loads_with_options"],
        "spec_to_code_equivalence_pairs": stats["equivalence_pairs"],
        "spec_to_code_skipped_not_representable_in_format": stats["skipped_unrepresentable"],
        "merge_key_order_drift": stats["merge_key_order_drift"],
        "drift_pre_state": stats["drift_pre_state"] + stats["trace_drift_pre_state"],
        "code_to_spec_merge_cases": n_rm,
        "code_to_spec_load_cases": len(rcases) - n_rm,
        "code_to_spec_loads_by_format": dstats["by_format"],
        "code_to_spec_loads_by_outcome": dstats["by_out"],
        "code_to_spec_loads_by_keyword_options": dstats["by_options"],
        "code_to_spec_loads_accepted_with_options": dstats.get("ok_with_options", 0),
        "code_to_spec_skipped_unmodelled": stats["trace_skipped_unmodelled"],
        "code_to_spec_tlc_states": tstates,
        "evaluations": executed,
        "phase_wall_s": phases,
        "distinct_nontrivial": len(distinct),
        "rule": "merge case = (base, child) pair given to combine_trees; load case = (schema, file system, prior tree, document, "
        "entry point, format + formatter options) loaded with Config.load/loads from real files (default options: quick 2, thorough 3 "
        "of the 5 formats per case, in rotation; option grid: YAML root_key none/R (thorough: ''/a field name), XML root_tag config/cfg, "
        "JSON pretty, in that format, documents and included files written with and without the option, through loads and load); "
        "TLC enumerates the candidate sets completely; the driver adds seeded random tree pairs (depth 4, 6 keys) and random "
        "schemas/file systems/documents (3 scopes, up to 3 include fields per scope, relative/absolute/dotted names), each world written "
        "for a random option value of its format (85% of the files consistently with it) and loaded with it (85%) or another; "
        "distinct = distinct inputs; non-trivial merge = both trees non-empty",
        "samples": samples[:3],
    }
    out.assumptions = [
        "documents and include files are written with the third-party encoders (json, yaml, bson, pickle) and a small XML writer of the documented element mapping; that each format decodes what it encodes is C04's",
        "schemas use plain Field, IntField, IncludeField and nested Schema only; no environment variables, no dynamic schemas, no required fields",
        "the file system is abstracted to file(tree) / unparseable / unreadable / directory / missing below a scratch root; the working directory is $/W and HOME is $/H while a case runs (start directories may begin with '~'); no symbolic links, no '~user', no '~' in include names",
        "an unreadable include is realised by making open() raise PermissionError for that path inside the harness process (the checks run as root)",
        "the order of keys in a merged map and the exception class of a rejection are not part of the property and are not compared; a load_tree that fails half-way may leave partial state (compared only for acceptance)",
        "formatter options are the documented ones of each format (YAML root_key, XML root_tag, JSON pretty; BSON and pickle have none); keyword arguments a format does not know are not passed; "
        "Config.load(filename, format) is modelled as it is: it takes no formatter options (passing any is rejected at the call), so options reach a load only through Config.loads",
    ]
    if stats["drift_pre_state"] + stats["trace_drift_pre_state"]:
        out.notes.append("MODEL-DRIFT: load_tree(prior tree) differed from the specification in %d case(s); those cases were not judged" % (stats["drift_pre_state"] + stats["trace_drift_pre_state"]))
    return out
