"""C09 - challenge fields keep only a salted hash that verifies exactly the secret (see crypto.py)."""
from . import crypto


def run(tier, seed):
    return crypto.run_crypto("C09", tier, seed)
