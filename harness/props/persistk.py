"""PersistMachine on the key-file placement family (C03; also C02 / C10 on those schemas).

MC_Persist.SchemaK(k1, k2, ki): root { pw; sub { tok }; v1: type[k1] { sec; inner { tok; v2:
type[k2] { s2 } } }; items: list of type[ki] { u; pw }; api }, each of k1 / k2 / ki absent or a
key file of its own, the root using the default key file (~/.cincokey in the scratch home) or
kroot: 16 placements.  For each chosen placement TLC checks the predicates on all histories to
the depth bound, the level <= 2 graph and simulated behaviours are replayed on real Config
objects with real key files (which key file decrypts every ciphertext of the written document
is established with the independent AES / XOR implementations), and recorded random runs are
validated against Trace_Persist.tla instantiated with the same placement."""
import os
import random

from .. import common, replay, tlc, tracecheck
from . import persist

PLACEMENTS = [(a, b, c, r) for a in "01" for b in "01" for c in "01" for r in ("", "kroot")]


def instance_of(pl):
    a, b, c, r = pl
    return dict(schema="SchemaK%s%s%s" % (a, b, c), rootkey=r, cands="MCSetCandsK", keynames="MCKeyNamesK", keychars="MCKeyCharsK")


def S(text):
    return {"t": "str", "s": list(text)}


def D(**kw):
    return {"t": "dict", "kv": [[S(k), v] for k, v in kw.items()]}


def driver(cinco, desc, root_key, seed, n_traces, length):
    rng = random.Random(seed)
    traces = []

    def secret():
        return rng.choice([S(persist.rnd_text(rng, 6, 14, edge=False)), S(persist.rnd_text(rng, 33, 50, edge=False)), S(""), {"t": "none"}])

    for _ in range(n_traces):
        w = persist.World(cinco, desc, "trace", root_key)
        events = []
        pending = []
        try:
            for _ in range(length):
                r = rng.random()
                if pending:
                    ev = pending.pop(0)
                elif r < 0.6:
                    which = rng.choice(["pw", "sub.tok", "v1", "v1.sec", "v1.inner.tok", "v1.inner.v2", "v1.inner.v2.s2", "items", "api"])
                    path, key = which.rsplit(".", 1) if "." in which else ("", which)
                    p = path.split(".") if path else []
                    if key in ("pw", "tok", "sec", "s2"):
                        v = secret()
                    elif key == "v1":
                        v = D(sec=S(persist.rnd_text(rng, 6, 10, edge=False)))
                    elif key == "v2":
                        v = D(s2=S(persist.rnd_text(rng, 6, 10, edge=False)))
                    elif key == "items":
                        v = {"t": "list", "l": [D(u=S(persist.rnd_text(rng, 0, 5)), pw=S(persist.rnd_text(rng, 6, 10, edge=False))) if rng.random() < 0.7 else D(u=S("u")) for _ in range(rng.randint(0, 3))]}
                    else:
                        v = S(persist.rnd_text(rng, 0, 10))
                    ev = {"op": "Set", "p": p, "k": key, "v": v}
                elif r < 0.88:
                    ev = {"op": "RoundTrip", "fmt": rng.choice(["json", "yaml", "bson", "xml", "pickle"])}
                    if rng.random() < 0.25:
                        # ... every key file gets a new key, and the configuration is saved again
                        pending.extend([{"op": "Rekey"}, {"op": "RoundTrip", "fmt": rng.choice(["json", "yaml", "bson", "xml", "pickle"])}])
                else:
                    m = rng.choice([None, "", "*", "XXXX"])
                    ev = {"op": "Render", "virtual": rng.random() < 0.5, "mask": {"m": "none"} if m is None else {"m": "str", "s": list(m)},
                          "via": rng.choice(["tree", "json", "yaml", "xml"])}
                try:
                    res = w.step(ev)
                    obs = w.observe()
                except persist.codec.Unrepresentable:
                    break
                rec = dict(ev)
                rec["out"] = res["out"]
                if "tree" in res:
                    rec["tree"] = persist.order_tree(desc, res["tree"])
                if "keys" in res:
                    rec["keys"] = res["keys"]
                rec["leak"] = res.get("leak")
                rec["nonplain"] = res.get("nonplain")
                rec["cfg"] = obs["cfg"]
                events.append(rec)
        finally:
            w.close()
        traces.append({"init": {}, "events": events})
    return traces


def run_keyfamily(prop, invs, props, tier, seed):
    cinco = common.import_repo()
    out = common.Outcome(prop)
    d = tlc.scratch("cinco-pk-")
    quick = tier == "quick"
    rng = random.Random(seed * 31 + 5)
    # quick: the placement in which every type names a key file, plus two seeded ones
    chosen = PLACEMENTS if not quick else [("1", "1", "1", "")] + rng.sample([p for p in PLACEMENTS if p != ("1", "1", "1", "")], 2)
    depth = 2 if quick else 3
    relevant = {"C02": ("RoundTrip", "Rebuild", "Set", "Adopt", "Render"), "C03": ("RoundTrip", "Rebuild", "Set", "Adopt", "Rekey"), "C10": ("Render", "Set"), "C06": ("Set", "Adopt")}[prop]
    tot = dict(states=0, transitions=0, cases=0, traces=0, events=0, tstates=0)
    by_op = {}
    distinct = set()
    samples = []
    for pl in chosen:
        inst = instance_of(pl)
        tag = "%s/%s" % (inst["schema"], pl[3] or "default")
        cfg = os.path.join(d, "mc.cfg")
        persist.write_cfg(cfg, depth, invs, props, instance=inst)
        res = tlc.run("MC_Persist.tla", cfg, workers=16, keep=())
        tot["states"] += res.distinct
        tot["transitions"] += res.generated
        if not res.ok:
            out.violation(
                "keyfamily:spec:%s" % res.violation,
                "TLC: %s violated on PersistMachine, key placement %s (depth %d)" % (res.violation, tag, depth),
                {"kind": "tlc-counterexample", "placement": tag, "predicate": res.violation, "behaviour": res.cex},
            )
        desc = persist.schema_descriptor_persist(inst)
        adapter = persist.Adapter(cinco, desc, prop, pl[3])
        cfgx = os.path.join(d, "x.cfg")
        persist.write_cfg(cfgx, 2, export=True, instance=inst)
        exp = tlc.run("MC_Persist.tla", cfgx, workers=1, keep=("INIT", "EDGE"))
        edges, inits = persist.normalise(exp.printed.get("EDGE", []), exp.printed.get("INIT", []))
        g = replay.Graph(inits, edges)
        stats, mism = replay.run_graph(adapter, g, seed=seed)
        cfgs = os.path.join(d, "s.cfg")
        persist.write_cfg(cfgs, 99, export=True, instance=inst)
        nsim, dsim = (25, 7) if quick else (200, 10)
        sim = tlc.run("MC_Persist.tla", cfgs, workers=1, simulate=nsim, depth=dsim, seed=seed + 1, keep=("INIT", "EDGE"))
        sedges, sinits = persist.normalise(sim.printed.get("EDGE", []), sim.printed.get("INIT", []))
        g2 = replay.Graph(sinits + inits, sedges)
        stats2, mism2 = replay.run_graph(adapter, g2, seed=seed)
        for m in (mism + mism2)[:12]:
            if m.ev["op"] not in relevant:
                continue
            out.violation(
                "keyfamily:replay:%s:%s:%s" % (m.ev["op"], m.ev.get("fmt") or m.ev.get("k") or "", m.detail.split(":")[0]),
                "spec->code (key placement %s): %s differs from the specification: %s"
                % (tag, {k: v for k, v in m.ev.items() if k in ("op", "fmt", "p", "k", "virtual", "mask", "via")}, m.detail[:400]),
                dict(m.to_json(), placement=tag),
            )
        ntr, ltr = (25, 10) if quick else (150, 16)
        traces = driver(cinco, desc, pl[3], seed * 101 + PLACEMENTS.index(pl), ntr, ltr)
        tcfg = os.path.join(d, "trace.cfg")
        with open(tcfg, "w") as fp:
            fp.write(
                persist.CFG.format(depth=99, **inst).replace("INIT Init", "INIT TraceInit").replace("NEXT Next", "NEXT TraceNext").replace("VIEW View", "VIEW TraceView")
                + "ACTION_CONSTRAINT Report\nCONSTRAINT ReportState\n"
            )
        wanted = set(invs) | set(props)
        verdicts, tstats = tracecheck.validate("Trace_Persist.tla", tcfg, traces, wanted=wanted)
        for v in [v for v in verdicts if not v.accepted][:10]:
            k = (v.at or v.consumed + 1) - 1
            e = v.trace["events"][k] if k < len(v.trace["events"]) else {}
            if e.get("op") not in relevant and not v.bad_inv:
                continue
            out.violation(
                "keyfamily:trace:%s:%s:%s" % (e.get("op"), e.get("fmt") or e.get("k") or "", ",".join(v.bad_inv or v.bad_obs or ["not-enabled"])),
                "code->spec (key placement %s): recorded persistence trace rejected: %s" % (tag, v.describe()[:300]),
                dict(v.to_json(), placement=tag),
            )
        for t in traces:
            for e in t["events"]:
                if prop == "C03" and e.get("leak"):
                    out.violation("keyfamily:trace:leak:%s" % e.get("fmt"), "code->spec (key placement %s): secret plaintext %r found in the %s document" % (tag, e["leak"], e.get("fmt")), {"kind": "leak", "event": e})
        tot["cases"] += stats["cases"] + stats2["cases"]
        tot["traces"] += len(verdicts)
        tot["events"] += sum(len(t["events"]) for t in traces)
        tot["tstates"] += tstats["states"]
        for k in set(stats["by_op"]) | set(stats2["by_op"]):
            by_op[k] = by_op.get(k, 0) + stats["by_op"].get(k, 0) + stats2["by_op"].get(k, 0)
        distinct |= {common.hash_case([tag, cf, ck]) for cf, ck, _ in list(g.cases()) + list(g2.cases())}
        if not samples:
            samples = [{"placement": tag, "case": {k: v for k, v in alts[0][0].items() if k != "tree"}} for _, _, alts in list(g2.cases())[:1]]
    out.coverage = {
        "states": tot["states"],
        "transitions": tot["transitions"],
        "exhaustive": True,
        "tlc_instance": "MC_Persist key placements %s, MaxDepth=%d" % (["%s%s%s/%s" % p for p in chosen], depth),
        "traces_validated_against_impl": tot["cases"] + tot["traces"],
        "spec_to_code_by_op": by_op,
        "code_to_spec_traces": tot["traces"],
        "code_to_spec_events": tot["events"],
        "code_to_spec_tlc_states": tot["tstates"],
        "evaluations": tot["cases"] + tot["events"],
        "distinct_nontrivial": len(distinct),
        "keyfamily_placements": len(chosen),
        "samples": samples,
    }
    out.assumptions = [
        "key-file placement family: 3 config types that may each name a key file x the root using the default or a named key file (16 placements); "
        "quick runs the all-named placement and two seeded ones, thorough all sixteen",
    ]
    return out
