"""C20 - generated type stubs are valid Python that declares every field and method; generating
a stub has no side effect.

Specification: spec/CincoStubs.tla.  From a schema descriptor (fields of every built-in class,
typed lists / dicts, nested schemas, config types, virtual fields, instance methods with
signature descriptors, custom fields with their own storage_type) it computes the abstract stub
[class, nclasses, attrs, attrok, ctor, methods]: generate_stub / get_method_annotation are
transcribed down to parameter-list tokens, which a transcription of Python's parameter grammar
(ParseParams) reads back - an annotation being an expression only if every dotted class name in it
is made of identifiers, which the "<locals>" in the __qualname__ of a class defined in a function
body is not (annotation kinds QualKinds: a function-local class and a class nested in a class,
alone and inside typing / PEP 585 generics and PEP 604 unions); C20_Valid / C20_Complete
are stated on that result against the descriptor, C20_NoSideEffect / C20_Quiet on the machine
NewConfig / Touch / GenStub(schema | config | config type) over (schema, heap, stdout).

(a) TLC checks the invariants and action properties on MC_Stubs (a family of schemas x the
    machine), exhaustively for the instance;
(b) spec -> code: every (schema, heap state, operation) case of the exported TLC graph is
    executed on real objects: the real Schema is built from the descriptor (instance methods
    are real functions compiled from the signature descriptor), generate_stub runs under
    captured stdout, the text is parsed with ast (ast.parse is the validity oracle) and
    abstracted to the same record, deep snapshots of schema and configurations are compared
    before / after;
(c) code -> spec: a seeded random driver builds much wider schemas (more fields, deeper nesting,
    longer signatures, more annotation kinds) and random call sequences, logs what happened and
    TLC (Trace_Stubs.tla) replays the log against the actions and evaluates the C20 predicates
    on the logged observations.
"""
import ast
import contextlib
import importlib
import inspect
import io
import keyword
import os
import random
import typing

from .. import common, replay, tlc, tracecheck

INVARIANTS = ["C20_Valid", "C20_Complete", "C20_Quiet"]
PROPERTIES = ["C20_ReturnedMC", "C20_NoSideEffectMC"]

SIMPLE = {
    "string": "StringField",
    "int": "IntField",
    "float": "FloatField",
    "port": "PortField",
    "bool": "BoolField",
    "featureflag": "FeatureFlagField",
    "bytes": "BytesField",
    "filename": "FilenameField",
    "ipv4addr": "IPv4AddressField",
    "ipv4net": "IPv4NetworkField",
    "hostname": "HostnameField",
    "url": "UrlField",
    "loglevel": "LogLevelField",
    "challenge": "ChallengeField",
    "secure": "SecureField",
    "include": "IncludeField",
    "any": "AnyField",
    "field": "Field",
}
SETTABLE = {
    "string": "x",
    "int": 1,
    "float": 1.5,
    "bool": True,
    "port": 80,
    "any": 1,
    "field": 1,
    "url": "http://a.b/c",
    "hostname": "localhost",
}
PARAM_KINDS = {
    inspect.Parameter.POSITIONAL_ONLY: "posonly",
    inspect.Parameter.POSITIONAL_OR_KEYWORD: "pos",
    inspect.Parameter.VAR_POSITIONAL: "vararg",
    inspect.Parameter.KEYWORD_ONLY: "kwonly",
    inspect.Parameter.VAR_KEYWORD: "varkw",
}
# annotation kind -> source text of the annotation in the generated `def`
ANN_SRC = {
    "int": "int",
    "listint": "typing.List[int]",
    "optstr": "typing.Optional[str]",
    "class": "Widget",
    "fwd": "'Widget'",
    "none": "None",
    "pep585": "list[int]",
    "ctype": "AnnType",
    "union604": "int | None",
    "callable": "typing.Callable[[int], str]",
    "literal": "typing.Literal['a']",
    "newtype": "UserId",
    "typevar": "T",
    "config": "Config",
    "tupleann": "(int, str)",  # (return position only: not a type, dropped by the renderer)
}
# classes whose qualified name differs from their name (CincoStubs!QualAnn): kind -> (wrapper, class)
QUAL_WRAP = {"": "%s", "list": "typing.List[%s]", "opt": "typing.Optional[%s]", "dict": "typing.Dict[str, %s]", "pep585": "list[%s]", "u604": "%s | None"}
QUAL_CLASS = {"local": "Local", "nested": "Outer.Inner"}
QUAL_ANN = {w + c: (w, c) for w in QUAL_WRAP for c in QUAL_CLASS}
ANN_SRC.update({k: QUAL_WRAP[w] % QUAL_CLASS[c] for k, (w, c) in QUAL_ANN.items()})
STORAGE_KINDS = sorted(QUAL_ANN) + ["class", "listint"]
# stable names of annotation shapes (used in violation signatures)
SHAPE_WRAP = {"": "", "list": "generic-of-", "opt": "generic-of-", "dict": "generic-of-", "pep585": "pep585-of-", "u604": "union604-of-"}


def make_local():
    """What a schema factory function does: define a class in its body and use it.  The class's
    __qualname__ is 'make_local.<locals>.Local'."""

    class Local:
        pass

    return Local


class Outer:
    class Inner:
        """A class nested in a class: __qualname__ 'Outer.Inner'."""


def write_cfg(path, tier, export):
    lines = ["CONSTANTS", "  MaxCfg = 1", "  MaxTouch = 1", '  DynKeys = {"extra"}', "  MaxDyn = 1", '  Tier = "%s"' % tier, "INIT MCInit", "NEXT MCNext", "VIEW MCView"]
    lines += ["INVARIANT %s" % i for i in INVARIANTS]
    lines += ["PROPERTY %s" % p for p in PROPERTIES]
    if export:
        lines += ["ACTION_CONSTRAINT Export", "CONSTRAINT PInit", "CONSTRAINT PTypes"]
    with open(path, "w") as fp:
        fp.write("\n".join(lines) + "\n")


# ------------------------------------------------------------------------- real objects
class Builder:
    """Schema descriptor -> real cincoconfig objects."""

    def __init__(self, cinco):
        self.cinco = cinco
        widget = type("Widget", (), {})
        widget.__module__ = "stubtypes"
        ann_schema = cinco.Schema()
        ann_schema.q = cinco.IntField()
        user_id = typing.NewType("UserId", int)
        user_id.__module__ = "stubtypes"
        local = make_local()
        for cls in (local, Outer, Outer.Inner):
            cls.__module__ = "stubtypes"
        if (local.__name__, local.__qualname__, Outer.Inner.__name__, Outer.Inner.__qualname__) != ("Local", "make_local.<locals>.Local", "Inner", "Outer.Inner"):
            raise RuntimeError("harness classes do not have the qualified names of CincoStubs!ClassTable")
        self.env = {
            "typing": typing,
            "Widget": widget,
            "AnnType": cinco.make_type(ann_schema, "AnnType", module="cfgtypes"),
            "UserId": user_id,
            "T": typing.TypeVar("T"),
            "Config": cinco.Config,
            "Local": local,
            "Outer": Outer,
        }

    def function(self, key, sig):
        """A real function with the described signature (compiled from source)."""
        parts = []
        params = sig["params"]
        last_posonly = max([i for i, p in enumerate(params) if p["k"] == "posonly"], default=-1)
        star_done = False
        for i, p in enumerate(params):
            text = p["n"]
            if p["k"] == "vararg":
                text = "*" + text
                star_done = True
            elif p["k"] == "varkw":
                text = "**" + text
            elif p["k"] == "kwonly" and not star_done:
                parts.append("*")
                star_done = True
            if p["a"] != "noann":
                text += ": " + ANN_SRC[p["a"]]
            if p["d"]:
                text += " = None"
            parts.append(text)
            if i == last_posonly:
                parts.append("/")
        ret = "" if sig["ret"] == "noret" else " -> " + ANN_SRC[sig["ret"]]
        src = "def %s_impl(%s)%s:\n    return None\n" % (key, ", ".join(parts), ret)
        ns = dict(self.env)
        exec(compile(src, "<c20 %s>" % key, "exec"), ns)  # noqa: S102 - harness-generated source
        fn = ns["%s_impl" % key]
        got = [(n, PARAM_KINDS[p.kind], p.default is not p.empty) for n, p in inspect.signature(fn).parameters.items()]
        want = [(p["n"], p["k"], bool(p["d"])) for p in params]
        if got != want:
            raise RuntimeError("harness built %r for signature %r" % (got, want))
        return fn

    def field(self, f):
        c = self.cinco
        kind = f["kind"]
        if kind in SIMPLE:
            return getattr(c, SIMPLE[kind])()
        if kind == "appmode":
            return c.ApplicationModeField(create_helpers=bool(f["helpers"]))
        if kind == "custom":
            return self.custom_field(f["st"])
        if kind == "virtual":
            return c.VirtualField(lambda cfg: 42)
        if kind == "vsetter":
            return c.VirtualField(lambda cfg: 42, lambda cfg, value: None)
        if kind == "list":
            item = f["item"]
            if item["kind"] == "nofield":
                return c.ListField()
            if item["kind"] == "schema":
                return c.ListField(self.schema(item))
            if item["kind"] == "ctype":
                return c.ListField(c.make_type(self.schema(item), item["name"], module="cfgtypes"))
            return c.ListField(self.field(item))
        if kind == "dict":
            kf = None if f["keyf"]["kind"] == "nofield" else self.field(f["keyf"])
            vf = None if f["valf"]["kind"] == "nofield" else self.field(f["valf"])
            return c.DictField(kf, vf)
        if kind == "schema":
            return self.schema(f)
        if kind == "ctype":
            return c.make_type(self.schema(f), f["name"], module="cfgtypes")
        raise ValueError("unknown field kind %r" % (kind,))

    def custom_field(self, st):
        """An instance of a user's Field subclass (itself defined in a function body, as a schema
        factory would) whose storage_type is the object of annotation kind st."""
        obj = eval(ANN_SRC[st], dict(self.env))  # noqa: S307 - harness-owned source text

        class CustomField(self.cinco.Field):
            storage_type = obj

        return CustomField()

    def schema(self, d):
        c = self.cinco
        schema = c.Schema(dynamic=True) if d.get("dynamic") else c.Schema()
        seen = {}
        for key, f in d["fields"]:
            if f["kind"] in ("virtual", "vsetter") and f["kind"] in seen:
                # ONE virtual field object under two keys of the schema (a computed value kept under an old name
                # too): each key is a field of the schema and is declared in the stub under its own name
                setattr(schema, key, seen[f["kind"]])
                continue
            if f["kind"] == "method":
                fn = self.function(key, f["sig"])
                if len(key) % 2 == 0:
                    # a callable that is not a plain function (no __code__): the same signature
                    import functools

                    fn = functools.partial(fn)
                c.instance_method(schema, key)(fn)
            else:
                fld = self.field(f)
                if isinstance(fld, c.Field) and len(key) % 2 == 0:
                    # documented fields: the documentation is free text (several lines, several
                    # paragraphs, quotes, a hash sign) and is no part of what C20 says a stub declares
                    fld.help = HELP_TEXT
                if f["kind"] in ("virtual", "vsetter"):
                    seen[f["kind"]] = fld
                if f["kind"] in ("virtual", "vsetter") and len(key) % 2 == 0:
                    # getters that are callables without annotations or code objects of their own
                    import functools

                    fld.getter = functools.partial(fld.getter) if len(key) % 4 == 0 else _ConstGetter()
                setattr(schema, key, fld)
        return schema


class _ConstGetter:
    """A virtual field's getter given as a callable object."""

    def __call__(self, cfg):
        return 42


HELP_TEXT = (
    "The first paragraph of the documentation wraps\nover two lines: it \"quotes\", has a # sign and 'apostrophes'\n\n"
    "A second paragraph:\n    indented = text()\n"
)


def snapshot(cinco, roots):
    """Deep structural snapshot (with object identities) of the schema / configuration graph
    reachable from the given root objects."""
    seen = {}

    def snap(obj):
        if obj is None or isinstance(obj, (bool, int, float, str, bytes)):
            return repr(obj)
        oid = id(obj)
        if oid in seen:
            return ("ref", seen[oid])
        if inspect.isfunction(obj) or inspect.ismethod(obj) or inspect.isbuiltin(obj):
            return (
                "func",
                getattr(obj, "__qualname__", "?"),
                oid,
                repr(getattr(obj, "__annotations__", None)),
                repr(getattr(obj, "__defaults__", None)),
                repr(getattr(obj, "__kwdefaults__", None)),
            )
        if isinstance(obj, type):
            if issubclass(obj, cinco.ConfigType) and obj is not cinco.ConfigType:
                seen[oid] = len(seen)
                return ("ctype", obj.__module__, obj.__name__, oid, snap(obj.__schema__))
            return ("class", obj.__module__, obj.__qualname__, oid)
        if getattr(type(obj), "__module__", "") in ("typing", "types"):  # no hasattr() here: Schema.__getattr__ creates fields
            return ("typing", repr(obj))
        seen[oid] = len(seen)
        out = [type(obj).__module__ + "." + type(obj).__qualname__, oid]
        if isinstance(obj, (list, tuple)):
            out.append([snap(x) for x in obj])
        elif isinstance(obj, dict):
            out.append([(snap(k), snap(v)) for k, v in obj.items()])
        elif isinstance(obj, (set, frozenset)):
            out.append(sorted(repr(x) for x in obj))
        if hasattr(obj, "__dict__"):
            out.append([(k, snap(v)) for k, v in vars(obj).items()])
        elif len(out) == 2:
            out.append(repr(obj))
        return tuple(out)

    return tuple(snap(r) for r in roots)


def _args(a):
    """ast.arguments -> parsed parameter list of the specification (receiver removed)."""
    pos = [{"n": x.arg, "k": "posonly"} for x in a.posonlyargs] + [{"n": x.arg, "k": "pos"} for x in a.args]
    return {
        "ok": bool(pos),
        "pos": pos[1:],
        "vararg": [a.vararg.arg] if a.vararg else [],
        "kwonly": sorted(x.arg for x in a.kwonlyargs),
        "varkw": [a.kwarg.arg] if a.kwarg else [],
    }


def _unparse(node):
    return "" if node is None else ast.unparse(node)


def abstract_stub(text):
    """Stub text -> (abstract record, annotation strings).  ast.parse is the validity oracle:
    SyntaxError propagates."""
    tree = ast.parse(text)
    compile(tree, "<stub>", "exec")  # not executed; also rejects what only the symbol table catches (duplicate parameter names)
    classes = [n for n in tree.body if isinstance(n, ast.ClassDef)]
    res = {"class": classes[0].name if classes else "", "nclasses": len(classes), "attrs": [], "attrok": False, "ctor": {"ok": False, "params": []}, "methods": []}
    types = {"base": "", "attrs": [], "meths": [], "other_toplevel": sum(1 for n in tree.body if not isinstance(n, (ast.ClassDef, ast.Import, ast.ImportFrom)))}
    if not classes:
        return res, types
    cls = classes[0]
    types["base"] = ", ".join(_unparse(b) for b in cls.bases)
    attrs = []
    for node in cls.body:
        if isinstance(node, ast.AnnAssign) and isinstance(node.target, ast.Name):
            attrs.append(node.target.id)
            types["attrs"].append([node.target.id, _unparse(node.annotation)])
        elif isinstance(node, (ast.FunctionDef, ast.AsyncFunctionDef)):
            pp = _args(node.args)
            if node.name == "__init__":
                names = [p["n"] for p in pp["pos"]] + pp["kwonly"] + ["*" + n for n in pp["vararg"]] + ["**" + n for n in pp["varkw"]]
                res["ctor"] = {"ok": pp["ok"], "params": sorted(set(names)), "dup": len(names) != len(set(names))}
            else:
                m = {"name": node.name}
                m.update(pp)
                res["methods"].append(m)
                named = (node.args.posonlyargs + node.args.args)[1:] + node.args.kwonlyargs
                types["meths"].append({"name": node.name, "ret": _unparse(node.returns), "anns": [[x.arg, _unparse(x.annotation)] for x in named]})
    res["attrs"] = sorted(set(attrs))
    # every statement of the class body is  NAME ":" expression  or a def
    res["attrok"] = all(isinstance(n, (ast.FunctionDef, ast.AsyncFunctionDef)) or (isinstance(n, ast.AnnAssign) and isinstance(n.target, ast.Name) and n.value is None) for n in cls.body)
    res["ctor"].pop("dup", None)
    return canon_res(res), types


def canon_res(r):
    """Order-free normal form of an abstract stub (TLC prints sets in its own order)."""
    return {
        "class": r["class"],
        "nclasses": r["nclasses"],
        "attrs": sorted(r["attrs"]),
        "attrok": r["attrok"],
        "ctor": {"ok": r["ctor"]["ok"], "params": sorted(r["ctor"]["params"])},
        "methods": sorted(
            (
                {"name": m["name"], "ok": m["ok"], "pos": [dict(p) for p in m["pos"]], "vararg": list(m["vararg"]), "kwonly": sorted(m["kwonly"]), "varkw": list(m["varkw"])}
                for m in r["methods"]
            ),
            key=lambda m: (m["name"], repr(m)),
        ),
    }


def canon_types(t):
    return {
        "base": t["base"],
        "attrs": sorted([list(x) for x in t["attrs"]]),
        "meths": sorted(({"name": m["name"], "ret": m["ret"], "anns": [list(a) for a in m["anns"]]} for m in t["meths"]), key=lambda m: m["name"]),
    }


# ------------------------------------------------------------------------- diagnosis
def ann_shape(a):
    """Stable name of the shape of an annotation kind."""
    if a in QUAL_ANN:
        w, c = QUAL_ANN[a]
        return "%s%s-class" % (SHAPE_WRAP[w], c)
    return "ann-%s" % a


def field_shape(f):
    """Stable name of the shape of a field's rendered type."""
    if f["kind"] == "custom":
        return ann_shape(f["st"])
    if f["kind"] in ("list", "dict"):
        leaves = []

        def walk(g):
            if g["kind"] == "custom":
                leaves.append(g["st"])
            elif g["kind"] == "list":
                walk(g["item"])
            elif g["kind"] == "dict":
                walk(g["keyf"])
                walk(g["valf"])

        walk(f)
        classes = {QUAL_ANN[st][1] for st in leaves if st in QUAL_ANN}
        for c in ("local", "nested"):
            if c in classes:
                return "generic-of-%s-class" % c  # ListField / DictField build typing.List[...] / typing.Dict[...]
    return "field-%s" % f["kind"]


class Diagnoser:
    """Names what makes a stub unparsable.  Used only after ast.parse has rejected a stub (it
    decides nothing): every top-level field and every annotation of every method of the schema
    is rendered alone, in a one-declaration probe schema; the declarations whose probe stub is
    rejected too are the culprits, each with its minimal reproducer."""

    _by_tree = {}

    @classmethod
    def of(cls, cinco):
        if id(cinco) not in cls._by_tree:
            cls._by_tree[id(cinco)] = cls(cinco)
        return cls._by_tree[id(cinco)]

    def __init__(self, cinco):
        self.cinco = cinco
        self.stubs = importlib.import_module("cincoconfig.stubs")
        self.cache = {}

    def probe(self, fields):
        key = common.hash_case(fields)
        if key not in self.cache:
            desc = {"kind": "schema", "fields": fields}
            found = None
            try:
                with contextlib.redirect_stdout(io.StringIO()):
                    text = self.stubs.generate_stub(Builder(self.cinco).schema(desc), "Probe")
                try:
                    compile(ast.parse(text), "<stub>", "exec")
                except SyntaxError as exc:
                    found = {"schema": desc, "call": "generate_stub(schema, 'Probe')", "stub": text, "line": (exc.text or "").rstrip("\n"), "error": "SyntaxError: %s (line %s, column %s)" % (exc.msg, exc.lineno, exc.offset)}
            except Exception:  # noqa: BLE001 - a probe that raises is not a syntax culprit
                found = None
            self.cache[key] = found
        return self.cache[key]

    def culprits(self, desc):
        out = []

        def add(shape, site, fields):
            got = self.probe(fields)
            if got is not None and not any(c["shape"] == shape and c["site"] == site for c in out):
                out.append(dict(got, shape=shape, site=site))

        for key, f in desc["fields"]:
            if f["kind"] != "method":
                add(field_shape(f), "attribute", [[key, f]])
                continue
            params = f["sig"]["params"]
            for i, p in enumerate(params):
                if p["a"] == "noann":
                    continue
                first = {"n": "cfg", "k": "posonly" if p["k"] == "posonly" else "pos", "d": False, "a": "noann"}
                ps = [p] if i == 0 else [first, dict(p, n="x" if p["n"] == "cfg" else p["n"])]
                add(ann_shape(p["a"]), "parameter", [[key, {"kind": "method", "sig": {"params": ps, "ret": "noret"}}]])
            if f["sig"]["ret"] != "noret":
                first = {"n": "cfg", "k": "pos", "d": False, "a": "noann"}
                add(ann_shape(f["sig"]["ret"]), "return", [[key, {"kind": "method", "sig": {"params": [first], "ret": f["sig"]["ret"]}}]])
        return out


def signatures(sig, obs_ev):
    """One signature per distinct failing annotation shape of an unparsable stub."""
    shapes = sorted({c["shape"] for c in (obs_ev or {}).get("culprits") or []})
    if sig == "gen:invalid-syntax" and shapes:
        return ["%s:%s" % (sig, sh) for sh in shapes]
    return [sig]


def culprit_text(obs_ev, sig):
    for c in (obs_ev or {}).get("culprits") or []:
        if sig.endswith(":" + c["shape"]):
            return " [minimal: %s %s -> %r: %s]" % (c["site"], _short(c["schema"]), c["line"].strip(), c["error"])
    return ""


def settable_keys(desc):
    """Top-level keys whose field the harness knows a valid value for (kind -> value)."""
    return {key: SETTABLE[f["kind"]] for key, f in desc["fields"] if f["kind"] in SETTABLE}


class World:
    """One real schema, its config type, the configurations made so far, captured stdout."""

    def __init__(self, cinco, desc):
        self.cinco = cinco
        self.desc = desc
        self.stubs = importlib.import_module("cincoconfig.stubs")  # after common.import_repo(): the tree under test
        self.schema = Builder(cinco).schema(desc)
        self.rtype = cinco.make_type(self.schema, "RootType", module="cfgtypes")
        self.configs = []
        self.via = []
        self.stdout = []
        self.settable = settable_keys(desc)
        self.orig_keys = [k for k, _ in self.schema]  # the field table as built, before any call
        self.last_text = None
        self.last_types = None
        self.refresh()
        self.resnap()

    def resnap(self):
        self.snap_schema = snapshot(self.cinco, [self.schema, self.rtype])
        self.snap_heap = snapshot(self.cinco, self.configs)

    def observe(self):
        c = self.cinco
        heap = []
        for via, cfg in zip(self.via, self.configs):
            heap.append(
                {
                    "via": via,
                    "set": sorted(k for k in self.settable if c.is_value_defined(cfg, k)),
                    "dyn": sorted({k for k, _ in c.get_fields(cfg)} - set(self.orig_keys)),
                }
            )
        # the schema's field table through the public API: iteration / get_fields(schema), and
        # the fields of a freshly built configuration
        skeys = [k for k, _ in self.schema]
        if [k for k, _ in c.get_fields(self.schema)] != skeys:
            skeys = ["<iteration and get_fields disagree>"] + skeys
        return {"heap": heap, "stdout": list(self.stdout), "skeys": skeys, "fresh": list(self.fresh)}

    def refresh(self):
        """Fields of a freshly built configuration (taken at the start and after every GenStub)."""
        with contextlib.redirect_stdout(io.StringIO()):
            self.fresh = [k for k, _ in self.cinco.get_fields(self.schema())]

    def do(self, ev):
        op = ev["op"]
        if op == "NewConfig":
            buf = io.StringIO()
            with contextlib.redirect_stdout(buf):
                cfg = self.schema() if ev["via"] == "schema" else self.rtype()
            self.configs.append(cfg)
            self.via.append(ev["via"])
            self._out(buf)
            self.resnap()
            return {"out": "ok"}
        if op == "Touch":
            buf = io.StringIO()
            with contextlib.redirect_stdout(buf):
                setattr(self.configs[ev["c"] - 1], ev["k"], self.settable[ev["k"]])
            self._out(buf)
            self.resnap()
            return {"out": "ok"}
        if op == "AddDyn":
            buf = io.StringIO()
            with contextlib.redirect_stdout(buf):
                setattr(self.configs[ev["c"] - 1], ev["k"], 1)
            self._out(buf)
            self.resnap()
            return {"out": "ok"}
        if op == "GenStub":
            return self.gen(ev["target"], ev["c"])
        raise ValueError("unknown op %r" % (op,))

    def _out(self, buf):
        if buf.getvalue():
            self.stdout.append(buf.getvalue())

    def gen(self, target, c):
        buf = io.StringIO()
        self.last_text = self.last_types = None
        try:
            with contextlib.redirect_stdout(buf):
                if target == "schema":
                    text = self.stubs.generate_stub(self.schema, "SchemaStub")
                elif target == "config":
                    text = self.stubs.generate_stub(self.configs[c - 1], "ConfigStub")
                else:
                    text = self.stubs.generate_stub(self.rtype)
            obs = {"out": "ok"}
        except Exception as exc:  # noqa: BLE001 - any exception is "no stub"
            text = None
            obs = {"out": "raised:%s:%s" % (type(exc).__name__, str(exc)[:90])}
        self._out(buf)
        if text is not None:
            self.last_text = text
            if not isinstance(text, str):
                obs = {"out": "not-a-string:%s" % type(text).__name__}
            else:
                try:
                    obs["res"], self.last_types = abstract_stub(text)
                except SyntaxError as exc:
                    obs = {"out": "invalid-syntax", "detail": "%s: %r" % (exc.msg, (exc.text or "").strip()[:120])}
                    obs["culprits"] = Diagnoser.of(self.cinco).culprits(self.desc)
        post_schema = snapshot(self.cinco, [self.schema, self.rtype])
        post_heap = snapshot(self.cinco, self.configs)
        obs["extra"] = {"schema": post_schema == self.snap_schema, "heap": post_heap == self.snap_heap}
        self.refresh()
        self.snap_schema, self.snap_heap = post_schema, post_heap
        return obs


class Adapter:
    """replay.run_graph adapter: TLC graph states / events -> World."""

    def __init__(self, cinco, family, types):
        self.cinco = cinco
        self.family = family
        self.types = types
        self.drift = {}
        self.gen_cases = 0

    def start(self, init):
        w = World(self.cinco, self.family[init["sid"] - 1])
        w.sid = init["sid"]
        return w

    def step(self, w, ev):
        obs = w.do(ev)
        obs.pop("detail", None)
        if ev["op"] == "GenStub" and w.last_types is not None:
            self.gen_cases += 1
            want = self.types.get(w.sid)
            got = canon_types(w.last_types)
            if want is not None and got != want:
                self.drift.setdefault(common.hash_case([want, got]), {"sid": w.sid, "spec": want, "code": got})
        return obs

    def observe(self, w):
        return w.observe()

    def close(self, w):
        pass


def classify(spec_ev, obs_ev, spec_to=None, obs_state=None):
    """Stable signature naming what differs between the specification's step and the code's."""
    out = obs_ev.get("out")
    if out != spec_ev.get("out"):
        return "gen:%s" % out
    if "res" in spec_ev and "res" in obs_ev and spec_ev["res"] != obs_ev["res"]:
        s, r = spec_ev["res"], obs_ev["res"]
        for comp in ("class", "nclasses", "attrs", "ctor"):
            if s[comp] != r[comp]:
                return "gen:res:%s" % comp
        sm = {m["name"]: m for m in s["methods"]}
        rm = {m["name"]: m for m in r["methods"]}
        if sorted(sm) != sorted(rm) or len(rm) != len(r["methods"]):
            return "gen:res:methods:names"
        for name in sorted(sm):
            for comp in ("ok", "pos", "vararg", "kwonly", "varkw"):
                if sm[name][comp] != rm[name][comp]:
                    return "gen:res:methods:%s" % comp
        return "gen:res"
    ex = obs_ev.get("extra")
    if ex is not None and not (ex["schema"] and ex["heap"]):
        return "gen:side-effect:%s" % ("schema" if not ex["schema"] else "heap")
    if spec_to is not None and obs_state is not None:
        for k in ("stdout", "heap", "skeys", "fresh"):
            if k in spec_to and spec_to[k] != obs_state.get(k):
                return "%s:state:%s" % (spec_ev.get("op", "?"), k)
    return "%s:differs" % spec_ev.get("op", "?")


def canon_edge(e):
    ev = e["ev"]
    if "res" in ev:
        ev = dict(ev, res=canon_res(ev["res"]))
    return {"from": canon_state(e["from"]), "ev": ev, "to": canon_state(e["to"])}


def canon_heap(h):
    return [{"via": c["via"], "set": sorted(c["set"]), "dyn": sorted(c["dyn"])} for c in h]


def canon_state(s):
    return {"sid": s["sid"], "heap": canon_heap(s["heap"]), "stdout": list(s["stdout"]), "skeys": list(s["skeys"]), "fresh": list(s["fresh"])}


def canon_spec_types(t):
    return {
        "base": t["base"],
        "attrs": sorted([list(x) for x in t["attrs"]]),
        "meths": sorted(({"name": m["name"], "ret": m["ret"], "anns": [list(a) for a in m["anns"]]} for m in t["meths"]), key=lambda m: m["name"]),
    }


# ------------------------------------------------------------------------- random driver
RESERVED = set(keyword.kwlist) | set(getattr(keyword, "softkwlist", [])) | {"self", "None", "True", "False"}
ALL_ANN = ["noann", "noann", "noann", "int", "int", "listint", "optstr", "class", "fwd", "none", "pep585", "ctype", "callable", "literal", "config"]
RARE_ANN = ["union604", "newtype", "typevar"]
QUAL_ANNS = sorted(QUAL_ANN)
SCALARS = sorted(SIMPLE)
DYN_KEYS = ["extra", "dyn_b", "wq7"]  # rnd_name() cannot produce these


def rnd_name(rng, taken, forbidden=()):
    while True:
        n = rng.choice("abcdefghklmnpqrstuvwxyz") + "".join(rng.choice("abcdefgxyz_0189") for _ in range(rng.choice([0, 0, 1, 2, 4, 7])))
        if n in taken or n in RESERVED or n in forbidden or n.startswith("is_"):
            continue
        taken.add(n)
        return n


class Mix(float):
    """Probability of a rare annotation kind (the float itself) and, .qual, of an annotation /
    a custom field's storage type over a class whose qualified name differs from its name."""

    qual = 0.0

    def __new__(cls, rare, qual=0.0):
        self = super().__new__(cls, rare)
        self.qual = qual
        return self


def qual_of(rare):
    return getattr(rare, "qual", 0.0)


def rnd_ann(rng, rare):
    if qual_of(rare) and rng.random() < qual_of(rare):
        return rng.choice(QUAL_ANNS)
    if rng.random() < rare:
        return rng.choice(RARE_ANN)
    return rng.choice(ALL_ANN)


def rnd_custom(rng):
    return {"kind": "custom", "st": rng.choice(STORAGE_KINDS)}


def rnd_sig(rng, rare):
    taken = set()
    n_po = rng.choice([0, 0, 0, 1, 2])
    n_pos = rng.choice([0, 1, 1, 2, 3])
    n_kw = rng.choice([0, 0, 1, 2, 3])
    first = "self" if rng.random() < 0.3 else rnd_name(rng, taken)
    params = [{"n": first, "k": "posonly" if n_po or rng.random() < 0.2 else "pos", "d": False, "a": rng.choice(["noann", "noann", "config", "class"])}]
    dflt = False
    for k, n in (("posonly", n_po), ("pos", n_pos)):
        for _ in range(n):
            dflt = dflt or rng.random() < 0.3
            params.append({"n": rnd_name(rng, taken), "k": k, "d": dflt, "a": rnd_ann(rng, rare)})
    if rng.random() < 0.4:
        params.append({"n": rng.choice(["args", "rest", rnd_name(rng, taken)]), "k": "vararg", "d": False, "a": rnd_ann(rng, 0)})
        taken.add(params[-1]["n"])
    for _ in range(n_kw):
        params.append({"n": rnd_name(rng, taken), "k": "kwonly", "d": rng.random() < 0.5, "a": rnd_ann(rng, rare)})
    if rng.random() < 0.4:
        params.append({"n": rng.choice(["kwargs", "kw", "opts"]), "k": "varkw", "d": False, "a": rnd_ann(rng, 0)})
        if params[-1]["n"] in taken:
            params.pop()
    ret = rng.choice(["noret", "noret", "int", "none", "listint", "class", "fwd", "ctype", "optstr", "pep585", "union604", "callable", "tupleann"])
    if qual_of(rare) and rng.random() < qual_of(rare):
        ret = rng.choice(QUAL_ANNS)
    return {"params": params, "ret": ret}


def rnd_item(rng, depth, tn, qual=0.0):
    if qual and rng.random() < qual:
        return rnd_custom(rng)
    r = rng.random()
    if r < 0.15:
        return {"kind": "nofield"}
    if r < 0.6:
        return {"kind": rng.choice(SCALARS)}
    if r < 0.7 and depth < 3:
        return {"kind": "list", "item": rnd_item(rng, depth + 1, tn, qual)}
    if r < 0.8:
        return rnd_dict(rng, depth + 1, qual)
    if r < 0.9:
        return rnd_schema(rng, depth + 1, tn, 0.0, width=3)
    return rnd_ctype(rng, depth + 1, tn)


def rnd_dict(rng, depth, qual=0.0):
    def side():
        if qual and rng.random() < qual:
            return rnd_custom(rng)
        r = rng.random()
        if r < 0.3:
            return {"kind": "nofield"}
        if r < 0.85 or depth >= 3:
            return {"kind": rng.choice(SCALARS)}
        if r < 0.93:
            return {"kind": "list", "item": {"kind": rng.choice(SCALARS)}}
        return rnd_dict(rng, depth + 1, qual)

    return {"kind": "dict", "keyf": side(), "valf": side()}


def rnd_ctype(rng, depth, tn):
    tn[0] += 1
    d = rnd_schema(rng, depth, tn, 0.0, width=3)
    return {"kind": "ctype", "name": "T%d%s" % (tn[0], rng.choice(["", "Cfg", "_x"])), "fields": d["fields"]}


def rnd_schema(rng, depth, tn, rare, width=9, forbidden=()):
    taken = set()
    fields = []
    for _ in range(rng.randint(0, width)):
        key = rnd_name(rng, taken, forbidden)
        r = rng.random()
        if qual_of(rare) and rng.random() < qual_of(rare):
            f = rnd_custom(rng)
        elif r < 0.42:
            f = {"kind": rng.choice(SCALARS)}
        elif r < 0.47:
            f = {"kind": "appmode", "helpers": rng.random() < 0.6}
            if f["helpers"] and any(k.startswith("is_") for k, _ in fields):
                f["helpers"] = False
            if f["helpers"] and any(g["kind"] == "appmode" and g["helpers"] for _, g in fields):
                f["helpers"] = False
        elif r < 0.57:
            f = {"kind": "list", "item": rnd_item(rng, depth, tn, qual_of(rare))}
        elif r < 0.64:
            f = rnd_dict(rng, depth, qual_of(rare))
        elif r < 0.72 and depth < 3:
            f = rnd_schema(rng, depth + 1, tn, rare, width=4, forbidden=forbidden)
        elif r < 0.78 and depth < 3:
            f = rnd_ctype(rng, depth, tn)
        elif r < 0.86:
            f = {"kind": rng.choice(["virtual", "virtual", "vsetter"])}
        else:
            f = {"kind": "method", "sig": rnd_sig(rng, rare)}
        fields.append([key, f])
    return {"kind": "schema", "fields": fields}


def driver(cinco, seed, n_traces):
    """Seeded random schemas and call sequences on the real library; never consults the
    specification."""
    rng = random.Random(seed)
    forbidden = set(dir(cinco.Config)) | set(dir(cinco.Schema))
    traces = []
    for _ in range(n_traces):
        rare = 0.04 if rng.random() < 0.15 else 0.0
        # one trace in five draws from the classes whose qualified name differs from their name
        mix = Mix(rare, 0.12 if rng.random() < 0.2 else 0.0)
        desc = rnd_schema(rng, 0, [0], mix, forbidden=forbidden)
        desc["dynamic"] = rng.random() < 0.35
        w = World(cinco, desc)
        events = []
        touched = []
        added = []
        for _ in range(rng.randint(2, 9)):
            r = rng.random()
            if r < 0.25 and len(w.configs) < 4:
                ev = {"op": "NewConfig", "via": rng.choice(["schema", "ctype"])}
                touched.append(set())
                added.append(set())
            elif r < 0.40 and desc["dynamic"] and w.configs:
                c = rng.randrange(len(w.configs))
                free = sorted(set(DYN_KEYS) - added[c])
                if not free:
                    continue
                k = rng.choice(free)
                added[c].add(k)
                ev = {"op": "AddDyn", "c": c + 1, "k": k}
            elif r < 0.45 and w.configs and w.settable:
                c = rng.randrange(len(w.configs))
                free = sorted(set(w.settable) - touched[c])
                if not free or len(touched[c]) >= 6:
                    continue
                k = rng.choice(free)
                touched[c].add(k)
                ev = {"op": "Touch", "c": c + 1, "k": k}
            else:
                target = rng.choice(["schema", "ctype", "config", "config"] if w.configs else ["schema", "ctype"])
                ev = {"op": "GenStub", "target": target, "c": rng.randrange(len(w.configs)) + 1 if target == "config" else 0}
            rec = dict(ev)
            rec.update(w.do(ev))
            rec.update(w.observe())
            if ev["op"] == "GenStub" and w.last_text is not None and not isinstance(rec.get("res"), dict):
                rec["text"] = w.last_text[:2000]
            events.append(rec)
        traces.append({"init": {"schema": desc}, "events": events})
    return traces


# ------------------------------------------------------------------------- coverage of the family
def family_stats(family):
    kinds = set()
    pkinds = set()
    anns = set()
    flags = set()

    def walk(f):
        kinds.add(f["kind"])
        if f["kind"] in ("schema", "ctype"):
            for _, g in f["fields"]:
                walk(g)
        elif f["kind"] == "list":
            kinds.add("list-of-" + f["item"]["kind"])
            walk(f["item"])
        elif f["kind"] == "dict":
            walk(f["keyf"])
            walk(f["valf"])
        elif f["kind"] == "custom":
            kinds.add("custom-" + f["st"])
        elif f["kind"] == "method":
            for p in f["sig"]["params"][1:]:
                pkinds.add(p["k"])
                anns.add(p["a"])
                if p["d"]:
                    flags.add("default")
            flags.add("ret" if f["sig"]["ret"] != "noret" else "noret")
            if f["sig"]["ret"] in QUAL_ANN:
                flags.add("ret-" + f["sig"]["ret"])

    for s in family:
        walk(s)
        if s.get("dynamic"):
            flags.add("dynamic")
    return kinds, pkinds, anns, flags


def run(tier, seed):
    cinco = common.import_repo()
    import cincoconfig.stubs  # noqa: F401

    out = common.Outcome("C20")
    d = tlc.scratch("cinco-c20cfg-")
    # 1 + 2a. TLC decides the C20 predicates on the instance and exports the graph
    cfg_x = os.path.join(d, "mc_stubs_%s_export.cfg" % tier)
    write_cfg(cfg_x, tier, export=True)
    keep = ("INIT", "EDGE", "FAM", "TYPES")
    # (one run in both tiers: the exporting configuration checks the same invariants and properties
    # over the same state space - its constraints only print)
    res = exp = tlc.run("MC_Stubs.tla", cfg_x, workers=1, keep=keep)
    if not res.ok:
        out.violation(
            "spec:%s" % res.violation,
            "TLC: %s violated on the specification instance MC_Stubs/%s" % (res.violation, tier),
            {"kind": "tlc-counterexample", "property_predicate": res.violation, "behaviour": res.cex},
        )
    family = exp.printed["FAM"][0]
    kinds, pkinds, anns, flags = family_stats(family)
    need = set(SIMPLE) | {"appmode", "list", "dict", "schema", "ctype", "virtual", "vsetter", "method", "list-of-schema", "list-of-ctype", "list-of-nofield", "custom", "list-of-custom"}
    need |= {"custom-" + st for st in STORAGE_KINDS}
    if not (need <= kinds and pkinds == set(PARAM_KINDS.values()) and {"default", "ret", "noret", "dynamic"} | {"ret-" + a for a in QUAL_ANN} <= flags and {"noann", "int", "listint", "class"} | set(QUAL_ANN) <= anns):
        raise tlc.TLCError("vacuous family: kinds %s, parameter kinds %s, flags %s" % (sorted(need - kinds), sorted(pkinds), sorted(flags)))
    types = {t["sid"]: canon_spec_types(t["types"]) for t in exp.printed.get("TYPES", [])}
    # 2b. spec -> code: every (state, operation) case of the graph on real objects
    edges = [canon_edge(e) for e in exp.printed.get("EDGE", [])]
    g = replay.Graph([canon_state(s) for s in exp.printed.get("INIT", [])], edges)
    adapter = Adapter(cinco, family, types)
    stats, mism = replay.run_graph(adapter, g, seed=seed, stop_after=10**9)
    dyn_gen = sum(1 for cf, ck, alts in g.cases() if alts[0][0]["op"] == "GenStub" and alts[0][0]["target"] == "config" and any(c["dyn"] for c in g.state[cf]["heap"]))
    if not dyn_gen or not stats["by_op"].get("AddDyn"):
        raise tlc.TLCError("vacuous: no GenStub(config) case after AddDyn in the graph")
    gen_by = {}
    for cf, ck, alts in g.cases():
        if alts[0][0]["op"] == "GenStub":
            gen_by.setdefault(alts[0][0]["target"], set()).add(g.state[cf]["sid"])
    if any(len(gen_by.get(t, ())) != len(family) for t in ("schema", "config", "ctype")):
        raise tlc.TLCError("vacuous: GenStub cases per target %s for %d schemas" % ({t: len(v) for t, v in gen_by.items()}, len(family)))
    for m in mism:
        # where the specification leaves a choice (run-time fields declared or not) name the
        # difference against the closest alternative
        sigs = [classify(x["ev"], m.observed["ev"], x["to"], m.observed["state"]) for x in m.expected]
        sig = next((x for x in sigs if not x.startswith("gen:res")), sigs[0])
        js = m.to_json()
        js["schema"] = family[m.init["sid"] - 1]
        for sg in signatures(sig, m.observed["ev"]):
            out.violation(
                sg,
                "spec->code: %s on schema #%d %s: %s%s" % (m.ev.get("op"), m.init["sid"], _short(js["schema"]), m.detail[:300], culprit_text(m.observed["ev"], sg)),
                js,
            )
    # 3. code -> spec
    n_traces = 1500 if tier == "quick" else 20000
    traces = driver(cinco, seed, n_traces)
    slim = [{"init": t["init"], "events": [{k: v for k, v in e.items() if k not in ("text", "culprits")} for e in t["events"]]} for t in traces]
    verdicts, tstats = tracecheck.validate("Trace_Stubs.tla", "Trace_Stubs.cfg", slim, batch=2500)
    rejected = [v for v in verdicts if not v.accepted]
    for v in rejected:
        tr = traces[v.tid]
        k = (v.at or v.consumed + 1) - 1
        e = tr["events"][k] if k < len(tr["events"]) else {}
        if v.model and "ev" in v.model:
            mev = v.model["ev"]
            if "res" in mev:
                mev = dict(mev, res=canon_res(mev["res"]))
            sig = classify(mev, e, {"heap": canon_heap(v.model["heap"]), "stdout": v.model["stdout"], "skeys": orig_keys(tr["init"]["schema"]), "fresh": orig_keys(tr["init"]["schema"])}, e)
        elif v.bad_inv:
            sig = "trace:" + ",".join(v.bad_inv)
        else:
            sig = "trace:not-enabled:%s" % e.get("op")
        js = v.to_json()
        js["schema"] = tr["init"]["schema"]
        js["event"] = e
        for sg in signatures(sig, e):
            out.violation(sg, "code->spec: recorded trace rejected (%s): %s%s" % (_short(tr["init"]["schema"]), v.describe()[:400], culprit_text(e, sg)), js)
    n_events = sum(len(t["events"]) for t in traces)
    n_gen = sum(1 for t in traces for e in t["events"] if e["op"] == "GenStub")
    qual_traces = 0
    for t in traces:
        tk, _, ta, tf = family_stats([t["init"]["schema"]])
        if any(k.startswith("custom") for k in tk) or ta & set(QUAL_ANN) or any(x.startswith("ret-") for x in tf):
            qual_traces += 1
    distinct = {common.hash_case([t["init"]["schema"], e["op"], e.get("target"), e["heap"]]) for t in traces for e in t["events"]}
    for dr in list(adapter.drift.values())[:5]:
        out.notes.append("MODEL-DRIFT (annotation strings are not part of C20): schema #%d spec %s code %s" % (dr["sid"], dr["spec"], dr["code"]))
    sample_case = next(({"schema": family[g.state[cf]["sid"] - 1], "from": g.state[cf], "ev": alts[0][0]} for cf, ck, alts in g.cases() if alts[0][0]["op"] == "GenStub" and alts[0][0]["res"]["methods"]), None)
    out.coverage = {
        "states": res.distinct,
        "transitions": res.generated,
        "exhaustive": True,
        "tlc_depth": res.depth,
        "tlc_instance": "MC_Stubs Tier=%s MaxCfg=1 MaxTouch=1" % tier,
        "family_schemas": len(family),
        "family_field_kinds": sorted(kinds),
        "family_param_kinds": sorted(pkinds),
        "family_annotation_kinds": sorted(anns),
        "traces_validated_against_impl": stats["cases"] + len(verdicts),
        "spec_to_code_cases": stats["cases"],
        "spec_to_code_cases_in_graph": stats["cases_in_graph"],
        "spec_to_code_edges": g.n_edges,
        "spec_to_code_steps": stats["steps"],
        "spec_to_code_by_op": stats["by_op"],
        "spec_to_code_genstub_on_config_with_runtime_fields": dyn_gen,
        "code_to_spec_adddyn_events": sum(1 for t in traces for e in t["events"] if e["op"] == "AddDyn"),
        "spec_to_code_diverted_prefix": stats.get("diverted_prefix", 0),
        "spec_to_code_mismatches": len(mism),
        "annotation_drift_schemas": len(adapter.drift),
        "code_to_spec_traces": len(verdicts),
        "code_to_spec_rejected": len(rejected),
        "code_to_spec_events": n_events,
        "code_to_spec_genstub_events": n_gen,
        "code_to_spec_traces_with_qualified_name_classes": qual_traces,
        "code_to_spec_tlc_states": tstats["states"],
        "evaluations": stats["cases"] + n_events,
        "distinct_nontrivial": len(distinct) + stats["cases"],
        "rule": "spec->code: one case per distinct (schema of the family, heap state, operation+arguments) of the TLC graph "
        "(GenStub for a Schema / a Config / a ConfigType, NewConfig, Touch, AddDyn on dynamic schemas); code->spec: seeded random schemas (<= 9 fields per level, "
        "depth <= 3, every field class, methods with <= 12 parameters of every kind; in one trace out of five also custom fields and annotations over a function-local / a nested class, alone and in generics / unions) and call sequences; "
        "distinct = distinct (schema descriptor, operation, target, heap) among driver events + graph cases; trivial = none excluded",
        "samples": [{"spec_to_code_case": sample_case}, {"code_to_spec_trace": traces[0]}],
    }
    out.assumptions = [
        "'syntactically valid' is decided by ast.parse followed by compile() without execution (the abstraction function); the specification's counterpart is the parameter-list grammar ParseParams (token order, no duplicate names)",
        "an annotation is taken to be an expression iff every dotted class name in it consists of identifiers (CincoStubs!DottedOK: '<locals>' is not one); the fixed text of each annotation kind around the class names is well-formed. The classes are real ones: 'Local' is defined in the body of harness.props.c20.make_local, 'Outer.Inner' is a nested class (their __module__ is set to 'stubtypes'); a custom field is an instance of a Field subclass defined in a method body with that storage_type",
        "when ast.parse rejects a stub, the signature names the failing annotation shape(s): every field / annotation of the schema is rendered alone in a one-declaration probe schema and the rejected probes are reported (diagnosis only; with no rejected probe the signature is plain gen:invalid-syntax)",
        "field keys, parameter names and class names are identifiers that are not Python keywords and not 'self'; a method's first parameter is positional and receives the configuration",
        "annotation *strings* (typing.List[int], module-qualified class names, dropped annotations of *args/**kwargs, return annotations) are mirrored by the specification but are outside C20: a difference is reported as MODEL-DRIFT in notes, not as a violation",
        "'no side effect' is observed as equality of deep structural snapshots (attribute values and object identities of the schema graph, the config type and every configuration made so far) taken before and after, plus captured sys.stdout; stderr, warnings and the file system are not observed",
        "parameter order is compared for positional parameters; attributes, constructor parameters, keyword-only parameters and methods are compared as sets",
        "for a configuration of a dynamic schema that gained fields at run time the stub must declare the schema's fields; whether it also declares the run-time fields is left open (the specification's GenStub is nondeterministic there), but the schema's field table (iteration, get_fields, a freshly built configuration) must be unchanged",
    ]
    return out


def orig_keys(desc):
    """Keys the real schema was built with (ApplicationModeField helpers included)."""
    keys = []
    for k, f in desc["fields"]:
        keys.append(k)
        if f["kind"] == "appmode" and f["helpers"]:
            keys += ["is_development_mode", "is_production_mode"]
    return keys


def _short(desc):
    def one(f):
        if f["kind"] == "custom":
            return "custom(%s)" % f["st"]
        if f["kind"] == "list":
            return "list(%s)" % one(f["item"])
        if f["kind"] == "dict":
            return "dict(%s, %s)" % (one(f["keyf"]), one(f["valf"]))
        if f["kind"] == "method":
            return "method(%s)->%s" % (", ".join(p["a"] for p in f["sig"]["params"]), f["sig"]["ret"])
        return f["kind"]

    return "{" + ", ".join("%s:%s" % (k, one(f)) for k, f in desc["fields"]) + "}"


def replay_file(rec):
    """./check C20 --replay f : run the recorded case again on the tree under test."""
    import json

    cinco = common.import_repo()
    import cincoconfig.stubs  # noqa: F401

    r = rec["replay"]
    desc = r.get("schema")
    if desc is None:
        print(json.dumps(rec, indent=1, sort_keys=True))
        return 0
    w = World(cinco, desc)
    history = r.get("history") or [{k: e[k] for k in ("op", "via", "c", "k", "target") if k in e} for e in r.get("events_up_to_failure", [])[:-1]]
    last = r.get("event") or {}
    for ev in list(history) + [last]:
        if not ev.get("op") or ev["op"] == "Init":
            continue
        obs = w.do(ev)
        print("%s -> %s" % ({k: ev[k] for k in ("op", "via", "c", "k", "target") if k in ev}, json.dumps(obs, sort_keys=True)[:600]))
        if w.last_text and ev["op"] == "GenStub":
            print(w.last_text)
    print("state:", json.dumps(w.observe(), sort_keys=True))
    return 0
