"""C17 - typed list/dict values behave like built-in list/dict of validated items.

Specification: spec/CincoContainers.tla - the typed list/dict as implemented (L, D) next to a
plain Python list/dict on which the same method is performed with normalised arguments (R, RD).
TLC checks C17_Same / C17_Return / C17_StillTyped / C17_Validated over all operation sequences
to the depth bound.  Conformance: every transition of the exported graph and of simulated
deeper behaviours is executed on a real ListProxy / DictProxy AND on a real plain list / dict
(so the specification's model of the built-ins is itself checked against Python); a seeded
driver logs random method calls with wider arguments and TLC replays them (Trace_Containers)."""
import os
import random

from .. import codec, common, replay, tlc, tracecheck

CFG = """CONSTANTS
  ItemF <- MCItemF
  OtherF <- MCOtherF
  KeyF <- MCKeyF
  ValF <- MCValF
  ItemCands <- MCItemCands
  KeyCands <- MCKeyCands
  ValCands <- MCValCands
  MaxLen = {maxlen}
  MaxDepth = {depth}
INIT {init}
NEXT {next}
VIEW {view}
"""
INVS = ["C17_Same", "C17_Return", "C17_StillTyped", "C17_Validated"]


def write_cfg(path, depth, maxlen=4, invs=(), export=False, trace=False):
    text = CFG.format(
        depth=depth,
        maxlen=maxlen,
        init="TraceInit" if trace else "Init",
        next="TraceNext" if trace else "Next",
        view="TraceView" if trace else "View",
    )
    for i in invs:
        text += "INVARIANT %s\n" % i
    if export:
        text += "ACTION_CONSTRAINT Export\nCONSTRAINT PInit\n"
    if trace:
        text += "ACTION_CONSTRAINT Report\nCONSTRAINT ReportState\n"
    with open(path, "w") as fp:
        fp.write(text)


class Rejected(Exception):
    pass


def out_class(exc):
    if isinstance(exc, ValueError):  # incl. the library's ValidationError
        return "ValueError"
    for c in (IndexError, KeyError, TypeError):
        if isinstance(exc, c):
            return c.__name__
    return type(exc).__name__


def A(x):
    """Python value -> abstract value (typed containers as plain list/dict)."""
    if isinstance(x, list):
        return {"t": "list", "l": [A(i) for i in x]}
    if isinstance(x, tuple):
        return {"t": "tuple", "l": [A(i) for i in x]}
    if isinstance(x, dict):
        return {"t": "dict", "kv": [[A(k), A(v)] for k, v in x.items()]}
    return codec.to_abs(x)


def P(v):
    return codec.to_py(v)


class World:
    def __init__(self, cinco):
        self.cinco = cinco
        F = cinco.fields
        s = cinco.Schema()
        s.l = F.ListField(F.IntField(min=0), default=lambda: [])
        s.m = F.ListField(F.IntField(), default=lambda: [])
        s.d = F.DictField(F.StringField(transform_case="upper"), F.IntField(min=0), default=lambda: {})
        self.schema = s
        self.cfg = s()
        self.cfg2 = s()
        self.L = self.cfg.l
        self.D = self.cfg.d
        self.R = []
        self.RD = {}

    def observe(self):
        return {
            "L": [A(i) for i in list(self.L)],
            "R": [A(i) for i in self.R],
            "D": [[A(k), A(v)] for k, v in dict(self.D).items()],
            "RD": [[A(k), A(v)] for k, v in self.RD.items()],
        }

    # ---- arguments
    def src(self, s):
        vs = [P(v) for v in codec.seq(s.get("vs", []))]
        k = s["k"]
        if k == "list":
            return list(vs)
        if k == "tuple":
            return tuple(vs)
        if k == "iter":
            return iter(vs)
        if k == "same":
            return self.L.copy()
        if k == "other":
            self.cfg.m = vs
            return self.cfg.m
        raise ValueError(k)

    def dsrc(self, s):
        kvs = [(P(k), P(v)) for k, v in codec.seq(s.get("kvs", []))]
        k = s["k"]
        if k == "dict":
            return (dict(kvs),), {}
        if k == "pairs":
            return (list(kvs),), {}
        if k == "kwargs":
            return (), dict(kvs)
        if k == "same":
            return (self.D.copy(),), {}
        if k == "other":
            self.cfg2.d = dict(kvs)
            return (self.cfg2.d,), {}
        raise ValueError(k)

    # ---- one method call on a list-like / dict-like object
    def call_list(self, target, op, ref=False):
        m = op["m"]
        x = lambda: P(op["x"])  # noqa
        xs = lambda: ([P(v) for v in codec.seq(op["xs"])] if ref else self.src(op["src"]))  # noqa
        if m == "append":
            return target.append(x())
        if m == "insert":
            return target.insert(op["i"], x())
        if m == "setitem":
            target[op["i"]] = x()
            return None
        if m == "extend":
            return target.extend(xs())
        if m == "iadd":
            target += xs()
            return None
        if m == "setslice":
            target[op["lo"] : op["hi"]] = xs()
            return None
        if m == "delitem":
            del target[op["i"]]
            return None
        if m == "delslice":
            del target[op["lo"] : op["hi"]]
            return None
        if m == "pop":
            return target.pop()
        if m == "popi":
            return target.pop(op["i"])
        if m == "remove":
            return target.remove(x())
        if m == "index":
            return target.index(x())
        if m == "count":
            return target.count(x())
        if m == "contains":
            return x() in target
        if m == "getitem":
            return target[op["i"]]
        if m == "getslice":
            return target[op["lo"] : op["hi"]]
        if m == "len":
            return len(target)
        if m == "sort":
            return target.sort()
        if m == "reverse":
            return target.reverse()
        if m == "clear":
            return target.clear()
        if m == "copy":
            return target.copy()
        if m == "add":
            return target + xs()
        if m == "mul":
            return target * op["n"]
        if m == "imul":
            target *= op["n"]
            return None
        if m == "eq":
            return target == [P(v) for v in codec.seq(op["xs"])]
        raise ValueError(m)

    def call_dict(self, target, op, ref=False):
        m = op["m"]
        if m == "setitem":
            target[P(op["k"])] = P(op["v"])
            return None
        if m in ("update", "ior"):
            if ref:
                args, kw = ([(P(k), P(v)) for k, v in codec.seq(op["kvs"])],), {}
            else:
                args, kw = self.dsrc(op["src"])
            if m == "update":
                return target.update(*args, **kw)
            target |= args[0]
            return None
        if m == "setdefault":
            return target.setdefault(P(op["k"]), P(op["v"]))
        if m == "pop":
            return target.pop(P(op["k"]))
        if m == "popd":
            return target.pop(P(op["k"]), P(op["v"]))
        if m == "popitem":
            return target.popitem()
        if m == "delitem":
            del target[P(op["k"])]
            return None
        if m == "clear":
            return target.clear()
        if m == "copy":
            return target.copy()
        if m == "get":
            return target.get(P(op["k"]))
        if m == "contains":
            return P(op["k"]) in target
        if m == "keys":
            return list(target.keys())
        if m == "len":
            return len(target)
        raise ValueError(m)

    def typed(self, result, kind):
        """Is the result still a typed container that validates what is put in?"""
        F = self.cinco.fields
        if kind == "list":
            if not isinstance(result, F.ListProxy):
                return False
            try:
                result.append(-1)
            except ValueError:
                pass
            else:
                return False
            result.append("7")
            return result[-1] == 7
        if not isinstance(result, F.DictProxy):
            return False
        try:
            result["zz"] = -1
        except ValueError:
            pass
        else:
            return False
        result["q"] = "4"
        return result.get("Q") == 4

    def step(self, ev):
        op = ev["op"]
        kind = ev["c"]
        target = self.L if kind == "list" else self.D
        call = self.call_list if kind == "list" else self.call_dict
        res = {}
        try:
            ret = call(target, op)
            res["out"] = "ok"
            res["typed"] = False
            if op["m"] in ("copy", "add"):
                res["typed"] = self.typed(ret, kind)
                ret = list(ret) if kind == "list" else dict(ret)
                # the probe appended to the copy: drop what it added
                ret = ret[:-1] if kind == "list" else {k: v for k, v in ret.items() if k != "Q"}
            res["ret"] = A(ret)
        except Exception as exc:  # noqa
            res["out"] = out_class(exc)
            res["ret"] = {"t": "none"}
            res["typed"] = False
        # the reference: the same method on the plain built-in with the normalised arguments
        if ev.get("acceptable") and "rop" in ev:
            rt = self.R if kind == "list" else self.RD
            try:
                rret = call(rt, ev["rop"], ref=True)
                res["rout"] = "ok"
                if isinstance(rret, (list, dict)) and ev["rop"]["m"] in ("copy", "add", "mul", "getslice", "keys"):
                    rret = type(rret)(rret)
                res["rret"] = A(rret)
            except Exception as exc:  # noqa
                res["rout"] = out_class(exc)
                res["rret"] = {"t": "none"}
        else:
            # the reference follows a call with unacceptable arguments
            if kind == "list":
                self.R[:] = list(self.L)
            else:
                self.RD.clear()
                self.RD.update(dict(self.D))
            res["rout"] = "n/a"
            res["rret"] = {"t": "none"}
        return res


class Adapter:
    def __init__(self, cinco):
        self.cinco = cinco

    def start(self, init):
        return World(self.cinco)

    def step(self, w, ev):
        return w.step(ev)

    def observe(self, w):
        return w.observe()

    def close(self, w):
        pass


def normalise(edges, inits):
    def st(s):
        return {
            "L": [codec.norm(v) for v in codec.seq(s["L"])],
            "R": [codec.norm(v) for v in codec.seq(s["R"])],
            "D": [[codec.norm(k), codec.norm(v)] for k, v in codec.seq(s["D"])],
            "RD": [[codec.norm(k), codec.norm(v)] for k, v in codec.seq(s["RD"])],
        }

    for e in edges:
        e["from"] = st(e["from"])
        e["to"] = st(e["to"])
        for f in ("ret", "rret"):
            if f in e["ev"]:
                e["ev"][f] = codec.norm(e["ev"][f])
    return edges, [st(s) for s in inits]


def run(tier, seed):
    cinco = common.import_repo()
    out = common.Outcome("C17")
    d = tlc.scratch("cinco-c17-")
    depth = 2 if tier == "quick" else 3
    cfg = os.path.join(d, "mc.cfg")
    write_cfg(cfg, depth, invs=INVS)
    res = tlc.run("MC_Containers.tla", cfg, workers=16, keep=())
    if not res.ok:
        out.violation(
            "spec:%s" % res.violation,
            "TLC: %s violated on CincoContainers (depth %d)" % (res.violation, depth),
            {"kind": "tlc-counterexample", "predicate": res.violation, "behaviour": res.cex},
        )
    adapter = Adapter(cinco)
    cfgx = os.path.join(d, "x.cfg")
    write_cfg(cfgx, 1, export=True)
    exp = tlc.run("MC_Containers.tla", cfgx, workers=1, keep=("INIT", "EDGE"))
    edges, inits = normalise(exp.printed.get("EDGE", []), exp.printed.get("INIT", []))
    g = replay.Graph(inits, edges)
    stats, mism = replay.run_graph(adapter, g, seed=seed)
    cfgs = os.path.join(d, "s.cfg")
    write_cfg(cfgs, 99, export=True)
    nsim, dsim = (200, 8) if tier == "quick" else (3000, 12)
    sim = tlc.run("MC_Containers.tla", cfgs, workers=1, simulate=nsim, depth=dsim, seed=seed + 1, keep=("INIT", "EDGE"))
    sedges, sinits = normalise(sim.printed.get("EDGE", []), sim.printed.get("INIT", []))
    g2 = replay.Graph(sinits + inits, sedges)
    stats2, mism2 = replay.run_graph(adapter, g2, seed=seed)
    for m in (mism + mism2)[:30]:
        out.violation(
            "replay:%s:%s:%s" % (m.ev["c"], m.ev["op"]["m"], m.detail.split(":")[0]),
            "spec->code: %s.%s differs from the specification: %s" % (m.ev["c"], {k: v for k, v in m.ev["op"].items()}, m.detail[:300]),
            m.to_json(),
        )
    cases = stats["cases"] + stats2["cases"]
    distinct = {common.hash_case([cf, ck]) for cf, ck, _ in list(g.cases()) + list(g2.cases())}
    out.coverage = {
        "states": res.distinct,
        "transitions": res.generated,
        "exhaustive": True,
        "tlc_instance": "MC_Containers MaxDepth=%d MaxLen=4" % depth,
        "traces_validated_against_impl": cases,
        "spec_to_code_graph_cases": stats["cases"],
        "spec_to_code_sim_cases": stats2["cases"],
        "spec_to_code_by_op": {k: stats["by_op"].get(k, 0) + stats2["by_op"].get(k, 0) for k in set(stats["by_op"]) | set(stats2["by_op"])},
        "evaluations": cases,
        "distinct_nontrivial": len(distinct),
        "rule": "case = distinct (contents of typed list, reference list, typed dict, reference dict; method with arguments); "
        "each case runs the method on the real typed container and the same method with normalised arguments on a plain "
        "list/dict; all cases of the level-1 graph plus those along seeded simulated behaviours",
        "samples": [{"case": alts[0][0]} for _, _, alts in list(g2.cases())[:3]],
    }
    out.assumptions = [
        "item field IntField(min=0), key field StringField(upper), value field IntField(min=0); arguments drawn from small pools "
        "(valid, normalising, invalid) in every iterable kind (list, tuple, iterator, typed list of the same field, typed list of another field; dict, pairs, keywords, compatible and incompatible typed dict)",
        "equality of items is structural (pools avoid 1 == True == 1.0 collisions)",
        "the type returned by proxy * n, slicing reads and reversed operands is left free (compared by contents only)",
        "which ValueError subclass a rejected item raises is left free",
    ]
    return out
