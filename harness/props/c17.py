"""C17 - typed list/dict values behave like built-in list/dict of validated items.

Specification: spec/CincoContainers.tla - the typed list/dict as implemented (L, D) next to a
plain Python list/dict on which the same method is performed with normalised arguments (R, RD).
TLC checks C17_Same / C17_Return / C17_StillTyped / C17_Validated over all operation sequences
to the depth bound.  Conformance: every transition of the exported graph and of simulated
deeper behaviours is executed on a real ListProxy / DictProxy AND on a real plain list / dict
(so the specification's model of the built-ins is itself checked against Python); a seeded
driver logs random method calls with wider arguments and TLC replays them (Trace_Containers)."""
import os
import random

from .. import codec, common, replay, tlc, tracecheck

CFG = """CONSTANTS
  ItemF <- MCItemF
  OtherF <- MCOtherF
  KeyF <- MCKeyF
  ValF <- MCValF
  ItemCands <- MCItemCands
  KeyCands <- MCKeyCands
  ValCands <- MCValCands
  MaxLen = {maxlen}
  MaxDepth = {depth}
INIT {init}
NEXT {next}
VIEW {view}
"""
INVS = ["C17_Same", "C17_Return", "C17_StillTyped", "C17_Validated"]


def write_cfg(path, depth, maxlen=4, invs=(), export=False, trace=False):
    text = CFG.format(
        depth=depth,
        maxlen=maxlen,
        init="TraceInit" if trace else "Init",
        next="TraceNext" if trace else "Next",
        view="TraceView" if trace else "View",
    )
    for i in invs:
        text += "INVARIANT %s\n" % i
    if export:
        text += "ACTION_CONSTRAINT Export\nCONSTRAINT PInit\n"
    if trace:
        text += "ACTION_CONSTRAINT Report\nCONSTRAINT ReportState\n"
    with open(path, "w") as fp:
        fp.write(text)


class Rejected(Exception):
    pass


def out_class(exc):
    if isinstance(exc, ValueError):  # incl. the library's ValidationError
        return "ValueError"
    for c in (IndexError, KeyError, TypeError):
        if isinstance(exc, c):
            return c.__name__
    return type(exc).__name__


def A(x):
    """Python value -> abstract value (typed containers as plain list/dict)."""
    if isinstance(x, list):
        return {"t": "list", "l": [A(i) for i in x]}
    if isinstance(x, tuple):
        return {"t": "tuple", "l": [A(i) for i in x]}
    if isinstance(x, dict):
        return {"t": "dict", "kv": [[A(k), A(v)] for k, v in x.items()]}
    return codec.to_abs(x)


def P(v):
    return codec.to_py(v)


class World:
    def __init__(self, cinco):
        self.cinco = cinco
        F = cinco.fields
        s = cinco.Schema()
        s.l = F.ListField(F.IntField(min=0), default=lambda: [])
        s.m = F.ListField(F.IntField(), default=lambda: [])
        s.d = F.DictField(F.StringField(transform_case="upper"), F.IntField(min=0), default=lambda: {})
        self.schema = s
        self.cfg = s()
        self.cfg2 = s()
        self.L = self.cfg.l
        self.D = self.cfg.d
        self.R = []
        self.RD = {}

    def observe(self):
        return {
            "L": [A(i) for i in list(self.L)],
            "R": [A(i) for i in self.R],
            "D": [[A(k), A(v)] for k, v in dict(self.D).items()],
            "RD": [[A(k), A(v)] for k, v in self.RD.items()],
        }

    # ---- arguments
    def src(self, s):
        vs = [P(v) for v in codec.seq(s.get("vs", []))]
        k = s["k"]
        if k == "list":
            return list(vs)
        if k == "tuple":
            return tuple(vs)
        if k == "iter":
            return iter(vs)
        if k == "same":
            return self.L.copy()
        if k == "other":
            self.cfg.m = vs
            return self.cfg.m
        raise ValueError(k)

    def dsrc(self, s):
        kvs = [(P(k), P(v)) for k, v in codec.seq(s.get("kvs", []))]
        k = s["k"]
        if k == "dict":
            return (dict(kvs),), {}
        if k == "pairs":
            return (list(kvs),), {}
        if k == "kwargs":
            return (), dict(kvs)
        if k == "same":
            return (self.D.copy(),), {}
        if k == "other":
            self.cfg2.d = dict(kvs)
            return (self.cfg2.d,), {}
        raise ValueError(k)

    # ---- one method call on a list-like / dict-like object
    def call_list(self, target, op, ref=False):
        m = op["m"]
        x = lambda: P(op["x"])  # noqa
        xs = lambda: ([P(v) for v in codec.seq(op["xs"])] if ref else self.src(op["src"]))  # noqa
        if m == "append":
            return target.append(x())
        if m == "insert":
            return target.insert(op["i"], x())
        if m == "setitem":
            target[op["i"]] = x()
            return None
        if m == "extend":
            return target.extend(xs())
        if m == "iadd":
            target += xs()
            return None
        if m == "setslice":
            target[op["lo"] : op["hi"]] = xs()
            return None
        if m == "delitem":
            del target[op["i"]]
            return None
        if m == "delslice":
            del target[op["lo"] : op["hi"]]
            return None
        if m == "pop":
            return target.pop()
        if m == "popi":
            return target.pop(op["i"])
        if m == "remove":
            return target.remove(x())
        if m == "index":
            return target.index(x())
        if m == "count":
            return target.count(x())
        if m == "contains":
            return x() in target
        if m == "getitem":
            return target[op["i"]]
        if m == "getslice":
            return target[op["lo"] : op["hi"]]
        if m == "len":
            return len(target)
        if m == "sort":
            return target.sort()
        if m == "reverse":
            return target.reverse()
        if m == "clear":
            return target.clear()
        if m == "copy":
            return target.copy()
        if m == "add":
            return target + xs()
        if m == "radd":
            return list(xs()) + target
        if m == "mul":
            return target * op["n"]
        if m == "imul":
            target *= op["n"]
            return None
        if m == "eq":
            return target == [P(v) for v in codec.seq(op["xs"])]
        raise ValueError(m)

    def call_dict(self, target, op, ref=False):
        m = op["m"]
        if m == "setitem":
            target[P(op["k"])] = P(op["v"])
            return None
        if m in ("update", "ior"):
            if ref:
                args, kw = ([(P(k), P(v)) for k, v in codec.seq(op["kvs"])],), {}
            else:
                args, kw = self.dsrc(op["src"])
            if m == "update":
                return target.update(*args, **kw)
            target |= args[0]
            return None
        if m == "ror":
            plain = dict([(P(k), P(v)) for k, v in codec.seq(op["kvs"])]) if ref else dict(self.dsrc(op["src"])[0][0])
            return plain | target
        if m == "update_kw":
            args, _ = self.dsrc(op["src"])
            kw = {P(k): P(v) for k, v in codec.seq(op["kw"])}
            return target.update(*args, **kw)
        if m == "setdefault":
            return target.setdefault(P(op["k"]), P(op["v"]))
        if m == "pop":
            return target.pop(P(op["k"]))
        if m == "popd":
            return target.pop(P(op["k"]), P(op["v"]))
        if m == "popitem":
            return target.popitem()
        if m == "delitem":
            del target[P(op["k"])]
            return None
        if m == "clear":
            return target.clear()
        if m == "copy":
            return target.copy()
        if m == "get":
            return target.get(P(op["k"]))
        if m == "contains":
            return P(op["k"]) in target
        if m == "keys":
            return list(target.keys())
        if m == "len":
            return len(target)
        raise ValueError(m)

    def typed(self, result, kind):
        """Is the result still a typed container that validates what is put in?"""
        F = self.cinco.fields
        if kind == "list":
            if not isinstance(result, F.ListProxy):
                return False
            try:
                result.append(-1)
            except ValueError:
                pass
            else:
                return False
            result.append("7")
            return result[-1] == 7
        if not isinstance(result, F.DictProxy):
            return False
        try:
            result["zz"] = -1
        except ValueError:
            pass
        else:
            return False
        result["q"] = "4"
        return result.get("Q") == 4

    def step(self, ev):
        op = ev["op"]
        kind = ev["c"]
        target = self.L if kind == "list" else self.D
        call = self.call_list if kind == "list" else self.call_dict
        res = {}
        try:
            ret = call(target, op)
            res["out"] = "ok"
            res["typed"] = False
            if op["m"] in ("copy", "add"):
                res["typed"] = self.typed(ret, kind)
                ret = list(ret) if kind == "list" else dict(ret)
                # the probe appended to the copy: drop what it added
                ret = ret[:-1] if kind == "list" else {k: v for k, v in ret.items() if k != "Q"}
            res["ret"] = A(ret)
        except Exception as exc:  # noqa
            res["out"] = out_class(exc)
            res["ret"] = {"t": "none"}
            res["typed"] = False
        # the reference: the same method on the plain built-in with the normalised arguments
        if ev.get("acceptable") and "rop" in ev:
            rt = self.R if kind == "list" else self.RD
            try:
                rret = call(rt, ev["rop"], ref=True)
                res["rout"] = "ok"
                if isinstance(rret, (list, dict)) and ev["rop"]["m"] in ("copy", "add", "mul", "getslice", "keys"):
                    rret = type(rret)(rret)
                res["rret"] = A(rret)
            except Exception as exc:  # noqa
                res["rout"] = out_class(exc)
                res["rret"] = {"t": "none"}
        else:
            # the reference follows a call with unacceptable arguments
            if kind == "list":
                self.R[:] = list(self.L)
            else:
                self.RD.clear()
                self.RD.update(dict(self.D))
            res["rout"] = "n/a"
            res["rret"] = {"t": "none"}
        return res


class Adapter:
    def __init__(self, cinco):
        self.cinco = cinco

    def start(self, init):
        return World(self.cinco)

    def step(self, w, ev):
        return w.step(ev)

    def observe(self, w):
        return w.observe()

    def close(self, w):
        pass


def normalise(edges, inits):
    def st(s):
        return {
            "L": [codec.norm(v) for v in codec.seq(s["L"])],
            "R": [codec.norm(v) for v in codec.seq(s["R"])],
            "D": [[codec.norm(k), codec.norm(v)] for k, v in codec.seq(s["D"])],
            "RD": [[codec.norm(k), codec.norm(v)] for k, v in codec.seq(s["RD"])],
        }

    for e in edges:
        e["from"] = st(e["from"])
        e["to"] = st(e["to"])
        for f in ("ret", "rret"):
            if f in e["ev"]:
                e["ev"][f] = codec.norm(e["ev"][f])
    return edges, [st(s) for s in inits]


def S(text):
    return {"t": "str", "s": list(text)}


def I(n):
    return {"t": "int", "i": n}


def driver(cinco, seed, n_traces, length):
    """Seeded random method calls on a real typed list / dict (values beyond TLC's pools)."""
    rng = random.Random(seed)
    traces = []

    def item():
        return rng.choice([I(rng.randint(0, 40)), I(rng.randint(0, 3)), S(str(rng.randint(0, 30))), S(" %d " % rng.randint(0, 9)), I(-rng.randint(1, 9)), S("x%d" % rng.randint(0, 9))])

    def other_item():
        return rng.choice([I(rng.randint(-5, 30)), S(str(rng.randint(-3, 20)))])

    def src():
        k = rng.choice(["list", "tuple", "iter", "other", "same"])
        if k == "same":
            return {"k": "same", "vs": []}
        return {"k": k, "vs": [other_item() if k == "other" else item() for _ in range(rng.randint(0, 3))]}

    def key():
        return rng.choice([S(rng.choice(["a", "A", "b", "Bc", "k1"])), S(rng.choice(["a", "A", "b", "Bc", "k1"])), I(rng.randint(0, 2))])

    def val():
        return rng.choice([I(rng.randint(0, 20)), S(str(rng.randint(0, 20))), I(-1), S("v")])

    def dsrc():
        k = rng.choice(["dict", "pairs", "kwargs", "other", "same"])
        if k == "same":
            return {"k": "same", "kvs": []}
        kvs, seen = [], set()
        for _ in range(rng.randint(0, 3)):
            kk = key() if k not in ("kwargs",) else S(rng.choice(["a", "A", "b", "k1"]))
            tag = repr(kk)
            if k != "pairs" and tag in seen:
                continue
            seen.add(tag)
            kvs.append([kk, val()])
        if k == "other":
            kvs = [[kk, vv] for kk, vv in kvs if kk["t"] == "str" and (vv["t"] == "int" and vv["i"] >= 0 or vv["t"] == "str" and vv["s"] != ["v"])]
        return {"k": k, "kvs": kvs}

    for _ in range(n_traces):
        w = World(cinco)
        events = []
        for _ in range(length):
            if rng.random() < 0.6:
                m = rng.choice(["append", "insert", "setitem", "extend", "iadd", "setslice", "delitem", "delslice", "pop", "popi", "remove", "index", "count", "contains", "getitem", "getslice", "len", "sort", "reverse", "clear", "copy", "add", "radd", "mul", "imul", "eq"])
                op = {"m": m}
                if m in ("append", "remove", "index", "count", "contains"):
                    op["x"] = item()
                elif m in ("insert", "setitem"):
                    op.update(i=rng.randint(-4, 5), x=item())
                elif m == "radd":
                    op["src"] = {"k": "list", "vs": [item() for _ in range(rng.randint(0, 3))]}
                elif m in ("extend", "iadd", "add"):
                    op["src"] = src()
                elif m == "setslice":
                    op.update(lo=rng.randint(-2, 3), hi=rng.randint(-1, 6), src=src())
                elif m in ("delitem", "popi", "getitem"):
                    op["i"] = rng.randint(-4, 5)
                elif m in ("delslice", "getslice"):
                    op.update(lo=rng.randint(-2, 3), hi=rng.randint(-1, 6))
                elif m in ("mul", "imul"):
                    op["n"] = rng.randint(0, 2)
                elif m == "eq":
                    op["xs"] = [I(rng.randint(0, 3)) for _ in range(rng.randint(0, 2))]
                if len(w.L) > 12 and m in ("imul", "extend", "iadd", "append", "insert", "setslice"):
                    continue
                if "src" in op and op["src"]["k"] == "other" and any(v["t"] == "str" and not v["s"][-1:][0].isdigit() for v in op["src"]["vs"] if v["t"] == "str" and v["s"]):
                    continue
                ev = {"c": "list", "op": op}
            else:
                m = rng.choice(["setitem", "update", "update_kw", "ior", "ror", "setdefault", "pop", "popd", "popitem", "delitem", "clear", "copy", "get", "contains", "keys", "len"])
                op = {"m": m}
                if m in ("setitem", "setdefault", "popd"):
                    op.update(k=key(), v=val())
                elif m in ("update", "ior"):
                    op["src"] = dsrc()
                    if m == "ior" and op["src"]["k"] == "kwargs":
                        continue
                elif m == "ror":
                    op["src"] = {"k": "dict", "kvs": [[S(k), {"t": "int", "i": rng.randint(0, 9)}] for k in rng.sample(["A", "B", "K1", "Z"], rng.randint(0, 3))]}
                elif m == "update_kw":
                    op["src"] = dsrc()
                    if op["src"]["k"] in ("kwargs", "pairs"):
                        op["src"]["k"] = "same"
                        op["src"]["kvs"] = []
                    op["kw"] = [[S(rng.choice(["a", "A", "b", "k1"])), val()] for _ in range(rng.randint(1, 2))]
                    if len({tuple(k["s"]) for k, _ in op["kw"]}) < len(op["kw"]):
                        continue
                elif m in ("pop", "delitem", "get", "contains"):
                    op["k"] = key()
                ev = {"c": "dict", "op": op}
            try:
                res = w.step(dict(ev, acceptable=False))
                obs = w.observe()
            except codec.Unrepresentable:
                break
            rec = {"c": ev["c"], "op": ev["op"], "out": res["out"], "ret": res["ret"], "typed": res["typed"], "L": obs["L"], "D": obs["D"]}
            events.append(rec)
        traces.append({"init": {}, "events": events})
    return traces


def run(tier, seed):
    cinco = common.import_repo()
    out = common.Outcome("C17")
    d = tlc.scratch("cinco-c17-")
    depth = 2 if tier == "quick" else 3
    cfg = os.path.join(d, "mc.cfg")
    write_cfg(cfg, depth, invs=INVS)
    res = tlc.run("MC_Containers.tla", cfg, workers=16, keep=())
    if not res.ok:
        out.violation(
            "spec:%s" % res.violation,
            "TLC: %s violated on CincoContainers (depth %d)" % (res.violation, depth),
            {"kind": "tlc-counterexample", "predicate": res.violation, "behaviour": res.cex},
        )
    adapter = Adapter(cinco)
    cfgx = os.path.join(d, "x.cfg")
    write_cfg(cfgx, 1, export=True)
    exp = tlc.run("MC_Containers.tla", cfgx, workers=1, keep=("INIT", "EDGE"))
    edges, inits = normalise(exp.printed.get("EDGE", []), exp.printed.get("INIT", []))
    g = replay.Graph(inits, edges)
    stats, mism = replay.run_graph(adapter, g, seed=seed)
    cfgs = os.path.join(d, "s.cfg")
    write_cfg(cfgs, 99, export=True)
    nsim, dsim = (200, 8) if tier == "quick" else (3000, 12)
    sim = tlc.run("MC_Containers.tla", cfgs, workers=1, simulate=nsim, depth=dsim, seed=seed + 1, keep=("INIT", "EDGE"))
    sedges, sinits = normalise(sim.printed.get("EDGE", []), sim.printed.get("INIT", []))
    g2 = replay.Graph(sinits + inits, sedges)
    stats2, mism2 = replay.run_graph(adapter, g2, seed=seed)
    for m in (mism + mism2)[:30]:
        out.violation(
            "replay:%s:%s:%s" % (m.ev["c"], m.ev["op"]["m"], m.detail.split(":")[0]),
            "spec->code: %s.%s differs from the specification: %s" % (m.ev["c"], {k: v for k, v in m.ev["op"].items()}, m.detail[:300]),
            m.to_json(),
        )
    # code -> spec
    ntr, ltr = (300, 14) if tier == "quick" else (4000, 20)
    traces = driver(cinco, seed, ntr, ltr)
    tcfg = os.path.join(d, "trace.cfg")
    write_cfg(tcfg, 99, maxlen=200, trace=True)
    verdicts, tstats = tracecheck.validate("Trace_Containers.tla", tcfg, traces)
    for v in [v for v in verdicts if not v.accepted][:20]:
        k = (v.at or v.consumed + 1) - 1
        e = v.trace["events"][k] if k < len(v.trace["events"]) else {}
        out.violation(
            "trace:%s:%s:%s" % (e.get("c"), (e.get("op") or {}).get("m"), ",".join(v.bad_inv or v.bad_obs or ["not-enabled"])),
            "code->spec: recorded %s trace rejected: %s" % (e.get("c"), v.describe()[:300]),
            v.to_json(),
        )
    cases = stats["cases"] + stats2["cases"] + len(verdicts)
    distinct = {common.hash_case([cf, ck]) for cf, ck, _ in list(g.cases()) + list(g2.cases())}
    out.coverage = {
        "states": res.distinct,
        "transitions": res.generated,
        "exhaustive": True,
        "tlc_instance": "MC_Containers MaxDepth=%d MaxLen=4" % depth,
        "traces_validated_against_impl": cases,
        "spec_to_code_graph_cases": stats["cases"],
        "spec_to_code_sim_cases": stats2["cases"],
        "code_to_spec_traces": len(verdicts),
        "code_to_spec_events": sum(len(t["events"]) for t in traces),
        "code_to_spec_tlc_states": tstats["states"],
        "spec_to_code_by_op": {k: stats["by_op"].get(k, 0) + stats2["by_op"].get(k, 0) for k in set(stats["by_op"]) | set(stats2["by_op"])},
        "evaluations": cases,
        "distinct_nontrivial": len(distinct),
        "rule": "case = distinct (contents of typed list, reference list, typed dict, reference dict; method with arguments); "
        "each case runs the method on the real typed container and the same method with normalised arguments on a plain "
        "list/dict; all cases of the level-1 graph plus those along seeded simulated behaviours",
        "samples": [{"case": alts[0][0]} for _, _, alts in list(g2.cases())[:3]],
    }
    out.assumptions = [
        "item field IntField(min=0), key field StringField(upper), value field IntField(min=0); arguments drawn from small pools "
        "(valid, normalising, invalid) in every iterable kind (list, tuple, iterator, typed list of the same field, typed list of another field; dict, pairs, keywords, compatible and incompatible typed dict)",
        "equality of items is structural (pools avoid 1 == True == 1.0 collisions)",
        "the type returned by proxy * n, slicing reads and reversed operands is left free (compared by contents only)",
        "which ValueError subclass a rejected item raises is left free",
    ]
    return out
