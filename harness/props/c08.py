"""C08 - ciphers invert exactly; AES is standard with a fresh IV; bad input is rejected (see crypto.py)."""
from . import crypto


def run(tier, seed):
    return crypto.run_crypto("C08", tier, seed)
