"""C19 - a failed save never damages the file on disk; a successful one loads back.

Specification: spec/CincoSave.tla - Config.save as a machine of steps with a program counter
(Begin -> Resolve -> Encode(i) [-> OpenKey -> GenKey -> Encrypt] ... -> Dump -> OpenForWrite ->
Write -> Close -> Finish -> Load), faults injected at every step, the destination holding a
previously saved document.  TLC decides C19_Untouched / C19_Exact / C19_LoadsBack /
C19_SerialiseThenOpen / C19_FaultRaises exhaustively on the bounded instances and prints every
complete behaviour; each is executed on the real library with the faults injected from outside
(spec -> code).  A seeded driver runs random schemas / values / formats / fault sets / several
saves in a row on the real library, logs the observed steps and file states, and
Trace_CincoSave.tla replays the logs and evaluates the property on the observations
(code -> spec).

Field kinds include values that are not plain YAML / JSON types but are stored as-is by free-form
fields: a tuple in an untyped Field / AnyField ("tuple"), inside an untyped ListField ("ltuple"),
nested inside a value of an untyped DictField ("dtuple").  They lie in the domain of yaml (full
Dumper / Loader), pickle and the custom format - a successful save must load back equal there -
while json / bson write an array that loads as a list (outside the domain: the specification
leaves the loaded value open, "?") and xml's dumps raises.

What is observed on the real code (never through private attributes):
  R   the (logging subclass of the) formatter was constructed by ConfigFormat.get
  E i field i's to_basic was entered (logging subclasses of the field classes)
  K i the key file was opened for reading      G i  the key file was opened for writing
  D   formatter.dumps was entered; its return value is "the bytes serialisation produced"
  W   the destination was opened in a write mode (wrapped builtins.open / io.open / os.open /
      os.replace / os.rename)      B  first write() on that handle      C  it was closed
and, at every one of these moments, the bytes of the destination on disk, named relative to the
save: absent | empty | prev (the bytes when save was called) | new (the captured serialisation)
| partial | other.
"""
import ast
import builtins
import collections
import io
import json
import multiprocessing
import os
import random
import shutil

from .. import common, tlc, tracecheck

K1 = bytes(range(1, 33))
REAL_FORMATS = ["json", "yaml", "xml", "bson", "pickle"]
INVARIANTS = ["TypeOK", "C19_Untouched", "C19_Exact", "C19_LoadsBack", "C19_FaultRaises"]
PROPERTIES = ["C19_SerialiseThenOpen"]
CTRL_CODES = [c for c in range(1, 32) if c not in (9, 10, 13)]
PRE_OPEN_STEPS = {"R", "E", "K", "G", "D"}
TUPLE_KINDS = ("tuple", "ltuple", "dtuple")
WRITE_STEPS = {"W", "B", "C"}

_ORIG = {
    "builtins.open": builtins.open,
    "io.open": io.open,
    "os.open": os.open,
    "os.replace": os.replace,
    "os.rename": os.rename,
}
ACTIVE = None  # the Recorder of the save in progress


class InjectedFault(Exception):
    """Raised by the harness' own field / format subclasses (a fault from outside the library)."""


def _norm(p):
    try:
        p = os.fspath(p)
    except TypeError:
        return None
    if isinstance(p, bytes):
        p = os.fsdecode(p)
    return os.path.abspath(os.path.expanduser(p))


def _is_write_mode(mode):
    return any(c in mode for c in "wax+")


class FileProxy:
    """The handle save() gets for the destination: logs the first write and the close."""

    def __init__(self, f, rec):
        self._f = f
        self._rec = rec
        self._closed = False

    def write(self, data):
        rec = self._rec
        if rec.written is None:
            rec.written = bytearray()
            rec.step("B", 0, "?")
        rec.written += bytes(data) if not isinstance(data, str) else data.encode()
        return self._f.write(data)

    def writelines(self, lines):
        for ln in lines:
            self.write(ln)

    def close(self):
        self._f.close()
        if not self._closed:
            self._closed = True
            self._rec.step("C")

    def __enter__(self):
        return self

    def __exit__(self, *a):
        self.close()
        return False

    def __getattr__(self, name):
        return getattr(self._f, name)


class Recorder:
    def __init__(self, dest, key):
        self.dest = dest
        self.key = key
        self.events = []
        self.cur_i = 0
        self.prev = self.dest_bytes()
        self.new = None  # what formatter.dumps returned during this save
        self.wopens = 0
        self.opened = False
        self.written = None
        self.armed_enc = set()
        self.armed_dump = False

    def dest_bytes(self):
        try:
            with _ORIG["builtins.open"](self.dest, "rb") as fp:
                return fp.read()
        except OSError:
            return None

    def dest_name(self):
        d = self.dest_bytes()
        if d is None:
            return "absent"
        if len(d) == 0:
            return "empty"
        tie = self.new is not None and self.prev == self.new
        if d == self.prev and not (tie and self.opened):
            return "prev"
        if self.new is not None and d == self.new:
            return "new"
        if self.new is not None and self.new.startswith(d):
            return "partial"
        return "other"

    def step(self, s, i=0, dest=None):
        self.events.append({"op": s, "i": i, "dest": dest if dest is not None else self.dest_name()})

    def wrote_dest(self):
        self.wopens += 1
        self.opened = True
        self.step("W")


# ---- wrappers installed only while a save runs ------------------------------------------
def _w_open(file, mode="r", *a, **kw):
    rec = ACTIVE
    if rec is not None and not isinstance(file, int):
        p = _norm(file)
        if p == rec.dest and _is_write_mode(mode):
            f = _ORIG["builtins.open"](file, mode, *a, **kw)
            rec.wrote_dest()
            return FileProxy(f, rec)
        if p == rec.key:
            rec.step("G" if _is_write_mode(mode) else "K", rec.cur_i)
    return _ORIG["builtins.open"](file, mode, *a, **kw)


def _w_os_open(path, flags, *a, **kw):
    rec = ACTIVE
    fd = _ORIG["os.open"](path, flags, *a, **kw)
    if rec is not None and _norm(path) == rec.dest:
        if flags & (os.O_WRONLY | os.O_RDWR | os.O_TRUNC | os.O_CREAT | os.O_APPEND):
            rec.wrote_dest()
    return fd


def _w_move(which):
    def move(src, dst, *a, **kw):
        rec = ACTIVE
        r = _ORIG[which](src, dst, *a, **kw)
        if rec is not None and rec.dest in (_norm(dst), _norm(src)):
            rec.wrote_dest()
        return r

    return move


def install(rec):
    global ACTIVE
    ACTIVE = rec
    builtins.open = _w_open
    io.open = _w_open
    os.open = _w_os_open
    os.replace = _w_move("os.replace")
    os.rename = _w_move("os.rename")


def uninstall():
    global ACTIVE
    ACTIVE = None
    builtins.open = _ORIG["builtins.open"]
    io.open = _ORIG["io.open"]
    os.open = _ORIG["os.open"]
    os.replace = _ORIG["os.replace"]
    os.rename = _ORIG["os.rename"]


# ---- the harness' own field and format classes (outside the library) --------------------
class Kit:
    """Logging / fault-injecting subclasses of the library's public classes."""

    def __init__(self, cinco):
        self.cinco = cinco
        self.field_cls = {}
        CF = cinco.ConfigFormat
        CF.initialize_registry()
        import cincoconfig.formats as formats  # the tree under test (import_repo put it first)

        class ReprFormat(CF):
            """A registered custom format (python literal syntax): accepts every value."""

            def dumps(self, config, tree):
                return repr(tree).encode()

            def loads(self, config, content):
                return ast.literal_eval(content.decode())

        self.formats = {}
        for name, cls in list(formats.FORMATS) + [("custom", ReprFormat)]:
            lf = self._logging_format(cls)
            CF.register(name, lf)
            self.formats[name] = lf
        missing = [f for f in REAL_FORMATS if f not in self.formats]
        if missing:
            raise RuntimeError("formats not available in this interpreter: %s" % missing)

    @staticmethod
    def _logging_format(base):
        class LoggingFormat(base):
            def __init__(self, **kw):
                super().__init__(**kw)
                rec = ACTIVE
                if rec is not None:
                    rec.step("R")

            def dumps(self, config, tree):
                rec = ACTIVE
                if rec is not None:
                    rec.step("D")
                    if rec.armed_dump:
                        raise InjectedFault("formatter.dumps")
                data = super().dumps(config, tree)
                if rec is not None:
                    rec.new = bytes(data)
                return data

        LoggingFormat.__name__ = "Logging" + base.__name__
        return LoggingFormat

    def field(self, clsname, *args, **kw):
        if clsname not in self.field_cls:
            base = getattr(self.cinco, clsname)

            class LoggingField(base):
                c19_index = 0

                def to_basic(self, cfg, value):
                    rec = ACTIVE
                    if rec is not None:
                        rec.cur_i = self.c19_index
                        rec.step("E", self.c19_index)
                        if self.c19_index in rec.armed_enc:
                            raise InjectedFault("to_basic of field %d" % self.c19_index)
                    return super().to_basic(cfg, value)

            LoggingField.__name__ = "Logging" + clsname
            self.field_cls[clsname] = LoggingField
        return self.field_cls[clsname](*args, **kw)


PLAIN_CLASSES = ["IntField", "StringField", "BoolField", "FloatField", "ListField", "PortField", "HostnameField", "Field"]


def plain_value(cls, j, rng):
    if rng is None:
        # (numbers whose binary encodings - BSON int32, pickle BININT - contain the byte pair 0D 0A:
        # a document is bytes, not text)
        return 2573 + 65536 * j
    if cls == "IntField":
        return rng.choice([0, -1, 1, 2573, 658701, 2**31 - 1, -(2**31), rng.randrange(-(10**9), 10**9)])
    if cls == "StringField":
        return "".join(rng.choice("abcXYZ019_") for _ in range(rng.randrange(1, 12)))
    if cls == "BoolField":
        return rng.random() < 0.5
    if cls == "FloatField":
        return rng.choice([0.5, -2.25, 1e10, 3.0, rng.randrange(-1000, 1000) / 8.0])
    if cls == "ListField":
        return [rng.randrange(-50, 50) for _ in range(rng.randrange(0, 4))]
    if cls == "PortField":
        return rng.randrange(1, 65536)
    if cls == "HostnameField":
        return rng.choice(["localhost", "example.com", "10.0.0.%d" % rng.randrange(1, 250)])
    return rng.choice([None, 7, "free", [1, "a"], {"k": 1}])  # untyped Field


def rand_item(rng, depth):
    """A plain value or (depth permitting) a tuple - what an untyped container may hold."""
    if depth > 0 and rng.random() < 0.25:
        return rand_tuple(rng, depth - 1)
    return rng.choice([None, True, False, 0, -3, rng.randrange(-(10**6), 10**6), 0.5, -2.25, "", "w", "free text", [1, "a"], {"k": 1}])


def rand_tuple(rng, depth):
    """A tuple of plain values and nested tuples (possibly empty, possibly of length one)."""
    return tuple(rand_item(rng, depth) for _ in range(rng.choice([0, 1, 2, 2, 2, 3, 4])))


class Bench:
    """A real schema + configuration, a destination and a key file in a scratch directory."""

    def __init__(self, kit, root, case, rng=None):
        cinco = kit.cinco
        self.kit = kit
        self.root = root
        self.case = case
        self.rng = rng
        for name in os.listdir(root):
            p = os.path.join(root, name)
            shutil.rmtree(p) if os.path.isdir(p) else os.unlink(p)
        self.key = os.path.join(root, "keys", "the.cincokey")
        os.mkdir(os.path.join(root, "keys"))
        # (the file name holds a "$": a path is taken literally - only "~" is expanded - by save and load alike)
        os.environ.setdefault("CINCOVAR", "elsewhere")
        self.destname = case.get("destname", "dest-$CINCOVAR.cfg")
        self.dest = os.path.join(root, self.destname)
        self.destarg = "~/" + self.destname if case.get("tilde") else self.dest
        self.kinds = list(case["fields"])
        extras = case.get("extras") or [{} for _ in self.kinds]
        self.schema = cinco.Schema()
        self.paths = []
        self.sfields = []
        for j, (kind, ex) in enumerate(zip(self.kinds, extras), start=1):
            name = "f%d" % j
            if kind == "plain":
                cls = ex.get("cls", "IntField")
                if cls == "ListField":
                    fld = kit.field(cls, cinco.IntField())
                else:
                    fld = kit.field(cls)
                path = name
            elif kind in ("secret", "esecret", "bsecret"):
                fld = kit.field("SecureField", method=ex.get("method", "best"))
                path = name
            elif kind == "nsecret":
                fld = kit.field("SecureField", method=ex.get("method", "best"))
                path = ".".join([name] + ["n%d" % d for d in range(1, ex.get("depth", 1))] + ["s"])
            elif kind == "huge":
                fld = kit.field("IntField")
                path = name
            elif kind in ("set", "raw"):
                fld = kit.field("Field")
                path = name
            elif kind == "ctrlstr":
                fld = kit.field(ex.get("cls", "StringField"))
                path = name
            elif kind == "tuple":
                # a free-form field holding a tuple as-is
                fld = kit.field(ex.get("cls", "Field" if j % 2 else "AnyField"))
                path = name
            elif kind == "ltuple":
                # an untyped list field (no item field, or an AnyField item) with a tuple inside
                if ex.get("item", "none" if j % 2 else "any") == "any":
                    fld = kit.field("ListField", cinco.AnyField())
                else:
                    fld = kit.field("ListField")
                path = name
            elif kind == "dtuple":
                # an untyped dict field with a nested tuple inside a value
                fld = kit.field("DictField")
                path = name
            else:
                raise ValueError("unknown field kind %r" % kind)
            fld.c19_index = j
            sch = self.schema
            parts = path.split(".")
            for part in parts[:-1]:
                sch = getattr(sch, part)
            setattr(sch, parts[-1], fld)
            self.paths.append(path)
            self.sfields.append(fld)
        self.cfg = self.schema(key_filename=self.key)
        self.assign_values(0)
        self.set_key("K1")
        self.round = 0

    def value_for(self, j, kind, ex, r):
        rng = self.rng
        if kind == "plain":
            v = plain_value(ex.get("cls", "IntField"), j, rng)
            if rng is None:
                v += 655360 * r
            return v
        if kind == "bsecret":
            return ""
        if kind in ("secret", "nsecret"):
            if rng is None:
                return "s3cr3t-%d-%d" % (j, r)
            return "".join(rng.choice("pqrsTUV 0189!-") for _ in range(rng.randrange(1, 40)))
        if kind == "huge":
            if rng is None:
                return 2**70 + j + r
            return rng.choice([1, -1]) * (2 ** rng.randrange(65, 200) + rng.randrange(1000))
        if kind == "set":
            return {j, "x%d" % r} if rng is None else set(rng.sample(range(100), rng.randrange(1, 4)))
        if kind == "raw":
            return bytes([j % 256, 255, 0, r % 256])
        if kind == "ctrlstr":
            # a string holding a C0 control character (not tab / newline / carriage return)
            if rng is None:
                return "esc\x1b[%dm-%d" % (j, r)
            body = [rng.choice("abcXYZ019_") for _ in range(rng.randrange(0, 8))]
            body.insert(rng.randrange(len(body) + 1), chr(rng.choice(CTRL_CODES)))
            return "".join(body)
        if kind == "tuple":
            return (800 + j, 600 + r) if rng is None else rand_tuple(rng, 2)
        if kind == "ltuple":
            if rng is None:
                return [j, (r, "x")]
            items = [rand_item(rng, 2) for _ in range(rng.randrange(0, 3))]
            items.insert(rng.randrange(len(items) + 1), rand_tuple(rng, 2))
            return items
        if kind == "dtuple":
            if rng is None:
                return {"size": {"wh": (j, (r, "deep"))}}
            inner = {"k%d" % n: rand_item(rng, 1) for n in range(rng.randrange(0, 3))}
            inner["t"] = (rng.randrange(100), rand_tuple(rng, 1))
            value = rng.choice([inner, {"sub": inner}, {"sub": inner, "l": [1, rand_tuple(rng, 1)]}])
            return value
        return None

    def assign_values(self, r):
        extras = self.case.get("extras") or [{} for _ in self.kinds]
        for j, (kind, ex, path) in enumerate(zip(self.kinds, extras, self.paths), start=1):
            if kind == "esecret":
                continue
            self.cfg[path] = self.value_for(j, kind, ex, r)

    # ---- environment ----
    def set_key(self, ks, size=16):
        if ks == "keep":
            return
        if ks == "nodir":
            shutil.rmtree(os.path.dirname(self.key), ignore_errors=True)
            return
        os.makedirs(os.path.dirname(self.key), exist_ok=True)
        if ks == "absent":
            if os.path.exists(self.key):
                os.unlink(self.key)
            return
        data = K1 if ks == "K1" else bytes((7 * n + 3) % 256 for n in range(size))
        with _ORIG["builtins.open"](self.key, "wb") as fp:
            fp.write(data)

    def key_name(self):
        try:
            with _ORIG["builtins.open"](self.key, "rb") as fp:
                d = fp.read()
        except OSError:
            return "absent" if os.path.isdir(os.path.dirname(self.key)) else "nodir"
        if d == K1:
            return "K1"
        return "G" if len(d) == 32 else "bad"

    def write_p0(self, fmt):
        """The destination starts as a previously saved document (written by the library)."""
        cinco = self.kit.cinco
        s = cinco.Schema()
        s.previous = cinco.IntField(default=12345)
        s.note = cinco.StringField(default="saved earlier")
        s(key_filename=os.path.join(self.root, "p0.key")).save(self.dest, fmt if fmt in REAL_FORMATS else "json")
        if len(self.kinds) % 2 == 0:
            # the destination is a symbolic link to the real file (current -> releases/v1): saving
            # writes through it, and a failed save leaves link and file as they were
            real = self.dest + ".real"
            os.replace(self.dest, real)
            os.symlink(real, self.dest)

    # ---- one save (+ load) ----
    def do_round(self, rd):
        par = rd["par"]
        self.round += 1
        if rd.get("mutate"):
            self.assign_values(self.round)
        self.set_key(par["ks"], rd.get("keysize", 16))
        faults = [(f["f"], f["i"]) for f in (par["faults"] or [])]
        fmt = par["fmt"]
        kwargs = dict(rd.get("kw") or {})
        fmt_arg = fmt
        if ("fmt_unknown", 0) in faults:
            fmt_arg = "no-such-format-" + fmt
        if ("fmt_kwarg", 0) in faults:
            kwargs["c19_no_such_option"] = 1
        rec = Recorder(self.dest, self.key)
        rec.armed_enc = {i for f, i in faults if f == "enc"}
        rec.armed_dump = ("dump", 0) in faults
        saved_methods = {}
        for f, i in faults:
            if f == "meth":
                saved_methods[i] = self.sfields[i - 1].method
                self.sfields[i - 1].method = "no-such-method"
        events = [
            {
                "op": "Begin",
                "i": 0,
                "dest": "absent" if rec.prev is None else "prev",
                "fmt": fmt,
                "faults": [{"f": f, "i": i} for f, i in faults],
                "ks": par["ks"],
            }
        ]
        exc = None
        install(rec)
        try:
            self.cfg.save(self.destarg, fmt_arg, **kwargs)
            out = "ok"
        except Exception as e:  # noqa: any exception is "the save raised"
            out = "raised"
            exc = type(e).__name__
        finally:
            uninstall()
            for i, m in saved_methods.items():
                self.sfields[i - 1].method = m
        events.extend(rec.events)
        if rec.written is None:
            wr = "none"
        elif rec.new is not None and bytes(rec.written) == rec.new:
            wr = "new"
        else:
            wr = "other"
        end = {"op": "End", "i": 0, "out": out, "dest": rec.dest_name(), "wopens": rec.wopens, "keyf": self.key_name(), "wr": wr}
        events.append(end)
        info = {"exc": exc, "nbytes": None if rec.new is None else len(rec.new)}
        if out == "ok":
            events.append(self.load_back(fmt, rd.get("kw") or {}))
        return events, info

    def load_back(self, fmt, kw):
        c2 = self.schema(key_filename=self.key)
        try:
            if kw:
                with _ORIG["builtins.open"](self.dest, "rb") as fp:
                    c2.loads(fp.read(), fmt, **kw)
            else:
                c2.load(self.destarg, fmt)
            out = "ok"
        except Exception as e:  # noqa
            return {"op": "Load", "i": 0, "out": "raised", "eq": ["diff"] * len(self.paths), "exc": "%s: %s" % (type(e).__name__, str(e)[:100])}
        eq = []
        for path in self.paths:
            a, b = self.cfg[path], c2[path]
            # the observation: same value and type | came back as None | anything else
            eq.append("same" if (type(a) is type(b) and a == b) else "none" if b is None else "diff")
        return {"op": "Load", "i": 0, "out": out, "eq": eq}


def execute(kit, root, case, rng=None):
    """Run a whole case (schema, initial destination, rounds) on the real library."""
    old_home = os.environ.get("HOME")
    os.environ["HOME"] = root
    try:
        b = Bench(kit, root, case, rng)
        if case["dest0"] == "prev":
            try:
                b.write_p0(case["rounds"][0]["par"]["fmt"])
            except OSError as exc:
                # the library's own save of the earlier document did not leave it at the destination it was given:
                # a deviation to report (the destination is "not what was saved"), not a failure of this harness
                par = case["rounds"][0]["par"]
                why = "the earlier save did not produce the destination file: %s" % str(exc)[:120]
                return [{"op": "Begin", "i": 0, "dest": why, "fmt": par["fmt"], "faults": [], "ks": par.get("ks")}], [{} for _ in case["rounds"]]
        events, infos = [], []
        for rd in case["rounds"]:
            evs, info = b.do_round(rd)
            events.extend(evs)
            infos.append(info)
        return events, infos
    finally:
        uninstall()
        if old_home is None:
            os.environ.pop("HOME", None)
        else:
            os.environ["HOME"] = old_home


# ---- spec -> code ------------------------------------------------------------------------
def seq(x):
    return [] if x in ({}, None) else x


def expected_events(case):
    """The observable events the specification prescribes for a printed behaviour."""
    evs = []
    for rd in case["rounds"]:
        par = rd["par"]
        evs.append({"op": "Begin", "i": 0, "dest": rd["dest0"], "fmt": par["fmt"], "faults": sorted(seq(par["faults"]), key=lambda f: (f["f"], f["i"])), "ks": par["ks"]})
        for e in seq(rd["log"]):
            evs.append({"op": e["s"], "i": e["i"], "dest": e["dest"]})
        evs.append({"op": "End", "i": 0, "out": rd["out"], "dest": rd["dest"], "wopens": rd["wopens"], "keyf": rd["keyf"], "wr": rd["wr"]})
        if rd["out"] == "ok":
            evs.append({"op": "Load", "i": 0, "out": "ok", "eq": seq(rd["eq"])})
    return evs


def projection(events):
    """What C19 talks about: destination content at every observed moment, the write-side
    steps, the outcome of the save, the load.  (Order of the serialisation steps is not in it.)"""
    out = []
    d0 = None
    for e in events:
        op = e["op"]
        if op == "Begin":
            out.append(("Begin", e["dest"]))
            d0 = e["dest"]
        elif op in PRE_OPEN_STEPS:
            # which serialisation steps run, and in which order, is free; that the destination
            # still holds what it held when save was called is not
            if e["dest"] != d0 and out[-1] != ("pre", e["dest"]):
                out.append(("pre", e["dest"]))
        elif op in WRITE_STEPS:
            # how the write phase is carried out (one handle, temp file + rename, chunks) is
            # free; what it leaves behind is compared at End
            if out[-1] != ("write-phase",):
                out.append(("write-phase",))
        elif op == "End":
            out.append(("End", e["out"], e["dest"], e["wopens"] > 0, e["wr"] == "other"))
        elif op == "Load":
            out.append(("Load", e["out"], tuple(e["eq"])))
    return out


def compare(expected, observed):
    """None if equal; else (is_drift, signature, detail)."""
    strip = lambda e: {k: v for k, v in e.items() if k not in ("exc",)}  # noqa
    obs = [strip(e) for e in observed]
    for e in obs:
        if e["op"] == "Begin":
            e["faults"] = sorted(e["faults"], key=lambda f: (f["f"], f["i"]))
    for x, e in zip(expected, obs):
        # "?" in the specification's eq: the saved value lies outside the domain of the format
        # (a tuple in json / bson) - the specification leaves open what comes back
        if x["op"] == "Load" and e["op"] == "Load" and len(x["eq"]) == len(e["eq"]):
            e["eq"] = ["?" if a == "?" else b for a, b in zip(x["eq"], e["eq"])]
    if obs == expected:
        return None
    pe, po = projection(expected), projection(obs)
    n = next((k for k in range(min(len(expected), len(obs))) if expected[k] != obs[k]), min(len(expected), len(obs)))
    detail = "event %d: spec %s, code %s" % (
        n + 1,
        json.dumps(expected[n], sort_keys=True) if n < len(expected) else "<end>",
        json.dumps(obs[n], sort_keys=True) if n < len(obs) else "<end>",
    )
    if pe == po:
        ops = {expected[n]["op"] if n < len(expected) else "End", obs[n]["op"] if n < len(obs) else "End"}
        return True, ("drift:write-phase-shape" if ops & WRITE_STEPS else "drift:serialisation-step-order"), detail
    k = next((k for k in range(min(len(pe), len(po))) if pe[k] != po[k]), min(len(pe), len(po)))
    a = pe[k] if k < len(pe) else ("<end>",)
    b = po[k] if k < len(po) else ("<end>",)
    what = a[0] if a[0] == b[0] else "%s-vs-%s" % (a[0], b[0])
    return False, "replay:%s" % what, detail + "; property projection: spec %s, code %s" % (a, b)


def case_from_spec(c):
    rounds = seq(c["rounds"])
    return {
        "fields": seq(c["fields"]),
        "dest0": rounds[0]["dest0"],
        "rounds": [{"par": {"fmt": r["par"]["fmt"], "faults": seq(r["par"]["faults"]), "ks": r["par"]["ks"]}} for r in rounds],
    }


_KIT = None
_ROOT = None


def _worker_root():
    global _ROOT
    d = os.path.join(_ROOT, "w%d" % os.getpid())
    os.makedirs(d, exist_ok=True)
    return d


def _run_spec_case(c):
    case = case_from_spec(c)
    events, infos = execute(_KIT, _worker_root(), case)
    return compare(expected_events(c), events), events


def _run_driver_case(args):
    case, seed = args
    events, infos = execute(_KIT, _worker_root(), case, random.Random(seed))
    return events, infos


def pool_map(fn, items, procs=16, chunk=64):
    if len(items) < 200:
        return [fn(x) for x in items]
    ctx = multiprocessing.get_context("fork")
    with ctx.Pool(procs) as pool:
        return pool.map(fn, items, chunksize=chunk)


# ---- TLC instances ---------------------------------------------------------------------
def write_cfg(path, maxn, rounds, faults, kinds="MCKinds", formats="MCFormats", check=True, export=True):
    lines = [
        "CONSTANTS",
        "  MaxN = %d" % maxn,
        "  MaxRounds = %d" % rounds,
        "  MaxFaults = %d" % faults,
        "  Kinds <- %s" % kinds,
        "  Formats <- %s" % formats,
        "INIT Init",
        "NEXT Next",
    ]
    if check:
        lines += ["INVARIANT %s" % n for n in INVARIANTS]
        lines += ["PROPERTY %s" % n for n in PROPERTIES]
    if export:
        lines.append("CONSTRAINT PCase")
    with open(path, "w") as fp:
        fp.write("\n".join(lines) + "\n")


INSTANCES = {
    "quick": [
        ("one save, 1..3 fields of 8 kinds, every single fault", dict(maxn=3, rounds=1, faults=1, kinds="MCKinds8")),
        ("two saves in a row, 1 field, 3 formats", dict(maxn=1, rounds=2, faults=1, formats="MCFormats2")),
        ("one save, 1..2 fields, every pair of faults", dict(maxn=2, rounds=1, faults=2)),
        ("one save, 1..2 fields out of the three tuple shapes / plain / secret, every single fault", dict(maxn=2, rounds=1, faults=1, kinds="MCKindsT")),
    ],
    "thorough": [
        ("one save, 1..4 fields of 8 kinds, every single fault", dict(maxn=4, rounds=1, faults=1, kinds="MCKinds8")),
        ("one save, 1..3 fields of 9 kinds (tuple in a free-form field), every single fault", dict(maxn=3, rounds=1, faults=1)),
        ("two saves in a row, 1..2 fields of 7 kinds, 3 formats", dict(maxn=2, rounds=2, faults=1, kinds="MCKinds2", formats="MCFormats2")),
        ("one save, 1..3 fields of 7 kinds, every pair of faults", dict(maxn=3, rounds=1, faults=2, kinds="MCKinds2")),
        ("one save, 1..3 fields out of the three tuple shapes / plain / secret, every single fault", dict(maxn=3, rounds=1, faults=1, kinds="MCKindsT")),
        ("two saves in a row, 1..2 fields out of the three tuple shapes / plain, yaml pickle xml", dict(maxn=2, rounds=2, faults=1, kinds="MCKindsT2", formats="MCFormatsT")),
    ],
}


# ---- code -> spec driver -----------------------------------------------------------------
def gen_case(rng):
    """A random schema / values / formats / fault sets; never consults the specification."""
    n = rng.choice([1, 2, 3, 4, 5, 6, 8, 10])
    kinds, extras = [], []
    for _ in range(n):
        kind = rng.choice(
            ["plain"] * 6
            + ["secret"] * 4
            + ["esecret", "bsecret", "nsecret", "nsecret"]
            + rng.choice([["plain"], ["ctrlstr"], ["set", "huge", "raw", "ctrlstr"], list(TUPLE_KINDS) * 2])
        )
        ex = {}
        if kind == "tuple":
            ex["cls"] = rng.choice(["Field", "AnyField"])
        if kind == "ltuple":
            ex["item"] = rng.choice(["none", "any"])
        if kind == "plain":
            ex["cls"] = rng.choice(PLAIN_CLASSES)
        if kind in ("secret", "esecret", "bsecret", "nsecret"):
            ex["method"] = rng.choice(["aes", "xor", "best"])
        if kind == "ctrlstr":
            ex["cls"] = rng.choice(["StringField", "Field", "AnyField"])
        if kind == "nsecret":
            ex["depth"] = rng.randrange(1, 4)
        kinds.append(kind)
        extras.append(ex)
    secrets = [j for j, k in enumerate(kinds, start=1) if k in ("secret", "nsecret")]
    rounds = []
    for r in range(rng.randrange(1, 5)):
        fmt = rng.choice(REAL_FORMATS + ["custom", "yaml", "pickle"])
        faults = []
        if rng.random() < 0.4:
            universe = [("fmt_unknown", 0), ("fmt_kwarg", 0), ("dump", 0)]
            universe += [("enc", j) for j in range(1, n + 1)] * 2
            universe += [("meth", j) for j in secrets] * 2
            for f in rng.sample(universe, min(len(universe), rng.choice([1, 1, 1, 2, 3]))):
                if f not in faults:
                    faults.append(f)
        ks = rng.choice(["K1"] * 5 + ["bad", "absent", "nodir"] if r == 0 else ["keep"] * 5 + ["K1", "bad", "absent", "nodir"])
        kw = {}
        if rng.random() < 0.3 and not any(f[0].startswith("fmt") for f in faults):
            kw = {"json": {"pretty": False}, "yaml": {"root_key": "ROOT"}, "xml": {"root_tag": "cfgroot"}}.get(fmt, {})
        rounds.append(
            {
                "par": {"fmt": fmt, "faults": [{"f": f, "i": i} for f, i in faults], "ks": ks},
                "kw": kw,
                "keysize": rng.choice([0, 1, 16, 31, 33, 64]),
                "mutate": rng.random() < 0.5,
            }
        )
    return {
        "fields": kinds,
        "extras": extras,
        "dest0": rng.choice(["prev", "prev", "absent"]),
        "rounds": rounds,
        "tilde": rng.random() < 0.3,
        "destname": rng.choice(["dest.cfg", "app.json", "settings.conf"]),
    }


def classify_trace(v):
    """Trace verdict -> (is_drift, signature)."""
    if v.bad_inv:
        return False, "trace:" + ",".join(sorted(v.bad_inv))
    if v.bad_obs:
        # the property's own predicates were evaluated by TLC on the observations of EVERY save
        # of the trace at its first event (and held, else bad_inv); what remains is the shape
        bo = set(v.bad_obs)
        got = v.trace["events"][v.at - 1]["op"] if v.at and v.at <= len(v.trace["events"]) else "?"
        exp = (v.model or {}).get("op", "?")
        if bo == {"op"}:
            if got in PRE_OPEN_STEPS and exp in PRE_OPEN_STEPS:
                return True, "drift:serialisation-step-order"
            if (exp in WRITE_STEPS and got in WRITE_STEPS | {"End"}) or (exp == "End" and got in WRITE_STEPS):
                return True, "drift:write-phase-shape"
            if exp == "End" and got in PRE_OPEN_STEPS:
                # the save went on where the specification expected it to raise: drift if it
                # ends the same way (same outcome, destination, write-opens)
                rest = v.trace["events"][v.at - 1 :]
                end = next((e for e in rest if e["op"] in ("End", "Begin")), None)
                m = v.model or {}
                if end is not None and end["op"] == "End" and all(
                    [end["out"] == m.get("out"), end["dest"] == m.get("dest"), (end["wopens"] > 0) == (m.get("wopens", 0) > 0), (end["wr"] == "other") == (m.get("wr") == "other")]
                ):
                    return True, "drift:serialisation-step-order"
            return False, "trace:step:%s-vs-%s" % (exp, got)
        if bo == {"dest"} and exp in WRITE_STEPS:
            return True, "drift:write-phase-shape"
        return False, "trace:%s:" % exp + ",".join(sorted(bo - {"op"}))
    return False, "trace:not-enabled"


# ---- the check ---------------------------------------------------------------------------
def run(tier, seed):
    global _KIT, _ROOT
    cinco = common.import_repo()
    out = common.Outcome("C19")
    _KIT = Kit(cinco)
    _ROOT = tlc.scratch("cinco-c19-")
    scratch = tlc.scratch("cinco-c19-cfg-")

    states = transitions = 0
    n_cases = n_exec = 0
    drift = collections.Counter()
    by_out = collections.Counter()
    first_fault = collections.Counter()
    tuple_loads = collections.Counter()  # saves holding a tuple kind that the spec lets succeed, by format / verdict
    inst_cov = []
    samples = []
    distinct = set()
    exhaustive = True
    for k, (title, p) in enumerate(INSTANCES[tier]):
        cfg = os.path.join(scratch, "MC_CincoSave_%s_%d.cfg" % (tier, k))
        write_cfg(cfg, **p)
        # (a) TLC decides the invariants on the instance and prints every complete behaviour
        res = tlc.run("MC_CincoSave.tla", cfg, workers=1, keep=("CASE",))
        states += res.distinct
        transitions += res.generated
        if not res.ok:
            exhaustive = False
            out.violation(
                "spec:%s" % res.violation,
                "TLC: %s violated on the specification instance (%s)" % (res.violation, title),
                {"kind": "tlc-counterexample", "property_predicate": res.violation, "instance": p, "behaviour": res.cex},
            )
        cases = res.printed.get("CASE", [])
        if not cases and res.ok:
            raise tlc.TLCError("no behaviours exported for instance %s" % (p,))
        n_cases += len(cases)
        # (b) spec -> code: every behaviour is executed on the real library
        results = pool_map(_run_spec_case, cases)
        n_exec += len(results)
        bad = 0
        for c, (cmp_, events) in zip(cases, results):
            for rd in seq(c["rounds"]):
                by_out[rd["out"]] += 1
                lg = seq(rd["log"])
                if rd["out"] == "raised":
                    first_fault[(lg[-1]["s"] if lg else "Resolve")] += 1
                else:
                    for kind, rel in zip(seq(c["fields"]), seq(rd["eq"])):
                        if kind in TUPLE_KINDS:
                            tuple_loads["%s:%s:%s" % (rd["par"]["fmt"], kind, "must-be-equal" if rel == "same" else "open")] += 1
            distinct.add(common.hash_case([c["fields"], [[r["par"], r["dest0"]] for r in seq(c["rounds"])]]))
            if cmp_ is None:
                continue
            is_drift, sig, detail = cmp_
            if is_drift:
                drift[sig] += 1
                continue
            bad += 1
            if bad <= 10:
                out.violation(
                    sig,
                    "spec->code: save behaviour differs from the specification: %s" % detail,
                    {"kind": "case-differs", "case": case_from_spec(c), "expected_by_spec": expected_events(c), "observed_on_code": events, "detail": detail},
                )
        inst_cov.append({"instance": title, "constants": p, "states": res.distinct, "transitions": res.generated, "depth": res.depth, "behaviours": len(cases), "mismatching": bad, "tlc_wall_s": round(res.wall, 1)})
        if k == 0 and cases:
            pick = [c for c in cases if seq(c["rounds"])[0]["out"] == "raised" and len(seq(c["rounds"])[0]["log"]) > 3]
            samples.append({"spec_to_code_case": (pick or cases)[len(pick or cases) // 2]})

    # vacuity: every kind of failing step and both outcomes must have been exercised
    missing = [k for k in ("Resolve", "E", "K", "G", "D") if not first_fault.get(k)] + [k for k in ("ok", "raised") if not by_out.get(k)]
    # ... and every tuple shape must have been saved and loaded back in the formats whose domain holds it
    missing += ["%s:%s:must-be-equal" % (f, k) for f in ("yaml", "pickle") for k in TUPLE_KINDS if not tuple_loads.get("%s:%s:must-be-equal" % (f, k))]
    if missing and not out.violations:
        raise RuntimeError("vacuous run: no behaviour ending at %s" % missing)

    # (c) code -> spec: random driver on the real library, validated by TLC
    n_traces = 600 if tier == "quick" else 6000
    rng = random.Random(seed)
    dcases = [(gen_case(rng), rng.randrange(2**31)) for _ in range(n_traces)]
    dres = pool_map(_run_driver_case, dcases)
    traces = []
    for (case, _), (events, infos) in zip(dcases, dres):
        traces.append({"init": {"fields": case["fields"], "dest": "p0" if case["dest0"] == "prev" else "absent"}, "events": events, "case": case})
    tcfg = os.path.join(scratch, "Trace_CincoSave.cfg")
    with open(tcfg, "w") as fp:
        fp.write(
            "CONSTANTS\n  MaxN = 1\n  MaxRounds = 1\n  MaxFaults = 0\n  Kinds <- TrKinds\n  Formats <- TrFormats\n"
            "INIT TraceInit\nNEXT TraceNext\nACTION_CONSTRAINT Report\nCONSTRAINT ReportState\n"
        )
    verdicts, tstats = tracecheck.validate("Trace_CincoSave.tla", tcfg, [{"init": t["init"], "events": t["events"]} for t in traces])
    rejected = 0
    for v, t in zip(verdicts, traces):
        if v.accepted:
            continue
        is_drift, sig = classify_trace(v)
        if is_drift:
            drift[sig] += 1
            continue
        rejected += 1
        if rejected <= 10:
            rep = v.to_json()
            rep["case"] = t["case"]
            out.violation(sig, "code->spec: recorded save trace rejected: %s" % v.describe(), rep)
    d_events = sum(len(t["events"]) for t in traces)
    d_rounds = sum(1 for t in traces for e in t["events"] if e["op"] == "End")
    d_raised = sum(1 for t in traces for e in t["events"] if e["op"] == "End" and e["out"] == "raised")
    d_tuple = collections.Counter()  # loads of a configuration holding a tuple kind, by format of the save
    for t in traces:
        fmt = None
        for e in t["events"]:
            if e["op"] == "Begin":
                fmt = e["fmt"]
            elif e["op"] == "Load":
                for kind in set(t["case"]["fields"]) & set(TUPLE_KINDS):
                    d_tuple["%s:%s" % (fmt, kind)] += 1
    for t in traces:
        distinct.add(common.hash_case([t["case"]["fields"], [r["par"] for r in t["case"]["rounds"]], t["case"]["dest0"]]))
    if traces:
        samples.append({"code_to_spec_trace": {"init": traces[0]["init"], "events": traces[0]["events"][:14]}})
    if drift:
        out.notes.append("MODEL-DRIFT (not a C19 violation): %s" % dict(drift))
        print("MODEL-DRIFT property=C19 %s" % dict(drift))
    out.coverage = {
        "states": states,
        "transitions": transitions,
        "exhaustive": exhaustive,
        "tlc_instances": inst_cov,
        "traces_validated_against_impl": n_exec + len(verdicts),
        "spec_to_code_behaviours": n_exec,
        "spec_to_code_saves_by_outcome": dict(by_out),
        "spec_to_code_raised_saves_by_last_observed_step": dict(first_fault),
        "spec_to_code_tuple_kind_loads": dict(sorted(tuple_loads.items())),
        "code_to_spec_tuple_kind_loads": dict(sorted(d_tuple.items())),
        "code_to_spec_traces": len(verdicts),
        "code_to_spec_saves": d_rounds,
        "code_to_spec_saves_raised": d_raised,
        "code_to_spec_events": d_events,
        "code_to_spec_tlc_states": tstats["states"],
        "model_drift": dict(drift),
        "evaluations": n_exec + d_rounds,
        "distinct_nontrivial": len(distinct),
        "rule": "spec->code: one case per complete behaviour of the TLC instance = (schema of 1..MaxN field kinds out of "
        "plain/secret/unset secret/empty-string secret/nested secret/set/huge int/string with a control character/tuple in a free-form field; "
        "a dedicated instance with the three tuple shapes: in a free-form Field or AnyField / inside an untyped list field / nested inside an untyped dict value) x (destination previously saved | absent) x per save (format x fault set x "
        "key file valid/wrong size/missing); code->spec: seeded random schemas of 1..10 fields, 8 plain field classes, nested depth <= 3, "
        "random tuples (empty, nested, mixed plain items) in free-form / untyped list / untyped dict fields, "
        "1..4 saves, up to 3 simultaneous faults, 6 formats incl. a registered custom one, format options, key sizes 0..64; "
        "distinct = distinct (schema, initial destination, per-save parameters); trivial = none excluded (every case has a "
        "destination to protect and at least one serialisation step)",
        "samples": samples,
    }
    out.assumptions = [
        "file contents are abstracted to absent/empty/prev/new/partial/other relative to the bytes at the start of the save and the bytes formatter.dumps returned",
        "the third-party encoders (json, yaml, bson, pickle, xml.etree) are channels with a domain predicate (set, >64-bit int, raw bytes, control-character string for xml, tuple); their byte-level output is not modelled",
        "a tuple (free-form field, untyped list / dict field) lies in the domain of yaml, pickle and the custom format only: json and bson write it as an array and load a list (save succeeds, what loads back is left open and not compared), xml's dumps raises; one abstract value stands for a tuple wherever it sits in the field's value",
        "what is on disk between write() and close() is not observed (buffered I/O); a chunked write of the complete serialisation is treated as one Write",
        "Encrypt is not observable from outside; only its effect (a fault raised after the key file was read; the secret decrypting on load) is",
        "faults at open-for-write / write / close of the destination (disk full, permissions) are outside the property's quantifier and are not injected",
        "the order of the serialisation steps among themselves (format lookup, fields, key file) is compared but a difference there alone is reported as MODEL-DRIFT, not as a C19 violation",
        "destination writes are detected through builtins.open, io.open, os.open, os.replace, os.rename and, independently, through the bytes on disk at every observed step",
    ]
    return out
