"""C11 - a load that returns means required fields are set and every validator passed.
Decided on spec/ConfigMachine.tla with instance SchemaV (required fields with and without
defaults, a field validator, schema validators at three depths, a feature-flagged
sub-configuration, a list of configurations whose schema has a validator): C11_ReturnImplies,
C11_CollectIffRaise, C11_ItemsHeld, C11_ItemsInserted.  The conformance step registers logging validators and
compares the set of (configuration path, validator) invocations of every load / validate."""
from . import cfgfamily, cfgmachine


def run(tier, seed):
    out = cfgmachine.run_machine(
        "C11", ["C11_ReturnImplies", "C11_CollectIffRaise", "C11_ItemsHeld", "C11_ItemsLoaded"], ["C11_ItemsInserted"], tier, seed, schema="SchemaV", focus="C11",
        # (every operation followed by validate / load: two levels of the graph are replayed)
        export_depth=2
    )
    # and on the generated schema family: every operation followed by validate() / validate(collect_errors=True)
    fam = cfgfamily.run_family(
        "C11", ["C11_ReturnImplies", "C11_CollectIffRaise", "C11_ItemsHeld", "C11_ItemsLoaded"], ["C11_ItemsInserted"], tier, seed, focus="C11", then="validate"
    )
    return cfgmachine.merge(out, fam)


replay_file = cfgmachine.replay_file
