"""C11 - a load that returns means required fields are set and every validator passed.
Decided on spec/ConfigMachine.tla with instance SchemaV (required fields with and without
defaults, a field validator, schema validators at three depths, a feature-flagged
sub-configuration, a list of configurations whose schema has a validator): C11_ReturnImplies,
C11_CollectIffRaise, C11_ItemsHeld, C11_ItemsInserted.  The conformance step registers logging validators and
compares the set of (configuration path, validator) invocations of every load / validate."""
from . import cfgmachine


def run(tier, seed):
    return cfgmachine.run_machine(
        "C11", ["C11_ReturnImplies", "C11_CollectIffRaise", "C11_ItemsHeld"], ["C11_ItemsInserted"], tier, seed, schema="SchemaV", focus="C11"
    )
