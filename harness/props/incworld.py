"""Real files, real schemas and real configurations behind spec/CincoInclude.tla.

Shared by harness/props/c18.py (C18) and harness/props/loadfail.py (document-load clause of C06).

  schema descriptor   {"kind": "schema", "fields": [[<key chars>, <field>], ...]}
                      field: {"kind": "any"} | {"kind": "int"} | {"kind": "include", "startdir": <chars>}
                      (a start directory may begin with "~": the home directory, $/H while a case runs)
  file system         [[<path chars, "$" = scratch root>, <entry>], ...]
                      entry: {"k": "file", "v": <abstract value>[, "tag": <root element chars, XML only>]}
                             | {"k": "dir"} | {"k": "unparseable"} | {"k": "unreadable"}
  options             {"fmt": <format> | "any", "rk": <YAML root_key chars, [] = none>, "tag": <XML root_tag chars>,
                       "pretty": <JSON pretty>, "explicit": <keyword arguments are passed at all>}
  configuration       {"t": "cfg", "kv": [[<key chars>, value | configuration], ...], "dflt": [<key chars>...]}

Documents are written with the third-party encoders directly (json, yaml, bson, pickle) and a
small XML writer for the documented element mapping, so that the library's own `dumps` is not
part of the oracle.
"""
import builtins
import contextlib
import json
import os
import pickle
import shutil
from xml.etree import ElementTree as ET

from .. import codec

FORMATS = ["json", "yaml", "xml", "bson", "pickle"]


class NotRepresentable(Exception):
    """The value has no document in this format (e.g. a non-map BSON / XML document)."""


def seq(x):
    return codec.seq(x)


def chars(text):
    return list(text)


def text(cs):
    return "".join(seq(cs))


# ------------------------------------------------------------------------------ documents
def _xml_element(key, value):
    ele = ET.Element(key)
    if isinstance(value, str):
        ele.attrib["type"] = "str"
        ele.text = value
    elif isinstance(value, bool):
        ele.attrib["type"] = "bool"
        ele.text = "true" if value else "false"
    elif isinstance(value, int):
        ele.attrib["type"] = "int"
        ele.text = str(value)
    elif isinstance(value, float):
        ele.attrib["type"] = "float"
        ele.text = str(value)
    elif value is None:
        ele.attrib["type"] = "none"
    elif isinstance(value, list):
        ele.attrib["type"] = "list"
        for item in value:
            ele.append(_xml_element("item", item))
    elif isinstance(value, dict):
        ele.attrib["type"] = "dict"
        for k, v in value.items():
            ele.append(_xml_element(k, v))
    else:
        raise NotRepresentable(type(value).__name__)
    return ele


DEFAULT_TAG = "config"


def default_opt(fmt="any"):
    return {"fmt": fmt, "rk": [], "tag": chars(DEFAULT_TAG), "pretty": True, "explicit": False}


def tag_of(entry):
    """Root element of a document / file entry (XML only; the default when not stated)."""
    return text(entry["tag"]) if entry.get("tag") is not None else DEFAULT_TAG


def kwargs_of(opt, variant=0):
    """Keyword arguments of Config.loads(...) for the abstract options; {} when none are passed.

    A YAML root key "none" is passed as None or as "" (both falsy), by `variant`."""
    if not opt or not opt.get("explicit"):
        return {}
    fmt = opt["fmt"]
    if fmt == "yaml":
        rk = text(opt["rk"])
        return {"root_key": rk if rk else (None if variant % 2 == 0 else "")}
    if fmt == "xml":
        return {"root_tag": text(opt["tag"])}
    if fmt == "json":
        return {"pretty": bool(opt["pretty"])}
    raise ValueError("format %s has no options" % fmt)


def encode(fmt, value, tag=DEFAULT_TAG):
    """Bytes of the document holding `value` in format `fmt` (independent encoders); `tag`: the
    root element of an XML document (other formats have none)."""
    if fmt == "json":
        return json.dumps(value).encode()
    if fmt == "yaml":
        import yaml

        return yaml.dump(value, Dumper=yaml.Dumper, sort_keys=False).encode()
    if fmt == "pickle":
        return pickle.dumps(value)
    if fmt == "bson":
        import bson

        if not isinstance(value, dict):
            raise NotRepresentable("bson document must be a map")
        return bson.dumps(value)
    if fmt == "xml":
        if not isinstance(value, dict):
            raise NotRepresentable("xml document must be a map")
        return ET.tostring(_xml_element(tag, value), "utf-8")
    raise ValueError(fmt)


def third_party_parse(fmt, data, tag=DEFAULT_TAG):
    """Parse with the third-party parser alone: ("ok", value) | ("error", None) | ("unknown", None).
    An XML document whose root element is not `tag` counts as an error."""
    try:
        if fmt == "json":
            return "ok", json.loads(data.decode())
        if fmt == "yaml":
            import yaml

            return "ok", yaml.load(data.decode(), Loader=yaml.Loader)
        if fmt == "pickle":
            return "ok", pickle.loads(data)
        if fmt == "bson":
            import bson

            return "ok", bson.loads(data)
        if fmt == "xml":
            root = ET.fromstring(data.decode())
            if root.tag != tag:
                return "error", None
            return "unknown", None  # a well-formed document with that root: element mapping not re-implemented here
    except Exception:  # noqa
        return "error", None
    raise ValueError(fmt)


GARBAGE = b"\x00\x01{[<not a document"


def bad_document(fmt, how, valid):
    """Bytes that are NOT a document of format `fmt`; None when the kind does not exist for it."""
    if how == "truncated":
        if fmt == "yaml":
            # block-style YAML cut in the middle can still be a document: cut inside a flow map
            import yaml

            flow = yaml.dump({"a": {"x": [1, 2, {"y": "zzzz"}]}, "n": 7}, default_flow_style=True).encode()
            return flow[: len(flow) // 2]
        return valid[: max(1, len(valid) // 2)]
    if how == "wrongroot":
        if fmt != "xml":
            return None
        return valid.replace(b"<config", b"<other").replace(b"</config>", b"</other>")
    if how == "undecodable":
        return b"\xff\xfe\xfa" + valid[:5] + b"\xff"
    if how == "notdoc":
        return {"json": b"hello world {", "yaml": b"a: b: c: [", "xml": b"not xml at all", "bson": GARBAGE, "pickle": GARBAGE}[fmt]
    raise ValueError(how)


# ------------------------------------------------------------------------------ file system
class FsWorld:
    """One abstract file system written to disk in one format, below `root` ("$")."""

    def __init__(self, fs, fmt, root):
        self.fs = fs
        self.fmt = fmt
        self.root = root
        self.unreadable = set()
        self.unrepresentable = set()  # abstract paths whose content has no document in this format
        os.makedirs(root, exist_ok=True)
        for d in ("W", "H", "docs"):
            os.makedirs(os.path.join(root, d), exist_ok=True)
        entries = [(text(p), e) for p, e in seq(fs)]
        for p, e in entries:
            if e["k"] == "dir":
                os.makedirs(self.real(p), exist_ok=True)
        for p, e in entries:
            if e["k"] == "dir":
                continue
            path = self.real(p)
            os.makedirs(os.path.dirname(path), exist_ok=True)
            if e["k"] == "file":
                try:
                    data = encode(fmt, codec.to_py(e["v"], root), tag_of(e))
                except NotRepresentable:
                    self.unrepresentable.add(p)
                    data = GARBAGE
            elif e["k"] == "unparseable":
                data = GARBAGE
                if third_party_parse(fmt, data)[0] != "error":
                    raise RuntimeError("garbage parses as %s" % fmt)
            elif e["k"] == "unreadable":
                data = encode(fmt, {})
                self.unreadable.add(os.path.abspath(path))
            else:
                raise ValueError(e["k"])
            with open(path, "wb") as fp:
                fp.write(data)
        self.cwd = os.path.join(root, "W")

    def real(self, p):
        return p.replace("$", self.root)

    @contextlib.contextmanager
    def active(self):
        """Working directory $/W, home directory $/H; opening an `unreadable` file raises PermissionError."""
        old_cwd = os.getcwd()
        old_home = os.environ.get("HOME")
        os.environ["HOME"] = os.path.join(self.root, "H")
        os.chdir(self.cwd)
        real_open = builtins.open
        unreadable = self.unreadable

        def guarded_open(file, *args, **kwargs):
            if unreadable and isinstance(file, (str, bytes, os.PathLike)):
                try:
                    ap = os.path.abspath(os.fsdecode(file))
                except Exception:  # noqa
                    ap = None
                if ap in unreadable:
                    raise PermissionError(13, "Permission denied", os.fsdecode(file))
            return real_open(file, *args, **kwargs)

        if unreadable:
            builtins.open = guarded_open
        try:
            yield self
        finally:
            builtins.open = real_open
            os.chdir(old_cwd)
            if old_home is None:
                os.environ.pop("HOME", None)
            else:
                os.environ["HOME"] = old_home

    def remove(self):
        shutil.rmtree(self.root, ignore_errors=True)


# ------------------------------------------------------------------------------ schemas, configurations
def build_schema(cinco, desc, root):
    schema = cinco.Schema()
    _fill(cinco, schema, desc, root)
    return schema


def _fill(cinco, schema, desc, root):
    for key, f in seq(desc["fields"]):
        key = text(key)
        kind = f["kind"]
        if kind == "any":
            schema._add_field(key, cinco.Field())
        elif kind == "int":
            schema._add_field(key, cinco.IntField())
        elif kind == "include":
            sd = text(f["startdir"])
            schema._add_field(key, cinco.IncludeField(startdir=sd.replace("$", root) if sd else None))
        elif kind == "schema":
            sub = getattr(schema, key)  # creates and binds the nested schema top-down
            _fill(cinco, sub, f, root)
        else:
            raise ValueError(kind)


def project(cinco, cfg, desc, root):
    """The configuration as the specification sees it, through the public API only."""
    kv = []
    dflt = []
    for key, f in seq(desc["fields"]):
        k = text(key)
        if not cinco.is_value_defined(cfg, k):
            dflt.append(chars(k))
        val = cfg[k]
        if f["kind"] == "schema":
            if isinstance(val, cinco.Config):
                kv.append([chars(k), project(cinco, val, f, root)])
            else:
                kv.append([chars(k), {"t": "obj", "n": type(val).__name__}])
        else:
            kv.append([chars(k), codec.to_abs(val, root)])
    return {"t": "cfg", "kv": kv, "dflt": sorted(dflt)}


def nested_objects(cinco, cfg, desc, path=()):
    """path -> nested configuration object (kept alive by the caller, so ids stay unique)."""
    out = {}
    for key, f in seq(desc["fields"]):
        if f["kind"] == "schema":
            k = text(key)
            val = cfg[k]
            out[path + (k,)] = val
            if isinstance(val, cinco.Config):
                out.update(nested_objects(cinco, val, f, path + (k,)))
    return out


def canon(v):
    """Canonical form of an abstract value / configuration: map keys sorted, sets sorted."""
    t = v["t"]
    if t == "cfg":
        return {"t": "cfg", "kv": [[list(seq(k)), canon(x)] for k, x in seq(v["kv"])], "dflt": sorted(list(seq(k)) for k in seq(v["dflt"]))}
    if t == "dict":
        items = [[canon(k), canon(x)] for k, x in seq(v["kv"])]
        items.sort(key=lambda kx: json.dumps(kx[0], sort_keys=True))
        return {"t": "dict", "kv": items}
    if t in ("list", "tuple"):
        return {"t": t, "l": [canon(x) for x in seq(v["l"])]}
    return codec.norm(v)


def ordered(v):
    """Normal form that keeps the order of map keys."""
    t = v["t"]
    if t == "cfg":
        return canon(v)
    return codec.norm(v)


class LoadResult:
    def __init__(self):
        self.out = None
        self.exc = None
        self.before = None
        self.after = None
        self.repl = None


def run_load(cinco, world, schema, desc, pre, data, via="loads", doc_name="doc", kwargs=None):
    """A configuration of `schema`, an earlier load_tree(pre), then load(s) of `data`;
    `kwargs`: formatter options, passed as keyword arguments to the entry point."""
    kwargs = kwargs or {}
    res = LoadResult()
    root = world.root
    with world.active():
        # another configuration of the same schema has loaded a file from a different directory
        # before: configurations share nothing (C13), so this must not matter to anything below
        try:
            elsewhere = os.path.join(root, "elsewhere")
            os.makedirs(elsewhere, exist_ok=True)
            decoy = schema()
            decoy_path = os.path.join(elsewhere, "empty." + world.fmt)
            with open(decoy_path, "wb") as fp:
                fp.write(cinco.ConfigFormat.get(world.fmt).dumps(decoy, {}))
            decoy.load(decoy_path, format=world.fmt)
        except Exception:  # noqa - the decoy's own fate is of no interest
            pass
        cfg = schema()
        cfg.load_tree(codec.to_py(pre, root))
        res.before = project(cinco, cfg, desc, root)
        objs = nested_objects(cinco, cfg, desc)
        try:
            if via == "load":
                path = os.path.join(root, "docs", "%s.%s" % (doc_name, world.fmt))
                with open(path, "wb") as fp:
                    fp.write(data)
                cfg.load(path, format=world.fmt, **kwargs)
            else:
                cfg.loads(data, format=world.fmt, **kwargs)
            res.out = "ok"
        except Exception as exc:  # noqa - any exception is a rejection; the class is left open
            res.out = "rejected"
            res.exc = "%s: %s" % (type(exc).__name__, str(exc)[:160].replace(root, "$"))
        res.after = project(cinco, cfg, desc, root)
        now = nested_objects(cinco, cfg, desc)
        res.repl = sorted([chars(k) for k in p] for p, o in objs.items() if now.get(p) is not o)
        res.cfg = cfg
    return res


def run_load_tree(cinco, world, schema, desc, pre, tree):
    """The reference side of C18_Equivalent: load_tree(merged tree) on an equal configuration."""
    root = world.root
    with world.active():
        cfg = schema()
        cfg.load_tree(codec.to_py(pre, root))
        try:
            cfg.load_tree(codec.to_py(tree, root))
            out = "ok"
        except Exception:  # noqa
            out = "rejected"
        return out, project(cinco, cfg, desc, root)
