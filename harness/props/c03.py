"""C03 - secrets are stored only encrypted and decrypt with the configuration's key file.
Decided on spec/PersistMachine.tla: C03_KeyIsNearest, C03_NoPlaintext; the conformance step
identifies the key that encrypted every ciphertext, the key files opened and plaintext leaks."""
from . import cfgmachine, persist, persistk


def run(tier, seed):
    out = persist.run_persist("C03", ["C03_KeyIsNearest"], ["C03_NoPlaintext", "C02_Reproduces"], tier, seed)
    # every placement of key files over three nested config types and the root (see persistk.py)
    return cfgmachine.merge(out, persistk.run_keyfamily("C03", ["C03_KeyIsNearest"], ["C03_NoPlaintext", "C02_Reproduces"], tier, seed))
