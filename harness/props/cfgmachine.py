"""Shared runner for the properties decided on spec/ConfigMachine.tla (C01, C06, C12, C13).

  1. TLC checks the property's invariants / action properties exhaustively on the bounded
     instance MC_Config (all histories up to MaxDepth over the candidate pools).
  2. spec -> code: TLC exports transitions (the complete graph of the first levels, plus
     random deeper behaviours from -simulate); every case is executed on real Config objects
     and the projected state, outcome and replaced-object set are compared.
  3. code -> spec: a seeded driver performs random operations (values beyond the pools) on
     real Config objects and logs every call; TLC replays the log against the same actions
     (Trace_Config.tla) and evaluates the property's predicates on every observed step.
"""
import json
import os
import random

from .. import cfgadapter, codec, common, replay, tlc, tracecheck

# the process environment of every ConfigMachine run (MC_Config.MCEnviron)
os.environ["FV"] = "0"

ALL_INV = ["C01_AllValid", "C12_Fresh", "C15_Error", "C15_DictItemError"]
ALL_PROP = ["C01_Readback", "C06_Unchanged", "C12_Marks", "C12_Reset", "C13_Isolated", "C02_Reproduces", "C11_ItemsInserted"]

BASE_CFG = """CONSTANTS
  Environ <- MCEnviron
  KeyNames <- MCKeyNames
  KeyChars <- MCKeyChars
  TheSchema <- {schema}
  FamilyN <- MCFamilyN{family}
  FamilyAt <- MCFamilyAt{family}
  Generic = {generic}
  SetCands <- MCSetCands{sfx}
  Trees <- MCTrees{sfx}
  Kwargs <- MCKwargs{sfx}
  ListOps <- MCListOps{sfx}
  DictOps <- MCDictOps{sfx}
  MaxDepth = {depth}
INIT Init
NEXT Next
VIEW View
"""


SFX = {"SchemaA": "", "SchemaV": "V", "SchemaB": "B"}
FAMILY = {"GFirst": "2", "GFirst3": "3"}  # generated schema families (see cfgfamily.py)


def base_cfg(schema, depth):
    fam = FAMILY.get(schema)
    return BASE_CFG.format(
        schema="GFirst" if fam else schema, depth=depth, sfx=SFX.get(schema, "B" if fam else ""),
        family=fam or "1", generic="TRUE" if fam else "FALSE",
    )


def write_cfg(path, schema, depth, invs=(), props=(), export=False, bound=True):
    text = base_cfg(schema, depth)
    if bound:
        text += "CONSTRAINT Bound\n"
    for i in invs:
        text += "INVARIANT %s\n" % i
    for p in props:
        text += "PROPERTY %s\n" % p
    if export:
        text += "ACTION_CONSTRAINT Export\nCONSTRAINT PInit\n"
    with open(path, "w") as fp:
        fp.write(text)


def schema_descriptor(module, schema_name):
    """Ask TLC for the JSON form of the schema descriptor (single source of truth: the spec)."""
    d = tlc.scratch("cinco-schema-")
    mod = os.path.join(d, "ShowSchema.tla")
    with open(mod, "w") as fp:
        fp.write(
            "---- MODULE ShowSchema ----\nEXTENDS %s\nASSUME PrintT(<<\"CASE\", ToJson(%s)>>)\nI == cfgs = <<>> /\\ ev = <<>> /\\ steps = 0 /\\ sid = 0 /\\ sch = 0\nN == FALSE /\\ UNCHANGED <<cfgs, ev, steps, sid, sch>>\n====\n"
            % (module, schema_name)
        )
    with open(os.path.join(d, "ShowSchema.cfg"), "w") as fp:
        fp.write(base_cfg(schema_name, 1).split("INIT")[0] + "INIT I\nNEXT N\n")
    for name in os.listdir(tlc.SPEC_DIR):
        if name.endswith(".tla"):
            os.symlink(os.path.join(tlc.SPEC_DIR, name), os.path.join(d, name))
    res = tlc.run("ShowSchema.tla", "ShowSchema.cfg", workers=1, spec_dir=d, keep=("CASE",))
    return res.printed["CASE"][0]


def render_path(path):
    """Specification error path -> the dotted reference path the library prints."""
    out = ""
    for seg in codec.seq(path):
        if isinstance(seg, str):
            out = out + "." + seg if out else seg
        elif seg[0] == "#":
            out += "[%d]" % (seg[1] - 1)
        else:
            out += "[%s]" % (codec.to_py(codec.norm(seg[1])),)
    return out


NORM_DESC = [None]  # schema descriptor used to normalise asdict results of the current instance


def normalise_graph_states(edges, inits):
    for e in edges:
        if "errpath" in e["ev"]:
            e["ev"]["errpath"] = render_path(e["ev"]["errpath"])
        if e["ev"].get("op") == "Query":
            q = e["ev"]
            q["asdict"] = cfgadapter.norm_asdict(NORM_DESC[0], q.get("asdict"))
            q["computed"] = sorted([[list(codec.seq(p)), cfgadapter.canon_state(v)] for p, v in codec.seq(q.get("computed", []))], key=lambda x: x[0])
        if "vlog" in e["ev"]:
            e["ev"]["vlog"] = sorted([render_path(pv[0]), pv[1]] for pv in codec.seq(e["ev"]["vlog"]))
        e["from"] = cfgadapter.canon_state(e["from"])
        e["to"] = cfgadapter.canon_state(e["to"])
        ev = e["ev"]
        if "repl" in ev:
            ev["repl"] = sorted([list(codec.seq(p)) for p in codec.seq(ev["repl"])])
        if "p" in ev:
            ev["p"] = list(codec.seq(ev["p"]))
    return edges, [cfgadapter.canon_state(s) for s in inits]


def run_machine(prop, invs, props, tier, seed, schema="SchemaA", signature_prefix="", focus=None, export_depth=None):
    import time

    cinco = common.import_repo()
    out = common.Outcome(prop)
    d = tlc.scratch("cinco-cfgm-")
    t0 = [time.time()]
    phases = {}

    def lap(name):
        phases[name] = round(time.time() - t0[0], 1)
        t0[0] = time.time()

    depth = 2 if tier == "quick" else 3
    # 1. exhaustive model checking of this property's predicates
    cfg = os.path.join(d, "mc.cfg")
    write_cfg(cfg, schema, depth, invs, props)
    if os.environ.get("VERIF_DEBUG_SKIP_MC"):  # debugging aid only: never set by the registered commands
        write_cfg(cfg, schema, 1, invs, props)
    res = tlc.run("MC_Config.tla", cfg, workers=16, keep=())
    if not res.ok:
        out.violation(
            "spec:%s" % res.violation,
            "TLC: %s violated on ConfigMachine instance %s depth %d" % (res.violation, schema, depth),
            {"kind": "tlc-counterexample", "predicate": res.violation, "behaviour": res.cex},
        )
    lap("tlc")
    desc = schema_descriptor("MC_Config", schema)
    adapter = cfgadapter.Adapter(cinco, desc)
    adapter.focus = focus
    NORM_DESC[0] = desc
    # 2a. complete graph of the first level(s)
    cfgx = os.path.join(d, "export.cfg")
    write_cfg(cfgx, schema, export_depth or (1 if tier == "quick" else 2), export=True)
    exp = tlc.run("MC_Config.tla", cfgx, workers=1, keep=("INIT", "EDGE"))
    edges, inits = normalise_graph_states(exp.printed.get("EDGE", []), exp.printed.get("INIT", []))
    lap("export")
    g = replay.Graph(inits, edges)
    stats, mism = replay.run_graph(adapter, g, seed=seed)
    lap("replay")
    # 2b. deeper random behaviours from TLC's simulator
    cfgs = os.path.join(d, "sim.cfg")
    write_cfg(cfgs, schema, 99, export=True, bound=False)
    nsim, dsim = (200, 10) if tier == "quick" else (4000, 14)
    sim = tlc.run("MC_Config.tla", cfgs, workers=1, simulate=nsim, depth=dsim, seed=seed + 1, keep=("INIT", "EDGE"))
    sedges, sinits = normalise_graph_states(sim.printed.get("EDGE", []), sim.printed.get("INIT", []))
    lap("simulate")
    g2 = replay.Graph(sinits + inits, sedges)
    stats2, mism2 = replay.run_graph(adapter, g2, seed=seed)
    lap("replay_sim")
    for m in (mism + mism2)[:30]:
        op = m.ev.get("op")
        sub = (m.ev.get("o") or {}).get("m", "") if op == "COp" else m.ev.get("k", "")
        out.violation(
            "%sreplay:%s:%s:%s" % (signature_prefix, op, sub, m.detail.split(":")[0]),
            "spec->code: %s on the real Config differs from the specification: %s" % (brief(m.ev), m.detail[:300]),
            dict(m.to_json(), schema=desc, focus=focus),
        )
    # 3. code -> spec
    ntr, ltr = (150, 14) if tier == "quick" else (2500, 24)
    traces = driver(cinco, desc, seed, ntr, ltr)
    tcfg = os.path.join(d, "trace.cfg")
    with open(tcfg, "w") as fp:
        fp.write(
            base_cfg(schema, 99).replace("INIT Init", "INIT TraceInit").replace("NEXT Next", "NEXT TraceNext").replace("VIEW View", "VIEW TraceView")
            + "ACTION_CONSTRAINT Report\nCONSTRAINT ReportState\n"
        )
    lap("driver")
    verdicts, tstats = tracecheck.validate("Trace_Config.tla", tcfg, traces, wanted=set(invs) | set(props))
    lap("trace_validation")
    wanted = set(invs) | set(props)
    for v in [v for v in verdicts if not v.accepted][:30]:
        if v.bad_inv and not (set(v.bad_inv) & wanted):
            continue
        what = ",".join(sorted(set(v.bad_inv or []) & wanted) or v.bad_obs or ["not-enabled"])
        evs = v.trace["events"]
        k = (v.at or v.consumed + 1) - 1
        e = evs[k] if k < len(evs) else {}
        out.violation(
            "%strace:%s:%s" % (signature_prefix, e.get("op"), what),
            "code->spec: recorded Config trace rejected: %s" % v.describe()[:400],
            v.to_json(),
        )
    distinct = set()
    for cf, ck, alts in list(g.cases()) + list(g2.cases()):
        distinct.add(common.hash_case([cf, ck]))
    nontrivial = len(distinct)
    out.coverage = {
        "states": res.distinct,
        "transitions": res.generated,
        "exhaustive": True,
        "tlc_instance": "MC_Config %s, MaxDepth=%d, predicates %s" % (schema, depth, list(invs) + list(props)),
        "traces_validated_against_impl": stats["cases"] + stats2["cases"] + len(verdicts),
        "spec_to_code_graph_cases": stats["cases"],
        "spec_to_code_sim_cases": stats2["cases"],
        "spec_to_code_steps": stats["steps"] + stats2["steps"],
        "spec_to_code_by_op": {k: stats["by_op"].get(k, 0) + stats2["by_op"].get(k, 0) for k in set(stats["by_op"]) | set(stats2["by_op"])},
        "simulated_behaviours": nsim,
        "phase_seconds_" + schema: phases,
        "code_to_spec_traces": len(verdicts),
        "code_to_spec_events": sum(len(t["events"]) for t in traces),
        "code_to_spec_tlc_states": tstats["states"],
        "evaluations": stats["cases"] + stats2["cases"] + sum(len(t["events"]) for t in traces),
        "distinct_nontrivial": nontrivial,
        "rule": "spec->code case = distinct (model state of both configurations, operation with arguments); all cases of "
        "the level-1/2 graph plus those on seeded simulated behaviours; code->spec = seeded random operation sequences on "
        "real Config objects with values outside the candidate pools; a case is non-trivial by construction (every case "
        "performs an operation); distinct counts distinct (state, operation) pairs replayed",
        "samples": [
            {"spec_to_code_case": {"event": next(iter(alts))[0]} for _, _, alts in list(g.cases())[:2]},
            {"code_to_spec_trace_prefix": traces[0]["events"][:3] if traces else None},
        ],
    }
    out.assumptions = [
        "bounded instance: schema %s (scalar fields, typed list/dict, nested schemas, list of schemas), candidate pools of MC_Config.tla" % schema,
        "object identity of nested configurations is observed as the set of paths whose object was replaced by a step",
        "configurations hold no key file and no environment bindings in this instance (C03 / C14 have their own)",
    ]
    return out


def replay_file(rec):
    """./check <ID> --replay <file>: run a recorded spec->code case again on the current tree."""
    r = rec.get("replay", {})
    if r.get("kind") != "step-differs" or "schema" not in r:
        print(json.dumps(rec, indent=1, sort_keys=True)[:20000])
        return 0
    cinco = common.import_repo()
    adapter = cfgadapter.Adapter(cinco, r["schema"])
    adapter.focus = r.get("focus")
    sut = adapter.start(r["init"])
    try:
        for ev in r["history"]:
            adapter.step(sut, ev)
        obs_ev = adapter.step(sut, r["event"])
        obs_state = adapter.observe(sut)
    finally:
        adapter.close(sut)
    print("event:    %s" % json.dumps({k: v for k, v in r["event"].items() if k not in replay.RESULT_FIELDS or k in ("tree",)}, sort_keys=True)[:2000])
    print("observed: %s" % json.dumps(obs_ev, sort_keys=True, default=str)[:2000])
    for alt in r["expected_by_spec"]:
        why = replay._matches(obs_ev, obs_state, alt["ev"], alt["to"])
        if why is None:
            print("the current tree behaves as the specification says (this alternative): no violation")
            return 0
        print("differs from the specification: %s" % why[:1500])
    print("VIOLATION property=%s replay=%s" % (rec.get("property"), "<this file>"))
    return 1


def merge(a, b):
    """Merge the outcome of a second instance into the first."""
    a.violations += b.violations
    ca, cb = a.coverage, b.coverage
    for k in ("states", "transitions", "traces_validated_against_impl", "spec_to_code_graph_cases", "spec_to_code_sim_cases",
              "spec_to_code_steps", "simulated_behaviours", "code_to_spec_traces", "code_to_spec_events", "code_to_spec_tlc_states",
              "evaluations", "distinct_nontrivial"):
        ca[k] = ca.get(k, 0) + cb.get(k, 0)
    for k, v in cb.get("spec_to_code_by_op", {}).items():
        ca.setdefault("spec_to_code_by_op", {})
        ca["spec_to_code_by_op"][k] = ca["spec_to_code_by_op"].get(k, 0) + v
    ca["tlc_instance"] = ca["tlc_instance"] + " + " + cb["tlc_instance"]
    ca["samples"] = ca["samples"] + cb["samples"][:1]
    for k, v in cb.items():
        if k.startswith(("family_", "keyfamily_", "phase_seconds")):
            ca[k] = v
    a.assumptions = a.assumptions + [x for x in b.assumptions if x not in a.assumptions]
    return a


def brief(ev):
    e = {k: v for k, v in ev.items() if k in ("op", "n", "p", "k", "o")}
    if "v" in ev:
        try:
            e["v"] = codec.to_py(ev["v"]) if ev["v"]["t"] not in ("cfgobj", "obj") else ev["v"]["t"]
        except Exception:  # noqa
            e["v"] = "..."
    return e


# ------------------------------------------------------------------------------ driver
def S(text):
    return {"t": "str", "s": list(text)}


def I(n):
    return {"t": "int", "i": n}


def D(**kw):
    return {"t": "dict", "kv": [[S(k), v] for k, v in kw.items()]}


def L(*xs):
    return {"t": "list", "l": list(xs)}


NONE = {"t": "none"}


def rnd_leaf_value(rng, f):
    kind = f["kind"]
    r = rng.random()
    if r < 0.08:
        return NONE
    if r < 0.2:
        return rng.choice([I(rng.randint(-5, 20)), S(rng.choice(["x", "7", " Ab", ""])), {"t": "bool", "b": True}, L(), D(), {"t": "float", "h": 3}])
    if kind == "int":
        return rng.choice([I(rng.randint(-3, 14)), S(str(rng.randint(-2, 12))), {"t": "float", "h": rng.randint(-4, 24)}])
    if kind == "string":
        return S("".join(rng.choice("abUVuv xq") for _ in range(rng.randint(0, 5))))
    if kind == "bool":
        return rng.choice([S("yes"), S("off"), S("m"), {"t": "bool", "b": False}, I(1)])
    if kind == "list":
        if f["item"]["kind"] == "schema":
            return L(*[rnd_item(rng) for _ in range(rng.randint(0, 2))])
        return {"t": rng.choice(["list", "tuple"]), "l": [rnd_leaf_value(rng, f["item"]) for _ in range(rng.randint(0, 3))]}
    if kind == "dict":
        return {"t": "dict", "kv": [[S(k), rnd_leaf_value(rng, f["valf"])] for k in rng.sample(["k", "K", "m", "n"], rng.randint(0, 3))]}
    if kind == "filename":
        return S(rng.choice(["g", "f", "m", "d", "$/f", "$/d/g", "$/m", "d/g", ""]))
    if kind in ("ipv4addr", "ipv4net", "hostname", "url", "float", "bytes"):
        from .c05 import rnd_value

        return rnd_value(rng, f)
    return I(1)


def rnd_item(rng):
    return rng.choice([D(p=I(rng.randint(0, 10))), D(p=I(rng.randint(1, 9)), q=S("w")), D(q=S("r")), D(), I(3), D(p=S(str(rng.randint(1, 9))))])


def walk_fields(desc, path=()):
    for key, f in codec.seq(desc["fields"]):
        yield path, key, f
        if f["kind"] == "schema":
            yield from walk_fields(f, path + (key,))


def rnd_tree(rng, desc, depth=0):
    kv = []
    fields = list(codec.seq(desc["fields"]))
    rng.shuffle(fields)
    for key, f in fields[: rng.randint(0, len(fields))]:
        if f["kind"] == "schema":
            v = rnd_tree(rng, f, depth + 1) if rng.random() < 0.85 else I(1)
        elif f["kind"] == "virtual":
            continue
        else:
            v = rnd_leaf_value(rng, f)
        kv.append([S(key), v])
    if rng.random() < 0.05:
        kv.append([S("zz"), I(1)])
    return {"t": "dict", "kv": kv}


def driver(cinco, desc, seed, n_traces, length):
    rng = random.Random(seed)
    fields = list(walk_fields(desc))
    has_l2 = any(p == () and k == "l2" for p, k, _ in fields)
    traces = []
    for _ in range(n_traces):
        init = {"cfgs": {"c1": {"t": "cfg"}, "c2": rng.choice([{"t": "cfg"}, {"t": "none"}])}}
        w = cfgadapter.World(cinco, desc, init)
        init_obs = w.observe()
        events = []
        try:
            for _ in range(length):
                n = rng.choice(["c1", "c2"])
                r = rng.random()
                if w.cfgs[n] is None or r < 0.06:
                    kws = []
                    for path, key, f in rng.sample(fields, rng.randint(0, 2)):
                        if path == ():
                            kws.append([key, rnd_tree(rng, f) if f["kind"] == "schema" else rnd_leaf_value(rng, f)])
                    seen = set()
                    kws = [kv for kv in kws if not (kv[0] in seen or seen.add(kv[0]))]
                    ev = {"op": "Ctor", "n": n, "kw": kws}
                elif r < 0.45:
                    path, key, f = rng.choice(fields)
                    if f["kind"] == "schema":
                        v = rnd_tree(rng, f) if rng.random() < 0.8 else rng.choice([I(1), {"t": "cfgobj"}])
                    else:
                        v = rnd_leaf_value(rng, f)
                    ev = {"op": rng.choice(["SetAttr", "SetItem"]) if path else "SetAttr", "n": n, "p": list(path), "k": key, "v": v}
                elif r < 0.6:
                    ev = {"op": "Load", "n": n, "tree": rnd_tree(rng, desc)}
                elif r < 0.7:
                    path, key, f = rng.choice(fields)
                    ev = {"op": "Reset", "n": n, "p": list(path), "k": key}
                elif r < 0.75:
                    ev = {"op": rng.choice(["Validate", "ValidateCollect"]), "n": n}
                elif r < 0.77:
                    ev = {"op": "Query", "n": n} if rng.random() < 0.5 else {"op": "RoundTrip", "n": n, "fmt": rng.choice(["json", "yaml", "bson", "xml", "pickle"])}
                elif r < 0.80:
                    other = "c2" if n == "c1" else "c1"
                    if w.cfgs[other] is None:
                        continue
                    ev = {"op": "CopyTree", "n": n, "src": other}
                else:
                    cands = [(p, k, f) for p, k, f in fields if f["kind"] in ("list", "dict")]
                    if not cands:
                        continue
                    path, key, f = rng.choice(cands)
                    if f["kind"] == "list":
                        item = (lambda: rnd_item(rng)) if f["item"]["kind"] == "schema" else (lambda: rnd_leaf_value(rng, f["item"]))
                        o = rng.choice(
                            [
                                {"m": "append", "v": item()},
                                {"m": "insert", "i": rng.randint(-3, 3), "v": item()},
                                {"m": "setitem", "i": rng.randint(-2, 3), "v": item()},
                                {"m": "extend", "vs": [item() for _ in range(rng.randint(0, 3))]},
                                {"m": "iadd", "vs": [item() for _ in range(rng.randint(0, 3))]},
                                {"m": "setslice_all", "vs": [item() for _ in range(rng.randint(0, 3))]},
                                {"m": "pop"},
                                {"m": "clear"},
                                {"m": "remove_at", "i": rng.randint(0, 2)},
                            ]
                            + (
                                [{"m": "item_set", "i": rng.randint(0, 2), "k": rng.choice(["p", "q"]), "v": rng.choice([I(rng.randint(0, 10)), S("t")])}] * 3
                                + [{"m": "item_reset", "i": rng.randint(0, 2), "k": rng.choice(["p", "q"])}, {"m": "setitem_same", "i": rng.randint(0, 2)}]
                                if f["item"]["kind"] == "schema"
                                else ([{"m": "slice_from", "src": "l2"}, {"m": "extend_from", "src": "l2"}] if has_l2 else [])
                            )
                            + [
                            ]
                        )
                    else:
                        kk = lambda: S(rng.choice(["k", "K", "m", "n", "q"]))  # noqa
                        vv = lambda: rnd_leaf_value(rng, f["valf"])  # noqa
                        o = rng.choice(
                            [
                                {"m": "setitem", "k": kk(), "v": vv()},
                                {"m": "update", "kv": [[S(k), vv()] for k in rng.sample(["a", "b", "k"], rng.randint(0, 3))]},
                                {"m": "ior", "kv": [[S(k), vv()] for k in rng.sample(["c", "d", "K"], rng.randint(0, 3))]},
                                {"m": "setdefault", "k": kk(), "v": vv()},
                                {"m": "pop", "k": S(rng.choice(["K", "M", "A"]))},
                                {"m": "clear"},
                            ]
                        )
                    ev = {"op": "COp", "n": n, "p": list(path), "k": key, "o": o}
                    if f["kind"] == "dict" and rng.random() < 0.25:
                        # the dotted-path route to one entry of the map
                        ev = {"op": "SetDictItem", "n": n, "p": list(path), "k": key, "dk": list(rng.choice(["k", "K", "m", "q2"])), "v": rnd_leaf_value(rng, f["valf"])}
                if ev.get("v", {}).get("t") == "cfgobj":
                    # a ready-made Config of the sub-schema, in its default state; the spec needs its state
                    sub = cfgadapter.schema_field(cinco, w.schema, ev["p"] + [ev["k"]])
                    ev["v"] = {"t": "cfgobj", "c": cfgadapter.project_cfg(cinco, sub())}
                try:
                    res = w.step(ev)
                except codec.Unrepresentable:
                    break
                try:
                    obs = w.observe()
                except codec.Unrepresentable:
                    break
                rec = dict(ev)
                rec["out"] = res["out"]
                rec["repl"] = res["repl"] + [["<other>"] + p for p in res["repl_other"]]
                rec["cfgs"] = obs["cfgs"]
                events.append(rec)
        finally:
            w.close()
        traces.append({"init": init_obs, "events": events})
    return traces
