"""C16 - all ways of naming a field agree; command-line overrides touch only what's given.

Specification: spec/ArgMachine.tla (field enumeration, dotted lookup, the generated option
table, argparse's store / store_true / store_false semantics, cmdline_args_override).  TLC
checks C16_PathsAgree, C16_Options, C16_OnlySupplied over configuration states x command lines
x ignore lists.  Every transition is replayed: the REAL generated ArgumentParser parses the
real argv (SystemExit captured), cmdline_args_override applies it; Describe cases compare
get_all_fields / schema[path] / item_ref_path / config[path] / membership / dotted assignment
and the option table (read from the parser's help text and from parsing each option)."""
import contextlib
import io
import os
import re

from .. import cfgadapter, codec, common, replay, tlc
from .cfgmachine import render_path

CFG = """CONSTANTS
  Environ <- MCEnviron
  KeyNames <- MCKeyNames
  KeyChars <- MCKeyChars
  TheSchema <- {schema}
  SetCands <- {cands}
  ArgPool <- {pool}
  IgnoreLists <- {ignore}
  MaxDepth = {depth}
INIT Init
NEXT Next
VIEW View
"""


INSTANCES = {
    "SchemaG": dict(schema="SchemaG", cands="MCSetCands", pool="MCArgPool", ignore="MCIgnore"),
    # pools derived from the schema's own option table (MC_Arg.GenArgPool / GenIgnore / GenSetCandsA)
    "SchemaG2": dict(schema="SchemaG2", cands="GenSetCandsA", pool="GenArgPool", ignore="GenIgnore"),
    "SchemaG3": dict(schema="SchemaG3", cands="GenSetCandsA", pool="GenArgPool", ignore="GenIgnore"),
}


def write_cfg(path, depth, check=True, export=False, instance="SchemaG"):
    text = CFG.format(depth=depth, **INSTANCES[instance])
    if check:
        text += "INVARIANT C16_PathsAgree\nINVARIANT C16_Options\nPROPERTY C16_OnlySupplied\n"
    if export:
        text += "ACTION_CONSTRAINT Export\nCONSTRAINT PInit\n"
    with open(path, "w") as fp:
        fp.write(text)


def schema_desc(instance="SchemaG"):
    d = tlc.scratch("cinco-schemaG-")
    with open(os.path.join(d, "ShowG.tla"), "w") as fp:
        fp.write(
            '---- MODULE ShowG ----\nEXTENDS MC_Arg\nASSUME PrintT(<<"CASE", ToJson(%s)>>)\n'
            "I == cfg = <<>> /\\ ev = <<>> /\\ steps = 0\nN == FALSE /\\ UNCHANGED <<cfg, ev, steps>>\n====\n"
            % instance
        )
    with open(os.path.join(d, "ShowG.cfg"), "w") as fp:
        fp.write(CFG.format(depth=1, **INSTANCES[instance]).split("INIT")[0] + "INIT I\nNEXT N\n")
    for name in os.listdir(tlc.SPEC_DIR):
        if name.endswith(".tla"):
            os.symlink(os.path.join(tlc.SPEC_DIR, name), os.path.join(d, name))
    return tlc.run("ShowG.tla", "ShowG.cfg", workers=1, spec_dir=d, keep=("CASE",)).printed["CASE"][0]


def dotted(path):
    return ".".join(codec.seq(path))


@contextlib.contextmanager
def _quiet():
    import warnings

    with warnings.catch_warnings():
        warnings.simplefilter("ignore", DeprecationWarning)
        yield


class World:
    def __init__(self, cinco, desc):
        self.cinco = cinco
        self.desc = desc
        self.schema = cfgadapter.build_schema_topdown(cinco, desc)
        self.cfg = self.schema()

    def observe(self):
        return {"cfg": cfgadapter.project_cfg(self.cinco, self.cfg)}

    def argv(self, ev):
        out = []
        for t in codec.seq(ev["argv"]):
            o = "".join(codec.seq(t["o"]))
            if "v" in t:
                v = "".join(codec.seq(t["v"]))
                # alternate between "--opt value" and "--opt=value"
                if len(out) % 2:
                    out.append("%s=%s" % (o, v))
                else:
                    out += [o, v]
            else:
                out.append(o)
        return out

    def step(self, ev):
        cinco = self.cinco
        op = ev["op"]
        res = {"out": "ok"}
        try:
            if op == "Set":
                target = self.cfg
                for k in codec.seq(ev["p"]):
                    target = getattr(target, k)
                setattr(target, ev["k"], cfgadapter.value_to_py(cinco, ev["v"]))
            elif op == "Override":
                # the support functions and the (deprecated) methods that delegate to them, in turn
                legacy = len(codec.seq(ev["argv"])) % 2 == 1
                with _quiet():
                    parser = self.schema.generate_argparse_parser(allow_abbrev=False) if legacy else cinco.generate_argparse_parser(self.schema, allow_abbrev=False)
                try:
                    with contextlib.redirect_stderr(io.StringIO()), contextlib.redirect_stdout(io.StringIO()):
                        ns = parser.parse_args(self.argv(ev))
                except SystemExit:
                    return {"out": "SystemExit", "ns": []}
                res["ns"] = [[list(k.split(".")), codec.to_abs(v)] for k, v in vars(ns).items()]
                ign = [dotted(p) for p in codec.seq(ev["ignore"])]
                ignore = None if not ign else (ign[0] if len(ign) == 1 else ign)
                with _quiet():
                    if legacy:
                        self.cfg.cmdline_args_override(ns, ignore=ignore)
                    else:
                        cinco.cmdline_args_override(self.cfg, ns, ignore=ignore)
            elif op == "Describe":
                res.update(self.describe(ev.get("mode", "topdown")))
            else:
                raise RuntimeError(op)
        except Exception as exc:  # noqa
            res["out"] = cfgadapter.fieldmap.exc_class(exc)
        return res

    def mounted_schema(self):
        """The same schema built bottom-up: nested schemas stand alone first, the reference
        paths of their fields are read, then they are attached to their parents."""
        cinco = self.cinco

        def build(d):
            s = cinco.Schema()
            for key, f in codec.seq(d["fields"]):
                if f["kind"] == "schema":
                    sub = build(f)
                    for _p, _s, fld in cinco.get_all_fields(sub):
                        cinco.item_ref_path(fld)
                    setattr(s, key, cinco.make_type(sub, "T_" + key) if f.get("ctype") else sub)
                elif f["kind"] == "virtual":
                    setattr(s, key, cinco.VirtualField(lambda cfg: 42))
                else:
                    setattr(s, key, cfgadapter.fieldmap.build(cinco, f))
            return s

        return build(self.desc)

    def late_schema(self):
        """The same schema, except that it has been enumerated, looked up and given a parser once
        while the last leaf of its last nested schema was still missing; then that leaf is added."""
        cinco = self.cinco
        desc = self.desc
        fields = list(codec.seq(desc["fields"]))
        nested = [i for i, (k, f) in enumerate(fields) if f["kind"] == "schema" and not f.get("ctype") and len(list(codec.seq(f["fields"]))) > 1]
        if not nested:
            return cfgadapter.build_schema_topdown(cinco, desc)
        i = nested[-1]
        key, sub = fields[i]
        sub_fields = list(codec.seq(sub["fields"]))
        last_key, last_f = sub_fields[-1]
        if last_f["kind"] in ("schema", "virtual"):
            return cfgadapter.build_schema_topdown(cinco, desc)
        partial = dict(desc, fields=fields[:i] + [[key, dict(sub, fields=sub_fields[:-1])]] + fields[i + 1:])
        schema = cfgadapter.build_schema_topdown(cinco, partial)
        cinco.get_all_fields(schema)
        cinco.generate_argparse_parser(schema)
        schema()
        setattr(getattr(schema, key), last_key, cfgadapter.fieldmap.build(cinco, last_f))
        return schema

    def describe(self, mode="topdown"):
        cinco = self.cinco
        schema, cfg = self.schema, self.cfg
        if mode == "late":
            schema = self.late_schema()
            cfg = schema()
        if mode == "mounted":
            schema = self.mounted_schema()
            cfg = schema()
        fields = cinco.get_all_fields(schema)
        problems = []
        with _quiet():
            if [(p, f) for p, _s, f in schema.get_all_fields()] != [(p, f) for p, _s, f in fields]:
                problems.append("Schema.get_all_fields() differs from get_all_fields(schema)")
        paths = []
        for path, owner, field in fields:
            paths.append(list(path))
            if schema[path] is not field:
                problems.append("schema[%r] is not the enumerated field" % path)
            if cinco.item_ref_path(field) != path:
                problems.append("item_ref_path(%r) = %r" % (path, cinco.item_ref_path(field)))
            if isinstance(field, cinco.fields.InstanceMethodField):
                continue
            chained = cfg
            for k in path.split("."):
                chained = getattr(chained, k)
            got = cfg[path]
            if got is not chained and got != chained:
                problems.append("config[%r] differs from chained attribute access" % path)
            if not isinstance(field, cinco.fields.VirtualField) and path not in cfg:
                problems.append("%r in config is False" % path)
        if [p for p, _, _ in cinco.get_all_fields(cfg)] != [p for p, _, _ in fields]:
            problems.append("get_all_fields(config) differs from get_all_fields(schema)")
        if "nope.zz" in cfg or "zz" in cfg:
            problems.append("membership true for an undeclared path")
        parser = cinco.generate_argparse_parser(schema, allow_abbrev=False)
        help_text = parser.format_help()
        options = sorted(set(re.findall(r"(?<![\w-])(--[a-z0-9][a-z0-9-]*)", help_text)) - {"--help"})
        dests = []
        for o in options:
            hit = None
            for argv in ([o], [o, "7"]):
                try:
                    with contextlib.redirect_stderr(io.StringIO()):
                        ns = parser.parse_args(argv)
                except SystemExit:
                    continue
                hit = [k for k, v in vars(ns).items() if v is not None]
                break
            dests.append([list(o), list(hit[0]) if hit and len(hit) == 1 else list("<%r>" % (hit,))])
        return {
            "paths": paths,
            "options": [list(o) for o in options],
            "dests": sorted(dests),
            "extra": problems or None,
        }


class Adapter:
    def __init__(self, cinco, desc):
        self.cinco = cinco
        self.desc = desc

    def start(self, init):
        return World(self.cinco, self.desc)

    def step(self, w, ev):
        return w.step(ev)

    def observe(self, w):
        return w.observe()

    def close(self, w):
        pass


def normalise(edges, inits):
    for e in edges:
        e["from"] = cfgadapter.canon_state(e["from"])
        e["to"] = cfgadapter.canon_state(e["to"])
        ev = e["ev"]
        if "ns" in ev:
            ev["ns"] = [[list(codec.seq(d)), codec.norm(v)] for d, v in codec.seq(ev["ns"])]
        if "paths" in ev:
            ev["paths"] = [list(codec.seq(p)) for p in codec.seq(ev["paths"])]
            ev["options"] = sorted(list(codec.seq(o)) for o in codec.seq(ev["options"]))
            ev["dests"] = sorted([list(codec.seq(o)), list(codec.seq(d))] for o, d in codec.seq(ev["dests"]))
        if "p" in ev:
            ev["p"] = list(codec.seq(ev["p"]))
        if "ignore" in ev:
            ev["ignore"] = sorted(list(codec.seq(p)) for p in codec.seq(ev["ignore"]))
        if "argv" in ev:
            ev["argv"] = list(codec.seq(ev["argv"]))
    return edges, [cfgadapter.canon_state(s) for s in inits]


OPTS = {
    "--host": "str", "--port": "int", "--rate": "float", "--debug": "on", "--no-debug": "off", "--log-level": "str",
    "--db-host": "str", "--db-pool-size": "int", "--db-ssl": "on", "--no-db-ssl": "off", "--db-auth-user-name": "str",
}
DESTS = [["host"], ["port"], ["rate"], ["debug"], ["log_level"], ["db", "host"], ["db", "pool_size"], ["db", "ssl"], ["db", "auth", "user_name"]]


def option_table(cinco, desc):
    """(OPTS, DESTS, leaves) of a schema, read from the real generated parser."""
    schema = cfgadapter.build_schema_topdown(cinco, desc)
    parser = cinco.generate_argparse_parser(schema, allow_abbrev=False)
    opts, dests = {}, []
    for a in parser._actions:
        for o in a.option_strings:
            if o in ("-h", "--help"):
                continue
            cls = type(a).__name__
            opts[o] = "on" if cls == "_StoreTrueAction" else "off" if cls == "_StoreFalseAction" else "any"
            if a.dest.split(".") not in dests:
                dests.append(a.dest.split("."))
    return opts, dests


def driver(cinco, desc, seed, n_traces, length, generic=False):
    import random

    rng = random.Random(seed)
    traces = []
    OPTS, DESTS = (globals()["OPTS"], globals()["DESTS"]) if not generic else option_table(cinco, desc)
    if generic and not OPTS:
        return []

    def value(kind):
        if kind == "int":
            return rng.choice([str(rng.randint(-2, 12000)), " 7 ", "x1", "3.0"])
        if kind == "float":
            return rng.choice(["%d.5" % rng.randint(0, 9), str(rng.randint(0, 5)), "inf", "nope"])
        if kind == "any":
            return rng.choice([str(rng.randint(0, 70000)), "x1", "2.5", "10.0.0.%d" % rng.randint(0, 300), "10.1.0.0/16", "h.example", "http://a/b", "ab", "", "yes"])
        return rng.choice(["info", "DEBUG", " debug ", "h.example", "bob", "", "a b"])

    for _ in range(n_traces):
        w = World(cinco, desc)
        events = []
        for _ in range(length):
            if generic and rng.random() < 0.3:
                dst = rng.choice(DESTS)
                v = rng.choice([{"t": "int", "i": rng.randint(0, 70000)}, {"t": "bool", "b": rng.random() < 0.5}, {"t": "str", "s": list(value("any"))}])
                ev = {"op": "Set", "p": dst[:-1], "k": dst[-1], "v": v}
            elif not generic and rng.random() < 0.3:
                p, k, v = rng.choice([
                    ([], "port", {"t": "int", "i": rng.randint(1, 9999)}),
                    ([], "debug", {"t": "bool", "b": rng.random() < 0.5}),
                    (["db"], "ssl", {"t": "bool", "b": rng.random() < 0.5}),
                    (["db"], "host", {"t": "str", "s": list("db%d" % rng.randint(0, 9))}),
                    ([], "log_level", {"t": "str", "s": list(rng.choice(["debug", "INFO", "bad"]))}),
                    (["db", "auth"], "user_name", {"t": "str", "s": list("u%d" % rng.randint(0, 9))}),
                ])
                ev = {"op": "Set", "p": p, "k": k, "v": v}
            else:
                argv = []
                for _ in range(rng.randint(0, 4)):
                    if rng.random() < 0.07:
                        argv.append({"o": list(rng.choice(["--bogus", "--por", "--no-port"]))})
                        continue
                    o = rng.choice(sorted(OPTS))
                    kind = OPTS[o]
                    if kind in ("on", "off"):
                        argv.append({"o": list(o)} if rng.random() < 0.95 else {"o": list(o), "v": list("1")})
                    else:
                        argv.append({"o": list(o), "v": list(value(kind))} if rng.random() < 0.95 else {"o": list(o)})
                ignore = rng.sample(DESTS, min(len(DESTS), rng.choice([0, 0, 1, 2, 3])))
                ev = {"op": "Override", "argv": argv, "ignore": ignore}
            # a value that starts with "-" would be read as an option by argparse: skip those
            if ev["op"] == "Override" and any("v" in t and "".join(t["v"]).startswith("-") for t in ev["argv"]):
                continue
            # "--opt" without its value swallows the next token in argparse: keep it last
            if ev["op"] == "Override":
                av = ev["argv"]
                bad = [i for i, t in enumerate(av) if "v" not in t and OPTS.get("".join(t["o"])) in ("str", "int", "float", "any")]
                if bad and bad[0] != len(av) - 1:
                    continue
            res = w.step(ev)
            obs = w.observe()
            rec = dict(ev)
            rec["out"] = res["out"]
            rec["ns"] = res.get("ns", [])
            rec["cfg"] = obs["cfg"]
            events.append(rec)
        traces.append({"init": {}, "events": events})
    return traces


def run_instance(tier, seed, instance):
    cinco = common.import_repo()
    out = common.Outcome("C16")
    d = tlc.scratch("cinco-c16-")
    pre = "" if instance == "SchemaG" else instance + ":"
    depth = (3 if tier == "quick" else 4) if instance == "SchemaG" else (2 if tier == "quick" else 3)
    cfg = os.path.join(d, "mc.cfg")
    write_cfg(cfg, depth, instance=instance)
    res = tlc.run("MC_Arg.tla", cfg, workers=16, keep=())
    if not res.ok:
        out.violation("%sspec:%s" % (pre, res.violation), "TLC: %s violated on ArgMachine" % res.violation, {"kind": "tlc-counterexample", "predicate": res.violation, "behaviour": res.cex})
    desc = schema_desc(instance)
    adapter = Adapter(cinco, desc)
    cfgx = os.path.join(d, "x.cfg")
    write_cfg(cfgx, (2 if tier == "quick" else 3) if instance == "SchemaG" else (1 if tier == "quick" else 2), check=False, export=True, instance=instance)
    exp = tlc.run("MC_Arg.tla", cfgx, workers=1, keep=("INIT", "EDGE"))
    edges, inits = normalise(exp.printed.get("EDGE", []), exp.printed.get("INIT", []))
    g = replay.Graph(inits, edges)
    stats, mism = replay.run_graph(adapter, g, seed=seed)
    for m in mism[:20]:
        out.violation(
            "%sreplay:%s:%s" % (pre, m.ev["op"], m.detail.split(":")[0]),
            "spec->code: %s differs from the specification: %s" % ({k: v for k, v in m.ev.items() if k in ("op", "p", "k", "ignore")}, m.detail[:400]),
            m.to_json(),
        )
    # code -> spec
    from .. import tracecheck

    ntr, ltr = ((200, 10) if tier == "quick" else (3000, 16)) if instance == "SchemaG" else ((80, 8) if tier == "quick" else (800, 14))
    traces = driver(cinco, desc, seed, ntr, ltr, generic=instance != "SchemaG")
    tcfg = os.path.join(d, "trace.cfg")
    with open(tcfg, "w") as fp:
        fp.write(CFG.format(depth=999, **INSTANCES[instance]).replace("INIT Init", "INIT TraceInit").replace("NEXT Next", "NEXT TraceNext").replace("VIEW View", "VIEW TraceView") + "ACTION_CONSTRAINT Report\n")
    verdicts, tstats = tracecheck.validate("Trace_Arg.tla", tcfg, traces)
    for v in [v for v in verdicts if not v.accepted][:15]:
        k = (v.at or v.consumed + 1) - 1
        e = v.trace["events"][k] if k < len(v.trace["events"]) else {}
        out.violation(
            "%strace:%s:%s" % (pre, e.get("op"), ",".join(v.bad_inv or v.bad_obs or ["not-enabled"])),
            "code->spec: recorded command-line trace rejected: %s" % v.describe()[:300],
            v.to_json(),
        )
    distinct = {common.hash_case([cf, ck]) for cf, ck, _ in g.cases()}
    out.coverage = {
        "states": res.distinct,
        "transitions": res.generated,
        "exhaustive": True,
        "tlc_instance": "MC_Arg %s MaxDepth=%d" % (instance, depth),
        "traces_validated_against_impl": stats["cases"] + len(verdicts),
        "code_to_spec_traces": len(verdicts),
        "code_to_spec_events": sum(len(t["events"]) for t in traces),
        "code_to_spec_tlc_states": tstats["states"],
        "spec_to_code_by_op": stats["by_op"],
        "evaluations": stats["cases"],
        "distinct_nontrivial": len(distinct),
        "rule": "case = distinct (configuration state, event): Set, Override(command line, ignore list) or Describe; every case of the exported graph",
        "samples": [{"event": {k: v for k, v in alts[0][0].items() if k in ("op", "argv", "ignore", "out")}} for _, _, alts in list(g.cases())[:3]],
    }
    out.assumptions = [
        "root schemas only (field enumeration of a sub-schema prefixes its own key); identifier keys without collisions after '.'/'_' -> '-'",
        "argparse itself is modelled (store / store_true / store_false, last occurrence wins, unknown or malformed arguments exit); abbreviations are disabled in the harness (allow_abbrev=False)",
        "one schema instance (scalars of every storage type, list, virtual field, two nested levels with '_' in keys), 17 command lines, 3 ignore lists (none, one name as str, list)",
    ]
    return out


def run(tier, seed):
    from . import cfgmachine

    out = run_instance(tier, seed, "SchemaG")
    # further schema shapes with command lines, ignore lists and assignments derived from the option table
    for inst in ("SchemaG2", "SchemaG3"):
        out = cfgmachine.merge(out, run_instance(tier, seed, inst))
    return out
