"""C05 - field validation is exact and idempotent; the on-disk encoding is invertible.

Specification: spec/CincoFields.tla (Validate / ToBasic / ToPython transcribed from the field
classes, Meets written declaratively) driven by spec/FieldLab.tla, a five-step machine
(validate, validate again, to_basic, to_python, validate the decoded value) over families of
field descriptors x candidate values.  TLC checks the C05 invariants on every case;
every case it enumerated is then executed on the real field object and compared stage by
stage (spec -> code); seeded random (descriptor, value) pairs far outside the families are
run on the real fields, logged, and validated by TLC against the same operators
(Trace_FieldLab.tla, code -> spec).
"""
import os
import random

from .. import codec, common, fieldmap, tlc

FAMILIES = ["string", "number", "bool", "ipv4addr", "ipv4net", "hostname", "url", "bytes", "filename", "list", "dict"]
INVARIANTS = [
    "C05_AcceptedMeets",
    "C05_MeetingAccepted",
    "C05_Idempotent",
    "C05_BasicPlain",
    "C05_CodecInverse",
    "C05_DecodedAccepted",
]


def write_cfg(path, fam, big, invariants=True, export=False):
    lines = ["CONSTANTS", '  Fam = "%s"' % fam, "  Big = %s" % ("TRUE" if big else "FALSE"), "INIT Init", "NEXT Next"]
    if invariants:
        lines += ["INVARIANT %s" % i for i in INVARIANTS]
    if export:
        lines.append("CONSTRAINT PCase")
    with open(path, "w") as fp:
        fp.write("\n".join(lines) + "\n")


class Lab:
    """Runs the five stages on a real field object."""

    def __init__(self, cinco):
        self.cinco = cinco
        self.root = tlc.scratch("cinco-c05-")
        with open(os.path.join(self.root, "f"), "w") as fp:
            fp.write("x")
        os.mkdir(os.path.join(self.root, "d"))
        with open(os.path.join(self.root, "d", "g"), "w") as fp:
            fp.write("y")
        self.cwd = os.getcwd()

    def run_case(self, f, v):
        cinco = self.cinco
        field = fieldmap.build(cinco, f, self.root)
        schema = cinco.Schema()
        schema.x = field
        cfg = schema()
        os.chdir(self.root)
        try:
            return self._stages(field, cfg, v)
        finally:
            os.chdir(self.cwd)

    def _call(self, fn, *args):
        try:
            val = fn(*args)
        except Exception as exc:  # noqa
            return {"ok": False, "err": fieldmap.exc_class(exc), "msg": str(exc)[:120]}
        try:
            return {"ok": True, "v": codec.to_abs(val, self.root)}
        except codec.Unrepresentable as exc:
            return {"ok": True, "unrep": str(exc)}

    def _stages(self, field, cfg, v):
        out = {}
        pv = codec.to_py(v, self.root)
        out["r1"] = self._call(field.validate, cfg, pv)
        if not out["r1"]["ok"]:
            return out
        n1 = field.validate(cfg, codec.to_py(v, self.root))
        out["r2"] = self._call(field.validate, cfg, n1)
        if not out["r2"]["ok"]:
            return out
        out["b"] = self._call(field.to_basic, cfg, n1)
        if not out["b"]["ok"]:
            return out
        b = field.to_basic(cfg, n1)
        out["d"] = self._call(field.to_python, cfg, b)
        if not out["d"]["ok"]:
            return out
        d = field.to_python(cfg, b)
        out["r3"] = self._call(field.validate, cfg, d)
        return out


def compare(model, real):
    """First stage at which the real field differs from the specification, or None."""
    if not model["r1"]["ok"] and model["r1"].get("err") == "Unmodelled":
        return "skip"
    for st in ("r1", "r2", "b", "d", "r3"):
        if st not in real:
            # the real pipeline stopped earlier than the model's
            mm = model[st]
            if st == "b":
                continue
            if isinstance(mm, dict) and mm.get("err") == "notrun":
                return None
            return st
        m = model[st]
        r = real[st]
        if st == "b":
            if not r["ok"]:
                return st
            if "unrep" in r or codec.norm(m) != r["v"]:
                return st
            continue
        if m.get("err") == "notrun":
            return st  # the real pipeline went further than the model's
        if not m["ok"] and m.get("err") == "Unmodelled":
            return "skip"
        if m["ok"] != r["ok"]:
            return st
        if m["ok"]:
            if "unrep" in r or codec.norm(m["v"]) != r["v"]:
                return st
        else:
            return None
    return None


# ------------------------------------------------------------------ random driver
COMMON = {"required": False, "default": {"t": "none"}, "sensitive": False, "fname": "", "env": {"m": "inherit"}, "fval": "none"}
STROPTS = {"minlen": -1, "maxlen": -1, "regex": "none", "choices": [], "tcase": "none", "stripm": "none", "stripcs": []}
ALPHA = list("aAbBzZ09 \t\n.-_/:+!")


def S(text):
    return {"t": "str", "s": list(text)}


def rnd_str(rng, maxlen=12, alpha=ALPHA):
    return "".join(rng.choice(alpha) for _ in range(rng.randint(0, maxlen)))


def rnd_field(rng, depth=0):
    kind = rng.choice(["string", "string", "int", "float", "bool", "ipv4addr", "ipv4net", "hostname", "url", "bytes", "list", "dict"] if depth == 0 else ["string", "int", "float", "bool", "bytes", "ipv4addr"])
    d = dict(COMMON)
    d["required"] = rng.random() < 0.3
    if kind in ("string", "ipv4addr", "ipv4net", "hostname", "url"):
        d.update(STROPTS)
        d["kind"] = kind
        if kind == "string":
            if rng.random() < 0.5:
                d["minlen"] = rng.randint(0, 6)
            if rng.random() < 0.5:
                d["maxlen"] = rng.randint(0, 10)
            d["regex"] = rng.choice(["none", "none", "R1", "R2", "R3"])
            if rng.random() < 0.3:
                d["choices"] = [list(rnd_str(rng, 3, "aAb1")) for _ in range(rng.randint(1, 4))]
            d["tcase"] = rng.choice(["none", "lower", "upper"])
        sm = rng.choice(["none", "ws", "chars"] if kind == "string" else ["none", "ws"])
        d["stripm"] = sm
        if sm == "chars":
            d["stripcs"] = sorted(set(rng.choice("aAb.-0 ") for _ in range(rng.randint(1, 3))))
        if kind == "ipv4net":
            d["minpfx"] = rng.choice([-1, -1, 0, 1, 8, 16, 24, 31, 32])
            d["maxpfx"] = rng.choice([-1, -1, 0, 8, 16, 24, 31, 32])
        if kind == "hostname":
            d["allow_ipv4"] = rng.random() < 0.5
        return d
    if kind in ("int", "float"):
        d["kind"] = kind
        d["hasmin"] = rng.random() < 0.6
        d["min"] = rng.choice([0, 1, -1, rng.randint(-10**6, 10**6)])
        d["hasmax"] = rng.random() < 0.6
        d["max"] = rng.choice([0, 1, -1, d["min"], d["min"] + rng.randint(0, 50), rng.randint(-10**6, 10**6)])
        return d
    if kind == "bool":
        d["kind"] = "bool"
        return d
    if kind == "bytes":
        d["kind"] = "bytes"
        d["encoding"] = rng.choice(["base64", "hex"])
        return d
    if kind == "list":
        d["kind"] = "list"
        d["item"] = rng.choice([{"kind": "nofield"}, rnd_field(rng, 1), rnd_field(rng, 1)])
        return d
    d["kind"] = "dict"
    d["keyf"] = rng.choice([{"kind": "nofield"}, rnd_field(rng, 1)])
    d["valf"] = rng.choice([{"kind": "nofield"}, rnd_field(rng, 1)])
    if d["keyf"]["kind"] == "bytes" and d["keyf"]["kind"] != "nofield":
        pass
    return d


def rnd_octet(rng):
    return rng.choice(["0", "1", "9", "10", "99", "127", "128", "255", "256", "01", "", "a", str(rng.randint(0, 300))])


def rnd_value(rng, f, depth=0):
    kind = f["kind"]
    r = rng.random()
    if r < 0.05:
        return {"t": "none"}
    if r < 0.12:
        return rng.choice([{"t": "int", "i": rng.randint(-3, 70000)}, {"t": "bool", "b": True}, {"t": "float", "h": rng.randint(-9, 9)}, {"t": "list", "l": []}, {"t": "dict", "kv": []}, {"t": "bytes", "y": [97, 0]}, {"t": "obj", "n": "set"}, S("a")])
    if kind == "string":
        base = rnd_str(rng, 8)
        if f["choices"] and rng.random() < 0.6:
            base = "".join(rng.choice(f["choices"]))
            base = rng.choice([base, base.upper(), base.lower(), " " + base + " ", "a" + base])
        if f["regex"] == "R3" and rng.random() < 0.5:
            base = "42" + base
        if f["regex"] == "R1" and rng.random() < 0.5:
            base = rnd_str(rng, 6, "abzAB ")
        return S(base)
    if kind == "ipv4addr":
        parts = [rnd_octet(rng) for _ in range(rng.choice([4, 4, 4, 3, 5]))]
        t = ".".join(parts)
        return S(rng.choice([t, t, " " + t, t + "\n", t + " "]))
    if kind == "ipv4net":
        a = [rng.choice(["10", "192", "0", "255", "128", "1"]), rng.choice(["0", "168", "255"]), rng.choice(["0", "128", "1", "254"]), rng.choice(["0", "1", "128", "64", "255"])]
        t = ".".join(a)
        if rng.random() < 0.85:
            t += "/" + rng.choice(["0", "1", "7", "8", "9", "16", "17", "24", "25", "30", "31", "32", "33", "08", "", "x", str(rng.randint(0, 40))])
        return S(rng.choice([t, t, t, " " + t + " "]))
    if kind == "hostname":
        if rng.random() < 0.25:
            return S(".".join(rnd_octet(rng) for _ in range(4)))
        return S(rnd_str(rng, rng.choice([3, 8, 15, 16, 17]), "aAz09.-_! ~\n"))
    if kind == "url":
        return S(rng.choice(["", " ", "\t"]) + rnd_str(rng, 4, "aZ1+-._ ") + rng.choice([":", ":", "", "://"]) + rnd_str(rng, 5, "a/.1:"))
    if kind == "int":
        c = rng.random()
        if c < 0.4:
            x = rng.choice([f["min"] - 1, f["min"], f["min"] + 1, f["max"] - 1, f["max"], f["max"] + 1, 0, rng.randint(-10**6, 10**6)])
            return {"t": "int", "i": x}
        if c < 0.6:
            return {"t": "float", "h": rng.choice([2 * f["min"] - 1, 2 * f["min"] + 1, 2 * f["max"] + 1, 2 * f["max"] - 1, rng.randint(-50, 50)])}
        if c < 0.67:
            return {"t": "fspec", "k": rng.choice(["inf", "ninf", "nan"])}
        x = rng.choice([f["min"], f["max"], f["max"] + 1, f["min"] - 1, rng.randint(-999, 999)])
        t = rng.choice(["%d", " %d ", "+%d", "%d.0", "%d_", "0%d", "%dx", "%d.5"]) % x
        return S(t)
    if kind == "float":
        c = rng.random()
        if c < 0.3:
            return {"t": "float", "h": rng.choice([f["min"] - 1, f["min"], f["min"] + 1, f["max"], f["max"] + 1, rng.randint(-10**6, 10**6)])}
        if c < 0.45:
            return {"t": "int", "i": rng.choice([f["min"] // 2, f["max"] // 2, (f["max"] + 1) // 2, rng.randint(-99, 99)])}
        if c < 0.55:
            return {"t": "fspec", "k": rng.choice(["inf", "ninf", "nan"])}
        x = rng.randint(-999, 999)
        t = rng.choice(["%d", " %d ", "%d.5", "%d.0", "%d.", "+%d", "inf", "-inf", "NaN", "Infinity", "%dx", ""])
        return S(t % x if "%" in t else t)
    if kind == "bool":
        return rng.choice([S(rng.choice(["t", "true", "TRUE", "1", "on", "On", "yes", "y", "f", "false", "0", "off", "no", "N", "2", "", "tru", " yes"])), {"t": "int", "i": rng.randint(-2, 2)}, {"t": "float", "h": rng.choice([0, 1, -3])}, {"t": "bool", "b": rng.random() < 0.5}])
    if kind == "bytes":
        if rng.random() < 0.3:
            return S(rnd_str(rng, 6, "aZ09 =+/"))
        return {"t": "bytes", "y": [rng.choice([0, 1, 10, 65, 127, 128, 255, rng.randint(0, 255)]) for _ in range(rng.choice([rng.randint(0, 9), rng.randint(0, 9), rng.randint(50, 62)]))]}
    if kind == "list":
        item = f["item"]
        n = rng.randint(0, 4)
        if item["kind"] == "nofield":
            vals = [rng.choice([{"t": "int", "i": 1}, S("x"), {"t": "none"}, {"t": "list", "l": []}]) for _ in range(n)]
        else:
            vals = [rnd_value(rng, item, 1) for _ in range(n)]
        return {"t": rng.choice(["list", "list", "list", "tuple"]), "l": vals}
    if kind == "dict":
        n = rng.randint(0, 3)
        kv = []
        seen = set()
        for _ in range(n):
            k = rnd_value(rng, f["keyf"], 1) if f["keyf"]["kind"] != "nofield" else S(rnd_str(rng, 3, "abA"))
            if k["t"] in ("list", "dict", "obj", "float", "fspec", "bool", "none"):
                k = S("k")
            kk = repr(k)
            if kk in seen:
                continue
            seen.add(kk)
            v = rnd_value(rng, f["valf"], 1) if f["valf"]["kind"] != "nofield" else rng.choice([{"t": "int", "i": 2}, S("v")])
            kv.append([k, v])
        # python dict keys that are equal (1 and True, "a" twice) collapse: keep them distinct
        return {"t": "dict", "kv": kv}
    raise ValueError(kind)


def driver(cinco, seed, n):
    rng = random.Random(seed)
    lab = Lab(cinco)
    traces = []
    while len(traces) < n:
        f = rnd_field(rng)
        for _ in range(6):
            v = rnd_value(rng, f)
            try:
                real = lab.run_case(f, v)
            except codec.Unrepresentable:
                continue
            if any("unrep" in s for s in real.values()):
                continue
            rec = {"f": f, "v": v}
            for st in ("r1", "r2", "d", "r3"):
                s = real.get(st)
                rec[st] = {"ok": False, "err": "notrun"} if s is None else ({"ok": True, "v": s["v"]} if s["ok"] else {"ok": False, "err": s["err"]})
            rec["b"] = real["b"]["v"] if "b" in real and real["b"]["ok"] else {"t": "none"}
            rec["bok"] = "b" not in real or real["b"]["ok"]
            traces.append(rec)
    return traces


def validate_traces(traces, batch=4000):
    """TLC evaluates the specification's operators on each logged case (Trace_FieldLab.tla)."""
    import json

    bad = []
    states = 0
    for start in range(0, len(traces), batch):
        chunk = traces[start : start + batch]
        d = tlc.scratch("cinco-c05t-")
        path = os.path.join(d, "cases.json")
        with open(path, "w") as fp:
            json.dump(chunk, fp)
        res = tlc.run("Trace_FieldLab.tla", "Trace_FieldLab.cfg", workers=1, env={"TRACE_FILE": path}, coverage=False)
        states += res.distinct
        seen = set()
        for rec in res.printed.get("TRACE", []):
            seen.add(rec["t"])
            if rec.get("skip"):
                continue
            if rec["bad"]:
                bad.append((chunk[rec["t"] - 1], rec))
        missing = set(range(1, len(chunk) + 1)) - seen
        if missing:
            raise tlc.TLCError("trace run lost %d cases (first: %s)" % (len(missing), chunk[min(missing) - 1]))
    return bad, states


def signature(f, stage, v=None):
    kind = f["kind"]
    extra = ""
    if kind in ("string",) and f.get("stripm") == "chars" and f.get("tcase") != "none":
        extra = ":stripchars+case"
    if kind in ("list", "dict"):
        sub = f.get("item") or f.get("valf")
        extra = ":" + (sub or {}).get("kind", "?")
    return "%s%s:%s" % (kind, extra, stage)


def run(tier, seed):
    cinco = common.import_repo()
    out = common.Outcome("C05")
    big = tier == "thorough"
    d = tlc.scratch("cinco-c05cfg-")
    states = transitions = 0
    cases_total = 0
    mismatches = 0
    skipped = 0
    per_family = {}
    lab = Lab(cinco)
    samples = []
    distinct = set()
    for fam in FAMILIES:
        cfg = os.path.join(d, "fl_%s.cfg" % fam)
        if big:
            write_cfg(cfg, fam, True, invariants=True, export=False)
            res = tlc.run("FieldLab.tla", cfg, workers=16, keep=())
            cfg2 = os.path.join(d, "fl_%s_x.cfg" % fam)
            write_cfg(cfg2, fam, True, invariants=False, export=True)
            exp = tlc.run("FieldLab.tla", cfg2, workers=1, coverage=False, keep=("CASE",))
        else:
            write_cfg(cfg, fam, False, invariants=True, export=True)
            res = exp = tlc.run("FieldLab.tla", cfg, workers=1, keep=("CASE",))
        states += res.distinct
        transitions += res.generated
        if not res.ok:
            out.violation(
                "spec:%s:%s" % (res.violation, fam),
                "TLC: %s violated on FieldLab family %s" % (res.violation, fam),
                {"kind": "tlc-counterexample", "predicate": res.violation, "family": fam, "behaviour": res.cex},
            )
        cases = exp.printed.get("CASE", [])
        n_fam = 0
        for lab_state in cases:
            f, v = lab_state["f"], lab_state["v"]
            real = lab.run_case(f, v)
            n_fam += 1
            why = compare(lab_state, real)
            if why == "skip":
                skipped += 1
                continue
            distinct.add(common.hash_case([f["kind"], lab_state["r1"]["ok"], v, {k: f[k] for k in f if k not in COMMON or k == "required"}]))
            if why is not None:
                mismatches += 1
                if mismatches <= 40:
                    out.violation(
                        "conf:" + signature(f, why),
                        "spec->code: field %s, value %s: stage %s differs (spec %s, code %s)"
                        % (f["kind"], codec.to_py(v, "$") if v["t"] != "obj" else v, why, lab_state.get(why), real.get(why)),
                        {"kind": "field-case", "field": f, "value": v, "stage": why, "spec": {k: lab_state[k] for k in ("r1", "r2", "b", "d", "r3")}, "code": real},
                    )
            elif len(samples) < 3 and lab_state["stage"] == 5 and n_fam % 97 == 0:
                samples.append({"field": f, "value": v, "normalised": lab_state["r1"], "basic": lab_state["b"]})
        per_family[fam] = {"tlc_states": res.distinct, "cases_replayed": n_fam}
        cases_total += n_fam
    # code -> spec
    n_rand = 3000 if tier == "quick" else 40000
    traces = driver(cinco, seed, n_rand)
    bad, tstates = validate_traces(traces)
    for case, rec in bad[:40]:
        out.violation(
            "trace:" + signature(case["f"], ",".join(rec["bad"])),
            "code->spec: real field %s on value %s: logged stage(s) %s differ from the specification (spec: %s)"
            % (case["f"]["kind"], case["v"], rec["bad"], rec.get("m")),
            {"kind": "field-trace", "case": case, "verdict": rec},
        )
    for t in traces:
        distinct.add(common.hash_case([t["f"], t["v"]]))
    if not samples:
        samples.append({"random_case": traces[0]})
    out.coverage = {
        "states": states,
        "transitions": transitions,
        "exhaustive": True,
        "families": per_family,
        "traces_validated_against_impl": cases_total + len(traces),
        "spec_to_code_cases": cases_total,
        "spec_to_code_skipped_unmodelled": skipped,
        "code_to_spec_cases": len(traces),
        "code_to_spec_tlc_states": tstates,
        "evaluations": cases_total + len(traces),
        "distinct_nontrivial": len(distinct),
        "rule": "one case = (field descriptor, input value) run through validate, validate, to_basic, to_python, validate; "
        "TLC enumerates the family x candidate grid completely (exhaustive for the instance), the driver adds seeded random "
        "descriptors/values (bounds to 1e6, strings to length 12); distinct = distinct (descriptor options, value)",
        "samples": samples[:3],
    }
    out.assumptions = [
        "textual grammars are the modelled ones: decimal prefix lengths (no dotted netmasks), half-integer floats, ASCII model alphabet (no Unicode case tables), regex catalogue R1-R3",
        "HostnameField(resolve=True) needs DNS and is excluded",
        "FilenameField is exercised over an abstract file system ($/f file, $/d directory, $/m missing), simple relative names only",
        "non-canonical base64 text handed to BytesField.to_python is outside the model (cases marked Unmodelled are skipped and counted)",
    ]
    return out
