"""C01 - every value a configuration holds satisfies its field's declared constraints;
read-back is the normal form; frame.  Decided on spec/ConfigMachine.tla (see cfgmachine.py)."""
from . import cfgfamily, cfgmachine


def run(tier, seed):
    out = cfgmachine.run_machine("C01", ["C01_AllValid"], ["C01_Readback"], tier, seed)
    # second instance: the textual / numeric field classes inside a configuration
    out = cfgmachine.merge(out, cfgmachine.run_machine("C01", ["C01_AllValid"], ["C01_Readback"], tier, seed + 7, schema="SchemaB"))
    # third: the generated schema family (every schema shape, generic candidate values)
    return cfgmachine.merge(out, cfgfamily.run_family("C01", ["C01_AllValid"], ["C01_Readback"], tier, seed))


replay_file = cfgmachine.replay_file
