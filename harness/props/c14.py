"""C14 - environment variables beat files, assignment beats both, names are predictable.

Specification: spec/EnvMachine.tla over the family of schemas with every combination of
schema-level and field-level environment settings to depth 3 (MC_Env.tla), one TLC run per
process environment profile (variables valid / invalid / empty / unset).  TLC checks C14_Name
(the name law stated declaratively against the top-down derivation), C14_EnvWins,
C14_InvalidFailsBuild, C14_AssignWins, C14_NoBinding.  Every transition is replayed on real
schemas built top-down under the same os.environ: names are read from the real fields, values
after build / load / assign / reset are compared, and a failing build must name the field."""
import json
import os

from .. import cfgadapter, codec, common, replay, tlc
from .cfgmachine import render_path

INVS = ["C14_Name", "C14_EnvWins", "C14_InvalidFailsBuild"]
PROPS = ["C14_AssignWins", "C14_NoBinding"]
CFG = """CONSTANTS
  Environ <- MCEnviron
  KeyNames <- MCKeyNames
  KeyChars <- MCKeyChars
  EnvProfile = {profile}
  Big = {big}
  MaxDepth = {depth}
INIT Init
NEXT Next
VIEW View
"""


def write_cfg(path, profile, big, depth, check=True, export=False):
    text = CFG.format(profile=profile, big="TRUE" if big else "FALSE", depth=depth)
    if check:
        text += "".join("INVARIANT %s\n" % i for i in INVS) + "".join("PROPERTY %s\n" % p for p in PROPS)
    if export:
        text += "ACTION_CONSTRAINT Export\nCONSTRAINT PInit\n"
    with open(path, "w") as fp:
        fp.write(text)


def build_schema(cinco, desc):
    """The schema of a state, assembled by one of the two public routes (they must give the same
    variable names): attribute assignment parent-first, or - where no nested schema carries
    environment settings of its own, so that it can be created implicitly - dotted item
    assignment on the root (schema["sub.deep.c"] = field), which creates the intermediate schemas."""
    import zlib

    def plain_below(d, top=True):
        for _k, f in codec.seq(d["fields"]):
            if f["kind"] == "schema":
                if (f.get("senv") or {"m": "inherit"})["m"] != "inherit" or f.get("ctype") or not plain_below(f, False):
                    return False
        return True

    if not plain_below(desc) or zlib.crc32(repr(desc).encode()) % 2:
        return cfgadapter.build_schema_topdown(cinco, desc)
    root = cinco.Schema(**cfgadapter.env_kwarg(desc.get("senv")))

    def fill(d, prefix):
        for k, f in codec.seq(d["fields"]):
            if f["kind"] == "schema":
                fill(f, prefix + [k])
            else:
                root[".".join(prefix + [k])] = cfgadapter.fieldmap.build(cinco, f)

    fill(desc, [])
    return root


class World:
    def __init__(self, cinco, init, environ):
        self.cinco = cinco
        self.saved = {}
        for k in ENV_NAMES:
            self.saved[k] = os.environ.pop(k, None)
        for k, v in environ.items():
            os.environ[k] = v
        self.schema = build_schema(cinco, init["sch"])
        self.cfg = None

    def close(self):
        for k in ENV_NAMES:
            os.environ.pop(k, None)
        for k, v in self.saved.items():
            if v is not None:
                os.environ[k] = v

    def names(self):
        s = self.schema
        out = {}
        for label, field in (("a", s.a), ("b", s.sub.b), ("c", s.sub.deep.c)):
            out[label] = list(field.env) if isinstance(field.env, str) else []
        return out

    def observe(self):
        return {
            "cfg": cfgadapter.project_cfg(self.cinco, self.cfg) if self.cfg is not None else {"t": "none"},
            "names": self.names(),
        }

    def step(self, ev):
        cinco = self.cinco
        res = {"out": "ok", "errpath": ""}
        try:
            op = ev["op"]
            if op == "Build":
                self.cfg = self.schema()
            elif op == "Load":
                self.cfg.load_tree(cfgadapter.value_to_py(cinco, ev["tree"]))
            elif op == "Assign":
                # the three public ways of assigning explicitly: attribute of the owning configuration, dotted item
                # of the root, command-line override of the root (which skips None by contract)
                value = cfgadapter.value_to_py(cinco, ev["v"])
                dotted = ".".join(list(codec.seq(ev["p"])) + [ev["k"]])
                self.assigns = getattr(self, "assigns", 0) + 1
                import zlib

                route = (zlib.crc32(repr((dotted, ev["v"])).encode()) + self.assigns) % 3
                if route == 1:
                    self.cfg[dotted] = value
                elif route == 2 and value is not None:
                    import argparse

                    cinco.cmdline_args_override(self.cfg, argparse.Namespace(**{dotted: value, "unrelated": None}), ignore="unrelated")
                else:
                    target = self.cfg
                    for k in codec.seq(ev["p"]):
                        target = getattr(target, k)
                    setattr(target, ev["k"], value)
            elif op == "Reset":
                cinco.reset_value(self.cfg, ".".join(list(codec.seq(ev["p"])) + [ev["k"]]))
            else:
                raise RuntimeError(op)
        except Exception as exc:  # noqa
            res["out"] = cfgadapter.fieldmap.exc_class(exc)
            res["errpath"] = getattr(exc, "ref_path", "") or ""
        return res


ENV_NAMES = set()


class Adapter:
    def __init__(self, cinco, environ):
        self.cinco = cinco
        self.environ = environ

    def start(self, init):
        return World(self.cinco, init, self.environ)

    def step(self, w, ev):
        return w.step(ev)

    def observe(self, w):
        return w.observe()

    def close(self, w):
        w.close()


def normalise(edges, inits):
    def st(s):
        return {
            "sch": s["sch"],
            "cfg": cfgadapter.canon_state(s["cfg"]) if s["cfg"].get("t") == "cfg" else {"t": "none"},
            "assigned": sorted(json.dumps(x) for x in codec.seq(s["assigned"])),
            "names": {k: list(codec.seq(v)) for k, v in s["names"].items()},
        }

    for e in edges:
        e["from"] = st(e["from"])
        e["to"] = st(e["to"])
        e["ev"]["errpath"] = render_path(e["ev"].get("errpath", []))
        if "p" in e["ev"]:
            e["ev"]["p"] = list(codec.seq(e["ev"]["p"]))
    return edges, [st(s) for s in inits]


def tla_seq(text):
    return "<<" + ", ".join('"%s"' % c for c in text) + ">>"


SETTINGS_S = [{"m": "inherit"}, {"m": "auto"}, {"m": "off"}, {"m": "name", "n": ["P", "q"]}]
SETTINGS_F = [{"m": "inherit"}, {"m": "auto"}, {"m": "off"}, {"m": "name", "n": ["N"]}]
ALL_NAMES = ["A", "Pq_A", "N", "SUB_B", "Pq_SUB_B", "B", "Pq_B", "SUB_DEEP_C", "Pq_SUB_DEEP_C", "DEEP_C", "Pq_DEEP_C", "C"]


def schema_from_settings(g):
    """The descriptor SchemaE(s1, f1, s2, f2, f3) of EnvMachine.tla, as JSON."""
    common_ = {"required": False, "sensitive": False, "fname": "", "fval": "none"}
    stro = {"minlen": -1, "maxlen": -1, "regex": "none", "choices": [], "tcase": "none", "stripm": "none", "stripcs": []}
    a = dict(common_, kind="int", hasmin=True, min=0, hasmax=True, max=99, default={"t": "int", "i": 5}, env=g[1])
    b = dict(common_, **stro)
    b.update(kind="string", default={"t": "str", "s": ["d"]}, maxlen=4, env=g[3])
    c = dict(common_, kind="bool", default={"t": "bool", "b": False}, env=g[4])
    sf = {"kind": "schema", "dynamic": False, "ctype": False, "flagkey": "", "validators": [], "fname": ""}
    deep = dict(sf, senv={"m": "inherit"}, fields=[["c", c]])
    sub_ = dict(sf, senv=g[2], fields=[["b", b], ["deep", deep]])
    return dict(sf, senv=g[0], fields=[["a", a], ["sub", sub_]])


def trace_driver(cinco, seed, n_envs, per_env, length):
    import random

    rng = random.Random(seed)
    batches = []
    for _ in range(n_envs):
        environ = {}
        for name in ALL_NAMES:
            r = rng.random()
            if r < 0.35:
                continue
            environ[name] = rng.choice(["", "7", "12", "100", "x", "yes", "off", "1", "0", "abcd", "toolong", " 5 ", "true", "-1", "9 9"])
        traces = []
        for _ in range(per_env):
            g = [rng.choice(SETTINGS_S), rng.choice(SETTINGS_F), rng.choice(SETTINGS_S), rng.choice(SETTINGS_F), rng.choice(SETTINGS_F)]
            w = World(cinco, {"sch": schema_from_settings(g)}, environ)
            events = []
            try:
                for i in range(length):
                    r = rng.random()
                    if i == 0 or (w.cfg is None) or r < 0.1:
                        ev = {"op": "Build"}
                    elif r < 0.4:
                        kv = []
                        if rng.random() < 0.6:
                            kv.append([{"t": "str", "s": ["a"]}, rng.choice([{"t": "int", "i": rng.randint(0, 99)}, {"t": "str", "s": list(str(rng.randint(0, 120)))}])])
                        if rng.random() < 0.7:
                            sub_kv = []
                            if rng.random() < 0.7:
                                sub_kv.append([{"t": "str", "s": ["b"]}, {"t": "str", "s": list(rng.choice(["f", "file", "ab", "toolong"]))}])
                            if rng.random() < 0.5:
                                sub_kv.append([{"t": "str", "s": list("deep")}, {"t": "dict", "kv": [[{"t": "str", "s": ["c"]}, rng.choice([{"t": "bool", "b": True}, {"t": "str", "s": list("no")}])]]}])
                            kv.append([{"t": "str", "s": list("sub")}, {"t": "dict", "kv": sub_kv}])
                        ev = {"op": "Load", "tree": {"t": "dict", "kv": kv}}
                    elif r < 0.8:
                        p, k = rng.choice([([], "a"), (["sub"], "b"), (["sub", "deep"], "c")])
                        v = {"a": lambda: rng.choice([{"t": "int", "i": rng.randint(-2, 101)}, {"t": "str", "s": list("33")}]),
                             "b": lambda: {"t": "str", "s": list(rng.choice(["set", "x", "toolong", ""]))},
                             "c": lambda: rng.choice([{"t": "bool", "b": True}, {"t": "str", "s": list("m")}, {"t": "int", "i": 0}])}[k]()
                        ev = {"op": "Assign", "p": p, "k": k, "v": v}
                    else:
                        p, k = rng.choice([([], "a"), (["sub"], "b"), (["sub", "deep"], "c")])
                        ev = {"op": "Reset", "p": p, "k": k}
                    if w.cfg is None and ev["op"] != "Build":
                        continue
                    res = w.step(ev)
                    obs = w.observe()
                    rec = dict(ev)
                    rec["out"] = res["out"]
                    rec["errpath"] = [x for x in res["errpath"].split(".")] if res["errpath"] else []
                    rec["cfg"] = obs["cfg"]
                    rec["names"] = obs["names"]
                    events.append(rec)
            finally:
                w.close()
            traces.append({"settings": g, "events": events})
        batches.append((environ, traces))
    return batches


def validate_batches(batches):
    from .. import tracecheck

    verdicts_all = []
    tstates = 0
    for i, (environ, traces) in enumerate(batches):
        d = tlc.scratch("cinco-c14t-")
        for name in os.listdir(tlc.SPEC_DIR):
            if name.endswith(".tla"):
                os.symlink(os.path.join(tlc.SPEC_DIR, name), os.path.join(d, name))
        if environ:
            dom = ", ".join(tla_seq(k) for k in environ)
            cases = " [] ".join("n = %s -> %s" % (tla_seq(k), tla_seq(v)) for k, v in environ.items())
            envdef = "[n \\in {%s} |-> CASE %s]" % (dom, cases)
        else:
            envdef = "[n \\in {} |-> <<>>]"
        with open(os.path.join(d, "TraceEnvRun.tla"), "w") as fp:
            fp.write("---- MODULE TraceEnvRun ----\nEXTENDS Trace_Env\nTrEnviron == %s\n====\n" % envdef)
        cfg = os.path.join(d, "TraceEnvRun.cfg")
        with open(cfg, "w") as fp:
            fp.write("CONSTANTS\n  Environ <- TrEnviron\n  KeyNames <- TrKeyNames\n  KeyChars <- TrKeyChars\n  Big = TRUE\n  MaxDepth = 999\n"
                     "INIT TraceInit\nNEXT TraceNext\nVIEW TraceView\nACTION_CONSTRAINT Report\nCONSTRAINT ReportState\n")
        verdicts, st = validate_in(d, traces)
        for v in verdicts:
            v.environ = environ
        verdicts_all += verdicts
        tstates += st["states"]
    return verdicts_all, tstates


def validate_in(spec_dir, traces):
    """tracecheck.validate with another spec directory."""
    from .. import tracecheck
    import json as _json

    path = os.path.join(spec_dir, "traces.json")
    with open(path, "w") as fp:
        _json.dump(tracecheck._strip_none(traces), fp)
    res = tlc.run("TraceEnvRun.tla", "TraceEnvRun.cfg", workers=1, env={"TRACE_FILE": path}, spec_dir=spec_dir)
    vs = [tracecheck.TraceVerdict(i, t) for i, t in enumerate(traces)]
    for rec in res.printed.get("TRACE", []):
        v = vs[rec["t"] - 1]
        if v.bad_obs or v.bad_inv:
            continue
        if rec.get("bo") or rec.get("bi"):
            v.bad_obs = list(rec.get("bo") or []) or None
            v.bad_inv = list(rec.get("bi") or []) or None
            v.model = rec.get("m")
            v.at = rec["l"]
        else:
            v.consumed = max(v.consumed, rec["l"])
    return vs, {"states": res.distinct}


def run(tier, seed):
    cinco = common.import_repo()
    out = common.Outcome("C14")
    with open(os.path.join(tlc.SPEC_DIR, "MC_Env_profiles.json")) as fp:
        profiles = {int(k): v for k, v in json.load(fp).items()}
    for env in profiles.values():
        ENV_NAMES.update(env)
    big = tier == "thorough"
    d = tlc.scratch("cinco-c14-")
    states = transitions = cases = 0
    by_op = {}
    distinct = set()
    samples = []
    for profile, environ in sorted(profiles.items()):
        cfg = os.path.join(d, "mc%d.cfg" % profile)
        write_cfg(cfg, profile, big, 3 if tier == "quick" else 4)
        res = tlc.run("MC_Env.tla", cfg, workers=16, keep=())
        states += res.distinct
        transitions += res.generated
        if not res.ok:
            out.violation(
                "spec:%s:profile%d" % (res.violation, profile),
                "TLC: %s violated on EnvMachine, environment profile %d" % (res.violation, profile),
                {"kind": "tlc-counterexample", "predicate": res.violation, "profile": environ, "behaviour": res.cex},
            )
        cfgx = os.path.join(d, "x%d.cfg" % profile)
        write_cfg(cfgx, profile, big, 2 if tier == "quick" else 3, check=False, export=True)
        exp = tlc.run("MC_Env.tla", cfgx, workers=1, keep=("INIT", "EDGE"))
        edges, inits = normalise(exp.printed.get("EDGE", []), exp.printed.get("INIT", []))
        g = replay.Graph(inits, edges)
        stats, mism = replay.run_graph(Adapter(cinco, environ), g, seed=seed)
        cases += stats["cases"]
        for k, v in stats["by_op"].items():
            by_op[k] = by_op.get(k, 0) + v
        for cf, ck, alts in g.cases():
            distinct.add(common.hash_case([profile, cf, ck]))
        if not samples:
            samples = [{"environment": environ, "event": alts[0][0], "names": g.state[cf]["names"]} for cf, ck, alts in list(g.cases())[:2]]
        for m in mism[:15]:
            what = m.detail.split(":")[0]
            out.violation(
                "replay:%s:%s" % (m.ev["op"], what),
                "spec->code (environment %s): %s differs from the specification: %s" % (environ, {k: v for k, v in m.ev.items() if k in ("op", "p", "k")}, m.detail[:300]),
                dict(m.to_json(), environment=environ),
            )
    # code -> spec: random settings of the full family under random environments
    n_envs, per_env, length = (4, 40, 8) if tier == "quick" else (12, 200, 12)
    batches = trace_driver(cinco, seed, n_envs, per_env, length)
    for environ, _ in batches:
        ENV_NAMES.update(environ)
    verdicts, tstates = validate_batches(batches)
    for v in [v for v in verdicts if not v.accepted][:15]:
        k = (v.at or v.consumed + 1) - 1
        e = v.trace["events"][k] if k < len(v.trace["events"]) else {}
        out.violation(
            "trace:%s:%s" % (e.get("op"), ",".join(v.bad_inv or v.bad_obs or ["not-enabled"])),
            "code->spec (environment %s, settings %s): %s" % (v.environ, v.trace["settings"], v.describe()[:300]),
            dict(v.to_json() if "init" in v.trace else {"why": v.describe(), "settings": v.trace["settings"], "events": v.trace["events"][: k + 1], "spec_expected": v.model}, environment=v.environ),
        )
    cases += len(verdicts)
    out.coverage = {
        "code_to_spec_traces": len(verdicts),
        "code_to_spec_events": sum(len(t["events"]) for _, ts in batches for t in ts),
        "code_to_spec_tlc_states": tstates,
        "states": states,
        "transitions": transitions,
        "exhaustive": True,
        "tlc_instance": "MC_Env: %d schemas x 3 environment profiles, MaxDepth %d" % (1024 if big else 192, 3 if tier == "quick" else 4),
        "traces_validated_against_impl": cases,
        "spec_to_code_by_op": by_op,
        "evaluations": cases,
        "distinct_nontrivial": len(distinct),
        "rule": "case = distinct (environment profile, schema of the family, configuration state, operation); every case of the exported graph",
        "samples": samples,
    }
    out.assumptions = [
        "the process environment is fixed within a behaviour (the statement conditions on the environment at build time)",
        "schemas are built top-down (parents bound before children are added), as the statement requires",
        "list/dict fields and challenge fields with defaults do not read environment variables in cincoconfig and are not part of the family",
    ]
    return out
