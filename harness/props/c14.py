"""C14 - environment variables beat files, assignment beats both, names are predictable.

Specification: spec/EnvMachine.tla over the family of schemas with every combination of
schema-level and field-level environment settings to depth 3 (MC_Env.tla), one TLC run per
process environment profile (variables valid / invalid / empty / unset).  TLC checks C14_Name
(the name law stated declaratively against the top-down derivation), C14_EnvWins,
C14_InvalidFailsBuild, C14_AssignWins, C14_NoBinding.  Every transition is replayed on real
schemas built top-down under the same os.environ: names are read from the real fields, values
after build / load / assign / reset are compared, and a failing build must name the field."""
import json
import os

from .. import cfgadapter, codec, common, replay, tlc
from .cfgmachine import render_path

INVS = ["C14_Name", "C14_EnvWins", "C14_InvalidFailsBuild"]
PROPS = ["C14_AssignWins", "C14_NoBinding"]
CFG = """CONSTANTS
  Environ <- MCEnviron
  KeyNames <- MCKeyNames
  KeyChars <- MCKeyChars
  EnvProfile = {profile}
  Big = {big}
  MaxDepth = {depth}
INIT Init
NEXT Next
VIEW View
"""


def write_cfg(path, profile, big, depth, check=True, export=False):
    text = CFG.format(profile=profile, big="TRUE" if big else "FALSE", depth=depth)
    if check:
        text += "".join("INVARIANT %s\n" % i for i in INVS) + "".join("PROPERTY %s\n" % p for p in PROPS)
    if export:
        text += "ACTION_CONSTRAINT Export\nCONSTRAINT PInit\n"
    with open(path, "w") as fp:
        fp.write(text)


class World:
    def __init__(self, cinco, init, environ):
        self.cinco = cinco
        self.saved = {}
        for k in ENV_NAMES:
            self.saved[k] = os.environ.pop(k, None)
        for k, v in environ.items():
            os.environ[k] = v
        self.schema = cfgadapter.build_schema_topdown(cinco, init["sch"])
        self.cfg = None

    def close(self):
        for k in ENV_NAMES:
            os.environ.pop(k, None)
        for k, v in self.saved.items():
            if v is not None:
                os.environ[k] = v

    def names(self):
        s = self.schema
        out = {}
        for label, field in (("a", s.a), ("b", s.sub.b), ("c", s.sub.deep.c)):
            out[label] = list(field.env) if isinstance(field.env, str) else []
        return out

    def observe(self):
        return {
            "cfg": cfgadapter.project_cfg(self.cinco, self.cfg) if self.cfg is not None else {"t": "none"},
            "names": self.names(),
        }

    def step(self, ev):
        cinco = self.cinco
        res = {"out": "ok", "errpath": ""}
        try:
            op = ev["op"]
            if op == "Build":
                self.cfg = self.schema()
            elif op == "Load":
                self.cfg.load_tree(cfgadapter.value_to_py(cinco, ev["tree"]))
            elif op == "Assign":
                target = self.cfg
                for k in codec.seq(ev["p"]):
                    target = getattr(target, k)
                setattr(target, ev["k"], cfgadapter.value_to_py(cinco, ev["v"]))
            elif op == "Reset":
                cinco.reset_value(self.cfg, ".".join(list(codec.seq(ev["p"])) + [ev["k"]]))
            else:
                raise RuntimeError(op)
        except Exception as exc:  # noqa
            res["out"] = cfgadapter.fieldmap.exc_class(exc)
            res["errpath"] = getattr(exc, "ref_path", "") or ""
        return res


ENV_NAMES = set()


class Adapter:
    def __init__(self, cinco, environ):
        self.cinco = cinco
        self.environ = environ

    def start(self, init):
        return World(self.cinco, init, self.environ)

    def step(self, w, ev):
        return w.step(ev)

    def observe(self, w):
        return w.observe()

    def close(self, w):
        w.close()


def normalise(edges, inits):
    def st(s):
        return {
            "sch": s["sch"],
            "cfg": cfgadapter.canon_state(s["cfg"]) if s["cfg"].get("t") == "cfg" else {"t": "none"},
            "assigned": sorted(json.dumps(x) for x in codec.seq(s["assigned"])),
            "names": {k: list(codec.seq(v)) for k, v in s["names"].items()},
        }

    for e in edges:
        e["from"] = st(e["from"])
        e["to"] = st(e["to"])
        e["ev"]["errpath"] = render_path(e["ev"].get("errpath", []))
        if "p" in e["ev"]:
            e["ev"]["p"] = list(codec.seq(e["ev"]["p"]))
    return edges, [st(s) for s in inits]


def run(tier, seed):
    cinco = common.import_repo()
    out = common.Outcome("C14")
    with open(os.path.join(tlc.SPEC_DIR, "MC_Env_profiles.json")) as fp:
        profiles = {int(k): v for k, v in json.load(fp).items()}
    for env in profiles.values():
        ENV_NAMES.update(env)
    big = tier == "thorough"
    d = tlc.scratch("cinco-c14-")
    states = transitions = cases = 0
    by_op = {}
    distinct = set()
    samples = []
    for profile, environ in sorted(profiles.items()):
        cfg = os.path.join(d, "mc%d.cfg" % profile)
        write_cfg(cfg, profile, big, 3 if tier == "quick" else 4)
        res = tlc.run("MC_Env.tla", cfg, workers=16, keep=())
        states += res.distinct
        transitions += res.generated
        if not res.ok:
            out.violation(
                "spec:%s:profile%d" % (res.violation, profile),
                "TLC: %s violated on EnvMachine, environment profile %d" % (res.violation, profile),
                {"kind": "tlc-counterexample", "predicate": res.violation, "profile": environ, "behaviour": res.cex},
            )
        cfgx = os.path.join(d, "x%d.cfg" % profile)
        write_cfg(cfgx, profile, big, 2 if tier == "quick" else 3, check=False, export=True)
        exp = tlc.run("MC_Env.tla", cfgx, workers=1, keep=("INIT", "EDGE"))
        edges, inits = normalise(exp.printed.get("EDGE", []), exp.printed.get("INIT", []))
        g = replay.Graph(inits, edges)
        stats, mism = replay.run_graph(Adapter(cinco, environ), g, seed=seed)
        cases += stats["cases"]
        for k, v in stats["by_op"].items():
            by_op[k] = by_op.get(k, 0) + v
        for cf, ck, alts in g.cases():
            distinct.add(common.hash_case([profile, cf, ck]))
        if not samples:
            samples = [{"environment": environ, "event": alts[0][0], "names": g.state[cf]["names"]} for cf, ck, alts in list(g.cases())[:2]]
        for m in mism[:15]:
            what = m.detail.split(":")[0]
            out.violation(
                "replay:%s:%s" % (m.ev["op"], what),
                "spec->code (environment %s): %s differs from the specification: %s" % (environ, {k: v for k, v in m.ev.items() if k in ("op", "p", "k")}, m.detail[:300]),
                dict(m.to_json(), environment=environ),
            )
    out.coverage = {
        "states": states,
        "transitions": transitions,
        "exhaustive": True,
        "tlc_instance": "MC_Env: %d schemas x 3 environment profiles, MaxDepth %d" % (1024 if big else 192, 3 if tier == "quick" else 4),
        "traces_validated_against_impl": cases,
        "spec_to_code_by_op": by_op,
        "evaluations": cases,
        "distinct_nontrivial": len(distinct),
        "rule": "case = distinct (environment profile, schema of the family, configuration state, operation); every case of the exported graph",
        "samples": samples,
    }
    out.assumptions = [
        "the process environment is fixed within a behaviour (the statement conditions on the environment at build time)",
        "schemas are built top-down (parents bound before children are added), as the statement requires",
        "list/dict fields and challenge fields with defaults do not read environment variables in cincoconfig and are not part of the family",
    ]
    return out
