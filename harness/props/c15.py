"""C15 - every rejection is a validation error that names the offending field's full path.
Decided on spec/ConfigMachine.tla: C15_Error (class and declared path below the target); the
conformance step compares ValidationError.ref_path of every rejected assignment, constructor
keyword and tree load with the path the specification computes from the containment
structure (item index for configurations in lists, key for dict entries)."""
from . import cfgfamily, cfgmachine


def run(tier, seed):
    out = cfgmachine.run_machine("C15", ["C15_Error", "C15_DictItemError"], [], tier, seed, focus="C15")
    # and on the generated schema family (every schema shape: paths through nested schemas, lists of configurations)
    return cfgmachine.merge(out, cfgfamily.run_family("C15", ["C15_Error", "C15_DictItemError"], [], tier, seed, focus="C15"))


replay_file = cfgmachine.replay_file
