"""C15 - every rejection is a validation error that names the offending field's full path.
Decided on spec/ConfigMachine.tla: C15_Error (class and declared path below the target); the
conformance step compares ValidationError.ref_path of every rejected assignment, constructor
keyword and tree load with the path the specification computes from the containment
structure (item index for configurations in lists, key for dict entries)."""
from . import cfgmachine


def run(tier, seed):
    return cfgmachine.run_machine("C15", ["C15_Error"], [], tier, seed, focus="C15")
