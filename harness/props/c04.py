"""C04 - each file format decodes what it encodes, types intact; all formats agree; options are
neutral; an XML document with the wrong root tag is rejected.

Specification: spec/CincoFormats.tla (XML element mapping _to_element / _from_element, root tag
check, YAML root_key wrap / unwrap, JSON pretty, ConfigFormat.get; the third-party serialisers
are typed channels), driven by spec/FormatLab.tla: one session per plain-data tree takes the tree
through a plan of  get(fmt, **opts).dumps  /  get(fmt, **lopts).loads  pairs.  Instances:
spec/MC_Formats.tla + MC_Formats_quick.cfg / MC_Formats_thorough.cfg.

(a) TLC decides C04_RoundTrip, C04_XmlInverse, C04_OptionsNeutral, C04_WrongRootRejected and
    C04_Agree on every session of the instance (all trees of bounded weight).
(b) spec -> code: every session TLC enumerated is executed on the real library through
    ConfigFormat.get(name, **options).dumps / .loads; what loads returns is abstracted (typed,
    NaN-aware, sign-of-zero aware, map key order ignored) and compared with the specification's
    result; the real XML document is parsed independently (xml.etree) into an abstract element
    tree and compared with the specification's ToElement.
(c) code -> spec: a seeded random driver pushes much larger trees (depth <= 5, width <= 6, wide
    Unicode strings inside each format's domain, 64-bit boundary ints, arbitrary doubles, random
    option values) through the real formats and logs what happened; TLC evaluates the
    specification's operators and the C04 predicates on the logged observations
    (spec/Trace_Formats.tla).

Python here only builds real objects, performs the calls, abstracts and compares values; the
property's logic (what must be equal to what, what is inside a domain) lives in the TLA+ modules.
"""
import json
import math
import multiprocessing
import os
import random
import re
from concurrent.futures import ThreadPoolExecutor
from xml.etree import ElementTree as ET
from xml.sax.saxutils import escape

from .. import common, tlc

JVM = {"JAVA_TOOL_OPTIONS": "-Xmx8g -Xss64m"}  # a bounded heap: the default (1/4 of RAM) is mostly page-faulted away
INVARIANTS = ["C04_RoundTrip", "C04_XmlInverse", "C04_OptionsNeutral", "C04_WrongRootRejected", "C04_Agree"]
NOELEM = {"tag": [], "ty": "absent", "text": [], "kids": []}
COLON_SIG = "xml:key-with-colon"  # known finding C04-xml-colon-key (signature regex ^xml:key-with-colon$)

_CINCO = None  # the library under test (set by run(); inherited by forked workers)


# ---------------------------------------------------------------------------- abstraction
class Unrepresentable(Exception):
    pass


def seq(x):
    return [] if x in ({}, None) else x


def to_py(v):
    t = v["t"]
    if t == "none":
        return None
    if t == "bool":
        return bool(v["b"])
    if t == "int":
        return int(v["i"])
    if t == "big":
        return int("".join(v["d"]))
    if t == "float":
        return v["h"] / 2.0
    if t == "fspec":
        return {"inf": math.inf, "ninf": -math.inf, "nan": math.nan, "nzero": -0.0}[v["k"]]
    if t == "fbig":
        return float("".join(v["r"]))
    if t == "str":
        return "".join(seq(v["s"]))
    if t == "list":
        return [to_py(x) for x in seq(v["l"])]
    if t == "dict":
        return {to_py(k): to_py(x) for k, x in seq(v["kv"])}
    raise ValueError("unknown tag %r" % (t,))


def to_abs(x):
    """Typed abstraction of a Python value: exact types only (a bool is not an int, an int subclass
    or a tuple has no abstract counterpart)."""
    if x is None:
        return {"t": "none"}
    ty = type(x)
    if ty is bool:
        return {"t": "bool", "b": x}
    if ty is int:
        if abs(x) < 2**31:
            return {"t": "int", "i": x}
        return {"t": "big", "d": list(str(x))}
    if ty is float:
        if math.isnan(x):
            return {"t": "fspec", "k": "nan"}
        if math.isinf(x):
            return {"t": "fspec", "k": "inf" if x > 0 else "ninf"}
        if x == 0:
            return {"t": "fspec", "k": "nzero"} if math.copysign(1.0, x) < 0 else {"t": "float", "h": 0}
        if abs(x) < 2**30 and x * 2 == int(x * 2):
            return {"t": "float", "h": int(x * 2)}
        return {"t": "fbig", "r": list(repr(x))}
    if ty is str:
        return {"t": "str", "s": list(x)}
    if ty is list:
        return {"t": "list", "l": [to_abs(i) for i in x]}
    if ty is dict:
        return {"t": "dict", "kv": [[to_abs(k), to_abs(v)] for k, v in x.items()]}
    raise Unrepresentable("%s.%s" % (ty.__module__, ty.__name__))


def to_abs_safe(x):
    try:
        return to_abs(x)
    except Unrepresentable as exc:
        return {"t": "obj", "n": str(exc)}
    except RecursionError:
        return {"t": "obj", "n": "recursive"}


def canon(v):
    """Hashable normal form of an abstract value; the entries of a map are a set."""
    t = v["t"]
    if t == "str":
        return ("str", "".join(seq(v["s"])))
    if t == "list":
        return ("list", tuple(canon(x) for x in seq(v["l"])))
    if t == "dict":
        items = [(canon(k), canon(x)) for k, x in seq(v["kv"])]
        return ("dict", tuple(sorted(items, key=lambda p: repr(p[0]))))
    if t == "big":
        return ("big", "".join(v["d"]))
    if t == "fbig":
        return ("fbig", "".join(v["r"]))
    return tuple(sorted(v.items()))


def has_unmodelled(v):
    t = v["t"]
    if t == "unmodelled":
        return True
    if t == "list":
        return any(has_unmodelled(x) for x in seq(v["l"]))
    if t == "dict":
        return any(has_unmodelled(x) for _, x in seq(v["kv"]))
    return False


def elem_norm(e):
    return {"tag": list(seq(e["tag"])), "ty": e["ty"], "text": list(seq(e["text"])), "kids": [elem_norm(k) for k in seq(e["kids"])]}


INDENT = " \n\t"


def elem_abs(e):
    """Abstract element tree of a real document, read with xml.etree independently of cincoconfig.
    Indentation between child elements is not data; anything else is kept."""
    kids = [elem_abs(k) for k in e]
    text = e.text or ""
    if kids and text.strip(INDENT) == "":
        text = ""
    out = {"tag": list(e.tag), "ty": e.attrib.get("type", "absent"), "text": list(text), "kids": kids}
    extra = sorted(k for k in e.attrib if k != "type")
    if extra:
        out["attrs"] = extra
    stray = [k.tail for k in e if (k.tail or "").strip(INDENT) != ""]
    if stray:
        out["stray"] = stray
    return out


def elem_xml(e):
    tag = "".join(e["tag"])
    attr = "" if e["ty"] == "absent" else ' type="%s"' % e["ty"]
    return "<%s%s>%s%s</%s>" % (tag, attr, escape("".join(e["text"])), "".join(elem_xml(k) for k in e["kids"]), tag)


def kwargs(fmt, o):
    if fmt == "json":
        return {"pretty": bool(o["pretty"])}
    if fmt == "xml":
        return {"root_tag": "".join(seq(o["root_tag"]))}
    if fmt == "yaml":
        return {"root_key": to_py(o["root_key"])}
    return {}


# ---------------------------------------------------------------------------- the real library
def real_run(fmt, opts, lopts, tree_py):
    """ConfigFormat.get(fmt, **opts).dumps(None, tree); ConfigFormat.get(fmt, **lopts).loads(None, doc)"""
    get = _CINCO.core.ConfigFormat.get
    rec = {"dumped": False, "elem": NOELEM, "out": {"ok": False, "err": "notrun"}}
    try:
        doc = get(fmt, **kwargs(fmt, opts)).dumps(None, tree_py)
    except Exception as exc:  # noqa
        rec["out"] = {"ok": False, "err": type(exc).__name__, "msg": str(exc)[:100]}
        return rec
    rec["dumped"] = True
    rec["doc"] = doc
    if fmt == "xml":
        try:
            rec["elem"] = elem_abs(ET.fromstring(doc))
        except Exception as exc:  # noqa
            rec["elem"] = {"tag": [], "ty": "unparsable:" + type(exc).__name__, "text": [], "kids": []}
    try:
        val = get(fmt, **kwargs(fmt, lopts)).loads(None, doc)
    except Exception as exc:  # noqa
        rec["out"] = {"ok": False, "err": type(exc).__name__, "msg": str(exc)[:100]}
        return rec
    rec["out"] = {"ok": True, "v": to_abs_safe(val)}
    return rec


def short(x, n=160):
    s = repr(x)
    return s if len(s) <= n else s[: n - 3] + "..."


def check_session(case, plan):
    """spec -> code for one tree session.  Returns (runs executed, runs skipped, problems)."""
    t = case["t"]
    tree_py = to_py(t)
    want_same = canon(t)
    problems = []
    done = skipped = 0
    for p, r in zip(plan, case["runs"]):
        if r["skipped"]:
            skipped += 1
            continue
        done += 1
        fmt = p["fmt"]
        real = real_run(fmt, p["opts"], p["lopts"], tree_py)
        whats = []
        spec_out = r["out"]
        if not real["dumped"]:
            whats.append("dumps-raised")
        else:
            if spec_out["ok"]:
                want = want_same if spec_out.get("same") else canon(spec_out["v"])
                if not real["out"]["ok"]:
                    whats.append("loads-raised")
                elif canon(real["out"]["v"]) != want:
                    whats.append("decoded-differs")
            elif real["out"]["ok"]:
                whats.append("wrong-root-accepted" if fmt == "xml" else "accepted")
            if fmt == "xml" and p["opts"] == p["lopts"] and elem_norm(r["elem"]) != real["elem"]:
                whats.append("element")
        for what in whats:
            problems.append(
                {
                    # the specification names the cause (CincoFormats!ColonCause, exported as case["colon"])
                    "signature": COLON_SIG if (fmt == "xml" and case.get("colon")) else "conf:%s:%s" % (fmt, what),
                    "summary": "spec->code: %s %s / loads %s on tree %s: %s (spec: %s, code: %s)"
                    % (fmt, kwargs(fmt, p["opts"]), kwargs(fmt, p["lopts"]), short(tree_py, 120), what,
                       short((spec_out if not spec_out.get("same") else "the same tree") if what != "element" else elem_norm(r["elem"]), 200),
                       short(real["out"] if what != "element" else real["elem"], 200)),
                    "replay": {"kind": "format-session-run", "tree": t, "fmt": fmt, "opts": p["opts"], "lopts": p["lopts"],
                               "spec": r, "code": {k: (v if k != "doc" else v.decode("latin-1")) for k, v in real.items()}},
                }
            )
    return done, skipped, problems


def check_elem(case):
    """A hand-written document through XmlConfigFormat().loads: binds _from_element outside the
    range of _to_element.  Not constrained by C04: differences are model drift."""
    if case["out"]["ok"] and has_unmodelled(case["out"]["v"]):
        return "unmodelled", None
    e = elem_norm(case["e"])
    doc = ('<?xml version="1.0" ?>' + elem_xml(e)).encode()
    try:
        val = _CINCO.core.ConfigFormat.get("xml").loads(None, doc)
        real = {"ok": True, "v": to_abs_safe(val)}
    except Exception as exc:  # noqa
        real = {"ok": False, "err": type(exc).__name__}
    spec = case["out"]
    if spec["ok"] != real["ok"] or (spec["ok"] and canon(spec["v"]) != canon(real["v"])):
        return "drift", "document %s: spec %s, code %s" % (doc.decode(), short(spec, 120), short(real, 120))
    return "ok", None


_PRINT_RE = re.compile(r'^<<"CASE", "(.*)">>$')


def _work(args):
    lines, plan = args
    out = {"sessions": 0, "runs": 0, "skipped": 0, "nontrivial": 0, "problems": [], "nproblems": 0, "elems": 0, "elem_unmodelled": 0,
           "drift": [], "sample": None, "wrongroot_rejected": 0, "by_fmt": {}, "colon": [], "ncolon": 0}
    for line in lines:
        case = json.loads(json.loads('"' + _PRINT_RE.match(line).group(1) + '"'))
        if case["mode"] == "elem":
            out["elems"] += 1
            st, msg = check_elem(case)
            if st == "unmodelled":
                out["elem_unmodelled"] += 1
            elif st == "drift":
                out["drift"].append(msg)
            continue
        case["runs"] = seq(case["runs"])
        done, skipped, problems = check_session(case, plan)
        out["sessions"] += 1
        out["runs"] += done
        out["skipped"] += skipped
        if seq(case["t"]["kv"]):
            out["nontrivial"] += done
        for p, r in zip(plan, case["runs"]):
            if not r["skipped"]:
                out["by_fmt"][p["fmt"]] = out["by_fmt"].get(p["fmt"], 0) + 1
                if not r["out"]["ok"]:
                    out["wrongroot_rejected"] += 1
        colon = [p for p in problems if p["signature"] == COLON_SIG]
        problems = [p for p in problems if p["signature"] != COLON_SIG]
        out["ncolon"] += len(colon)
        if colon and len(out["colon"]) < 2:
            out["colon"].append(colon[0])
        out["nproblems"] += len(problems)
        if len(out["problems"]) < 20:
            out["problems"] += problems[:20]
        if out["sample"] is None and len(seq(case["t"]["kv"])) >= 2:
            out["sample"] = {"tree": to_abs_safe(to_py(case["t"])), "runs": [{"fmt": p["fmt"], "opts": kwargs(p["fmt"], p["opts"]), "skipped": r["skipped"], "out_ok": r["out"]["ok"]} for p, r in zip(plan, case["runs"])][:4]}
    return out


def spec_to_code(stdout, plan, procs):
    lines = sorted(set(ln for ln in stdout.splitlines() if ln.startswith('<<"CASE"')))
    n = max(1, min(procs * 8, len(lines) // 50 or 1))
    chunks = [(lines[i::n], plan) for i in range(n)]
    if procs > 1:
        ctx = multiprocessing.get_context("fork")
        with ctx.Pool(procs) as pool:
            parts = pool.map(_work, chunks)
    else:
        parts = [_work(c) for c in chunks]
    tot = {"sessions": 0, "runs": 0, "skipped": 0, "nontrivial": 0, "problems": [], "nproblems": 0, "elems": 0, "elem_unmodelled": 0,
           "drift": [], "sample": None, "wrongroot_rejected": 0, "by_fmt": {}, "colon": [], "ncolon": 0}
    for part in parts:
        for k, v in part.items():
            if k == "sample":
                tot[k] = tot[k] or v
            elif k == "by_fmt":
                for f, c in v.items():
                    tot[k][f] = tot[k].get(f, 0) + c
            else:
                tot[k] += v
    tot["lines"] = len(lines)
    return tot


# ---------------------------------------------------------------------------- random driver
def _ranges(*rs):
    return [(a, b) for a, b in rs]


# XML 1.0 Char without carriage return (and without the form feed, which is not a Char)
XML_TEXT = [
    (30, _ranges((0x20, 0x7E))),
    (4, _ranges((0x09, 0x0A))),
    (6, [(ord(c), ord(c)) for c in "<>&\"' "]),
    (4, _ranges((0x7F, 0xFF))),
    (4, _ranges((0x100, 0xD7FF))),
    (2, _ranges((0xE000, 0xFFFD))),
    (2, _ranges((0x10000, 0x10FFFF))),
]
# anything else a Python str may hold, except lone surrogates (not encodable as UTF-8)
ANY_TEXT = XML_TEXT + [(3, _ranges((0x00, 0x1F))), (1, _ranges((0xFFFE, 0xFFFF)))]
# name characters accepted by every edition of XML 1.0 (expat implements the 4th edition tables)
NAME_START = [
    (20, _ranges((0x61, 0x7A), (0x41, 0x5A))),
    (3, _ranges((0x5F, 0x5F))),
    (2, _ranges((0xC0, 0xD6), (0xD8, 0xF6), (0xF8, 0xFF), (0x100, 0x131))),
    (1, _ranges((0x3A3, 0x3CE), (0x410, 0x44F), (0x4E00, 0x9FA5), (0x3041, 0x3094))),
]
NAME_REST = NAME_START + [(6, _ranges((0x30, 0x39))), (3, [(0x2D, 0x2E)]), (1, [(0xB7, 0xB7), (0x300, 0x345)])]
TRICKY = ["", "1", "0", "-1", "1.0", "1.5", "true", "True", "false", "null", "None", "~", "yes", "no", "on", "off", "y", "n",
          "0x1F", "0o7", "1e3", "1_000", "2001-01-01", "2001-01-01 10:00:00", "=", "<<", "- a", "a: b", "a #b", "#c", " lead",
          "trail ", " ", "  ", "\n", "a\n", "\na", "a\n\nb", "a\tb", "\t", "inf", "-inf", "nan", ".inf", ".nan", "-.inf", "NaN",
          "Infinity", "!!str x", "&a", "*a", "|", ">", "%", "@", "`", "'", '"', "\\", "''", '""', "{}", "[]", "{", "[", ",",
          "? a", ": a", "a:", "-", "--- a", "...", "<!-- x -->", "<![CDATA[x]]>", "]]>", "&amp;", "&#10;", "<a/>", "\u00e9",
          "\u00a0", "\u0085", "\u2028", "\u2029", "\ufeff", "a" * 130, "a b " * 40, "x" * 100 + "\n" + "y" * 100, "1:30", "1:30:00", "+1", "+.5",
          ".5", "5.", "0.0", "-0.0", "-0", "00", "08", "0b1", "1e", "e1", "1E5", "\u0967"]


def pick(rng, classes):
    w = rng.uniform(0, sum(c[0] for c in classes))
    for weight, rs in classes:
        w -= weight
        if w <= 0:
            a, b = rng.choice(rs)
            return chr(rng.randint(a, b))
    a, b = classes[-1][1][-1]
    return chr(b)


def rnd_text(rng, classes, maxlen):
    r = rng.random()
    if r < 0.25:
        s = rng.choice(TRICKY)
        if classes is XML_TEXT:
            s = s.replace("\r", "")
        return s
    n = rng.choice([0, 1, 1, 2, 3, 5, 8, 13, maxlen])
    return "".join(pick(rng, classes) for _ in range(rng.randint(0, n)))


def rnd_name(rng):
    if rng.random() < 0.3:
        return rng.choice(["a", "item", "config", "x", "type", "xml", "k1", "A", "_", "a.b", "a-b", "tree", "root", "key", "text"])
    return pick(rng, NAME_START) + "".join(pick(rng, NAME_REST) for _ in range(rng.randint(0, rng.choice([1, 3, 8]))))


INTS64 = [0, 1, -1, 2, 255, 2**31 - 1, 2**31, -(2**31), -(2**31) - 1, 2**32, 2**53, 2**53 + 1, -(2**53) - 1, 2**63 - 1, -(2**63),
          2**62, 10**18, -(10**18)]
INTSBIG = [2**63, 2**64 - 1, 2**64, -(2**63) - 1, 2**70, -(2**100), 10**30]
FLOATS = [0.0, -0.0, 1.0, -1.0, 0.5, 1.5, -2.5, 1e16, 1e15, 1e-5, 1e-4, 0.1, 1 / 3, 2.0**53, 1.7976931348623157e308, 5e-324,
          2.2250738585072014e-308, 123456.789, 1e22, 1e23, -1e-7, math.inf, -math.inf, math.nan, 1073741823.5, 1073741824.0, 3.0e-310]


def rnd_leaf(rng, flav):
    r = rng.random()
    if r < 0.08:
        return None
    if r < 0.2:
        return rng.random() < 0.5
    if r < 0.4:
        c = rng.random()
        if c < 0.5:
            return rng.randint(-10, 300)
        if c < 0.8 or not flav["bigint"]:
            return rng.choice(INTS64) if rng.random() < 0.7 else rng.randint(-(2**63), 2**63 - 1)
        return rng.choice(INTSBIG)
    if r < 0.58:
        c = rng.random()
        if c < 0.5:
            return rng.choice(FLOATS)
        if c < 0.7:
            return rng.randint(-2000, 2000) / 2.0
        if c < 0.85:
            return rng.uniform(-1, 1) * 10 ** rng.randint(-300, 300)
        return rng.random()
    return rnd_text(rng, flav["text"], 40)


def rnd_key(rng, flav):
    if flav["xml"]:
        name = rnd_name(rng)
        if flav["colon"] and rng.random() < 0.4:
            # an XML Name with a colon (known finding C04-xml-colon-key)
            name = rng.choice([name + ":" + rnd_name(rng), ":" + name, name + ":", "xml:" + name, "a:b"])
        return name
    if rng.random() < 0.5:
        return rnd_name(rng)
    s = rnd_text(rng, flav["text"], 12)
    return s.replace("\x00", "0")  # BSON element names are C strings (third-party limit)


def rnd_value(rng, flav, depth):
    r = rng.random()
    if depth <= 0 or r < 0.55:
        return rnd_leaf(rng, flav)
    if r < 0.78:
        return [rnd_value(rng, flav, depth - 1) for _ in range(rng.choice([0, 0, 1, 1, 2, 3, 6]))]
    return rnd_dict(rng, flav, depth - 1)


def rnd_dict(rng, flav, depth):
    d = {}
    for _ in range(rng.choice([0, 0, 1, 1, 2, 3, 4, 6])):
        d[rnd_key(rng, flav)] = rnd_value(rng, flav, depth)
    return d


def O(pretty=True, root_tag="config", root_key=None):
    return {"pretty": pretty, "root_tag": list(root_tag), "root_key": to_abs(root_key)}


def driver(seed, n, procs=1):
    """Seeded random trees through the real formats; one logged case per tree.  The work is
    split into fixed blocks of 250 cases, block k seeded with (seed, k), so the result does not
    depend on the number of processes."""
    blocks = [(seed, k, min(250, n - k * 250)) for k in range((n + 249) // 250)]
    if procs > 1:
        with multiprocessing.get_context("fork").Pool(procs) as pool:
            parts = pool.map(_driver_block, blocks)
    else:
        parts = [_driver_block(b) for b in blocks]
    return [c for part in parts for c in part]


def _driver_block(args):
    seed, k, n = args
    rng = random.Random(seed * 1000003 + k)
    cases = []
    for _ in range(n):
        xml = rng.random() < 0.6
        flav = {"xml": xml, "text": XML_TEXT if xml else ANY_TEXT, "bigint": rng.random() < 0.25, "colon": xml and rng.random() < 0.06}
        tree = rnd_dict(rng, flav, rng.choice([1, 2, 2, 3, 4, 5]))
        if not tree and rng.random() < 0.8:
            tree[rnd_key(rng, flav)] = rnd_value(rng, flav, 3)
        pretty = rng.random() < 0.5
        keys = list(tree) or ["a"]
        rk = [rng.choice([None, "", rng.choice(keys), rnd_name(rng), rnd_text(rng, ANY_TEXT, 6) or "k"]) for _ in range(2)]
        plan = [("json", O(pretty=pretty), None), ("json", O(pretty=not pretty), None), ("pickle", O(), None)]
        if not flav["bigint"]:
            plan.append(("bson", O(), None))
        plan += [("yaml", O(root_key=rk[0]), None), ("yaml", O(root_key=rk[1]), None)]
        if xml:
            t1 = rng.choice(["config", rng.choice(keys), rnd_name(rng)])
            t2 = rnd_name(rng)
            plan += [("xml", O(root_tag=t1), None), ("xml", O(root_tag=t2), None)]
            if t1 != t2:
                plan.append(("xml", O(root_tag=t1), O(root_tag=t2)))
        t_abs = to_abs(tree)
        runs = []
        for fmt, opts, lopts in plan:
            lopts = lopts or opts
            real = real_run(fmt, opts, lopts, tree)
            runs.append({"fmt": fmt, "opts": opts, "lopts": lopts, "skipped": False, "dumped": real["dumped"], "elem": real["elem"],
                         "out": {k: v for k, v in real["out"].items() if k != "msg"}})
        cases.append({"t": t_abs, "runs": runs})
    return cases


def _validate_batch(chunk):
    d = tlc.scratch("cinco-c04t-")
    path = os.path.join(d, "cases.json")
    with open(path, "w") as fp:
        json.dump(chunk, fp)
    env = dict(JVM)
    env["TRACE_FILE"] = path
    res = tlc.run("Trace_Formats.tla", "Trace_Formats.cfg", workers=1, env=env, keep=("TRACE",))
    return res


def validate_traces(cases, batch, par):
    """TLC evaluates the specification on every logged case (Trace_Formats.tla)."""
    chunks = [cases[i : i + batch] for i in range(0, len(cases), batch)]
    with ThreadPoolExecutor(max_workers=par) as ex:
        results = list(ex.map(_validate_batch, chunks))
    bad = []
    states = checked = 0
    for chunk, res in zip(chunks, results):
        states += res.distinct
        seen = set()
        for rec in res.printed.get("TRACE", []):
            seen.add(rec["t"])
            checked += rec["checked"]
            flags = seq(rec["bad"])
            if flags:
                bad.append((chunk[rec["t"] - 1], flags))
        missing = set(range(1, len(chunk) + 1)) - seen
        if missing:
            raise tlc.TLCError("trace run lost %d cases" % len(missing))
    return bad, states, checked


# ---------------------------------------------------------------------------- entry point
def run(tier, seed):
    global _CINCO
    _CINCO = common.import_repo()
    import cincoconfig.core  # noqa  (from the tree under test: import_repo put it first on sys.path)

    out = common.Outcome("C04")
    cfg = "MC_Formats_%s.cfg" % tier
    procs = 8 if tier == "quick" else 12

    timer = common.Timer()
    phases = {}
    # (a) TLC on the specification instance, exporting every complete session
    res = tlc.run("MC_Formats.tla", cfg, workers=16, env=JVM, keep=("PLAN",), timeout=3000)
    if not res.ok:
        out.violation(
            "spec:%s" % res.violation,
            "TLC: %s violated on the FormatLab instance %s" % (res.violation, cfg),
            {"kind": "tlc-counterexample", "predicate": res.violation, "behaviour": res.cex},
        )
    phases["tlc_model_check_and_export"] = round(timer.elapsed(), 1)
    starts = sum(1 for ln in res.stdout.splitlines() if ln.startswith('<<"INIT"'))
    plan = res.printed.get("PLAN", [None])[0]
    if plan is None:
        raise tlc.TLCError("no PLAN line in TLC output")
    # (b) spec -> code
    s2c = spec_to_code(res.stdout, plan, procs)
    if res.ok and s2c["sessions"] != starts:
        # lines lost or torn with several workers: repeat single-threaded
        res1 = tlc.run("MC_Formats.tla", cfg, workers=1, env=JVM, keep=("PLAN",), timeout=3000)
        s2c = spec_to_code(res1.stdout, plan, procs)
        starts = sum(1 for ln in res1.stdout.splitlines() if ln.startswith('<<"INIT"'))
        if s2c["sessions"] != starts:
            raise tlc.TLCError("export incomplete: %d sessions started, %d exported" % (starts, s2c["sessions"]))
    res.stdout = ""
    phases["spec_to_code"] = round(timer.elapsed(), 1)
    for p in s2c["problems"][:40]:
        out.violation(p["signature"], p["summary"], p["replay"])
    for p in s2c["colon"][:3]:
        out.violation(p["signature"], p["summary"], p["replay"])
    if res.ok and (s2c["runs"] == 0 or s2c["wrongroot_rejected"] == 0 or len(s2c["by_fmt"]) != 5):
        raise tlc.TLCError("vacuous instance: %s" % {k: s2c[k] for k in ("runs", "wrongroot_rejected", "by_fmt")})
    for msg in s2c["drift"][:10]:
        out.notes.append("MODEL-DRIFT (outside C04, _from_element on a hand-written document): " + msg)

    # (c) code -> spec
    n_rand = 1500 if tier == "quick" else 60000
    cases = driver(seed, n_rand, procs)
    phases["driver"] = round(timer.elapsed(), 1)
    bad, tstates, tchecked = validate_traces(cases, 500 if tier == "quick" else 2500, 4)
    trace_colon = 0
    reported = 0
    for case, allflags in bad:
        colon = [f for f in allflags if f["c"] == COLON_SIG]
        flags = [f for f in allflags if f["c"] != COLON_SIG]
        if colon:
            trace_colon += len(colon)
            if trace_colon == len(colon):  # first occurrence only: they are all the same finding
                r = case["runs"][colon[0]["i"] - 1]
                out.violation(
                    COLON_SIG,
                    "code->spec: random tree %s: xml %s -> %s (a map key contains ':')" % (short(to_py(case["t"]), 160), kwargs("xml", r["opts"]), short(r["out"], 120)),
                    {"kind": "format-trace", "case": case, "flags": colon},
                )
        if not flags or reported >= 40:
            continue
        reported += 1
        names = sorted(set(f["c"] for f in flags))
        i = flags[0]["i"]
        r = case["runs"][i - 1] if i else None
        fmts = sorted(set(case["runs"][f["i"] - 1]["fmt"] for f in flags if f["i"]))
        out.violation(
            "trace:%s:%s" % (",".join(fmts) or "all", ",".join(names)),
            "code->spec: random tree %s: %s%s" % (short(to_py(case["t"]), 160), names,
                                                   "" if r is None else " (first: %s %s -> %s)" % (r["fmt"], kwargs(r["fmt"], r["opts"]), short(r["out"], 160))),
            {"kind": "format-trace", "case": case, "flags": flags},
        )
    bad_other = sum(1 for _, fl in bad if any(f["c"] != COLON_SIG for f in fl))
    phases["trace_validation"] = round(timer.elapsed(), 1)
    rand_runs = sum(len(c["runs"]) for c in cases)
    out.coverage = {
        "states": res.distinct,
        "transitions": res.generated,
        "exhaustive": bool(res.ok),
        "instance": cfg,
        "phase_end_wall_s": phases,
        "tree_sessions": s2c["sessions"],
        "xml_documents_hand_written": s2c["elems"],
        "xml_documents_hand_written_unmodelled": s2c["elem_unmodelled"],
        "xml_documents_hand_written_drift": len(s2c["drift"]),
        "spec_to_code_runs": s2c["runs"],
        "spec_to_code_runs_by_format": s2c["by_fmt"],
        "spec_to_code_runs_outside_domain_skipped": s2c["skipped"],
        "spec_to_code_wrong_root_runs": s2c["wrongroot_rejected"],
        "spec_to_code_mismatches": s2c["nproblems"],
        "code_to_spec_cases": len(cases),
        "code_to_spec_runs": rand_runs,
        "code_to_spec_runs_checked_by_tlc": tchecked,
        "code_to_spec_tlc_states": tstates,
        "code_to_spec_bad_cases": bad_other,
        "known_finding_xml_colon_key_runs": {"spec_to_code": s2c["ncolon"], "code_to_spec": trace_colon},
        "traces_validated_against_impl": s2c["sessions"] + s2c["elems"] + len(cases),
        "evaluations": s2c["runs"] + s2c["elems"] + rand_runs,
        "distinct_nontrivial": s2c["nontrivial"] + sum(len(c["runs"]) for c in cases if c["t"]["kv"]),
        "rule": "one evaluation = one dumps/loads pair of one format instance on one tree, executed on the real library "
        "(spec->code: every (tree, plan entry) of the TLC instance that is inside the format's domain; code->spec: "
        "every run of the seeded driver); non-trivial = the tree is not the empty dict; trees are distinct TLC "
        "states / seeded random trees",
        "samples": [s2c["sample"], {"random_case_tree": short(to_py(cases[0]["t"]), 300), "runs": [r["fmt"] for r in cases[0]["runs"]]}],
    }
    out.assumptions = [
        "json, yaml, bson, pickle and ElementTree+minidom are modelled as typed channels (the document is the abstract "
        "value handed to the serialiser); their fidelity is measured by the conformance runs, not proved",
        "equality is typed (exact Python types: bool / int / float / str / None / list / dict), NaN equals NaN, "
        "0.0 and -0.0 are DIFFERENT (sign-of-zero aware), the order of a map's keys is not data (yaml.dump sorts keys)",
        "floats are half-integers below 2^30, +-inf, nan, -0.0; other doubles and ints beyond 2^31 are carried by their "
        "repr / decimal digits (float(repr(x)) == x and int(str(n)) == n are Python guarantees, not modelled)",
        "XML domain: strings of XML 1.0 Chars without CR (form feed and other C0 controls are not Chars); keys are XML "
        "Names, colon included (failures of XML runs on trees with a colon key are the known finding "
        "C04-xml-colon-key, signature xml:key-with-colon; the specification keeps the intended round trip); root tags "
        "are colon-free names; non-ASCII name characters are those valid in every edition of XML 1.0 (expat implements "
        "the 4th-edition tables); the class of non-ASCII characters is fixed by the driver's generators, the model "
        "classifies ASCII only",
        "BSON domain: signed 64-bit ints; element names without NUL (py-bson writes C strings); lone surrogates are "
        "excluded everywhere (not encodable as UTF-8)",
        "the tree handed to dumps is a dict with string keys (what Config.to_tree produces); root_tag is an NCName",
        "_from_element on hand-written documents (fall back to text, missing / unknown type, duplicate tags) is "
        "modelled and compared, but is outside C04: differences there are reported as MODEL-DRIFT notes only; "
        "float()/int() text with underscores, exponents or non-ASCII digits is Unmodelled",
    ]
    return out
