"""C02 - saving and re-loading a configuration reproduces it exactly, in every format.
Decided on spec/PersistMachine.tla: C02_Reproduces, C02_PlainTree (see persist.py)."""
from . import persist


def run(tier, seed):
    return persist.run_persist("C02", ["C02_PlainTree"], ["C02_Reproduces"], tier, seed)
