"""C02 - saving and re-loading a configuration reproduces it exactly, in every format.
Decided on spec/PersistMachine.tla: C02_Reproduces, C02_PlainTree (see persist.py), and - for
every schema shape - on the generated schema family of spec/ConfigMachine.tla (action RoundTrip:
dumps in each real format, a fresh configuration loads the document; predicate C02_Reproduces
there; see cfgfamily.py)."""
from . import cfgfamily, cfgmachine, persist


def run(tier, seed):
    out = persist.run_persist("C02", ["C02_PlainTree"], ["C02_Reproduces"], tier, seed)
    return cfgmachine.merge(out, cfgfamily.run_family("C02", [], ["C02_Reproduces"], tier, seed, then_roundtrip=True))


replay_file = cfgmachine.replay_file
