"""C07 - key files: used verbatim, created once, rejected if malformed, never retained.

Specification: spec/CincoKeyFile.tla (actions Enter/Exit/Encrypt/Decrypt/GenerateKey and the
environment).  TLC checks the six C07 predicates on the bounded instance; every transition it
generates is replayed on real KeyFile objects over a scratch directory (spec -> code), and
seeded random session scripts recorded from the real code are validated against
Trace_KeyFile.tla (code -> spec), which also evaluates the predicates on every observed step.
"""
import os
import random
import shutil

from .. import common, replay, tlc, tracecheck

K = {"K1": bytes(range(1, 33)), "K2": bytes(range(101, 133))}
BAD = {"empty": b"", "short": b"0123456789abcdef", "long": b"x" * 33,
       "hex": K["K1"].hex().encode(), "hexnl": K["K1"].hex().encode() + b"\n",
       "keylf": K["K1"] + b"\n", "keycrlf": K["K1"] + b"\r\n"}
PLAIN = bytes(range(200, 240))  # 40 bytes: longer than the key, so XOR cycling shows


class World:
    """Real KeyFile objects over a scratch directory + the abstraction function."""

    def __init__(self, cinco, objects, path_of, init):
        self.enc = cinco.encryption
        self.root = tlc.scratch("cinco-c07-")
        self.names = {}  # bytes -> abstract name of generated keys
        self.paths = {}
        for p in sorted(set(path_of.values())):
            d = os.path.join(self.root, p)
            os.makedirs(d)
            self.paths[p] = os.path.join(d, "cincokey")
        self.path_of = path_of
        self.objs = {o: self.enc.KeyFile(self.paths[path_of[o]]) for o in objects}
        for p, c in init["file"].items():
            self.set_file(p, c)
        for p, b in init.get("dirok", {}).items():
            if not b:
                self.set_dir(p, False)

    # ---- environment ----
    def set_file(self, p, c):
        fn = self.paths[p]
        if c == "absent":
            if os.path.exists(fn):
                os.unlink(fn)
            return
        data = K.get(c, BAD.get(c))
        with open(fn, "wb") as fp:
            fp.write(data)

    def set_dir(self, p, ok):
        d = os.path.dirname(self.paths[p])
        if ok:
            os.makedirs(d, exist_ok=True)
        else:
            shutil.rmtree(d)

    # ---- abstraction ----
    def name_of(self, data):
        if data is None:
            return "none"
        for n, k in K.items():
            if data == k:
                return n
        if data == K["K1"] + b"\n":
            return "keylf"
        if data == K["K1"] + b"\r\n":
            return "keycrlf"
        if data == K["K1"].hex().encode():
            return "hex"
        if data == K["K1"].hex().encode() + b"\n":
            return "hexnl"
        if len(data) == 0:
            return "empty"
        if len(data) < 32:
            return "short"
        if len(data) > 32:
            return "long"
        if data not in self.names:
            self.names[data] = "G%d" % (len(self.names) + 1)
        return self.names[data]

    def file_state(self):
        out = {}
        for p, fn in self.paths.items():
            if os.path.isfile(fn):
                with open(fn, "rb") as fp:
                    out[p] = self.name_of(fp.read())
            else:
                out[p] = "absent"
        return out

    def key_state(self):
        """Key material held by each object: any non-empty bytes value among its attributes."""
        out = {}
        for o, obj in self.objs.items():
            held = [v for v in vars(obj).values() if isinstance(v, (bytes, bytearray)) and len(v) > 0]
            out[o] = self.name_of(bytes(held[0])) if held else "none"
        return out

    def observe(self):
        # files first: generated keys get their names in order of creation on disk
        f = self.file_state()
        return {"file": f, "key": self.key_state()}

    # ---- operations ----
    def classify(self, exc):
        if isinstance(exc, self.enc.EncryptionError):
            return "EncryptionError"
        if isinstance(exc, OSError):
            return "OSError"
        if isinstance(exc, TypeError):
            return "TypeError"
        return type(exc).__name__

    def candidates(self):
        cands = dict(K)
        cands.update({n: d for d, n in self.names.items()})
        for fn in self.paths.values():
            if os.path.isfile(fn):
                with open(fn, "rb") as fp:
                    d = fp.read()
                cands.setdefault(self.name_of(d), d)
        for obj in self.objs.values():
            for v in vars(obj).values():
                if isinstance(v, (bytes, bytearray)) and v:
                    cands.setdefault(self.name_of(bytes(v)), bytes(v))
        return cands

    def do(self, ev):
        op = ev["op"]
        try:
            if op == "Enter":
                self.objs[ev["o"]].__enter__()
                return {"out": "ok"}
            if op == "Exit":
                if ev.get("exc"):
                    err = ValueError("raised inside the context")
                    swallowed = self.objs[ev["o"]].__exit__(ValueError, err, None)
                    return {"out": "swallowed" if swallowed else "ok"}
                self.objs[ev["o"]].__exit__(None, None, None)
                return {"out": "ok"}
            if op == "GenerateKey":
                self.objs[ev["o"]].generate_key()
                return {"out": "ok"}
            if op == "External":
                self.set_file(ev["p"], ev["c"])
                return {"out": "ok"}
            if op == "ExternalDir":
                self.set_dir(ev["p"], ev["b"])
                return {"out": "ok"}
            if op == "Encrypt":
                sv = self.objs[ev["o"]].encrypt(PLAIN, method=ev["m"])
                used = self.which_key(sv.method, sv.ciphertext, PLAIN)
                return {"out": "ok", "usedkey": used, "method": sv.method}
            if op == "Decrypt":
                # ciphertexts of PLAIN made independently of the library under every key that is
                # around (the file's, the given ones, generated ones): the one the object decrypts
                # correctly names the key it uses
                method = "aes" if ev["m"] in ("aes", "best") else "xor"
                cands = self.candidates()
                fstate = self.file_state()[self.path_of[ev["o"]]]
                order = [k for k in ([cands[fstate]] if fstate in cands else []) + [k for n, k in sorted(cands.items()) if n != fstate] if len(k) == 32]
                refkey = order[0] if order else K["K1"]
                pt = None
                for i, refkey in enumerate(order or [K["K1"]]):
                    ct = independent_encrypt(method, refkey, PLAIN)
                    try:
                        pt = self.objs[ev["o"]].decrypt(self.enc.SecureValue(ev["m"], ct))
                    except ValueError:
                        pt = None  # bad padding under a wrong AES key
                        continue
                    if pt == PLAIN:
                        break
                if pt is None:
                    return {"out": "ok", "usedkey": "wrong-key", "method": method}
                if pt == PLAIN:
                    return {"out": "ok", "usedkey": self.name_of(refkey), "method": method}
                if method == "xor":
                    other = bytes(a ^ b ^ c for a, b, c in zip(pt[:32], PLAIN[:32], refkey))
                    return {"out": "ok", "usedkey": self.name_of(other), "method": method}
                return {"out": "ok", "usedkey": "wrong-key", "method": method}
        except Exception as exc:  # noqa
            return {"out": self.classify(exc)}
        raise ValueError("unknown op %r" % (op,))

    def which_key(self, method, ct, plain):
        """Name of the key that produced ct from plain - decided without the library."""
        if method == "xor":
            if len(ct) != len(plain):
                return "not-xor"
            key = bytes(a ^ b for a, b in zip(ct[:32], plain[:32]))
            # the key must be repeated over the data
            for i, c in enumerate(ct):
                if c != plain[i] ^ key[i % 32]:
                    return "not-cycled"
            return self.name_of(key)
        for n, k in self.candidates().items():
            if len(k) != 32:
                continue
            try:
                if independent_decrypt("aes", k, ct) == plain:
                    return n
            except Exception:  # noqa
                pass
        return "unknown-key"

    def close(self):
        shutil.rmtree(self.root, ignore_errors=True)


def independent_encrypt(method, key, plain):
    if method == "xor":
        return bytes(b ^ key[i % len(key)] for i, b in enumerate(plain))
    from . import aesref

    return aesref.cbc_encrypt(key, os.urandom(16), plain)


def independent_decrypt(method, key, ct):
    if method == "xor":
        return bytes(b ^ key[i % len(key)] for i, b in enumerate(ct))
    from . import aesref

    return aesref.cbc_decrypt(key, ct)


class Adapter:
    def __init__(self, cinco, objects, path_of):
        self.cinco = cinco
        self.objects = objects
        self.path_of = path_of

    def start(self, init):
        return World(self.cinco, self.objects, self.path_of, init)

    def step(self, w, ev):
        return w.do(ev)

    def observe(self, w):
        return w.observe()

    def close(self, w):
        w.close()


# --------------------------------------------------------------------------------------
def driver(cinco, seed, n_traces, length):
    """Seeded random session scripts on the real KeyFile; never consults the specification."""
    rng = random.Random(seed)
    objects = ["o1", "o2", "o3", "o4"]
    path_of = {"o1": "p1", "o2": "p1", "o3": "p2", "o4": "p2"}
    traces = []
    for _ in range(n_traces):
        init = {
            "file": {p: rng.choice(["absent", "K1", "K2", "empty", "short", "long", "hex", "hexnl", "keylf", "keycrlf"]) for p in ("p1", "p2")},
            "dirok": {"p1": True, "p2": True},
        }
        w = World(cinco, objects, path_of, init)
        depth = {o: 0 for o in objects}
        dirok = dict(init["dirok"])
        dirty = set()  # paths whose file was replaced while a context on them is open
        events = []
        gens = 0
        try:
            for _ in range(length):
                o = rng.choice(objects)
                p = path_of[o]
                idle = all(depth[x] == 0 for x in objects if path_of[x] == p)
                r = rng.random()
                if r < 0.30 and depth[o] < 7:
                    ev = {"op": "Enter", "o": o}
                elif r < 0.50:
                    if depth[o] == 0:
                        continue
                    ev = {"op": "Exit", "o": o, "exc": rng.random() < 0.3}
                elif r < 0.62:
                    ev = {"op": "Encrypt", "o": o, "m": rng.choice(["aes", "xor", "best"])}
                elif r < 0.74:
                    ev = {"op": "Decrypt", "o": o, "m": rng.choice(["aes", "xor", "best"])}
                elif r < 0.90:
                    # (mostly between sessions; sometimes while a context on the path is open)
                    if (not idle and (rng.random() < 0.7 or dirty)) or not dirok[p]:
                        continue
                    c = rng.choice(["absent", "K1", "K2", "short"] if not idle else ["absent", "K1", "K2", "empty", "short", "long", "hex", "hexnl", "keylf", "keycrlf"])
                    if w.file_state()[p] == c:
                        continue
                    ev = {"op": "External", "p": p, "c": c}
                elif r < 0.95:
                    if not idle:
                        continue
                    ev = {"op": "ExternalDir", "p": p, "b": not dirok[p]}
                else:
                    if not idle or gens > 50:
                        continue
                    ev = {"op": "GenerateKey", "o": o}
                before = len(w.names)
                res = w.do(ev)
                obs = w.observe()
                gens += len(w.names) - before
                if ev["op"] == "Enter" and res["out"] == "ok":
                    depth[o] += 1
                if ev["op"] == "Exit":
                    depth[o] -= 1
                    if all(depth[x] == 0 for x in objects if path_of[x] == p):
                        dirty.discard(p)
                if ev["op"] == "External" and not idle:
                    dirty.add(p)
                if ev["op"] == "ExternalDir":
                    dirok[p] = ev["b"]
                rec = dict(ev)
                rec.update(res)
                rec.update(obs)
                events.append(rec)
                if gens > 55:
                    break
        finally:
            w.close()
        traces.append({"init": init, "events": events})
    return traces


def run(tier, seed):
    cinco = common.import_repo()
    import cincoconfig.encryption  # noqa

    out = common.Outcome("C07")
    cfg = "MC_KeyFile_%s.cfg" % tier
    # 1. TLC decides the C07 predicates on the specification (exhaustive for the instance)
    res = tlc.run("MC_KeyFile.tla", cfg, workers=16, keep=(), coverage=True)
    if not res.ok:
        out.violation(
            "spec:%s" % res.violation,
            "TLC: %s violated on the specification instance %s" % (res.violation, cfg),
            {"kind": "tlc-counterexample", "property_predicate": res.violation, "behaviour": res.cex},
        )
    states, transitions = res.distinct, res.generated
    cov_actions = {k: v for k, v in res.coverage.items() if k[0].isupper()}
    # 2. spec -> code: export the transition graph and execute every case on real KeyFiles
    exp = tlc.run("MC_KeyFile.tla", "MC_KeyFile_%s_export.cfg" % tier, workers=1, coverage=False)
    g = replay.Graph(exp.printed.get("INIT", []), exp.printed.get("EDGE", []))
    objects = ["o1", "o2", "o3"]
    path_of = {"o1": "p1", "o2": "p1", "o3": "p2"}
    stats, mism = replay.run_graph(
        Adapter(cinco, objects, path_of), g, max_cases=None if tier == "thorough" else 6000, seed=seed
    )
    for m in mism:
        out.violation(
            "replay:%s:%s" % (m.ev.get("op"), m.detail.split(":")[0]),
            "spec->code: KeyFile step %s differs from the specification: %s" % (m.ev, m.detail),
            m.to_json(),
        )
    # 3. code -> spec: random session scripts validated by TLC against Trace_KeyFile
    n_traces, length = (400, 40) if tier == "quick" else (4000, 60)
    traces = driver(cinco, seed, n_traces, length)
    verdicts, tstats = tracecheck.validate("Trace_KeyFile.tla", "Trace_KeyFile.cfg", traces)
    rejected = [v for v in verdicts if not v.accepted]
    for v in rejected[:20]:
        out.violation(
            "trace:%s" % (",".join(v.bad_inv or v.bad_obs or ["not-enabled"])),
            "code->spec: recorded KeyFile trace rejected: %s" % v.describe(),
            v.to_json(),
        )
    distinct = {common.hash_case([e["op"], e.get("o"), e.get("p"), e.get("c"), e["out"], e["file"], e["key"]]) for t in traces for e in t["events"]}
    out.coverage = {
        "states": states,
        "transitions": transitions,
        "exhaustive": True,
        "tlc_depth": res.depth,
        "tlc_instance": cfg,
        "tlc_action_coverage": cov_actions,
        "traces_validated_against_impl": stats["cases"] + len(verdicts),
        "spec_to_code_cases": stats["cases"],
        "spec_to_code_cases_in_graph": stats["cases_in_graph"],
        "spec_to_code_edges": g.n_edges,
        "spec_to_code_steps": stats["steps"],
        "spec_to_code_by_op": stats["by_op"],
        "code_to_spec_traces": len(verdicts),
        "code_to_spec_events": sum(len(t["events"]) for t in traces),
        "code_to_spec_tlc_states": tstats["states"],
        "evaluations": stats["cases"] + sum(len(t["events"]) for t in traces),
        "distinct_nontrivial": len(distinct),
        "rule": "spec->code: one case per distinct (reachable model state, operation, arguments) of the TLC graph; "
        "code->spec: seeded random scripts of Enter/Exit/Encrypt/Decrypt/GenerateKey/external change over 4 objects and 2 paths; "
        "distinct = distinct (op, target, outcome, resulting file+key state) among driver events; trivial = none excluded",
        "samples": [
            {"spec_to_code_case": next(iter([{"from": graph_state, "ev": alts[0][0]} for graph_state, _, alts in [(g.state[cf], ck, a) for cf, ck, a in list(g.cases())[:1]]]), None)},
            {"code_to_spec_trace": traces[0]["events"][:6] if traces else None},
        ],
    }
    out.assumptions = [
        "file contents are abstracted to absent/empty/short/long/known key/n-th generated key",
        "an unwritable directory is modelled (and realised, since the checks run as root) as a missing directory",
        "reference counts are private and are inferred by the specification, not observed",
        "AES key identification uses an independent pure-Python AES-256-CBC (harness/props/aesref.py)",
    ]
    return out
