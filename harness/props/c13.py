"""C13 - configurations of one schema share no state and never alter the schema.
Decided on spec/ConfigMachine.tla: C13_Isolated (an operation on one configuration never
changes the other one, built before or after), plus a schema snapshot taken by the harness
around every replayed step."""
from . import cfgfamily, cfgmachine


def run(tier, seed):
    out = cfgmachine.run_machine("C13", [], ["C13_Isolated"], tier, seed)
    # and on the generated schema family (every schema shape)
    return cfgmachine.merge(out, cfgfamily.run_family("C13", [], ["C13_Isolated"], tier, seed))


replay_file = cfgmachine.replay_file
