"""C13 - configurations of one schema share no state and never alter the schema.
Decided on spec/ConfigMachine.tla: C13_Isolated (an operation on one configuration never
changes the other one, built before or after), plus a schema snapshot taken by the harness
around every replayed step."""
from . import cfgfamily, cfgmachine


def run(tier, seed):
    out = cfgmachine.run_machine("C13", [], ["C13_Isolated"], tier, seed)
    # and on the generated schema family (every schema shape)
    out = cfgmachine.merge(out, cfgfamily.run_family("C13", [], ["C13_Isolated"], tier, seed))
    if tier == "quick":
        # file loads: in the include machinery's world (IncludeLab.tla, props/c18.py) every load is
        # preceded by ANOTHER configuration of the same schema loading a file from a different
        # directory; the specification's answer does not depend on it, so a difference there is
        # state shared between configurations through the schema
        from . import c18

        inc = c18.run("quick", seed)
        for v in inc.violations:
            out.violation("file-load-sharing:" + v["signature"], "load after another configuration's file load: " + v["summary"], v["replay"])
        out.coverage["file_load_cases_with_decoy"] = inc.coverage.get("traces_validated_against_impl")
        out.assumptions.append("file loads with include fields are decided on IncludeLab.tla (C18's machinery), each preceded by a decoy load of another configuration")
    return out


replay_file = cfgmachine.replay_file
