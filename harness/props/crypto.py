"""Shared runner for C08 (ciphers) and C09 (challenge values) on spec/CincoCrypto.tla.

TLC checks the invariants exhaustively for MaxOps operations; every transition of the exported
graph and of simulated behaviours is executed on real KeyFile / SecureField / ChallengeField
objects.  The abstraction function is where the independent oracles live: a real AES
ciphertext is mapped to the term aes(key, iv, pt) by decrypting it with the pure-Python
AES-256-CBC/PKCS7 of aesref.py under every candidate key (so "any standard implementation
decrypts" is decided there), its IV must be a value the wrapped os.urandom produced exactly
once; XOR ciphertexts are compared byte for byte with the bytes TLC computed; a DigestValue is
mapped to H(alg, salt, pt) by recomputing hashlib.new(alg, salt + pt)."""
import hashlib
import os
import shutil

from .. import codec, common, replay, tlc
from . import aesref

KEYS = {"K1": bytes(range(1, 33)), "K2": bytes(range(101, 132)) + b"\n"}  # (K2 ends in a line feed)
SECRETS = {
    "empty": "",
    "a": "a",
    "ab": "ab",
    "unicode": "pässwörd☃",
    "nfkc": "\ufb01le-a\u0308-\uff21-\u00b2",  # ligature, combining accent, fullwidth A, superscript 2
    "long": "x" * 300 + "end",
    "bytes": b"\xff\x00bin\xfe",
    "colon": "pass:word",
}
FIXED_IV = bytes(range(16))
WRONG_KEY_BLOB = aesref.cbc_encrypt(KEYS["K2"], FIXED_IV, b"secret-value-under-K2")


def _b64(b):
    import base64

    return base64.b64encode(b).decode()


def stored_value(shape, fm="best", own="K1"):
    """A stored secret of the named (mal)formation for a field whose method is fm.  `good` is a
    genuine ciphertext of "hello" under the field's own method and key (K1), so that the only
    thing wrong with a shape is what its name says."""
    if fm == "xor":
        good = _b64(bytes(b ^ KEYS[own][i % 32] for i, b in enumerate(b"hello")))
    else:
        good = _b64(aesref.cbc_encrypt(KEYS[own], bytes(range(16)), b"hello"))
    return {
        "none": None,
        "plain-str": "plain text",
        "dict-no-method": {"ciphertext": good},
        "dict-null-method": {"method": None, "ciphertext": good},
        "dict-empty-method": {"method": "", "ciphertext": good},
        "dict-unknown-method": {"method": "rot13", "ciphertext": good},
        "dict-int-method": {"method": 5, "ciphertext": good},
        "dict-no-ciphertext": {"method": "xor"},
        "dict-int-ciphertext": {"method": "xor", "ciphertext": 17},
        "dict-bad-padding-b64": {"method": "xor", "ciphertext": "aGVsbG8"},
        "dict-foreign-chars-b64": {"method": "xor", "ciphertext": "!!!!"},
        "dict-aes-short": {"method": "aes", "ciphertext": _b64(b"x" * 20)},
        "dict-aes-unaligned": {"method": "aes", "ciphertext": _b64(b"y" * 40)},
        "dict-aes-wrong-key": {"method": "aes", "ciphertext": _b64(aesref.cbc_encrypt(KEYS["K2" if own == "K1" else "K1"], FIXED_IV, b"secret-value-under-the-other-key"))},
        "list": ["xor", good],
        "int": 12345,
    }[shape]


class World:
    def __init__(self, cinco):
        self.cinco = cinco
        self.root = tlc.scratch("cinco-crypto-")
        self.kf = {}
        for n, k in KEYS.items():
            path = os.path.join(self.root, n)
            with open(path, "wb") as fp:
                fp.write(k)
            self.kf[n] = cinco.KeyFile(path)
        self.draws = []
        self.real_urandom = os.urandom

        def spy(n):
            b = self.real_urandom(n)
            self.draws.append(b)
            return b

        os.urandom = spy
        self.store = []  # (real SecureValue, key name, plaintext bytes)
        self.cfg = None
        self.alg = None
        schema = cinco.Schema()
        schema.best = cinco.SecureField()
        schema.xor = cinco.SecureField(method="xor")
        schema.aes = cinco.SecureField(method="aes")
        self.scfg = cinco.Config(schema, key_filename=os.path.join(self.root, "K1"))
        self.sfields = {"best": schema.best, "xor": schema.xor, "aes": schema.aes}

    def close(self):
        os.urandom = self.real_urandom
        shutil.rmtree(self.root, ignore_errors=True)

    def on_file(self):
        """Which key each key file holds now: {object name: key name}."""
        out = {}
        for n in KEYS:
            with open(os.path.join(self.root, n), "rb") as fp:
                data = fp.read()
            out[n] = next((k for k, b in KEYS.items() if b == data), "<other>")
        return out

    def holder_of(self, key):
        return next(n for n, k in self.on_file().items() if k == key)

    def nonce_of(self, b):
        hits = [i for i, d in enumerate(self.draws) if d == b]
        return hits[0] + 1 if len(hits) == 1 else -len(hits)

    def abstract_sv(self, sv, plain):
        if type(sv.ciphertext) is not bytes:
            return {"m": sv.method, "ct": {"k": "not-bytes:" + type(sv.ciphertext).__name__, "y": []}}
        if sv.method == "xor":
            return {"m": "xor", "ct": {"k": "raw", "y": list(sv.ciphertext)}}
        ct = sv.ciphertext
        for name, key in KEYS.items():
            try:
                if aesref.cbc_decrypt(key, ct) == plain:
                    return {"m": sv.method, "ct": {"k": "aes", "key": name, "iv": self.nonce_of(ct[:16]), "pt": list(plain)}}
            except aesref.BadCiphertext:
                continue
        return {"m": sv.method, "ct": {"k": "aes", "key": "<none decrypts>", "iv": 0, "pt": []}}

    def chal_state(self):
        if self.cfg is None or self.cfg.pw is None:
            return {"alg": "none", "salt": 0, "saltlen": 0, "pt": ""}
        v = self.cfg.pw
        if not isinstance(v, self.cinco.fields.DigestValue):
            # (whatever is held instead of a digest is reported as such, not as a crash of the harness)
            return {"alg": self.alg, "salt": -1, "saltlen": -1, "pt": "<held value is a %s, not a digest>" % type(v).__name__}
        pt = "<unknown>"
        for name, secret in SECRETS.items():
            raw = secret.encode() if isinstance(secret, str) else secret
            if hashlib.new(self.alg, v.salt + raw).digest() == v.digest:
                pt = name
                break
        return {"alg": self.alg, "salt": self.nonce_of(v.salt), "saltlen": len(v.salt), "pt": pt}

    def observe(self):
        return {
            "store": [{"sv": self.abstract_sv(sv, pt), "key": k, "pt": list(pt)} for sv, k, pt in self.store],
            "chal": self.chal_state(),
            "onfile": self.on_file(),
            "dflt": bool(getattr(self, "has_default", False)),
            "nonce": len(self.draws),  # number of random draws (IVs, salts) so far
        }

    def ensure_cfg(self, alg, default=None):
        if self.cfg is None:
            schema = self.cinco.Schema()
            schema.pw = self.cinco.ChallengeField(alg) if default is None else self.cinco.ChallengeField(alg, default=default)
            self.schema = schema
            self.cfg = schema()
            self.alg = alg

    def leaks(self, secret, blobs):
        raw = secret.encode() if isinstance(secret, str) else secret
        if len(raw) < 4:
            return None
        for what, b in blobs:
            if isinstance(b, str):
                b = b.encode()
            if raw in b:
                return what
        return None

    def step(self, ev):
        cinco = self.cinco
        op = ev["op"]
        # the key the named KeyFile object's file holds when this call opens its session
        held = self.on_file().get(ev.get("key")) if isinstance(ev.get("key"), str) else None
        try:
            if op == "Swap":
                p1, p2 = os.path.join(self.root, "K1"), os.path.join(self.root, "K2")
                with open(p1, "rb") as fp:
                    b1 = fp.read()
                with open(p2, "rb") as fp:
                    b2 = fp.read()
                with open(p1, "wb") as fp:
                    fp.write(b2)
                with open(p2, "wb") as fp:
                    fp.write(b1)
                return {"out": "ok"}
            if op == "FailedOpen":
                path = os.path.join(self.root, ev["key"])
                with open(path, "rb") as fp:
                    good = fp.read()
                with open(path, "wb") as fp:
                    fp.write(good[:31])
                try:
                    with self.kf[ev["key"]] as ctx:
                        ctx.encrypt(b"never encrypted")
                finally:
                    with open(path, "wb") as fp:
                        fp.write(good)
                return {"out": "ok"}
            if op == "Encrypt":
                pt = bytes(codec.seq(ev["pt"]))
                with self.kf[ev["key"]] as ctx:
                    sv = ctx.encrypt(pt, method=ev["m"])
                self.store.append((sv, held, pt))
                return {"out": "ok", "sv": self.abstract_sv(sv, pt)}
            if op == "Decrypt":
                sv, k, pt = self.store[ev["i"] - 1]
                try:
                    with self.kf[ev["key"]] as ctx:
                        got = ctx.decrypt(sv)
                except Exception:  # noqa
                    wrong = sv.method == "aes" and k != held
                    return {"out": "notpt" if wrong else "error", "ret": {"t": "none"}, "notpt": True}
                if sv.method == "aes" and got != pt:
                    return {"out": "notpt", "ret": {"t": "none"}, "notpt": True}
                # (codec.to_abs: a bytearray is not bytes)
                return {"out": "ok", "ret": codec.to_abs(got), "notpt": got != pt}
            if op == "DecryptTruncated":
                sv, k, pt = self.store[ev["i"] - 1]
                cut = cinco.encryption.SecureValue(sv.method, sv.ciphertext[:32])
                with self.kf[self.holder_of(k)] as ctx:
                    ctx.decrypt(cut)
                return {"out": "ok"}
            if op == "DecryptExtended":
                sv, k, pt = self.store[ev["i"] - 1]
                longer = cinco.encryption.SecureValue(sv.method, sv.ciphertext + bytes((7 * j + ev["n"]) % 256 for j in range(ev["n"])))
                with self.kf[self.holder_of(k)] as ctx:
                    ctx.decrypt(longer)
                return {"out": "ok"}
            if op == "DecryptBad":
                sv = cinco.encryption.SecureValue(ev["sv"]["m"], bytes(codec.seq(ev["sv"]["ct"]["y"])))
                with self.kf[ev["key"]] as ctx:
                    ctx.decrypt(sv)
                return {"out": "ok"}
            if op == "LoadStored":
                fm = ev.get("fm", "best")
                # (the configuration's key file is the file of object K1: "genuine" and "wrong key"
                # are relative to the key that file holds now)
                self.sfields[fm].to_python(self.scfg, stored_value(ev["shape"], fm, self.on_file()["K1"]))
                return {"out": "ok"}
            if op == "EncryptPair":
                pt = bytes(codec.seq(ev["pt"]))
                kf = self.kf[ev["key"]]
                with kf as ctx:
                    sv1 = ctx.encrypt(pt, method=ev["m"])
                    if ev["nested"]:
                        with kf as inner:
                            sv2 = inner.encrypt(pt, method=ev["m"])
                    else:
                        sv2 = ctx.encrypt(pt, method=ev["m"])
                self.store.append((sv1, held, pt))
                self.store.append((sv2, held, pt))
                return {"out": "ok", "sv": self.abstract_sv(sv1, pt), "sv2": self.abstract_sv(sv2, pt)}
            if op == "BuildDefault":
                self.has_default = True
                self.ensure_cfg(ev["alg"], SECRETS[ev["p"]])
                return {"out": "ok"}
            if op == "Assign":
                self.ensure_cfg(ev["alg"])
                secret = SECRETS[ev["p"]]
                self.cfg.pw = secret
                v = self.cfg.pw
                leak = self.leaks(secret, [("str", str(v)), ("repr", repr(v)), ("salt", v.salt), ("digest", v.digest)])
                return {"out": "ok", "leak": leak}
            if op == "LoadPlain":
                self.ensure_cfg(ev["alg"])
                self.cfg.load_tree({"pw": SECRETS[ev["p"]]})
                return {"out": "ok"}
            if op == "Challenge":
                self.cfg.pw.challenge(SECRETS[ev["q"]])
                return {"out": "ok"}
            if op == "SaveLoad":
                data = self.cfg.dumps(ev["fmt"])
                secret = SECRETS[self.chal_state()["pt"]] if self.chal_state()["pt"] in SECRETS else ""
                leak = self.leaks(secret, [("document", data)])
                new = self.schema()
                new.loads(data, ev["fmt"])
                same = (new.pw.salt, new.pw.digest) == (self.cfg.pw.salt, self.cfg.pw.digest)
                self.cfg = new
                return {"out": "ok" if same else "changed", "leak": leak}
        except Exception as exc:  # noqa
            return {"out": "error", "msg": "%s: %s" % (type(exc).__name__, str(exc)[:100])}
        raise RuntimeError(op)


class Adapter:
    def __init__(self, cinco):
        self.cinco = cinco

    def start(self, init):
        return World(self.cinco)

    def step(self, w, ev):
        r = w.step(ev)
        r.pop("msg", None)
        return r

    def observe(self, w):
        return w.observe()

    def close(self, w):
        w.close()


def normalise(edges, inits):
    def sv(x):
        ct = dict(x["ct"])
        for f in ("y", "pt"):
            if f in ct:
                ct[f] = list(codec.seq(ct[f]))
        return {"m": x["m"], "ct": ct}

    def st(s):
        return {
            "store": [{"sv": sv(e["sv"]), "key": e["key"], "pt": list(codec.seq(e["pt"]))} for e in codec.seq(s["store"])],
            "chal": s["chal"],
            "onfile": s.get("onfile", {"K1": "K1", "K2": "K2"}),
            "dflt": bool(s.get("dflt", False)),
            "nonce": s.get("nonce", 0),
        }

    for e in edges:
        e["from"] = st(e["from"])
        e["to"] = st(e["to"])
        ev = e["ev"]
        if "sv" in ev:
            ev["sv"] = sv(ev["sv"])
        if "ret" in ev:
            ev["ret"] = codec.norm(ev["ret"])
        if "pt" in ev:
            ev["pt"] = list(codec.seq(ev["pt"]))
    return edges, [st(s) for s in inits]


def driver(cinco, prop, seed, n_traces, length):
    """Seeded random operations on the real objects: random plaintext lengths and bytes, fresh
    random secrets (registered under new names), longer histories than TLC's bound."""
    import random
    import string

    rng = random.Random(seed)
    traces = []
    shapes = ["none", "plain-str", "dict-no-method", "dict-null-method", "dict-empty-method", "dict-unknown-method", "dict-int-method", "dict-no-ciphertext",
              "dict-int-ciphertext", "dict-bad-padding-b64", "dict-foreign-chars-b64", "dict-aes-short", "dict-aes-unaligned", "dict-aes-wrong-key", "list", "int"]
    for t in range(n_traces):
        w = World(cinco)
        events = []
        alg = rng.choice(["md5", "sha1", "sha224", "sha256", "sha384", "sha512"])
        mine = []
        pending = []
        try:
            for _ in range(length):
                r = rng.random()
                if pending:
                    ev = pending.pop(0)
                elif prop == "C08":
                    if r > 0.96:
                        ev = {"op": "Swap"}
                    elif r > 0.92:
                        # a failed session, a good one, the files exchanged, another session of the same object
                        k = rng.choice(["K1", "K2"])
                        ev = {"op": "FailedOpen", "key": k}
                        enc = lambda: {"op": "Encrypt", "key": k, "m": rng.choice(["aes", "xor"]), "pt": [rng.randint(0, 255) for _ in range(rng.randint(1, 40))]}  # noqa
                        pending.extend([enc(), {"op": "Swap"}, enc()])
                    elif r < 0.08:
                        n = rng.choice([0, 1, 16, 33, rng.randint(0, 60)])
                        ev = {"op": "EncryptPair", "key": rng.choice(["K1", "K2"]), "m": rng.choice(["aes", "xor", "best"]), "pt": [rng.randint(0, 255) for _ in range(n)],
                              "nested": rng.random() < 0.5}
                    elif r < 0.4 or not w.store:
                        n = rng.choice([0, 1, 15, 16, 17, 31, 32, 33, 64, rng.randint(0, 120)]) if rng.random() > 0.04 else rng.randint(4090, 4200)  # (rarely: longer than any plausible precomputed key stream)
                        ev = {"op": "Encrypt", "key": rng.choice(["K1", "K2"]), "m": rng.choice(["aes", "xor", "best"]), "pt": [rng.randint(0, 255) for _ in range(n)]}
                    elif r < 0.7:
                        ev = {"op": "Decrypt", "key": rng.choice(["K1", "K2"]), "i": rng.randint(1, len(w.store))}
                    elif r < 0.8:
                        n = rng.choice([0, 1, 16, 31, 33, 47, 50])
                        m = rng.choice(["aes", "aes", "rot13", ""])
                        if m == "aes" and n >= 32 and n % 16 == 0:
                            n += 1
                        ev = {"op": "DecryptBad", "key": rng.choice(["K1", "K2"]), "sv": {"m": m, "ct": {"k": "raw", "y": [rng.randint(0, 255) for _ in range(n)]}}}
                    elif r < 0.9:
                        cands = [i + 1 for i, (sv, k, pt) in enumerate(w.store) if sv.method == "aes" and len(pt) >= 17]
                        if not cands:
                            continue
                        ev = {"op": "DecryptTruncated", "i": rng.choice(cands)}
                        if rng.random() < 0.5:
                            cands = [i + 1 for i, (sv, k, pt) in enumerate(w.store) if sv.method == "aes"]
                            ev = {"op": "DecryptExtended", "i": rng.choice(cands), "n": rng.randint(1, 15)}
                    else:
                        ev = {"op": "LoadStored", "shape": rng.choice(shapes), "fm": rng.choice(["best", "xor", "aes"])}
                else:
                    if w.cfg is None and rng.random() < 0.3:
                        ev = {"op": "BuildDefault", "alg": alg, "p": rng.choice(["empty", "a", "colon"])}
                    elif r < 0.35 or w.cfg is None:
                        name = "r%d_%d" % (t, len(mine))
                        kind = rng.random()
                        if kind < 0.7:
                            SECRETS[name] = "".join(rng.choice(string.ascii_letters + string.digits + " :/-_.") for _ in range(rng.randint(4, 40)))
                        elif kind < 0.85:
                            SECRETS[name] = "".join(rng.choice("\u00e9\u00fc\u4e2d\u2603ab") for _ in range(rng.randint(4, 10)))
                        else:
                            SECRETS[name] = bytes(rng.randint(0, 255) for _ in range(rng.randint(4, 20)))
                        # (names stand for secrets in the specification: two names never share a secret)
                        while sum(1 for v in SECRETS.values() if v == SECRETS[name]) > 1:
                            SECRETS[name] = SECRETS[name] + ("." if isinstance(SECRETS[name], str) else b".")
                        mine.append(name)
                        if isinstance(SECRETS[name], bytes) or rng.random() < 0.6:
                            ev = {"op": "Assign", "alg": alg, "p": name}
                        else:
                            ev = {"op": "LoadPlain", "alg": alg, "p": name}
                    elif r < 0.75:
                        ev = {"op": "Challenge", "q": rng.choice(mine + ["a", "empty"])}
                    else:
                        ev = {"op": "SaveLoad", "fmt": rng.choice(["json", "yaml", "bson", "xml", "pickle"])}
                res = w.step(ev)
                obs = w.observe()
                rec = dict(ev)
                for k in ("out", "sv", "ret", "leak"):
                    if k in res and res[k] is not None:
                        rec[k] = res[k]
                rec["store"] = obs["store"]
                rec["chal"] = obs["chal"]
                rec["onfile"] = obs["onfile"]
                events.append(rec)
        finally:
            w.close()
        traces.append({"init": {}, "events": events})
    return traces


C08_INV = ["C08_ConcreteMethod", "C08_Inverse", "C08_FreshIV", "C08_WrongKey", "C08_XorInvolution", "C08_MalformedRejected"]
C09_INV = ["C09_Exact", "C09_SaltLen", "C09_HandWrittenHashed"]
C09_PROP = ["C09_FreshSalt", "C09_Survives"]
C08_OPS = ("Swap", "FailedOpen", "Encrypt", "EncryptPair", "Decrypt", "DecryptBad", "DecryptTruncated", "DecryptExtended", "LoadStored")
C09_OPS = ("BuildDefault", "Assign", "LoadPlain", "Challenge", "SaveLoad")


def write_cfg(path, maxops, invs=(), props=(), export=False):
    text = "CONSTANTS\n  MaxOps = %d\nINIT Init\nNEXT Next\nVIEW View\n" % maxops
    for i in invs:
        text += "INVARIANT %s\n" % i
    for p in props:
        text += "PROPERTY %s\n" % p
    if export:
        text += "ACTION_CONSTRAINT Export\nCONSTRAINT PInit\n"
    with open(path, "w") as fp:
        fp.write(text)


def run_crypto(prop, tier, seed):
    cinco = common.import_repo()
    aesref.selftest()
    out = common.Outcome(prop)
    invs, props, ops = (C08_INV, [], C08_OPS) if prop == "C08" else (C09_INV, C09_PROP, C09_OPS)
    d = tlc.scratch("cinco-cr-")
    maxops = 3 if tier == "quick" else 4
    cfg = os.path.join(d, "mc.cfg")
    write_cfg(cfg, maxops, invs, props)
    res = tlc.run("CincoCrypto.tla", cfg, workers=16, keep=())
    if not res.ok:
        out.violation("spec:%s" % res.violation, "TLC: %s violated on CincoCrypto" % res.violation, {"kind": "tlc-counterexample", "predicate": res.violation, "behaviour": res.cex})
    adapter = Adapter(cinco)
    cfgx = os.path.join(d, "x.cfg")
    write_cfg(cfgx, 1, export=True)
    exp = tlc.run("CincoCrypto.tla", cfgx, workers=1, keep=("INIT", "EDGE"))
    edges, inits = normalise(exp.printed.get("EDGE", []), exp.printed.get("INIT", []))
    g = replay.Graph(inits, edges)
    stats, mism = replay.run_graph(adapter, g, seed=seed)
    cfgs = os.path.join(d, "s.cfg")
    write_cfg(cfgs, 99, export=True)
    nsim, dsim = (250, 7) if tier == "quick" else (3000, 10)
    sim = tlc.run("CincoCrypto.tla", cfgs, workers=1, simulate=nsim, depth=dsim, seed=seed + 1, keep=("INIT", "EDGE"))
    sedges, sinits = normalise(sim.printed.get("EDGE", []), sim.printed.get("INIT", []))
    g2 = replay.Graph(sinits + inits, sedges)
    stats2, mism2 = replay.run_graph(adapter, g2, seed=seed)
    for m in (mism + mism2)[:40]:
        if m.ev["op"] not in ops:
            continue
        out.violation(
            "replay:%s:%s:%s" % (m.ev["op"], m.ev.get("m") or m.ev.get("shape") or m.ev.get("alg") or "", m.detail.split(":")[0]),
            "spec->code: %s differs from the specification: %s" % ({k: v for k, v in m.ev.items() if k in ("op", "key", "m", "i", "shape", "alg", "p", "q", "fmt")}, m.detail[:300]),
            m.to_json(),
        )
    # code -> spec
    from .. import tracecheck

    ntr, ltr = (150, 14) if tier == "quick" else (2000, 24)
    traces = driver(cinco, prop, seed, ntr, ltr)
    tcfg = os.path.join(d, "trace.cfg")
    with open(tcfg, "w") as fp:
        fp.write("CONSTANTS\n  MaxOps = 999\nINIT TraceInit\nNEXT TraceNext\nVIEW TraceView\nACTION_CONSTRAINT Report\nCONSTRAINT ReportState\n")
    verdicts, tstats = tracecheck.validate("Trace_Crypto.tla", tcfg, traces, wanted=set(invs) | set(props))
    for v in [v for v in verdicts if not v.accepted][:20]:
        k = (v.at or v.consumed + 1) - 1
        e = v.trace["events"][k] if k < len(v.trace["events"]) else {}
        out.violation(
            "trace:%s:%s" % (e.get("op"), ",".join(v.bad_inv or v.bad_obs or ["not-enabled"])),
            "code->spec: recorded %s trace rejected: %s" % (prop, v.describe()[:300]),
            v.to_json(),
        )
    for t in traces:
        for e in t["events"]:
            if e.get("leak"):
                out.violation("trace:leak:%s" % e["op"], "code->spec: the plaintext appears in %s after %s" % (e["leak"], e["op"]), {"kind": "leak", "event": {k: v for k, v in e.items() if k not in ("store",)}})
    cases = stats["cases"] + stats2["cases"] + len(verdicts)
    by_op = {k: stats["by_op"].get(k, 0) + stats2["by_op"].get(k, 0) for k in set(stats["by_op"]) | set(stats2["by_op"])}
    distinct = {common.hash_case([cf, ck]) for cf, ck, _ in list(g.cases()) + list(g2.cases())}
    out.coverage = {
        "states": res.distinct,
        "transitions": res.generated,
        "exhaustive": True,
        "tlc_instance": "CincoCrypto MaxOps=%d predicates %s" % (maxops, invs + props),
        "traces_validated_against_impl": cases,
        "spec_to_code_by_op": by_op,
        "code_to_spec_traces": len(verdicts),
        "code_to_spec_events": sum(len(t["events"]) for t in traces),
        "code_to_spec_tlc_states": tstats["states"],
        "cases_for_this_property": sum(v for k, v in by_op.items() if k in ops),
        "evaluations": cases,
        "distinct_nontrivial": len(distinct),
        "rule": "case = distinct (history of encryptions / challenge value, operation with arguments); level-1 graph plus seeded simulated behaviours",
        "samples": [{"case": {k: v for k, v in alts[0][0].items() if k not in ("sv",)}} for _, _, alts in list(g2.cases())[:3]],
    }
    out.assumptions = [
        "AES arithmetic and hash functions are symbolic in TLA+; that real values are standard AES-256-CBC/PKCS7 resp. hash(salt + plaintext) is decided by independent implementations (harness/props/aesref.py checked against FIPS-197 / SP 800-38A vectors, hashlib)",
        "IV / salt freshness on the real code is observed at os.urandom (each IV/salt must be the output of exactly one draw), not proved",
        "keys K1, K2 and plaintexts of lengths 0,1,15,16,17,33,40 (incl. non-UTF-8 bytes); secrets: empty, 1-2 chars, Unicode, 303 chars, bytes, containing ':'",
        "decrypting an AES value with the wrong key may raise or return garbage; only 'never the plaintext' is compared",
    ]
    return out
