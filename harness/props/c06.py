"""C06 - a rejected operation leaves the configuration exactly as it was.
Decided on spec/ConfigMachine.tla: action property C06_Unchanged over assignment by attribute /
dotted path / constructor keyword (incl. map or configuration -> sub-configuration) and
single-element insert / replace on typed lists and dicts; the document-load clause (parse
failure, unresolvable include) is decided on spec/CincoInclude.tla by harness/props/c18.py's
machinery (see loadfail below)."""
from . import cfgfamily, cfgmachine


def run(tier, seed):
    out = cfgmachine.run_machine("C06", [], ["C06_Unchanged"], tier, seed)
    # second instance: the textual / numeric field classes inside a configuration (thorough tier;
    # the quick tier meets those classes in the generated family)
    if tier != "quick":
        out = cfgmachine.merge(out, cfgmachine.run_machine("C06", [], ["C06_Unchanged"], tier, seed + 7, schema="SchemaB"))
    out = cfgmachine.merge(out, cfgfamily.run_family("C06", [], ["C06_Unchanged"], tier, seed))
    # rejected assignments where key files and secrets are involved (PersistMachine: a map assigned
    # to a sub-configuration that names its own key file, after the configuration has been rendered)
    from . import persist

    out = cfgmachine.merge(out, persist.run_persist("C06", [], ["C06_SetUnchanged"], tier, seed))
    try:
        from . import loadfail
    except ImportError:
        loadfail = None
    if loadfail is not None:
        loadfail.extend(out, tier, seed)
    return out


replay_file = cfgmachine.replay_file
