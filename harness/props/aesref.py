"""Independent AES (FIPS-197) with CBC mode and PKCS#7 padding, pure Python, no third-party
code.  It is the oracle behind "any standard implementation decrypts" (C08, C03, C07): the
library under test uses the `cryptography` package, this module shares nothing with it.
selftest() checks the FIPS-197 appendix C.3 vector and an SP 800-38A CBC-AES256 vector."""

_SBOX = [0] * 256
_INV = [0] * 256


def _init():
    p = q = 1
    while True:
        # multiply p by 3
        p = p ^ ((p << 1) & 0xFF) ^ (0x1B if p & 0x80 else 0)
        # divide q by 3
        q ^= q << 1
        q ^= q << 2
        q ^= q << 4
        q &= 0xFF
        if q & 0x80:
            q ^= 0x09
        x = q ^ ((q << 1) | (q >> 7)) & 0xFF ^ ((q << 2) | (q >> 6)) & 0xFF ^ ((q << 3) | (q >> 5)) & 0xFF ^ ((q << 4) | (q >> 4)) & 0xFF
        x = (x ^ 0x63) & 0xFF
        _SBOX[p] = x
        _INV[x] = p
        if p == 1:
            break
    _SBOX[0] = 0x63
    _INV[0x63] = 0


_init()


def _xt(a):
    return ((a << 1) ^ 0x1B) & 0xFF if a & 0x80 else a << 1


def _mul(a, b):
    r = 0
    while b:
        if b & 1:
            r ^= a
        a = _xt(a)
        b >>= 1
    return r


def _expand(key):
    nk = len(key) // 4
    nr = nk + 6
    w = [list(key[4 * i : 4 * i + 4]) for i in range(nk)]
    rcon = 1
    for i in range(nk, 4 * (nr + 1)):
        t = list(w[i - 1])
        if i % nk == 0:
            t = t[1:] + t[:1]
            t = [_SBOX[b] for b in t]
            t[0] ^= rcon
            rcon = _xt(rcon)
        elif nk > 6 and i % nk == 4:
            t = [_SBOX[b] for b in t]
        w.append([a ^ b for a, b in zip(w[i - nk], t)])
    return [sum(w[4 * r : 4 * r + 4], []) for r in range(nr + 1)], nr


def _add(s, k):
    return [a ^ b for a, b in zip(s, k)]


def _shift(s, inv=False):
    out = [0] * 16
    for c in range(4):
        for r in range(4):
            src = (c + r) % 4 if not inv else (c - r) % 4
            out[4 * c + r] = s[4 * src + r]
    return out


def _mix(s, inv=False):
    out = []
    m = (2, 3, 1, 1) if not inv else (14, 11, 13, 9)
    for c in range(4):
        col = s[4 * c : 4 * c + 4]
        for r in range(4):
            out.append(
                _mul(col[0], m[(0 - r) % 4]) ^ _mul(col[1], m[(1 - r) % 4]) ^ _mul(col[2], m[(2 - r) % 4]) ^ _mul(col[3], m[(3 - r) % 4])
            )
    return out


def encrypt_block(key, block):
    rk, nr = _expand(key)
    s = _add(list(block), rk[0])
    for r in range(1, nr):
        s = _add(_mix(_shift([_SBOX[b] for b in s])), rk[r])
    s = _add(_shift([_SBOX[b] for b in s]), rk[nr])
    return bytes(s)


def decrypt_block(key, block):
    rk, nr = _expand(key)
    s = _add(list(block), rk[nr])
    for r in range(nr - 1, 0, -1):
        s = [_INV[b] for b in _shift(s, True)]
        s = _mix(_add(s, rk[r]), True)
    s = _add([_INV[b] for b in _shift(s, True)], rk[0])
    return bytes(s)


def cbc_encrypt(key, iv, plain):
    """iv || AES-CBC(PKCS7(plain))"""
    pad = 16 - len(plain) % 16
    data = plain + bytes([pad]) * pad
    out = [iv]
    prev = iv
    for i in range(0, len(data), 16):
        blk = bytes(a ^ b for a, b in zip(data[i : i + 16], prev))
        prev = encrypt_block(key, blk)
        out.append(prev)
    return b"".join(out)


class BadCiphertext(ValueError):
    pass


def cbc_decrypt(key, blob):
    """Inverse of cbc_encrypt; raises BadCiphertext on malformed length or padding."""
    if len(blob) < 32 or len(blob) % 16:
        raise BadCiphertext("length")
    prev = blob[:16]
    out = []
    for i in range(16, len(blob), 16):
        blk = blob[i : i + 16]
        out.append(bytes(a ^ b for a, b in zip(decrypt_block(key, blk), prev)))
        prev = blk
    data = b"".join(out)
    pad = data[-1]
    if pad < 1 or pad > 16 or data[-pad:] != bytes([pad]) * pad:
        raise BadCiphertext("padding")
    return data[:-pad]


def selftest():
    key = bytes(range(32))
    pt = bytes.fromhex("00112233445566778899aabbccddeeff")
    ct = bytes.fromhex("8ea2b7ca516745bfeafc49904b496089")
    assert encrypt_block(key, pt) == ct, "FIPS-197 C.3 encrypt"
    assert decrypt_block(key, ct) == pt, "FIPS-197 C.3 decrypt"
    # SP 800-38A F.2.5 CBC-AES256.Encrypt, first two blocks
    k = bytes.fromhex("603deb1015ca71be2b73aef0857d77811f352c073b6108d72d9810a30914dff4")
    iv = bytes.fromhex("000102030405060708090a0b0c0d0e0f")
    p = bytes.fromhex("6bc1bee22e409f96e93d7e117393172aae2d8a571e03ac9c9eb76fac45af8e51")
    c = bytes.fromhex("f58c4c04d6e5f1ba779eabfb5f7bfbd69cfc4e967edb808d679f777bc6702c7d")
    blob = cbc_encrypt(k, iv, p)
    assert blob[:16] == iv and blob[16:48] == c, "SP 800-38A F.2.5"
    assert cbc_decrypt(k, blob) == p
    return True
