"""ConfigMachine on a *generated family* of schemas (the "for every schema" quantifier of
C01 / C06 / C12 / C13 / C15).

MC_Config.MCFamily2 / MCFamily3 enumerate root schemas whose keys are drawn from a catalogue of
node shapes (scalar fields of each validation flavour, typed list / dict, list of
configurations, nested schemas to depth 2 with validators / dynamic / ConfigType).  The
schema is a state variable of ConfigMachine (`sid`, `sch`), chosen by Init; the candidate
values, documents, keyword arguments and container operations are derived from the schema by
ConfigMachine!Gen*.  This module

  1. lets TLC check the property's predicates over all behaviours of every schema of the
     family up to the depth bound;
  2. exports the transition graph of a seeded sample of the schemas (every `stride`-th one)
     and replays each case on real Config objects built from the same descriptors;
  3. replays TLC-simulated deeper behaviours (random schema, random operations);
  4. records random operation sequences on real Config objects of sampled schemas and has
     TLC validate them against the same actions (Trace_Config.tla).
"""
import os
import random

from .. import cfgadapter, common, replay, tlc, tracecheck
from . import cfgmachine


def family_descriptors(schema):
    """JSON descriptors of FamilySeq, straight from the specification."""
    d = tlc.scratch("cinco-fam-")
    with open(os.path.join(d, "ShowFamily.tla"), "w") as fp:
        fp.write(
            "---- MODULE ShowFamily ----\nEXTENDS MC_Config\n"
            'ASSUME \\A i \\in 1..FamilyN : PrintT(<<"CASE", ToJson(<<i, FamilyAt(i)>>)>>)\n'
            "I == cfgs = <<>> /\\ ev = <<>> /\\ steps = 0 /\\ sid = 0 /\\ sch = 0\n"
            "N == FALSE /\\ UNCHANGED <<cfgs, ev, steps, sid, sch>>\n====\n"
        )
    with open(os.path.join(d, "ShowFamily.cfg"), "w") as fp:
        fp.write(cfgmachine.base_cfg(schema, 1).split("INIT")[0] + "INIT I\nNEXT N\n")
    for name in os.listdir(tlc.SPEC_DIR):
        if name.endswith(".tla"):
            os.symlink(os.path.join(tlc.SPEC_DIR, name), os.path.join(d, name))
    res = tlc.run("ShowFamily.tla", "ShowFamily.cfg", workers=1, spec_dir=d, keep=("CASE",))
    return {int(i): desc for i, desc in res.printed["CASE"]}


class FamilyAdapter:
    """replay adapter: one cfgadapter.Adapter per schema of the family, chosen by the state's sid."""

    def __init__(self, cinco, descs, focus=None):
        self.cinco = cinco
        self.descs = descs
        self.focus = focus
        self.adapters = {}

    def _adapter(self, sid):
        a = self.adapters.get(sid)
        if a is None:
            a = cfgadapter.Adapter(self.cinco, self.descs[sid])
            a.focus = self.focus
            self.adapters[sid] = a
        return a

    def start(self, init):
        sid = init["sid"]
        return (sid, self._adapter(sid).start(init))

    def step(self, sw, ev):
        return self._adapter(sw[0]).step(sw[1], ev)

    def observe(self, sw):
        obs = dict(self._adapter(sw[0]).observe(sw[1]))
        obs["sid"] = sw[0]
        return obs

    def close(self, sw):
        self._adapter(sw[0]).close(sw[1])


def _normalise(edges, inits, descs):
    # asdict results are normalised against the schema of the edge's own state
    by_sid = {}
    for e in edges:
        by_sid.setdefault(e["from"]["sid"], []).append(e)
    out = []
    for sid, es in by_sid.items():
        cfgmachine.NORM_DESC[0] = descs[sid]
        es, _ = cfgmachine.normalise_graph_states(es, [])
        out += es
    _, inits = cfgmachine.normalise_graph_states([], inits)
    return out, inits


def run_family(prop, invs, props, tier, seed, focus=None, signature_prefix="family:", then_roundtrip=False, then=None):
    then = then or ("roundtrip" if then_roundtrip else None)
    then_roundtrip = then is not None
    import time

    cinco = common.import_repo()
    out = common.Outcome(prop)
    d = tlc.scratch("cinco-cfgfam-")
    t0 = [time.time()]
    phases = {}

    def lap(name):
        phases[name] = round(time.time() - t0[0], 1)
        t0[0] = time.time()

    quick = tier == "quick"
    fam = "GFirst" if quick else "GFirst3"
    depth = 1 if quick else 2
    # (a second exported level costs about as much again: a sparser sample then; the diagonal
    # schemas - every node shape - are always in it)
    stride = (27 if then else 9) if quick else (48 if then else 24)
    phase = seed % stride
    env = {"FAM_STRIDE": stride, "FAM_PHASE": phase}
    # 1. TLC, every schema of the family
    cfg = os.path.join(d, "mc.cfg")
    cfgmachine.write_cfg(cfg, "GFirst", depth, invs, props)
    mc_env = {}
    if not quick:
        # two levels of history on every 6th schema of the two-key family (and the diagonal);
        # the whole three-key family below at one level
        with open(cfg) as fp:
            text = fp.read().replace("INIT Init", "INIT InitSample")
        with open(cfg, "w") as fp:
            fp.write(text)
        mc_env = {"FAM_STRIDE": 6, "FAM_PHASE": seed % 6, "FAM_PARTS": 1, "FAM_PART": 0}
    res = tlc.run("MC_Config.tla", cfg, workers=16, keep=(), env=mc_env)
    states, transitions = res.distinct, res.generated
    instance = "MC_Config family MCFamily2 (%s two-key root schema over the node shapes) depth %d" % ("every" if quick else "every 6th", depth)
    viol = [res] if not res.ok else []
    if not quick:
        cfg3 = os.path.join(d, "mc3.cfg")
        cfgmachine.write_cfg(cfg3, "GFirst3", 1, invs, props)
        res3 = tlc.run("MC_Config.tla", cfg3, workers=16, keep=())
        states += res3.distinct
        transitions += res3.generated
        instance += " + MCFamily3 (three-key root schemas) depth 1"
        if not res3.ok:
            viol.append(res3)
    for r in viol:
        out.violation(
            "%sspec:%s" % (signature_prefix, r.violation),
            "TLC: %s violated on the generated schema family" % r.violation,
            {"kind": "tlc-counterexample", "predicate": r.violation, "behaviour": r.cex},
        )
    lap("tlc")
    descs = family_descriptors(fam)
    lap("descriptors")
    adapter = FamilyAdapter(cinco, descs, focus)
    # 2. the complete depth-1 graph of every stride-th schema, replayed on the real classes
    cfgx = os.path.join(d, "export.cfg")
    cfgmachine.write_cfg(cfgx, fam, 2 if then_roundtrip else 1, export=True)
    with open(cfgx) as fp:
        text = fp.read().replace("INIT Init", "INIT InitSample")
    with open(cfgx, "w") as fp:
        fp.write(text)
    if then_roundtrip:
        text = open(cfgx).read().replace("NEXT Next", "NEXT " + {"roundtrip": "NextThenRoundTrip", "validate": "NextThenValidate", "reset": "NextThenReset"}[then])
        with open(cfgx, "w") as fp:
            fp.write(text)
        env["FAM_FMT"] = ["json", "yaml", "bson", "xml", "pickle"][seed % 5]
    # (single-worker runs, because their printed lines are parsed; several of them side by side)
    from concurrent.futures import ThreadPoolExecutor

    parts = 6
    with ThreadPoolExecutor(max_workers=parts) as pool:
        exps = list(pool.map(lambda k: tlc.run("MC_Config.tla", cfgx, workers=1, keep=("INIT", "EDGE"), env=dict(env, FAM_PARTS=parts, FAM_PART=k), allow_empty=True), range(parts)))
    raw_edges = [e for x in exps for e in x.printed.get("EDGE", [])]
    raw_inits = [s for x in exps for s in x.printed.get("INIT", [])]
    edges, inits = _normalise(raw_edges, raw_inits, descs)
    sampled = {e["from"]["sid"] for e in edges}
    inits = [s for s in inits if s["sid"] in sampled]
    lap("export")
    g = replay.Graph(inits, edges)
    stats, mism = replay.run_graph(adapter, g, seed=seed)
    lap("replay")
    # 3. deeper simulated behaviours on random schemas
    cfgs = os.path.join(d, "sim.cfg")
    cfgmachine.write_cfg(cfgs, fam, 99, export=True, bound=False)
    nsim, dsim = (80, 8) if quick else (400, 12)
    sim = tlc.run("MC_Config.tla", cfgs, workers=1, simulate=nsim, depth=dsim, seed=seed + 3, keep=("INIT", "EDGE"))
    sedges, sinits = _normalise(sim.printed.get("EDGE", []), sim.printed.get("INIT", []), descs)
    lap("simulate")
    g2 = replay.Graph(sinits, sedges)
    stats2, mism2 = replay.run_graph(adapter, g2, seed=seed)
    lap("replay_sim")
    for m in (mism + mism2)[:30]:
        op = m.ev.get("op")
        sub = (m.ev.get("o") or {}).get("m", "") if op == "COp" else m.ev.get("k", "")
        out.violation(
            "%sreplay:%s:%s:%s" % (signature_prefix, op, sub, m.detail.split(":")[0]),
            "spec->code (schema #%s of the family): %s on the real Config differs from the specification: %s"
            % (m.init.get("sid") if isinstance(m.init, dict) else "?", cfgmachine.brief(m.ev), m.detail[:300]),
            dict(m.to_json(), schema=descs.get(m.init.get("sid")) if isinstance(m.init, dict) else None, focus=focus),
        )
    # 4. code -> spec on sampled schemas
    rng = random.Random(seed * 7919 + 11)
    nsch, ntr, ltr = (24, 5, 10) if quick else (150, 8, 16)
    sids = rng.sample(sorted(descs), min(nsch, len(descs)))
    traces = []
    for sid in sids:
        for t in cfgmachine.driver(cinco, descs[sid], rng.randrange(1 << 30), ntr, ltr):
            t["init"]["sid"] = sid
            traces.append(t)
    lap("driver")
    tcfg = os.path.join(d, "trace.cfg")
    with open(tcfg, "w") as fp:
        fp.write(
            cfgmachine.base_cfg(fam, 99).replace("INIT Init", "INIT TraceInit").replace("NEXT Next", "NEXT TraceNext").replace("VIEW View", "VIEW TraceView")
            + "ACTION_CONSTRAINT Report\nCONSTRAINT ReportState\n"
        )
    wanted = set(invs) | set(props)
    verdicts, tstats = tracecheck.validate("Trace_Config.tla", tcfg, traces, wanted=wanted)
    lap("trace_validation")
    for v in [v for v in verdicts if not v.accepted][:30]:
        if v.bad_inv and not (set(v.bad_inv) & wanted):
            continue
        what = ",".join(sorted(set(v.bad_inv or []) & wanted) or v.bad_obs or ["not-enabled"])
        evs = v.trace["events"]
        k = (v.at or v.consumed + 1) - 1
        e = evs[k] if k < len(evs) else {}
        out.violation(
            "%strace:%s:%s" % (signature_prefix, e.get("op"), what),
            "code->spec (schema #%s of the family): recorded Config trace rejected: %s" % (v.trace["init"].get("sid"), v.describe()[:400]),
            v.to_json(),
        )
    distinct = set()
    for cf, ck, alts in list(g.cases()) + list(g2.cases()):
        distinct.add(common.hash_case([cf, ck]))
    by_op = {k: stats["by_op"].get(k, 0) + stats2["by_op"].get(k, 0) for k in set(stats["by_op"]) | set(stats2["by_op"])}
    out.coverage = {
        "states": states,
        "transitions": transitions,
        "exhaustive": True,
        "tlc_instance": instance,
        "traces_validated_against_impl": stats["cases"] + stats2["cases"] + len(verdicts),
        "spec_to_code_graph_cases": stats["cases"],
        "spec_to_code_sim_cases": stats2["cases"],
        "spec_to_code_steps": stats["steps"] + stats2["steps"],
        "spec_to_code_by_op": by_op,
        "simulated_behaviours": nsim,
        "code_to_spec_traces": len(verdicts),
        "code_to_spec_events": sum(len(t["events"]) for t in traces),
        "code_to_spec_tlc_states": tstats["states"],
        "evaluations": stats["cases"] + stats2["cases"] + sum(len(t["events"]) for t in traces),
        "distinct_nontrivial": len(distinct),
        "family_schemas": len(descs),
        "family_schemas_replayed": len({s["sid"] for s in inits}) ,
        "family_schemas_traced": len(sids),
        "phase_seconds": phases,
        "samples": [],
    }
    out.assumptions = [
        "generated schema family: roots with two (thorough: also three) keys over %d node shapes; candidate values derived "
        "from each field's kind by ConfigMachine!Gen*; TLC covers every schema of the family, the replay every %d-th "
        "(phase = seed mod %d), the recorded traces a seeded sample of %d schemas" % (21, stride, stride, len(sids)),
    ]
    return out
