"""Shared runner for the properties decided on spec/PersistMachine.tla (C02, C03, C10).

TLC checks the property's predicates on the bounded instance MC_Persist (schema with scalars,
bytes, digests, secrets, typed lists/dicts of those, a nested schema, a config type naming
its own key file, a list of schemas, virtual fields; all histories to MaxDepth).  Every
transition of the exported graph and of simulated behaviours is executed on a real Config
with real key files in a scratch directory: documents are really written in the event's
format and really loaded into a fresh Config; the real tree is abstracted with independent
cipher / hash implementations (which key decrypts this ciphertext? which plaintext hashes to
this digest?) and compared with the specification's tree leaf by leaf."""
import base64
import builtins
import hashlib
import os
import shutil

from .. import cfgadapter, codec, common, replay, tlc
from . import aesref
from .cfgmachine import schema_descriptor

CFG = """CONSTANTS
  Environ <- MCEnviron
  KeyNames <- {keynames}
  KeyChars <- {keychars}
  TheSchema <- {schema}
  RootKey = "{rootkey}"
  SetCands <- {cands}
  Masks <- MCMasks
  MaxDepth = {depth}
INIT Init
NEXT Next
VIEW View
"""


INSTANCE_P = dict(schema="SchemaP", rootkey="kroot", cands="MCSetCands", keynames="MCKeyNames", keychars="MCKeyChars")


def write_cfg(path, depth, invs=(), props=(), export=False, instance=None):
    text = CFG.format(depth=depth, **(instance or INSTANCE_P))
    for i in invs:
        text += "INVARIANT %s\n" % i
    for p in props:
        text += "PROPERTY %s\n" % p
    if export:
        text += "ACTION_CONSTRAINT Export\nCONSTRAINT PInit\n"
    with open(path, "w") as fp:
        fp.write(text)


def xor(key, data):
    return bytes(b ^ key[i % len(key)] for i, b in enumerate(data))


class World:
    root_key = "kroot"  # name of the root configuration's key file ("" = the default ~/.cincokey)

    def __init__(self, cinco, desc, focus, root_key=None):
        if root_key is not None:
            self.root_key = root_key
        self.cinco = cinco
        self.desc = desc
        self.focus = focus
        self.root = tlc.scratch("cinco-persist-")
        self.home = os.path.join(self.root, "home")
        os.mkdir(self.home)
        self.old_home = os.environ.get("HOME")
        os.environ["HOME"] = self.home
        # (SchemaP binds `name` to this variable; it is set, and empty)
        self.old_nv = os.environ.get("NV")
        os.environ["NV"] = ""
        # the default key path is computed when the class is created: point it into the scratch home
        self.old_default = cinco.Config.DEFAULT_CINCOKEY_FILEPATH
        cinco.Config.DEFAULT_CINCOKEY_FILEPATH = os.path.join(self.home, ".cincokey")
        self.schema = cfgadapter.build_schema_topdown(cinco, desc, self.root)
        self.keyfile = os.path.join(self.root, self.root_key) if self.root_key else None
        self.cfg = cinco.Config(self.schema, key_filename=self.keyfile)
        self.plaintexts = set()
        self.opened = None

    def close(self):
        self.cinco.Config.DEFAULT_CINCOKEY_FILEPATH = self.old_default
        if self.old_nv is None:
            os.environ.pop("NV", None)
        else:
            os.environ["NV"] = self.old_nv
        if self.old_home is None:
            os.environ.pop("HOME", None)
        else:
            os.environ["HOME"] = self.old_home
        shutil.rmtree(self.root, ignore_errors=True)

    # ------------------------------------------------------------------ key files
    def key_name(self, path):
        path = os.path.abspath(path)
        if path == os.path.abspath(os.path.join(self.home, ".cincokey")):
            return "default"
        if os.path.dirname(path) == os.path.abspath(self.root):
            return os.path.basename(path)
        return path

    def key_files(self):
        out = {}
        for name, path in [("default", os.path.join(self.home, ".cincokey"))] + [
            (n, os.path.join(self.root, n)) for n in os.listdir(self.root) if os.path.isfile(os.path.join(self.root, n)) and n.startswith("k")
        ]:
            if os.path.isfile(path):
                with open(path, "rb") as fp:
                    out[name] = fp.read()
        return out

    def watch_open(self):
        """Context manager recording which key files the library opens."""
        world = self
        real_open = builtins.open

        class Watch:
            def __enter__(self_w):
                world.opened = set()

                def spy(file, *a, **kw):
                    try:
                        p = os.path.abspath(os.fspath(file)) if isinstance(file, (str, bytes, os.PathLike)) else None
                    except TypeError:
                        p = None
                    if p and (os.path.dirname(p) in (os.path.abspath(world.root), os.path.abspath(world.home))):
                        world.opened.add(world.key_name(p))
                    return real_open(file, *a, **kw)

                builtins.open = spy
                return self_w

            def __exit__(self_w, *exc):
                builtins.open = real_open
                return False

        return Watch()

    # ------------------------------------------------------------------ abstraction of real trees
    def abstract_secret(self, v):
        if not (isinstance(v, dict) and set(v) == {"method", "ciphertext"} and isinstance(v["ciphertext"], str)):
            return cfgadapter.project_value(self.cinco, v, self.root)
        try:
            ct = base64.b64decode(v["ciphertext"], validate=True)
        except Exception:  # noqa
            return {"t": "enc", "m": v["method"], "key": "<bad-base64>", "pt": {"t": "none"}}
        for name, key in sorted(self.key_files().items()):
            if len(key) != 32:
                continue
            try:
                pt = xor(key, ct) if v["method"] == "xor" else aesref.cbc_decrypt(key, ct)
                text = pt.decode()
            except Exception:  # noqa
                continue
            if text in self.plaintexts:
                return {"t": "enc", "m": v["method"], "key": name, "pt": codec.to_abs(text)}
        return {"t": "enc", "m": v["method"], "key": "<no-known-key>", "pt": {"t": "none"}}

    def abstract_digest(self, v, alg):
        if not (isinstance(v, dict) and set(v) == {"salt", "digest"}):
            return cfgadapter.project_value(self.cinco, v, self.root)
        salt = base64.b64decode(v["salt"])
        digest = base64.b64decode(v["digest"])
        for pt in sorted(self.plaintexts):
            if hashlib.new(alg, salt + pt.encode()).digest() == digest and len(salt) == hashlib.new(alg).digest_size:
                return {"t": "digest", "alg": alg, "pt": codec.to_abs(pt)}
            if salt == b"" and hashlib.new(alg, pt.encode()).digest() == digest:
                return {"t": "digest", "alg": alg, "pt": codec.to_abs(pt), "salt": "empty"}
        return {"t": "digest", "alg": alg, "pt": {"t": "obj", "n": "unknown-plaintext"}}

    def abstract_field(self, f, v):
        kind = f["kind"]
        if kind == "schema":
            return self.abstract_tree(f, v) if isinstance(v, dict) else cfgadapter.project_value(self.cinco, v, self.root)
        if kind == "secure":
            return self.abstract_secret(v)
        if kind == "challenge":
            return self.abstract_digest(v, f["alg"])
        if kind == "list" and isinstance(v, list):
            return {"t": "list", "l": [self.abstract_field(f["item"], i) for i in v]}
        if kind == "dict" and isinstance(v, dict) and f["valf"]["kind"] != "nofield":
            return {"t": "dict", "kv": [[cfgadapter.project_value(self.cinco, k, self.root), self.abstract_field(f["valf"], x)] for k, x in v.items()]}
        return cfgadapter.project_value(self.cinco, v, self.root)

    def abstract_tree(self, desc, tree):
        fields = {k: f for k, f in codec.seq(desc["fields"])}
        kv = []
        for k, v in tree.items():
            f = fields.get(k, {"kind": "any"})
            kv.append([codec.to_abs(k), self.abstract_field(f, v)])
        return {"t": "dict", "kv": kv}

    # ------------------------------------------------------------------ events
    def observe(self):
        # (rendering is a read-only query - a stuttering step of the specification - and it warms
        # whatever the library caches about key files)
        try:
            self.cfg.to_tree()
        except Exception:  # noqa
            pass
        cfgadapter.KNOWN_PLAINTEXTS[:] = sorted(self.plaintexts)
        bad = cfgadapter.wrong_config_types(self.cinco, self.schema, self.cfg)
        if bad:
            return {"cfg": {"t": "wrong-config-type", "why": "%s is not an instance of its declared configuration type" % bad[0]}}
        return {"cfg": cfgadapter.project_cfg(self.cinco, self.cfg, self.root)}

    def remember(self, v):
        if v["t"] == "str":
            self.plaintexts.add("".join(codec.seq(v["s"])))
        elif v["t"] == "digest":
            self.remember(v["pt"])
        elif v["t"] in ("list", "tuple"):
            for i in codec.seq(v["l"]):
                self.remember(i)
        elif v["t"] == "dict":
            for k, x in codec.seq(v["kv"]):
                self.remember(x)
        elif v["t"] in ("cfgobj", "cfg"):
            c = v.get("c", v)
            if isinstance(c.get("vals"), dict):
                for x in c["vals"].values():
                    self.remember(x)

    def leaks(self, data):
        """Non-empty secret plaintexts (len >= 6) that appear in the document bytes."""
        secrets = []

        def walk(desc, cfg):
            for k, f in codec.seq(desc["fields"]):
                if f["kind"] == "virtual":
                    continue
                v = getattr(cfg, k)
                if f["kind"] == "schema" and isinstance(v, self.cinco.Config):
                    walk(f, v)
                elif f["kind"] == "secure" and v:
                    secrets.append(v)
                elif f["kind"] == "list" and isinstance(v, list):
                    walk_list(f, v)

        def walk_list(f, v):
            for i in v:
                if f["item"]["kind"] == "schema" and isinstance(i, self.cinco.Config):
                    walk(f["item"], i)
                elif f["item"]["kind"] == "secure" and i:
                    secrets.append(i)
                elif f["item"]["kind"] == "list" and isinstance(i, list):
                    walk_list(f["item"], i)

        walk(self.desc, self.cfg)
        found = []
        for s in secrets:
            if isinstance(s, str) and len(s) >= 6 and (s.encode() in data or s.encode("utf-16-le") in data):
                found.append(s)
        return sorted(set(found))

    def step(self, ev):
        cinco = self.cinco
        op = ev["op"]
        res = {"out": "ok"}
        try:
            if op == "Set":
                self.remember(ev["v"])
                target = self.cfg
                for key in codec.seq(ev["p"]):
                    target = getattr(target, key)
                factory = None
                if ev["v"]["t"] == "cfgobj" or (ev["v"]["t"] == "list" and any(i.get("t") == "cfgobj" for i in codec.seq(ev["v"]["l"]))):
                    factory = cfgadapter.schema_field(cinco, self.schema, list(codec.seq(ev["p"])) + [ev["k"]])
                setattr(target, ev["k"], cfgadapter.value_to_py(cinco, ev["v"], factory, self.root))
            elif op == "Rebuild":
                tree = self.cfg.to_tree()
                subs = {k: tree[k] for k, f in codec.seq(self.desc["fields"]) if f["kind"] == "schema" and k in tree}
                self.cfg = cinco.Config(self.schema, key_filename=self.keyfile, **subs)
            elif op == "Rekey":
                # every key file there is gets a new key, through the library's own KeyFile.generate_key
                for name in sorted(self.key_files()):
                    path = os.path.join(self.home, ".cincokey") if name == "default" else os.path.join(self.root, name)
                    cinco.KeyFile(path).generate_key()
            elif op == "Adopt":
                other = cinco.Config(self.schema, key_filename=os.path.join(self.root, "kother"))
                other.items = [{"u": "o", "pw": "adoptpw#1"}]
                self.plaintexts.add("adoptpw#1")
                self.keep_alive = other
                self.cfg.items = [other.items[0]]
            elif op == "RoundTrip":
                fmt = ev["fmt"]
                with self.watch_open():
                    data = self.cfg.dumps(fmt)
                opened = set(self.opened)
                res["leak"] = self.leaks(data) or None
                real_tree = cinco.ConfigFormat.get(fmt).loads(self.cfg, data)
                res["tree"] = sort_tree(self.abstract_tree(self.desc, real_tree))
                new = cinco.Config(self.schema, key_filename=self.keyfile)
                with self.watch_open():
                    new.loads(data, fmt)
                opened |= self.opened
                res["keys"] = sorted(opened)
                self.cfg = new
            elif op == "Render":
                mask = None if ev["mask"]["m"] == "none" else "".join(codec.seq(ev["mask"]["s"]))
                via = ev.get("via", "tree")
                if via == "tree":
                    tree = self.cfg.to_tree(virtual=ev["virtual"], sensitive_mask=mask)
                else:
                    # the document routes: dumps() and save() take the same two arguments and must
                    # produce the same document
                    data = self.cfg.dumps(via, virtual=ev["virtual"], sensitive_mask=mask)
                    tree = cinco.ConfigFormat.get(via).loads(self.cfg, data)
                    dest = os.path.join(self.root, "render-out." + via)
                    self.cfg.save(dest, via, virtual=ev["virtual"], sensitive_mask=mask)
                    with open(dest, "rb") as fp:
                        tree_saved = cinco.ConfigFormat.get(via).loads(self.cfg, fp.read())
                    os.unlink(dest)
                    # (ciphertexts differ between two renderings - fresh IVs - so compare what they mean)
                    if sort_tree(self.abstract_tree(self.desc, tree_saved)) != sort_tree(self.abstract_tree(self.desc, tree)):
                        tree = {"dumps-and-save-differ": [tree, tree_saved]}
                res["tree"] = sort_tree(self.abstract_tree(self.desc, tree))
                # the tree must be plain data as Python sees it, too
                res["nonplain"] = nonplain(tree) or None
            else:
                raise RuntimeError(op)
        except Exception as exc:  # noqa
            res["out"] = cfgadapter.fieldmap.exc_class(exc)
            res["msg"] = str(exc)[:200]
        return res


def sort_tree(t):
    """Key order inside maps of a document is not significant (YAML sorts keys)."""
    if isinstance(t, dict) and t.get("t") == "dict":
        return {"t": "dict", "kv": sorted([[k, sort_tree(v)] for k, v in t["kv"]], key=lambda p: replay.canon(p[0]))}
    if isinstance(t, dict) and t.get("t") in ("list", "tuple"):
        return {"t": t["t"], "l": [sort_tree(v) for v in t["l"]]}
    return t


def order_tree(desc, t):
    """Put the keys of an abstracted tree into schema order (documents may reorder keys)."""
    if not (isinstance(t, dict) and t.get("t") == "dict"):
        return t
    fields = [(k, f) for k, f in codec.seq(desc["fields"])]
    names = [k for k, _ in fields]
    fmap = dict(fields)

    def rank(pair):
        k = "".join(pair[0]["s"]) if pair[0].get("t") == "str" else ""
        return (names.index(k) if k in names else len(names), k)

    kv = []
    for k, v in sorted(t["kv"], key=rank):
        name = "".join(k["s"]) if k.get("t") == "str" else ""
        f = fmap.get(name)
        if f and f["kind"] == "schema":
            v = order_tree(f, v)
        elif f and f["kind"] == "list" and f["item"]["kind"] == "schema" and v.get("t") == "list":
            v = {"t": "list", "l": [order_tree(f["item"], i) for i in v["l"]]}
        kv.append([k, v])
    return {"t": "dict", "kv": kv}


ALPHA = "abcdefghijklmnopqrstuvwxyzABCDEFGHIJKLMNOPQRSTUVWXYZ0123456789 _-#!%&<>'\"/.,:;"


def rnd_text(rng, lo=6, hi=12, edge=True):
    body = "".join(rng.choice(ALPHA) for _ in range(rng.randint(lo, hi)))
    if edge and rng.random() < 0.2:
        body = rng.choice([" ", "\n", "\t"]) + body + rng.choice([" ", "\n", ""])
    return body


def S(text):
    return {"t": "str", "s": list(text)}


def B(n, rng):
    return {"t": "bytes", "y": [rng.randint(0, 255) for _ in range(n)]}


def D(**kw):
    return {"t": "dict", "kv": [[S(k), v] for k, v in kw.items()]}


def driver(cinco, desc, seed, n_traces, length):
    import random

    rng = random.Random(seed)
    traces = []
    for _ in range(n_traces):
        w = World(cinco, desc, "trace")
        events = []
        pending = []
        try:
            for _ in range(length):
                r = rng.random() if not pending else 2.0
                if pending:
                    ev = pending.pop(0)
                elif r < 0.6:
                    which = rng.choice(["dflt", "dl", "name", "pw", "hash", "blob", "bl", "sl", "nl", "ratio", "dd", "api", "sub.tok", "vault", "vault.sec", "vault2", "vault2.sec", "vault.inner.tok", "items", "sitems", "sub.port", "vault.inner.n"])
                    path, key = which.rsplit(".", 1) if "." in which else ("", which)
                    p = path.split(".") if path else []
                    if key in ("name", "api"):
                        v = S(rnd_text(rng, 0, 10))
                    elif key == "dflt":
                        v = {"t": "dict", "kv": [[S(k), {"t": "int", "i": rng.randint(0, 9)}] for k in rng.sample(["a", "b", "c"], rng.randint(0, 3))]}
                    elif key == "dl":
                        v = {"t": "list", "l": [{"t": "int", "i": rng.randint(0, 9)} for _ in range(rng.randint(0, 3))]}
                    elif key in ("pw", "tok", "sec"):
                        v = rng.choice([S(rnd_text(rng, 6, 14, edge=False)), S(rnd_text(rng, 30, 70, edge=False)), S(rnd_text(rng, 16, 16, edge=False)), S(rng.choice([" ", "\t ", "  "])),
                                        S(rnd_text(rng, 32, 32, edge=False)), S(""), {"t": "none"}])
                    elif key == "hash":
                        v = S(rnd_text(rng, 6, 10, edge=False))
                        if rng.random() < 0.25:
                            # an imported, unsalted hash (a ready-made DigestValue with salt b"")
                            v = {"t": "digest", "alg": "md5", "pt": v, "salt": "empty"}
                    elif key == "blob":
                        v = rng.choice([B(rng.randint(0, 40), rng), B(rng.randint(55, 120), rng), {"t": "none"}])
                    elif key == "bl":
                        v = {"t": "list", "l": [B(rng.randint(0, 6), rng) for _ in range(rng.randint(0, 3))]}
                    elif key == "sl":
                        v = {"t": "list", "l": [S(rnd_text(rng, 6, 10, edge=False)) if rng.random() < 0.8 else S("") for _ in range(rng.randint(0, 3))]}
                    elif key == "ratio":
                        v = rng.choice([{"t": "float", "h": rng.randint(-9, 9)}, {"t": "fspec", "k": "inf"}, {"t": "fspec", "k": "ninf"}, {"t": "int", "i": rng.randint(-3, 3)}])
                    elif key == "nl":
                        v = {"t": "list", "l": [{"t": "list", "l": [S(rnd_text(rng, 6, 10, edge=False)) if rng.random() < 0.8 else S("") for _ in range(rng.randint(0, 2))]} for _ in range(rng.randint(0, 2))]}
                    elif key == "dd":
                        v = {"t": "dict", "kv": [[S(k), B(rng.randint(0, 5), rng)] for k in rng.sample(["k1", "k2", "zz", "a-b", "a.b", "a_b"], rng.randint(0, 3))]}
                    elif key in ("vault", "vault2"):
                        v = D(sec=S(rnd_text(rng, 6, 10, edge=False)))
                    elif key in ("port", "n"):
                        v = {"t": "int", "i": rng.randint(0, 9999)}
                    elif key in ("items", "sitems"):
                        v = {"t": "list", "l": [D(u=S(rnd_text(rng, 0, 5)), pw=S(rnd_text(rng, 6, 10, edge=False))) if rng.random() < 0.7 else D(u=S("u")) for _ in range(rng.randint(0, 3))]}
                    ev = {"op": "Set", "p": p, "k": key, "v": v}
                elif r < 0.64:
                    ev = {"op": rng.choice(["Adopt", "Rebuild"])}
                elif r < 0.85:
                    ev = {"op": "RoundTrip", "fmt": rng.choice(["json", "yaml", "bson", "xml", "pickle"])}
                    if rng.random() < 0.25:
                        # ... a key rotation, and the next save
                        pending.extend([{"op": "Rekey"}, {"op": "RoundTrip", "fmt": rng.choice(["json", "yaml", "bson", "xml", "pickle"])}])
                else:
                    m = rng.choice([None, "", "*", "#", "XXXX", "masked"])
                    ev = {"op": "Render", "virtual": rng.random() < 0.5, "mask": {"m": "none"} if m is None else {"m": "str", "s": list(m)},
                          "via": rng.choice(["tree", "tree", "json", "yaml", "bson", "xml", "pickle"])}
                try:
                    res = w.step(ev)
                    obs = w.observe()
                except codec.Unrepresentable:
                    break
                rec = dict(ev)
                rec["out"] = res["out"]
                if "tree" in res:
                    rec["tree"] = order_tree(desc, res["tree"])
                if "keys" in res:
                    rec["keys"] = res["keys"]
                rec["leak"] = res.get("leak")
                rec["nonplain"] = res.get("nonplain")
                rec["cfg"] = obs["cfg"]
                events.append(rec)
        finally:
            w.close()
        traces.append({"init": {}, "events": events})
    return traces


def nonplain(x, path=""):
    if x is None or isinstance(x, (str, int, float, bool)):
        return None
    if isinstance(x, list) and type(x) is list:
        for i, v in enumerate(x):
            r = nonplain(v, "%s[%d]" % (path, i))
            if r:
                return r
        return None
    if isinstance(x, dict) and type(x) is dict:
        for k, v in x.items():
            if not isinstance(k, str):
                return "%s: key %r" % (path, k)
            r = nonplain(v, path + "." + k)
            if r:
                return r
        return None
    return "%s: %s" % (path, type(x).__name__)


class Adapter:
    def __init__(self, cinco, desc, focus, root_key=None):
        self.cinco = cinco
        self.desc = desc
        self.focus = focus
        self.root_key = root_key

    def start(self, init):
        return World(self.cinco, self.desc, self.focus, self.root_key)

    def step(self, w, ev):
        r = w.step(ev)
        out = {"out": r["out"]}
        if ev["op"] == "RoundTrip" and self.focus in ("C02", "C03"):
            if "tree" in r:
                out["tree"] = r["tree"]
            if self.focus == "C03":
                out["keys"] = r.get("keys")
                out["leak"] = r.get("leak")
        if ev["op"] == "Render" and self.focus in ("C10", "C02"):
            if "tree" in r:
                out["tree"] = r["tree"]
            out["nonplain"] = r.get("nonplain")
        return out

    def observe(self, w):
        return w.observe()

    def close(self, w):
        w.close()


def normalise(edges, inits):
    for e in edges:
        e["from"] = cfgadapter.canon_state(e["from"])
        e["to"] = cfgadapter.canon_state(e["to"])
        ev = e["ev"]
        if "tree" in ev:
            ev["tree"] = sort_tree(cfgadapter.canon_state(ev["tree"]))
        if "keys" in ev:
            ev["keys"] = sorted(codec.seq(ev["keys"]))
        if "p" in ev:
            ev["p"] = list(codec.seq(ev["p"]))
    return edges, [cfgadapter.canon_state(s) for s in inits]


def run_persist(prop, invs, props, tier, seed):
    cinco = common.import_repo()
    out = common.Outcome(prop)
    d = tlc.scratch("cinco-pm-")
    depth = 3 if tier == "quick" else 4
    cfg = os.path.join(d, "mc.cfg")
    write_cfg(cfg, depth, invs, props)
    res = tlc.run("MC_Persist.tla", cfg, workers=16, keep=())
    if not res.ok:
        out.violation(
            "spec:%s" % res.violation,
            "TLC: %s violated on PersistMachine (depth %d)" % (res.violation, depth),
            {"kind": "tlc-counterexample", "predicate": res.violation, "behaviour": res.cex},
        )
    desc = schema_descriptor_persist()
    adapter = Adapter(cinco, desc, prop)
    cfgx = os.path.join(d, "x.cfg")
    write_cfg(cfgx, 2, export=True)
    exp = tlc.run("MC_Persist.tla", cfgx, workers=1, keep=("INIT", "EDGE"))
    edges, inits = normalise(exp.printed.get("EDGE", []), exp.printed.get("INIT", []))
    g = replay.Graph(inits, edges)
    stats, mism = replay.run_graph(adapter, g, seed=seed)
    cfgs = os.path.join(d, "s.cfg")
    write_cfg(cfgs, 99, export=True)
    nsim, dsim = (60, 8) if tier == "quick" else (600, 12)
    sim = tlc.run("MC_Persist.tla", cfgs, workers=1, simulate=nsim, depth=dsim, seed=seed + 1, keep=("INIT", "EDGE"))
    sedges, sinits = normalise(sim.printed.get("EDGE", []), sim.printed.get("INIT", []))
    g2 = replay.Graph(sinits + inits, sedges)
    stats2, mism2 = replay.run_graph(adapter, g2, seed=seed)
    relevant = {"C02": ("RoundTrip", "Rebuild", "Set", "Adopt", "Render"), "C03": ("RoundTrip", "Rebuild", "Set", "Adopt", "Rekey"), "C10": ("Render", "Set"), "C06": ("Set", "Adopt")}[prop]
    for m in (mism + mism2)[:30]:
        if m.ev["op"] not in relevant:
            continue
        out.violation(
            "replay:%s:%s:%s" % (m.ev["op"], m.ev.get("fmt") or m.ev.get("k") or "", m.detail.split(":")[0]),
            "spec->code: %s differs from the specification: %s" % ({k: v for k, v in m.ev.items() if k in ("op", "fmt", "p", "k", "virtual", "mask")}, m.detail[:400]),
            m.to_json(),
        )
    # code -> spec
    from .. import tracecheck

    ntr, ltr = (120, 12) if tier == "quick" else (1500, 18)
    traces = driver(cinco, desc, seed, ntr, ltr)
    tcfg = os.path.join(d, "trace.cfg")
    with open(tcfg, "w") as fp:
        fp.write(CFG.format(depth=99, **INSTANCE_P).replace("INIT Init", "INIT TraceInit").replace("NEXT Next", "NEXT TraceNext").replace("VIEW View", "VIEW TraceView") + "ACTION_CONSTRAINT Report\nCONSTRAINT ReportState\n")
    wanted = set(invs) | set(props)
    verdicts, tstats = tracecheck.validate("Trace_Persist.tla", tcfg, traces, wanted=wanted)
    for v in [v for v in verdicts if not v.accepted][:20]:
        k = (v.at or v.consumed + 1) - 1
        e = v.trace["events"][k] if k < len(v.trace["events"]) else {}
        if e.get("op") not in relevant and not v.bad_inv:
            continue
        out.violation(
            "trace:%s:%s:%s" % (e.get("op"), e.get("fmt") or e.get("k") or "", ",".join(v.bad_inv or v.bad_obs or ["not-enabled"])),
            "code->spec: recorded persistence trace rejected: %s" % v.describe()[:300],
            v.to_json(),
        )
    # observations that have no counterpart in the specification's events
    for t in traces:
        for e in t["events"]:
            if prop == "C03" and e.get("leak"):
                out.violation("trace:leak:%s" % e.get("fmt"), "code->spec: secret plaintext %r found in the %s document" % (e["leak"], e.get("fmt")), {"kind": "leak", "event": e})
            if prop in ("C02", "C10") and e.get("nonplain"):
                out.violation("trace:nonplain", "code->spec: to_tree returned non-plain data at %s" % e["nonplain"], {"kind": "nonplain", "event": {k: v for k, v in e.items() if k != "cfg"}})
    cases = stats["cases"] + stats2["cases"] + len(verdicts)
    by_op = {k: stats["by_op"].get(k, 0) + stats2["by_op"].get(k, 0) for k in set(stats["by_op"]) | set(stats2["by_op"])}
    distinct = {common.hash_case([cf, ck]) for cf, ck, _ in list(g.cases()) + list(g2.cases())}
    out.coverage = {
        "states": res.distinct,
        "transitions": res.generated,
        "exhaustive": True,
        "tlc_instance": "MC_Persist SchemaP MaxDepth=%d predicates %s" % (depth, list(invs) + list(props)),
        "traces_validated_against_impl": cases,
        "spec_to_code_by_op": by_op,
        "code_to_spec_traces": len(verdicts),
        "code_to_spec_events": sum(len(t["events"]) for t in traces),
        "code_to_spec_tlc_states": tstats["states"],
        "evaluations": cases,
        "distinct_nontrivial": len(distinct),
        "rule": "case = distinct (configuration state, event); RoundTrip cases really dump in the event's format (json, yaml, "
        "bson, xml, pickle), load into a fresh Config with the same key file and continue with it; Render cases call "
        "to_tree(virtual, sensitive_mask); all cases of the level <= 2 graph plus seeded simulated behaviours",
        "samples": [{"case": {k: v for k, v in alts[0][0].items() if k != "tree"}} for _, _, alts in list(g2.cases())[:3]],
    }
    out.assumptions = [
        "formats are a typed channel in the specification; the real encoders/decoders are exercised by the conformance step (their own fidelity is C04)",
        "ciphertexts and digests are abstracted by independent implementations: pure-Python AES-256-CBC/PKCS7 (aesref), XOR recomputation, hashlib",
        "secret plaintexts are strings of length >= 6 that cannot be confused with base64 framing; the raw document bytes are searched for them",
        "the key file of the root and of the config type are fixed per instance (kroot, kv); $HOME and the default key path point into the scratch directory",
    ]
    return out


def schema_descriptor_persist(instance=None):
    instance = instance or INSTANCE_P
    d = tlc.scratch("cinco-schema-")
    mod = os.path.join(d, "ShowSchemaP.tla")
    with open(mod, "w") as fp:
        fp.write(
            '---- MODULE ShowSchemaP ----\nEXTENDS MC_Persist\nASSUME PrintT(<<"CASE", ToJson(%s)>>)\n'
            "I == cfg = <<>> /\\ ev = <<>> /\\ steps = 0\nN == FALSE /\\ UNCHANGED <<cfg, ev, steps>>\n====\n"
            % instance["schema"]
        )
    with open(os.path.join(d, "ShowSchemaP.cfg"), "w") as fp:
        fp.write(CFG.format(depth=1, **instance).split("INIT")[0] + "INIT I\nNEXT N\n")
    for name in os.listdir(tlc.SPEC_DIR):
        if name.endswith(".tla"):
            os.symlink(os.path.join(tlc.SPEC_DIR, name), os.path.join(d, name))
    res = tlc.run("ShowSchemaP.tla", "ShowSchemaP.cfg", workers=1, spec_dir=d, keep=("CASE",))
    return res.printed["CASE"][0]
