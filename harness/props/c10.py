"""C10 - a sensitive-value mask hides every sensitive value at every depth of the tree.
Decided on spec/PersistMachine.tla: C10_Mask (see persist.py)."""
from . import persist


def run(tier, seed):
    return persist.run_persist("C10", ["C10_Mask"], [], tier, seed)
