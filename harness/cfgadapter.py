"""Real cincoconfig objects behind the ConfigMachine specification (spec/ConfigMachine.tla).

build_schema(descriptor)  -> real Schema (built top-down, like an application would)
World                     -> the two configurations c1, c2; step(ev) performs one event of the
                             specification on the real objects; observe() projects them through
                             the public API into the specification's state shape:

    {"t": "cfg", "vals": {key: value}, "dflt": [keys...], "dyn": [keys...]}
"""
import os

from . import codec, fieldmap


def seq(x):
    return codec.seq(x)


def env_kwarg(setting):
    """env= keyword of Schema / Field for an environment setting record of the specification."""
    m = (setting or {"m": "inherit"})["m"]
    if m == "auto":
        return {"env": True}
    if m == "off":
        return {"env": False}
    if m == "name":
        return {"env": "".join(seq(setting["n"]))}
    return {}


def build_schema(cinco, d, root=None, top=True, validators=None):
    """Real Schema for a schema descriptor (SchemaF record)."""
    kw = {}
    kw.update(env_kwarg(d.get("senv")))
    if d.get("dynamic"):
        kw["dynamic"] = True
    if d.get("fname"):
        kw["name"] = d["fname"]
    schema = cinco.Schema(**kw)
    fill_schema(cinco, schema, d, root, validators)
    return schema


def fill_schema(cinco, schema, d, root, validators):
    for key, f in seq(d["fields"]):
        if f["kind"] == "schema":
            if f.get("ctype"):
                sub = build_schema(cinco, f, root, validators=validators)
                typ = cinco.make_type(sub, "T_" + key, key_filename=f.get("keyfile") or None)
                schema._add_field(key, typ)
            else:
                sub = build_schema(cinco, f, root, top=False, validators=validators)
                schema._add_field(key, sub)  # schema.key = sub  (binds key and env prefix)
                # (fields of sub were added before it was bound: rebuild bottom part top-down)
        elif f["kind"] == "virtual":
            schema._add_field(key, cinco.VirtualField(lambda cfg: 42))
        elif f["kind"] == "list" and f["item"]["kind"] == "schema":
            item = build_schema(cinco, f["item"], root, validators=validators)
            if f["item"].get("ctype"):
                item = cinco.make_type(item, "I_" + key)
            schema._add_field(key, cinco.ListField(item, **fieldmap.common_kwargs(f, root)))
        else:
            schema._add_field(key, fieldmap.build(cinco, f, root))
    if d.get("flagkey"):
        pass  # feature flag fields are built through kind "featureflag" in fieldmap
    for name in seq(d.get("validators", [])):
        fn = (validators or {}).get(name)
        if fn is None:
            fn = make_validator(name)
        cinco.validator(schema)(fn)


_SHARED = {}


def build_schema_topdown(cinco, d, root=None, validators=None, _top=True):
    """Build the schema the way applications do: parents are bound before children are added,
    so that environment prefixes are derived top-down.  Descriptors carrying the same `shared`
    tag become ONE Schema object (an application reusing one shape in several places)."""
    if _top:
        _SHARED.clear()
    tag = d.get("shared")
    if tag and tag in _SHARED:
        return _SHARED[tag]
    kw = {}
    kw.update(env_kwarg(d.get("senv")))
    if d.get("dynamic"):
        kw["dynamic"] = True
    schema = cinco.Schema(**kw)
    if tag:
        _SHARED[tag] = schema
    _fill_topdown(cinco, schema, d, root, validators)
    return schema


def _fill_topdown(cinco, schema, d, root, validators):
    for key, f in seq(d["fields"]):
        if f["kind"] == "schema" and not f.get("ctype") and f.get("shared"):
            setattr(schema, key, build_schema_topdown(cinco, f, root, validators, _top=False))
        elif f["kind"] == "schema" and not f.get("ctype"):
            kw = {}
            kw.update(env_kwarg(f.get("senv")))
            if f.get("dynamic"):
                kw["dynamic"] = True
            if f.get("fname"):
                kw["name"] = f["fname"]
            sub = cinco.Schema(**kw)
            setattr(schema, key, sub)  # bind first ...
            _fill_topdown(cinco, sub, f, root, validators)  # ... then add the children
        elif f["kind"] == "schema":
            sub = build_schema_topdown(cinco, f, root, validators, _top=False)
            typ = cinco.make_type(sub, f.get("tname") or "T_" + key, key_filename=_keyfile(f, root))
            setattr(schema, key, typ)
        elif f["kind"] == "virtual":
            vk = f.get("vk", "const")
            if f.get("auto"):
                continue  # created by the ApplicationModeField next to it
            if vk == "alias":
                setattr(schema, key, cinco.VirtualField(_alias_getter(f["target"]), _alias_setter(f["target"])))
            elif vk == "method":
                cinco.instance_method(schema, key)(_alias_getter(f["target"]))
            else:
                setattr(schema, key, cinco.VirtualField(lambda cfg: 42, sensitive=bool(f.get("sensitive"))))
        elif f["kind"] == "list" and f["item"]["kind"] == "schema":
            item = build_schema_topdown(cinco, f["item"], root, validators, _top=False)
            if f["item"].get("ctype"):
                item = cinco.make_type(item, "I_" + key, key_filename=_keyfile(f["item"], root))
            setattr(schema, key, cinco.ListField(item, **fieldmap.common_kwargs(f, root)))
        else:
            if f.get("redeclared") == "flag":
                # the key is declared twice, as applications that evolve do: what counts is the last declaration
                setattr(schema, key, cinco.FeatureFlagField(default=False))
            setattr(schema, key, fieldmap.build(cinco, f, root))
    for name in seq(d.get("validators", [])):
        fn = (validators or {}).get(name) or make_validator(name)
        cinco.validator(schema)(fn)


def _alias_getter(target):
    return lambda cfg: getattr(cfg, target)


def _alias_setter(target):
    return lambda cfg, value: setattr(cfg, target, value)


def asdict_abs(cinco, desc, data, root=None):
    """asdict() result -> the shape of the specification's AsDict (maps of configurations as
    plain objects keyed by field, everything else as tagged values)."""
    fields = {k: f for k, f in seq(desc["fields"])}
    out = {}
    for k, v in data.items():
        f = fields.get(k)
        if f and f["kind"] == "schema" and isinstance(v, dict):
            out[k] = asdict_abs(cinco, f, v, root)
        elif f and f["kind"] == "list" and f["item"]["kind"] == "schema" and isinstance(v, list):
            out[k] = {"t": "list", "l": [asdict_abs(cinco, f["item"], i, root) if isinstance(i, dict) else project_value(cinco, i, root) for i in v]}
        else:
            out[k] = project_value(cinco, v, root)
    return out


def norm_asdict(desc, data):
    fields = {k: f for k, f in seq(desc["fields"])}
    out = {}
    for k, v in (data or {}).items():
        f = fields.get(k)
        if f and f["kind"] == "schema" and "t" not in v:
            out[k] = norm_asdict(f, v)
        elif f and f["kind"] == "list" and f["item"]["kind"] == "schema" and v.get("t") == "list":
            out[k] = {"t": "list", "l": [norm_asdict(f["item"], i) if "t" not in i else canon_state(i) for i in seq(v["l"])]}
        else:
            out[k] = canon_state(v)
    return out


def computed_values(cinco, desc, cfg, path=()):
    out = []
    for k, f in seq(desc["fields"]):
        if f["kind"] == "virtual":
            v = getattr(cfg, k)
            if f.get("vk") == "method":
                v = v()
            out.append([list(path) + [k], project_value(cinco, v)])
        elif f["kind"] == "schema":
            sub = getattr(cfg, k)
            if isinstance(sub, cinco.Config):
                out += computed_values(cinco, f, sub, path + (k,))
    return out


def _keyfile(f, root):
    kf = f.get("keyfile")
    if not kf:
        return None
    return os.path.join(root, kf) if root else kf


VLOG = []  # (reference path of the configuration, validator name) per invocation, reset per step


def make_validator(name):
    base = _make_validator(name)

    def logged(cfg):
        import cincoconfig

        VLOG.append((cincoconfig.item_ref_path(cfg), name))
        return base(cfg)

    logged.__name__ = name
    return logged


def _make_validator(name):
    def always_ok(cfg):
        return None

    def always_fail(cfg):
        raise ValueError("always_fail")

    def x_lt_y(cfg):
        if "x" in cfg and "y" in cfg and isinstance(cfg.x, int) and isinstance(cfg.y, int) and not isinstance(cfg.x, bool) and not isinstance(cfg.y, bool):
            if not cfg.x < cfg.y:
                raise ValueError("x must be less than y")

    def x_not_3(cfg):
        if "x" in cfg and cfg.x == 3 and not isinstance(cfg.x, bool):
            raise ValueError("x must not be 3")

    def needs_x(cfg):
        if "x" not in cfg or cfg.x is None:
            raise ValueError("x is needed")

    def needs_key(cfg):
        if "key" not in cfg or cfg.key is None:
            raise ValueError("key is needed")

    def host_not_x(cfg):
        if "host" in cfg and cfg.host == "x":
            raise ValueError("host must not be x")

    return {
        "always_ok": always_ok,
        "always_fail": always_fail,
        "x_lt_y": x_lt_y,
        "needs_x": needs_x,
        "x_not_3": x_not_3,
        "needs_key": needs_key,
        "host_not_x": host_not_x,
    }[name]


# ----------------------------------------------------------------------------- projection
KNOWN_PLAINTEXTS = []  # candidate plaintexts for recognising digests (filled by the drivers)


def digest_leaf(cinco, dv):
    """Abstract form of a DigestValue: which known plaintext hashes to it with its salt."""
    import hashlib

    alg = dv.algorithm
    name = {v: k for k, v in cinco.fields.ChallengeField.ALGORITHMS.items()}.get(alg, "?")
    for pt in KNOWN_PLAINTEXTS:
        raw = pt.encode() if isinstance(pt, str) else pt
        if alg(dv.salt + raw).digest() == dv.digest and len(dv.salt) == alg().digest_size:
            return {"t": "digest", "alg": name, "pt": codec.to_abs(pt)}
        # an imported, unsalted hash (a DigestValue the application built itself with salt b"")
        if dv.salt == b"" and alg(raw).digest() == dv.digest:
            return {"t": "digest", "alg": name, "pt": codec.to_abs(pt), "salt": "empty"}
    return {"t": "digest", "alg": name, "pt": {"t": "obj", "n": "unknown-plaintext"}}


def project_value(cinco, v, root=None):
    if isinstance(v, cinco.fields.DigestValue):
        return digest_leaf(cinco, v)
    if isinstance(v, cinco.Config):
        return project_cfg(cinco, v, root)
    if isinstance(v, list):
        return {"t": "list", "l": [project_value(cinco, x, root) for x in v]}
    if isinstance(v, tuple) and not hasattr(v, "_fields"):
        return {"t": "tuple", "l": [project_value(cinco, x, root) for x in v]}
    if isinstance(v, dict):
        return {"t": "dict", "kv": [[project_value(cinco, k, root), project_value(cinco, x, root)] for k, x in v.items()]}
    return codec.to_abs(v, root)


def project_cfg(cinco, cfg, root=None):
    vals = {}
    dflt = []
    for key, value in cfg:  # Config.__iter__: stored keys and their values
        vals[key] = project_value(cinco, value, root)
        if not cinco.is_value_defined(cfg, key):
            dflt.append(key)
    schema_keys = {k for k, _ in cinco.get_fields(cfg._schema)} if hasattr(cfg, "_schema") else set()
    dyn = []
    for k, _ in cinco.get_fields(cfg):
        if k not in schema_keys and k not in dyn:
            dyn.append(k)
    return {"t": "cfg", "vals": vals, "dflt": sorted(dflt), "dyn": dyn}


def read_only_queries(cinco, cfg, path=(), root=None):
    """The library's read-only entry points, called on a configuration between operations.  In the
    specification they are stuttering steps (Query / CheckCollect leave the state unchanged), so
    calling them must not be observable - and it warms every cache or memo the library may keep.
    Returns a description of an inconsistency between two ways of reading the same value, or None."""
    try:
        cfg.to_tree()
    except Exception:  # noqa  (a state that cannot be rendered, e.g. no key file: nothing to compare)
        pass
    try:
        cinco.asdict(cfg)
        cfg.validate(collect_errors=True)
    except Exception:  # noqa
        pass
    problem = None
    for key, value in list(cfg):
        try:
            via_item = cfg[key]
            via_attr = getattr(cfg, key)
        except Exception as exc:  # noqa
            return "reading %r raised %s" % (".".join(path + (key,)), type(exc).__name__)
        if via_item is not via_attr and via_item != via_attr:
            return "config[%r] differs from attribute access" % ".".join(path + (key,))
        if key not in cfg:
            return "%r in config is False" % ".".join(path + (key,))
        if root is not None:
            # the dotted route from the root and the direct route must agree about the status too
            dotted_full = ".".join(path + (key,))
            try:
                if cinco.is_value_defined(root, dotted_full) != cinco.is_value_defined(cfg, key):
                    return "is_value_defined(root, %r) differs from is_value_defined(sub-configuration, %r)" % (dotted_full, key)
                if dotted_full not in root:
                    return "%r in root configuration is False" % dotted_full
            except Exception as exc:  # noqa
                return "is_value_defined(root, %r) raised %s" % (dotted_full, type(exc).__name__)
        if isinstance(value, cinco.Config):
            for sub, _ in list(value):
                dotted = key + "." + sub
                try:
                    a, b = cfg[dotted], getattr(value, sub)
                except Exception as exc:  # noqa
                    return "reading %r raised %s" % (dotted, type(exc).__name__)
                if a is not b and a != b:
                    return "config[%r] differs from chained attribute access" % ".".join(path + (dotted,))
            problem = problem or read_only_queries(cinco, value, path + (key,), root if root is not None else cfg)
    return problem


def wrong_config_types(cinco, schema, cfg, path=()):
    """Positions where a field declared with a configuration TYPE (make_type) - directly or as the
    item type of a list - holds a configuration that is not an instance of that type."""
    bad = []
    for key, field in schema._fields.items():
        if key not in cfg._data:
            continue
        value = cfg._data[key]
        here = path + (key,)
        if isinstance(field, cinco.core.ConfigTypeField):
            if isinstance(value, cinco.Config):
                if not isinstance(value, field.config_type):
                    bad.append(".".join(here))
                bad += wrong_config_types(cinco, field.config_type.__schema__, value, here)
        elif isinstance(field, cinco.Schema):
            if isinstance(value, cinco.Config):
                bad += wrong_config_types(cinco, field, value, here)
        elif isinstance(field, cinco.fields.ListField) and isinstance(value, list):
            item = getattr(field, "field", None)
            for i, v in enumerate(value):
                if not isinstance(v, cinco.Config):
                    continue
                ctype = item.config_type if isinstance(item, cinco.core.ConfigTypeField) else item
                if isinstance(ctype, type) and issubclass(ctype, cinco.core.ConfigType):
                    if not isinstance(v, ctype):
                        bad.append("%s[%d]" % (".".join(here), i))
                    bad += wrong_config_types(cinco, ctype.__schema__, v, here + ("[%d]" % i,))
                elif isinstance(item, cinco.Schema):
                    bad += wrong_config_types(cinco, item, v, here + ("[%d]" % i,))
    return bad


def shared_containers(cinco, cfgs):
    """Positions (configuration name, path) that hold one and the same mutable list / typed
    dict object.  Every field of every configuration owns its container (an untyped dict field and
    free-form fields keep whatever object they were given: those are not looked at)."""
    seen = {}
    shared = []

    def walk(name, cfg, path):
        for key, value in list(cfg):
            here = path + (key,)
            if isinstance(value, cinco.Config):
                walk(name, value, here)
                continue
            if isinstance(value, list) or (isinstance(value, dict) and type(value) is not dict):
                where = (name,) + here
                if id(value) in seen and seen[id(value)] != where:
                    shared.append((seen[id(value)], where))
                seen.setdefault(id(value), where)
                if isinstance(value, list):
                    for i, item in enumerate(value):
                        if isinstance(item, cinco.Config):
                            walk(name, item, here + ("[%d]" % i,))

    for name, cfg in cfgs.items():
        if cfg is not None:
            walk(name, cfg, ())
    return shared


def canon_state(x):
    """Normal form of a specification state read back from TLC's JSON."""
    if isinstance(x, dict):
        t = x.get("t")
        if t == "cfg":
            vals = x["vals"]
            if not isinstance(vals, dict):
                vals = {}
            return {
                "t": "cfg",
                "vals": {k: canon_state(v) for k, v in vals.items()},
                "dflt": sorted(seq(x["dflt"])),
                "dyn": list(seq(x["dyn"])),
            }
        if t in ("list", "tuple"):
            return {"t": t, "l": [canon_state(i) for i in seq(x["l"])]}
        if t == "dict":
            return {"t": "dict", "kv": [[canon_state(k), canon_state(v)] for k, v in seq(x["kv"])]}
        if t is not None:
            return codec.norm(x)
        return {k: canon_state(v) for k, v in x.items()}
    if isinstance(x, list):
        return [canon_state(i) for i in x]
    return x


# ----------------------------------------------------------------------------- values
def value_to_py(cinco, v, schema_for_cfgobj=None, root=None):
    """Abstract argument value -> Python object (cfgobj: a ready-made Config of the sub-schema)."""
    t = v["t"]
    if t == "cfgobj":
        factory = schema_for_cfgobj
        if isinstance(factory, cinco.core.ConfigTypeField):
            factory = factory.config_type
        obj = factory()
        apply_state(cinco, obj, v.get("c"), root)
        return obj
    if t in ("list", "tuple"):
        # (ready-made configurations inside a list value are instances of the list's item type)
        item_factory = getattr(schema_for_cfgobj, "field", None)
        items = [value_to_py(cinco, x, item_factory if x.get("t") == "cfgobj" else None, root) for x in seq(v["l"])]
        return items if t == "list" else tuple(items)
    if t == "dict":
        return {codec._hashable(value_to_py(cinco, k, None, root)): value_to_py(cinco, x, None, root) for k, x in seq(v["kv"])}
    if t == "digest":
        # a ready-made DigestValue (only the unsalted form can be built deterministically)
        import hashlib

        assert v.get("salt") == "empty", "a salted digest cannot be an argument"
        return cinco.fields.DigestValue(b"", hashlib.new(v["alg"], codec.to_py(v["pt"], root).encode()).digest(),
                                        cinco.fields.ChallengeField.ALGORITHMS[v["alg"]])
    return codec.to_py(v, root)


def apply_state(cinco, obj, c, root=None):
    """Bring a freshly built configuration into the (abstract) state c by plain assignments of
    every value that is not marked default."""
    if not isinstance(c, dict) or c.get("t") != "cfg" or not isinstance(c.get("vals"), dict):
        return
    dflt = set(seq(c.get("dflt", [])))
    for key, val in c["vals"].items():
        if isinstance(val, dict) and val.get("t") == "cfg":
            apply_state(cinco, getattr(obj, key), val, root)
        elif key not in dflt:
            setattr(obj, key, value_to_py(cinco, val, None, root))


def schema_field(cinco, schema, keys):
    """The field at a key path of a schema, walking through config type fields as well."""
    cur = schema
    for k in keys:
        if isinstance(cur, cinco.core.ConfigTypeField):
            cur = cur.config_type.__schema__
        cur = dict(cinco.get_fields(cur))[k]
    return cur


def nested_ids(cinco, cfg, path=()):
    """{path: id(config object)} for the configuration and every nested configuration."""
    out = {path: id(cfg)}
    for key, value in cfg:
        if isinstance(value, cinco.Config):
            out.update(nested_ids(cinco, value, path + (key,)))
    return out


def errpath_of(exc):
    return getattr(exc, "ref_path", None)


def schema_signature(cinco, schema, depth=0):
    """A structural fingerprint of a schema: its fields in order, each with its class and its plain
    attributes (recursively through nested schemas, config types and item fields).  Operations on
    configurations never change it (C13)."""
    def plain(v):
        if isinstance(v, (str, int, float, bool, bytes, type(None))):
            return repr(v)
        if isinstance(v, (list, tuple)):
            return [plain(i) for i in v]
        if isinstance(v, dict):
            return sorted((repr(k), plain(x)) for k, x in v.items())
        if isinstance(v, cinco.core.BaseField):
            return field_sig(v)
        return type(v).__name__

    def field_sig(f):
        if depth > 6:
            return type(f).__name__
        if isinstance(f, cinco.Schema):
            return schema_signature(cinco, f, depth + 1)
        if isinstance(f, cinco.core.ConfigTypeField):
            return ("ctype", schema_signature(cinco, f.config_type.__schema__, depth + 1))
        attrs = sorted((k, plain(v)) for k, v in vars(f).items() if not k.startswith("__") and k not in ("_schema", "schema") and not callable(v))
        return (type(f).__name__, attrs)

    return [(k, field_sig(f)) for k, f in schema._fields.items()]


def collect_strings(x, into):
    """Every text leaf of an abstract value / descriptor (candidate plaintexts of digests)."""
    if isinstance(x, dict):
        if x.get("t") == "str" and "s" in x:
            into.add("".join(seq(x["s"])))
        else:
            for v in x.values():
                collect_strings(v, into)
    elif isinstance(x, (list, tuple)):
        for v in x:
            collect_strings(v, into)


def has_challenge(desc):
    if isinstance(desc, dict):
        return desc.get("kind") == "challenge" or any(has_challenge(v) for v in desc.values())
    if isinstance(desc, (list, tuple)):
        return any(has_challenge(v) for v in desc)
    return False


_FS_ROOT = []


def fs_root():
    """The scratch directory the character "$" of the specification's abstract file system (CincoFields.FsKind) stands
    for: a regular file f, a directory d holding the regular file g, nothing else.  It is the working directory
    while an operation runs on a schema that has a file-name field."""
    if not _FS_ROOT:
        from . import tlc

        root = tlc.scratch("cinco-fs-")
        with open(os.path.join(root, "f"), "w") as fp:
            fp.write("x")
        os.mkdir(os.path.join(root, "d"))
        with open(os.path.join(root, "d", "g"), "w") as fp:
            fp.write("y")
        _FS_ROOT.append(root)
    return _FS_ROOT[0]


def has_kind(desc, kind):
    if isinstance(desc, dict):
        return desc.get("kind") == kind or any(has_kind(v, kind) for v in desc.values())
    if isinstance(desc, (list, tuple)):
        return any(has_kind(v, kind) for v in desc)
    return False


class World:
    def __init__(self, cinco, schema_desc, init, environ=None, root=None, topdown=True):
        self.cinco = cinco
        self.chdir = None
        if root is None and has_kind(schema_desc, "filename"):
            root = self.chdir = fs_root()
        self.root = root
        self.desc = schema_desc
        self.plaintexts = None
        if has_challenge(schema_desc):
            self.plaintexts = set()
            collect_strings(schema_desc, self.plaintexts)
        self.saved_env = {}
        for k, v in (environ or {}).items():
            self.saved_env[k] = os.environ.get(k)
            os.environ[k] = v
        self.schema = build_schema_topdown(cinco, schema_desc, root)
        self.schema_sig = schema_signature(cinco, self.schema)
        self.cfgs = {}
        self.keep = []  # keep replaced objects alive so that id() stays unambiguous
        for n in ("c1", "c2"):
            st = init["cfgs"][n]
            if st.get("t") == "cfg":
                self.cfgs[n] = self.schema()
                read_only_queries(cinco, self.cfgs[n])
            else:
                self.cfgs[n] = None

    def close(self):
        for k, v in self.saved_env.items():
            if v is None:
                os.environ.pop(k, None)
            else:
                os.environ[k] = v

    def observe(self):
        if self.plaintexts is not None:
            KNOWN_PLAINTEXTS[:] = sorted(self.plaintexts)
        out = {}
        for n, c in self.cfgs.items():
            bad = wrong_config_types(self.cinco, self.schema, c) if c is not None else []
            if bad:
                return {"cfgs": {m: {"t": "wrong-config-type", "why": "%s of %s is not an instance of its declared configuration type" % (bad[0], n)} for m in self.cfgs}}
        shared = shared_containers(self.cinco, self.cfgs)
        if shared:
            a, b = shared[0]
            return {"cfgs": {n: {"t": "shared-container", "why": "%s and %s hold the same list / typed dict object" % (".".join(a), ".".join(b))} for n in self.cfgs}}
        schema_now = schema_signature(self.cinco, self.schema)
        for n, c in self.cfgs.items():
            if c is None:
                out[n] = {"t": "none"}
                continue
            if schema_now != self.schema_sig:
                # (the schema is no state variable of the specification: it never changes)
                changed = [k for (k, a), (_k, b) in zip(schema_now, self.schema_sig) if a != b] or ["<fields added or removed>"]
                out[n] = {"t": "schema-changed", "why": "the schema itself differs from what it was when the configurations were built: %s" % changed[:4]}
                continue
            why = read_only_queries(self.cinco, c)
            out[n] = project_cfg(self.cinco, c, self.root) if why is None else {"t": "inconsistent-reads", "why": why}
        return {"cfgs": out}

    def _sub_schema(self, p, k):
        s = self.schema
        for key in list(p) + [k]:
            s = s[key] if hasattr(s, "__getitem__") else None
        return s

    def _field_desc(self, path):
        d = self.desc
        for key in path:
            if not isinstance(d, dict) or d.get("kind") != "schema":
                return None
            d = dict(seq(d["fields"])).get(key)
            if d is None:
                return None
        return d

    def _probe_argument(self, val, path):
        """After an assignment the caller goes on using the object it passed in: a list handed to a
        list field, or a dict handed to a typed dict field, is copied / wrapped by the library,
        so changing the caller's object afterwards must not be visible in the configuration."""
        f = self._field_desc(path)
        if not f:
            return
        try:
            if f["kind"] == "list" and type(val) is list:
                val.append("<appended by the caller after the call>")
            elif f["kind"] == "dict" and type(val) is dict:
                val["<added by the caller after the call>"] = 1
        except Exception:  # noqa
            pass

    def _walk(self, cfg, p):
        for key in p:
            cfg = getattr(cfg, key)
        return cfg

    def step(self, ev):
        if not self.chdir:
            return self._step(ev)
        cwd = os.getcwd()
        os.chdir(self.chdir)
        try:
            return self._step(ev)
        finally:
            os.chdir(cwd)

    def _step(self, ev):
        cinco = self.cinco
        op = ev["op"]
        n = ev.get("n")
        cfg = self.cfgs.get(n)
        before = {m: (nested_ids(cinco, c) if c is not None else {}) for m, c in self.cfgs.items()}
        del VLOG[:]
        if self.plaintexts is not None:
            collect_strings({k: v for k, v in ev.items() if k in ("v", "kw", "tree", "o")}, self.plaintexts)
            KNOWN_PLAINTEXTS[:] = sorted(self.plaintexts)  # (Query projects digests inside the step)
        res = {"out": "ok", "errpath": None}
        try:
            if op in ("SetAttr", "SetItem"):
                p, k = seq(ev["p"]), ev["k"]
                factory = None
                if ev["v"]["t"] == "cfgobj":
                    factory = schema_field(cinco, self.schema, list(p) + [k])
                val = value_to_py(cinco, ev["v"], factory, self.root)
                try:
                    if op == "SetAttr":
                        setattr(self._walk(cfg, p), k, val)
                    else:
                        cfg[".".join(list(p) + [k])] = val
                finally:
                    self._probe_argument(val, list(p) + [k])
            elif op == "SetDictItem":
                cfg[".".join(list(seq(ev["p"])) + [ev["k"], "".join(seq(ev["dk"]))])] = value_to_py(cinco, ev["v"], None, self.root)
            elif op == "Ctor":
                kw = {k: value_to_py(cinco, v, None, self.root) for k, v in seq(ev["kw"])}
                # Schema.__call__ and the Config constructor, in turn
                new = self.schema(**kw) if len(kw) % 2 == 0 else cinco.Config(self.schema, **kw)
                self.keep.append(self.cfgs[n])
                self.cfgs[n] = new
            elif op == "Load":
                tree = value_to_py(cinco, ev["tree"], None, self.root)
                # the document route and the tree route must behave alike: take them in turn
                import json as _json

                try:
                    doc = _json.dumps(tree)
                except (TypeError, ValueError):
                    doc = None
                if doc is not None and len(doc) % 2 == 0 and "NaN" not in doc and "Infinity" not in doc:
                    cfg.loads(doc, "json")
                else:
                    cfg.load_tree(tree)
            elif op == "Reset":
                cinco.reset_value(cfg, ".".join(list(seq(ev["p"])) + [ev["k"]]))
            elif op == "CopyTree":
                cfg.load_tree(self.cfgs[ev["src"]].to_tree())
            elif op == "AssignFrom":
                p = seq(ev["p"])
                setattr(self._walk(cfg, p), ev["k"], getattr(self._walk(self.cfgs[ev["src"]], p), ev["k"]))
            elif op == "RoundTrip":
                data = cfg.dumps(ev["fmt"])
                new = self.schema()
                new.loads(data, ev["fmt"])
                self.keep.append(self.cfgs[n])
                self.cfgs[n] = new
            elif op == "Query":
                res["asdict"] = asdict_abs(cinco, self.desc, cinco.asdict(cfg, virtual=True), self.root)
                res["computed"] = sorted(computed_values(cinco, self.desc, cfg), key=lambda x: x[0])
            elif op == "Validate":
                cfg.validate()
            elif op == "ValidateCollect":
                errors = cfg.validate(collect_errors=True)
                if errors:
                    res["out"] = "errors"
            elif op == "COp":
                owner = self._walk(cfg, seq(ev["p"]))
                target = getattr(owner, ev["k"])
                if target is None:
                    raise NoContainer()
                self._made_items = []
                try:
                    self._container_op(target, ev["o"], owner)
                except Exception as first:  # noqa
                    # a rejected operation changed nothing (C06), so the caller trying again with the very same
                    # objects - a ready-made item configuration in particular - is rejected again, in the same way
                    if self._made_items and ev["o"]["m"] in ("append", "insert", "setitem"):
                        try:
                            self._container_op(getattr(owner, ev["k"]), ev["o"], owner, reuse=True)
                        except Exception as second:  # noqa
                            if type(second) is not type(first):
                                raise RetryDiffers("rejected with %s, the same call again with %s" % (type(first).__name__, type(second).__name__))
                        else:
                            raise RetryDiffers("rejected with %s, the same call with the same objects again was accepted" % type(first).__name__)
                    raise
            else:
                raise RuntimeError("unknown event %r" % (op,))
        except Exception as exc:  # noqa
            res["out"] = fieldmap.exc_class(exc)
            res["errpath"] = errpath_of(exc)
            res["msg"] = str(exc)[:160]
        # which nested configuration objects were replaced
        repl = []
        for m, c in self.cfgs.items():
            if c is None:
                continue
            after = nested_ids(cinco, c)
            for path, ident in after.items():
                if path in before[m] and before[m][path] != ident:
                    if not any(path[: len(q)] == q for q in repl_paths(repl, m)):
                        repl.append((m, path))
        res["vlog"] = sorted([list(x) for x in set(VLOG)])
        res["repl"] = sorted([list(p) for m, p in repl if m == n])
        res["repl_other"] = sorted([[m] + list(p) for m, p in repl if m != n])
        return res

    def _container_op(self, target, o, owner=None, reuse=False):
        cinco = self.cinco
        m = o["m"]

        made = self._made_items if reuse else []
        if not reuse:
            self._made_items = made
        taken = [0]

        def val(v):
            if v["t"] == "cfgobj":
                # a ready-made configuration of the list's item schema / config type
                if reuse:
                    taken[0] += 1
                    return made[taken[0] - 1]
                made.append(target.item_field())
                return made[-1]
            return value_to_py(cinco, v, None, self.root)

        if m == "item_reset":
            cinco.reset_value(target[o["i"]], o["k"])
        elif m == "setitem_same":
            target[o["i"]] = target[o["i"]]
        elif m == "append":
            target.append(val(o["v"]))
        elif m == "insert":
            target.insert(o["i"], val(o["v"]))
        elif m == "setitem" and isinstance(target, list):
            target[o["i"]] = val(o["v"])
        elif m == "setitem":
            target[val(o["k"])] = val(o["v"])
        elif m == "extend":
            target.extend([val(v) for v in seq(o["vs"])])
        elif m == "iadd":
            target += iter([val(v) for v in seq(o["vs"])])
        elif m == "setslice_all":
            target[:] = tuple(val(v) for v in seq(o["vs"]))
        elif m == "item_set":
            setattr(target[o["i"]], o["k"], val(o["v"]))
        elif m == "slice_from":
            src = getattr(owner, o["src"])
            target[:] = src if src is not None else []
        elif m == "extend_from":
            src = getattr(owner, o["src"])
            target.extend(src if src is not None else [])
        elif m == "pop" and isinstance(target, list):
            target.pop()
        elif m == "pop":
            target.pop(val(o["k"]))
        elif m == "remove_at":
            del target[o["i"]]
        elif m == "clear":
            target.clear()
        elif m == "update":
            target.update({val(k): val(v) for k, v in seq(o["kv"])})
        elif m == "ior":
            target |= {val(k): val(v) for k, v in seq(o["kv"])}
        elif m == "setdefault":
            target.setdefault(val(o["k"]), val(o["v"]))
        else:
            raise RuntimeError("unknown container op %r" % (m,))


class RetryDiffers(Exception):
    """A rejected container operation, repeated with the same argument objects, did not fail in the same way."""


class NoContainer(Exception):
    """The field holds None: there is no list/dict to operate on."""


def repl_paths(repl, m):
    return [p for mm, p in repl if mm == m]


class Adapter:
    """replay.run_graph adapter for ConfigMachine."""

    def __init__(self, cinco, schema_desc, environ=None):
        self.cinco = cinco
        self.desc = schema_desc
        self.environ = environ
        if has_kind(schema_desc, "filename"):
            fs_root()  # (created here, in the parent process, so that forked replay workers share it and it is cleaned up)

    def start(self, init):
        return World(self.cinco, self.desc, init, self.environ)

    def step(self, w, ev):
        r = w.step(ev)
        out = {"out": r["out"]}
        # replaced nested configuration objects: compare as sorted lists of paths
        out["repl"] = r["repl"]
        if r["repl_other"]:
            out["repl"] = r["repl"] + [["<other>"] + p for p in r["repl_other"]]
        if ev["op"] == "Query" and r["out"] == "ok":
            out["asdict"], out["computed"] = r["asdict"], r["computed"]
        if getattr(self, "focus", None) == "C11" and ev["op"] in ("Load", "Validate") and r["out"] == "ok":
            # (which validators ran before a failure is not pinned by C11: compared on success only)
            out["vlog"] = r["vlog"]
        if getattr(self, "focus", None) == "C15" and r["out"] == "ValidationError" and (
            ev["op"] in ("SetAttr", "SetItem", "SetDictItem", "Ctor", "Load") or (ev["op"] == "COp" and ev["o"]["m"] in ("append", "extend", "iadd", "item_set"))
            # (one entry of a typed map: the path is the map's path and the key)
            or (ev["op"] == "COp" and ev["o"]["m"] in ("setitem", "setdefault") and "k" in ev["o"])
        ):
            # the reference path the error names (C15 compares it with the specification's)
            out["errpath"] = r.get("errpath") or ""
        w.last = r
        return out

    def observe(self, w):
        return w.observe()

    def close(self, w):
        w.close()
