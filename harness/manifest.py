"""Generates /verif/MANIFEST.json from one table (python -m harness.manifest)."""
import json
import os

VERIF = os.path.dirname(os.path.dirname(os.path.abspath(__file__)))

CHECKS = {
    "C07": dict(
        engine="CincoKeyFile",
        text="TLC exhaustively checks the six C07 predicates (key released at refcount 0, open context holds exactly the "
        "file's valid key, crypt gate, file never modified, created once with a fresh key, malformed file rejected on every "
        "attempt, nested contexts share the key) on spec/CincoKeyFile.tla for 3 objects / 2 paths / nesting 2-3; every "
        "transition of that graph is executed on real KeyFile objects over a scratch directory, and seeded random session "
        "scripts recorded from the real code are validated by TLC against Trace_KeyFile.tla with the predicates evaluated on "
        "every observed step.  A history property of a small protocol: exactly what a model checker decides.",
        note="Bounded instance (nesting, number of generated keys); file contents abstracted to size class / key identity; "
        "reference counts are inferred by the spec; unwritable directory realised as missing directory (checks run as root); "
        "independent AES in harness/props/aesref.py identifies which key encrypted.  Exit also by an exception propagating out of the context (Exit(o, exc)).",
        technique="TLA+ spec + TLC exhaustive invariants/action properties; graph replay into code; TLC trace validation of recorded runs",
        design="5/C07",
    ),
    "C05": dict(
        engine="CincoFields/FieldLab",
        text="TLC checks C05_AcceptedMeets / MeetingAccepted / Idempotent / BasicPlain / CodecInverse / DecodedAccepted on the "
        "five-step FieldLab machine (validate, validate again, to_basic, to_python, validate) over eleven families of field "
        "descriptors x candidate values (exhaustive per family); every enumerated case is executed on the real field object and "
        "compared stage by stage; seeded random descriptors/values outside the families are run on the real fields and TLC "
        "re-evaluates the specification's operators and the predicates on the logged results (Trace_FieldLab).",
        note="Validate/ToBasic/ToPython are transcriptions of fields/*.py over an abstract value universe (half-integer floats, "
        "ASCII model alphabet, regex catalogue, decimal prefix lengths, abstract file system); DNS resolution excluded.  Later rounds added: the field subclasses with defaults of their own (PortField, LogLevelField, ApplicationModeField built without arguments), relative start directories, byte strings around one base64 line, characters whose case mapping changes the length of a string (written by name).",
        technique="TLA+ operators for every field class + TLC exhaustive invariants over descriptor/value grids; case replay into code; TLC re-evaluation of recorded cases",
        design="5/C05",
    ),
    "C01": dict(
        engine="ConfigMachine",
        text="TLC checks C01_AllValid (every stored value at every depth Meets its field) and C01_Readback (accepted assignment "
        "stores the normal form, frame) on the ConfigMachine specification: two configurations of one schema driven through "
        "attribute/dotted assignment, constructor keywords, load_tree, reset, validate and every ListProxy/DictProxy mutator, all "
        "histories to the depth bound; each transition of the first levels and of simulated deeper behaviours is executed on real "
        "Config objects and the projected state compared; random operation logs from real objects are validated by TLC "
        "(Trace_Config) with the predicates evaluated on every observed state.",
        note="Bounded instance MC_Config/SchemaA (scalars with bounds/transforms, typed list and dict, nested schemas with a validator, lists of schemas with and without defaults), candidate pools, depth 3 (quick) / 4 (thorough); object identity observed as the set of replaced paths; values outside the model's grammars are marked Unmodelled and skipped (counted in evidence).  Also decided on the generated schema family (MC_Config.MCFamilyAt2/3: every two-key root schema over 37 node shapes, a three-key family in the thorough tier; candidate values derived per field kind by ConfigMachine!Gen*): TLC, complete depth-1 graph replay and simulated behaviours on real objects for a seed-selected slice (quick: every 9th schema plus the same-shape diagonal; thorough: every 6th at depth 2), recorded traces on sampled schemas; read-only queries between steps, argument-aliasing probe, shared-container and schema-fingerprint observations (DESIGN.md 0.7 / 0.8).",
        technique="TLA+ state machine of Config + TLC invariants/action properties; transition replay into code; TLC trace validation",
        design="5/C01",
    ),
    "C06": dict(
        engine="ConfigMachine",
        text="TLC checks the action property C06_Unchanged (a rejected assignment by attribute/dotted path/constructor keyword, "
        "incl. map or configuration -> sub-configuration, or a rejected single-element insert/replace on a typed list or dict, "
        "changes nothing: values at all depths, default marks, identity of nested configurations) on ConfigMachine; same two "
        "conformance directions as C01, the trace specification evaluates the predicate on every rejected observed step.",
        note="Bounded instance MC_Config/SchemaA (scalars with bounds/transforms, typed list and dict, nested schemas with a validator, lists of schemas with and without defaults), candidate pools, depth 3 (quick) / 4 (thorough); object identity observed as the set of replaced paths; values outside the model's grammars are marked Unmodelled and skipped (counted in evidence).  Also decided on the generated schema family (MC_Config.MCFamilyAt2/3: every two-key root schema over 37 node shapes, a three-key family in the thorough tier; candidate values derived per field kind by ConfigMachine!Gen*): TLC, complete depth-1 graph replay and simulated behaviours on real objects for a seed-selected slice (quick: every 9th schema plus the same-shape diagonal; thorough: every 6th at depth 2), recorded traces on sampled schemas; read-only queries between steps, argument-aliasing probe, shared-container and schema-fingerprint observations (DESIGN.md 0.7 / 0.8).  The document-load clause is decided on IncludeLab (harness/props/loadfail.py: a rejected file load leaves the configuration as it was); C06_SetUnchanged is also checked on PersistMachine (rejected assignments of secrets, vault maps, adopted configurations).",
        technique="TLA+ action property over all routes x rejected values x prior states; replay into code; TLC trace validation",
        design="5/C06",
    ),
    "C12": dict(
        engine="ConfigMachine",
        text="TLC checks C12_Fresh (fresh configuration shows declared defaults, nothing user-defined except keywords), "
        "C12_Marks (the mark leaves exactly on an accepted assignment, never on a rejected one) and C12_Reset (value and mark "
        "restored, frame) on ConfigMachine over all interleavings of set / failed set / load / reset / constructor to the depth bound; "
        "conformance as for C01 with is_value_defined projected for every key at every depth.",
        note="Bounded instance MC_Config/SchemaA (scalars with bounds/transforms, typed list and dict, nested schemas with a validator, lists of schemas with and without defaults), candidate pools, depth 3 (quick) / 4 (thorough); object identity observed as the set of replaced paths; values outside the model's grammars are marked Unmodelled and skipped (counted in evidence).  Also decided on the generated schema family (MC_Config.MCFamilyAt2/3: every two-key root schema over 37 node shapes, a three-key family in the thorough tier; candidate values derived per field kind by ConfigMachine!Gen*): TLC, complete depth-1 graph replay and simulated behaviours on real objects for a seed-selected slice (quick: every 9th schema plus the same-shape diagonal; thorough: every 6th at depth 2), recorded traces on sampled schemas; read-only queries between steps, argument-aliasing probe, shared-container and schema-fingerprint observations (DESIGN.md 0.7 / 0.8).  The generated family runs with every operation followed by a reset of each field (NextThenReset).",
        technique="TLA+ invariants/action properties on default marks; replay into code; TLC trace validation",
        design="5/C12",
    ),
    "C13": dict(
        engine="ConfigMachine",
        text="TLC checks C13_Isolated (an operation on one configuration never changes the other, built before or after) on "
        "ConfigMachine; because the specification has value semantics, any aliasing in the implementation (shared default lists, "
        "shared item configurations, shared sub-configurations) shows up in conformance as a state change of the untouched "
        "configuration that the specification does not allow.",
        note="Bounded instance MC_Config/SchemaA (scalars with bounds/transforms, typed list and dict, nested schemas with a validator, lists of schemas with and without defaults), candidate pools, depth 3 (quick) / 4 (thorough); object identity observed as the set of replaced paths; values outside the model's grammars are marked Unmodelled and skipped (counted in evidence).  Also decided on the generated schema family (MC_Config.MCFamilyAt2/3: every two-key root schema over 37 node shapes, a three-key family in the thorough tier; candidate values derived per field kind by ConfigMachine!Gen*): TLC, complete depth-1 graph replay and simulated behaviours on real objects for a seed-selected slice (quick: every 9th schema plus the same-shape diagonal; thorough: every 6th at depth 2), recorded traces on sampled schemas; read-only queries between steps, argument-aliasing probe, shared-container and schema-fingerprint observations (DESIGN.md 0.7 / 0.8).",
        technique="TLA+ action property (frame on the other configuration); replay into code exposes aliasing; TLC trace validation",
        extra_note="  File loads are covered by the IncludeLab world (two configurations of one schema loading documents with includes; prefix file-load-sharing).",
        design="5/C13",
    ),
    "C02": dict(
        engine="PersistMachine",
        text="TLC checks C02_Reproduces (after to_tree -> document -> load into a fresh configuration every persistent value is "
        "equal, modulo exactly the two stated normalisations, elementwise) and C02_PlainTree (plain data, string keys, no virtual "
        "keys unless asked) on PersistMachine over all histories of assignments, round trips in each of the five formats "
        "(continuing with the re-loaded configuration) and renders; every transition of the level<=2 graph and of simulated "
        "behaviours is executed on a real Config: real dumps in the event's format, real loads into a fresh Config with the same "
        "key file, the real tree abstracted with independent cipher/hash implementations and compared leaf by leaf.",
        note="Bounded instance MC_Persist/SchemaP (scalars, bytes, digest, secrets with methods xor/aes/best, typed list/dict of bytes and secrets, nested schema, config type naming its own key file with a nested schema below it, list of schemas with secrets, virtual fields), fixed candidate values, depth 3/4; formats are a typed channel in the specification (the real encoders run in conformance); ciphertexts/digests abstracted by independent AES/XOR/hashlib implementations.  The round trip (dumps in each of the five real formats, load into a fresh configuration) is also an action of ConfigMachine (RoundTrip, predicate C02_Reproduces there; YAML key sorting and XML's key domain modelled as the format channel) and is decided on the generated schema family as for C01.",
        technique="TLA+ machine of to_tree/load_tree/round trip + TLC action property; transition replay with real documents in all five formats",
        design="5/C02",
    ),
    "C03": dict(
        engine="PersistMachine",
        text="TLC checks C03_KeyIsNearest (every encrypted leaf names a concrete method and the key file of the nearest "
        "ancestor - by containment - that names one) and C03_NoPlaintext on PersistMachine; in conformance the harness decides "
        "with an independent AES-256-CBC / XOR implementation WHICH key file encrypted each real ciphertext, records every key "
        "file the library opens or creates during dumps and loads (default key path redirected into the scratch directory) and "
        "searches the raw document bytes for secret plaintexts; all three are compared with the specification's event.",
        note="Bounded instance MC_Persist/SchemaP (scalars, bytes, digest, secrets with methods xor/aes/best, typed list/dict of bytes and secrets, nested schema, config type naming its own key file with a nested schema below it, list of schemas with secrets, virtual fields), fixed candidate values, depth 3/4; formats are a typed channel in the specification (the real encoders run in conformance); ciphertexts/digests abstracted by independent AES/XOR/hashlib implementations.  Also decided on the key-file placement family MC_Persist.SchemaK (three nested config types that may each name a key file x the root on the default or a named key file: 16 placements; quick = the all-named placement + two seeded ones, thorough = all), with ready-made type instances assigned and inserted.",
        technique="TLA+ invariants on key resolution over the schema tree; replay with real key files, independent decryption decides the key used",
        design="5/C03",
    ),
    "C10": dict(
        engine="PersistMachine",
        text="TLC checks C10_Mask (with a mask every non-empty sensitive value at every depth - root, sub-schema, config type, "
        "configuration inside a list, sensitive virtual field - is replaced by the mask (one character repeated to the value's "
        "length, otherwise verbatim) and every other leaf equals the unmasked rendering) for masks none/''/'*'/'XX' with and "
        "without virtual output over all reachable states; every Render transition is executed as to_tree(virtual, sensitive_mask) "
        "on a real Config and compared leaf by leaf.",
        note="Bounded instance MC_Persist/SchemaP (scalars, bytes, digest, secrets with methods xor/aes/best, typed list/dict of bytes and secrets, nested schema, config type naming its own key file with a nested schema below it, list of schemas with secrets, virtual fields), fixed candidate values, depth 3/4; formats are a typed channel in the specification (the real encoders run in conformance); ciphertexts/digests abstracted by independent AES/XOR/hashlib implementations.  Masks are rendered through to_tree, dumps() and save() in every format (the three routes must agree); a list of configurations marked sensitive.",
        technique="TLA+ invariant over to_tree with mask, stated per field independently of the rendering operator; replay into code",
        design="5/C10",
    ),
    "C17": dict(
        engine="CincoContainers",
        text="TLC checks C17_Same / C17_Return / C17_StillTyped / C17_Validated on CincoContainers: the typed list/dict as "
        "implemented next to a plain list/dict receiving the same method with normalised arguments, over every sequence of 25 list "
        "and 13 dict methods with arguments of every iterable kind to the depth bound; every transition is executed on a real "
        "ListProxy/DictProxy AND on a real plain list/dict, so the specification's model of the built-ins is itself checked.",
        note="Item/key/value fields and argument pools are fixed per instance (IntField(min=0) items, another typed list of the same "
        "storage type, upper-casing string keys); structural equality of items; result type of proxy*n and slice reads left free.  update(positional, **keywords) call form.",
        technique="TLA+ differential model (typed container vs built-in) + TLC invariants; transition replay on real proxies and real built-ins",
        design="5/C17",
    ),
    "C08": dict(
        engine="CincoCrypto",
        text="TLC checks C08_Inverse, C08_ConcreteMethod, C08_FreshIV, C08_WrongKey, C08_XorInvolution (bytes computed in TLA+ "
        "with the 32-byte key cycled) and C08_MalformedRejected over all sequences of encrypt / decrypt (same and other key) / "
        "malformed and truncated ciphertexts / 15 shapes of stored secrets; every transition is executed on real KeyFile and "
        "SecureField objects: AES values are decrypted by an independent implementation under every candidate key, their IV must "
        "be the output of exactly one os.urandom(16) draw, XOR bytes are compared with TLC's.",
        note="AES arithmetic and hash functions are symbolic in TLA+ (injective terms with nonce IVs/salts); that the real bytes are standard AES-256-CBC/PKCS7 resp. hash(salt+plaintext) is decided by the abstraction function with independent implementations (pure-Python AES validated against FIPS-197 / SP 800-38A vectors; hashlib); freshness of IVs/salts is observed at os.urandom, not proved; XOR and PKCS7 padding validity are computed concretely in TLA+.  Later rounds added: two encryptions inside one key session (EncryptPair), key files swapped between sessions (onfile / Swap), a key ending in LF, stored values without a method carrying a genuine ciphertext of the field's own method, the number of random draws as part of the compared state.",
        technique="TLA+ symbolic cipher model (concrete XOR/padding) + TLC invariants; transition replay with independent AES as abstraction function",
        design="5/C08",
    ),
    "C09": dict(
        engine="CincoCrypto",
        text="TLC checks C09_Exact (challenge succeeds iff the secret is the stored one), C09_FreshSalt, C09_SaltLen, "
        "C09_Survives (save/load in five formats and challenges never change salt or digest) and C09_HandWrittenHashed over six "
        "algorithms x eight secrets (empty, Unicode incl. non-NFKC text, 303 characters, bytes, containing ':'); every transition "
        "is executed on a real ChallengeField: the stored value is mapped to H(alg, salt, pt) by recomputing hashlib over the "
        "candidate secrets, the salt must be one fresh os.urandom(digest_size) draw, and str/repr/fields/documents are searched "
        "for the plaintext.",
        note="AES arithmetic and hash functions are symbolic in TLA+ (injective terms with nonce IVs/salts); that the real bytes are standard AES-256-CBC/PKCS7 resp. hash(salt+plaintext) is decided by the abstraction function with independent implementations (pure-Python AES validated against FIPS-197 / SP 800-38A vectors; hashlib); freshness of IVs/salts is observed at os.urandom, not proved; XOR and PKCS7 padding validity are computed concretely in TLA+.  Challenge fields that declare a (possibly empty) text default (BuildDefault); the number of random draws is part of the compared state.",
        technique="TLA+ symbolic digest model + TLC invariants/action properties; transition replay with hashlib recomputation as abstraction function",
        design="5/C09",
    ),
    "C15": dict(
        engine="ConfigMachine",
        text="TLC checks C15_Error (every rejection of a value for a declared field - any type or shape of value - is the "
        "library's ValidationError and names a declared path below the assignment's target: item index for configurations in "
        "lists, key for typed-dict entries) on ConfigMachine; the conformance step compares ValidationError.ref_path of every "
        "rejected attribute/dotted assignment, constructor keyword, tree load and list append/extend with the path the "
        "specification computes from the containment structure, and the exception class; the trace direction checks the class "
        "for random values of every shape.",
        note="Bounded instance MC_Config/SchemaA with nested schemas, a config type, lists of schemas and of config types (equal "
        "items), typed dicts at three positions; unknown keys, read-only virtual fields and container index/key errors are outside "
        "the statement; the index reported for an item rejected by insert()/item assignment is left free.  Also decided on the generated schema family (MC_Config.MCFamilyAt2/3: every two-key root schema over 37 node shapes, a three-key family in the thorough tier; candidate values derived per field kind by ConfigMachine!Gen*): TLC, complete depth-1 graph replay and simulated behaviours on real objects for a seed-selected slice (quick: every 9th schema plus the same-shape diagonal; thorough: every 6th at depth 2), recorded traces on sampled schemas; read-only queries between steps, argument-aliasing probe, shared-container and schema-fingerprint observations (DESIGN.md 0.7 / 0.8).",
        technique="TLA+ error-path model over the containment structure + TLC invariant; replay compares ref_path and exception class",
        design="5/C15",
    ),
    "C19": dict(
        engine="CincoSave",
        text="TLC checks C19_Untouched, C19_Exact, C19_LoadsBack, C19_SerialiseThenOpen and C19_FaultRaises exhaustively on "
        "CincoSave.tla, a program-counter model of Config.save (resolve format, encode each field, open key file / encrypt, "
        "formatter dump, open destination for writing, write, close) with a fault injected at every step, over field kinds x "
        "formats x key-file states x pairs of faults and repeated saves; every behaviour TLC enumerates is executed on the real "
        "library with faults injected from outside (faulting field/format subclasses, wrong-size key file, out-of-domain "
        "values) while builtins.open/os.open/os.replace are wrapped and the destination bytes are read at every observed step; "
        "seeded random save scripts are replayed by Trace_CincoSave.tla.",
        note="Third-party encoders are channels with a domain predicate; faults of the destination's own open/write/close (disk "
        "full) are outside the quantifier; equality after load is modulo the two normalisations C02 names.",
        technique="TLA+ step machine with fault injection at every program point + TLC; behaviour replay with outside fault injection; TLC trace validation",
        design="5/C19",
    ),
    "C20": dict(
        engine="CincoStubs",
        text="TLC checks C20_Valid, C20_Complete, C20_Quiet and the action properties C20_ReturnedMC / C20_NoSideEffectMC on "
        "CincoStubs.tla (generate_stub and get_method_annotation transcribed down to parameter-list tokens, plus a transcription "
        "of Python's parameter grammar that reads them back) over schema descriptors with all 19 field classes, typed "
        "containers, nested schemas, config types, virtual fields and instance methods with every parameter and annotation "
        "kind; each case is run on real objects (functions compiled from the signature descriptor), the stub text is parsed "
        "with ast and compile() and abstracted to the same record, schema/config/stdout are snapshotted before and after; "
        "random wider schemas are replayed by Trace_Stubs.tla.",
        note="ast.parse + compile() is the syntax oracle; exact annotation strings are compared as drift only; keys that are "
        "Python keywords or 'self' are outside the quantifier (identifier keys).",
        technique="TLA+ transcription of stub generation + parameter grammar, TLC invariants; case replay with ast abstraction; TLC trace validation",
        design="5/C20",
    ),
    "C11": dict(
        engine="ConfigMachine",
        text="TLC checks C11_ReturnImplies (a load or validate that returns implies every required field of every enabled "
        "(sub)configuration is set and non-empty and every validator of every enabled (sub)configuration was invoked and "
        "passed), C11_CollectIffRaise and C11_ItemsHeld on ConfigMachine with instance SchemaV (required fields with and without "
        "defaults, a field validator, schema validators at three depths incl. a config type, a feature-flagged sub-configuration, "
        "a list of configurations whose schema has a validator); the conformance step registers logging validators and compares "
        "the set of (configuration path, validator) invocations and the outcome of every load / validate / collecting validate.",
        note="Bounded instance and candidate pools; the specification models the order of validation (fields in declaration order, "
        "nested configurations completely, then schema validators; first failure ends the run) and that validating a list of "
        "configurations does not descend into its items.  Also the generated schema family with every operation followed by validate() / validate(collect_errors=True) (NextThenValidate), required containers emptied in place, a flagged section holding a list of configurations, items inserted again after being invalidated (C11_ItemsInserted).",
        technique="TLA+ model of Schema._validate with an invocation log + TLC invariants; replay with logging validators; TLC trace validation",
        design="5/C11",
    ),
    "C14": dict(
        engine="EnvMachine",
        text="TLC checks C14_Name (the variable name stated declaratively - explicit, or upper-cased keys below the nearest "
        "configuring schema joined by '_' - against the top-down derivation), C14_EnvWins, C14_InvalidFailsBuild, C14_AssignWins "
        "and C14_NoBinding on EnvMachine over the full 4x4 setting matrix at depths 1-3 (1024 schemas; 192 in the quick tier) x "
        "three process environments (valid / invalid / empty / unset per derived name) x histories of build, load, assign, reset; "
        "every transition is replayed on real schemas built top-down under the same os.environ.",
        note="Environment fixed within a behaviour; list/dict/challenge-default fields do not read variables in cincoconfig and are "
        "outside the family.  A mixed-case named prefix; eligible schemas are assembled by dotted item assignment instead of attribute assignment.",
        technique="TLA+ machine over a schema family x environment profiles + TLC invariants/action properties; transition replay under real os.environ",
        design="5/C14",
    ),
    "C16": dict(
        engine="ArgMachine",
        text="TLC checks C16_PathsAgree (every enumerated path resolves by dotted lookup to the same field, no duplicates), "
        "C16_Options (exactly one option per str/int/float field, an on/off pair per bool field, destination = path, none for other "
        "fields) and the action property C16_OnlySupplied (an override changes exactly the supplied, non-ignored destinations to "
        "their validated values and nothing else; the empty command line changes nothing) on ArgMachine, which also models "
        "argparse's store/store_true/store_false semantics; every transition is replayed: the real generated ArgumentParser "
        "parses the real argv, cmdline_args_override applies it, and Describe cases compare get_all_fields / schema[path] / "
        "item_ref_path / config[path] / membership / the option table for a schema built top-down and one assembled bottom-up.",
        note="One schema instance (all scalar storage types, list, virtual field, two nested levels, keys with '_'), 17 command "
        "lines x 3 ignore lists (none / str / list) x configuration states; root schemas only; argparse abbreviations disabled.  Two further schema shapes (SchemaG2: every string-like field class, port, fields without an option, three nesting levels with '_' and digits in keys, a config type; SchemaG3: options only below the root) with command lines, ignore lists and assignments derived from the schema's own option table (MC_Arg.GenArgPool / GenIgnore / GenSetCandsA).",
        technique="TLA+ model of enumeration, lookup, option generation, argparse and override + TLC; transition replay through the real parser",
        design="5/C16",
    ),
    "C04": dict(
        engine="CincoFormats",
        text="TLC checks C04_RoundTrip, C04_XmlInverse, C04_OptionsNeutral, C04_WrongRootRejected and C04_Agree exhaustively on "
        "FormatLab (CincoFormats.tla): the XML element mapping is modelled in detail (type attribute, bool tested before int, "
        "text fall-back, item children, empty text, forced root type, root tag check, CR/CRLF normalisation of the parser), YAML "
        "root_key wrap/unwrap, JSON pretty, BSON/pickle as typed channels with domain predicates; every tree session TLC "
        "enumerates runs the real dumps/loads pairs of all five formats with all option values (typed, NaN-aware, "
        "sign-of-zero-aware equality; every XML document is also parsed independently and compared with the specification's "
        "element tree); random trees (depth 5, width 6, wide Unicode, 64-bit boundary ints, arbitrary doubles, random options) "
        "are logged and re-evaluated by TLC (Trace_Formats).",
        note="Byte-level behaviour of json/yaml/bson/pickle/minidom is measured by conformance only; domains as the property "
        "states (XML Chars without CR, XML names as keys, 64-bit ints for BSON); one known finding (map keys containing ':' in XML).",
        technique="TLA+ model of the XML mapping and format options + TLC invariants; enumerated trees through all real formats; TLC re-evaluation of recorded runs",
        design="5/C04",
    ),
    "C18": dict(
        engine="CincoInclude",
        text="TLC checks C18_MergeLaw (stated per leaf path, independently of the recursive Merge), C18_Pure, C18_Equivalent "
        "(loading a document with includes = loading the merged tree: same final state or same rejection) and C18_PathRule on "
        "IncludeLab (CincoInclude.tla: combine_trees, _process_includes in the code's order over schema scopes, include path "
        "validation against the start directory, an abstract file system with missing / directory / unparseable files); every "
        "case is replayed with real files in a scratch directory in all five formats, combine_trees arguments are deep-copied "
        "and compared afterwards; random trees / schemas / file systems are logged and validated by Trace_Include. The same "
        "machinery provides the document-load clause of C06 (harness/props/loadfail.py).",
        note="Bounded trees (<= 4 keys, depth <= 3) and include chains of two per scope; formats are channels; relative, absolute "
        "and home-relative start directories.",
        technique="TLA+ model of merge and include processing + TLC invariants; replay with real include files in five formats; TLC trace validation",
        design="5/C18",
    ),
}

EXTRA = {
    "C02": "  Later rounds: the schema family with every first step followed by dumps / fresh loads in each format (NextThenRoundTrip); Rebuild (constructor keywords holding the stored trees of sub-configurations); Adopt (a configuration of another root assigned as a sub-configuration); save + load next to dumps + loads, compared as abstract trees; keys with '-' and '.', blank / 16 / 32-character secrets, 60-byte blobs.  Round 7: an unbounded float with the infinities, secrets two list levels down, a second vault type of the same schema object and class name, key rotation between saves (Rekey); an imported unsalted digest (a ready-made DigestValue with salt b\"\") assigned to the challenge field and carried through every format.",
    "C03": "  Key-file placement family (harness/props/persistk.py): SchemaK with three config types that may each name a key file x the root on the default or a named key file = 16 placements (quick: all-named + two seeded; thorough: all), real key files per placement, every ciphertext attributed to a key file by independent decryption, key files opened recorded by wrapping builtins.open.  Round 7: SchemaP nl = ListField(ListField(SecureField())), vault2 (one schema object and one class name, two key files), Rekey (every key file gets a new key between two saves; ciphertexts are attributed to the keys on file NOW).",
    "C07": "  Later rounds: malformed contents hex / hex+newline / key+LF / key+CRLF (ExtBad), an external writer replacing or removing the file while a context is open (ExternalDuring), Decrypt probing every 32-byte candidate key.",
    "C08": "  Later rounds: Swap (the key file replaced between operations; stored shapes relative to the key now on file), EncryptPair (two encryptions of one plaintext: distinct IVs), BuildDefault (a secure field with a default), nonce count in the compared state, rare 4 KiB plaintexts.  Round 7: DecryptExtended (1..15 bytes after the last block), FailedOpen (a failed session leaves nothing behind: FailedOpen, Encrypt, Swap, Encrypt).",
    "C09": "  Later rounds: challenge defaults (BuildDefault: salt drawn at build), hand-written digests in documents, non-digest values, secrets unique across names in the driver.",
    "C10": "  Sensitive composites (a sensitive typed list / dict) are Unmodelled in Render and skipped (counted).",
    "C01": "  Round 7: SchemaB has file-name fields (exists true / false) below a start directory that is not the working directory; the Config world runs on the abstract file system of CincoFields.FsKind (scratch directory, working directory set per step).",
    "C11": "  Round 7: a key declared twice (feature flag first, plain bool last: the section has no flag); a rejected insertion of a ready-made configuration is repeated with the same object and must be rejected again.",
    "C13": "  The thorough tier found defect 509ec74 (an untyped DictField aliasing the assigned dict between configurations; repaired); the argument-aliasing probe now covers untyped dicts.",
    "C14": "  Explicit assignment goes through the three public routes in turn: attribute, dotted item of the root, cmdline_args_override.",
    "C12": "  Also the schema family with every first step followed by reset of every key (NextThenReset), item-level reset and same-value item assignment on typed lists.",
    "C15": "  C15_DictItemError: item assignment / setdefault on typed dicts (incl. a map of typed maps) compare the full reference path with the key.",
    "C17": "  Keyword update, reflected add / or (radd, ror).",
    "C18": "  Formatter options (YAML root_key, XML root_tag, JSON pretty) given to loads(), under which the including document and the included files are read; a decoy load of another configuration from a sibling directory precedes each case.",
    "C19": "  Later rounds: tuple-valued fields (Accepts / Coerces), destination names with $VARIABLE kept literally, destinations that are symbolic links, plain ints beyond 16 bits.  Round 7: key-file state nodir (its directory does not exist: no key, no save); a missing earlier document is reported as a deviation.",
    "C20": "  Later rounds: classes local to a function and nested classes inside typing generics / unions (defect 2dbdf54 repaired), tuple return annotations (Unrendered), functools.partial instance methods, help text on fields, a Diagnoser that renders every field / annotation alone to name the shape a rejected stub fails on.  Round 7: one virtual field object under two keys; virtual getters that are functools.partial objects / callable instances.",
}

PENDING_REASON = "check not built yet in this round (planned, see DESIGN.md section 5); nothing is claimed for it"


def build():
    props = [json.loads(l)["id"] for l in open(os.path.join(VERIF, "properties.jsonl"))]
    checks = []
    for pid in props:
        c = CHECKS.get(pid)
        if not c:
            continue
        checks.append(
            {
                "property_id": pid,
                "quick_cmd": "./check %s --tier quick" % pid,
                "thorough_cmd": "./check %s --tier thorough" % pid,
                "evidence_file": "/verif/evidence/%s.json" % pid,
                "replay_cmd_template": "./check %s --replay {path}" % pid,
                "engine": c["engine"],
                "level_claimed": {
                    "category": c.get("level", "model_checking"),
                    "text": c["text"],
                    "design_ref": "DESIGN.md section " + c["design"],
                },
                "level_note": c["note"] + c.get("extra_note", "") + EXTRA.get(pid, ""),
                "technique": c["technique"],
            }
        )
    man = {
        "version": 1,
        "setup_cmd": "./check --setup",
        "hooks": {
            "guard": "CINCOCONFIG_VERIF",
            "enable": "no source hooks are needed: the harness imports /repo's working tree directly (pure Python) and observes "
            "through the public API; the guard variable is set by the harness but no library code reads it",
            "baseline_off_cmd": "cd /repo && env -u CINCOCONFIG_VERIF /venv/bin/python -m pytest -ra -q -p no:cacheprovider --timeout=900 --continue-on-collection-errors",
            "source_commits": [],
            "add_only": True,
        },
        "engines": [
            {
                "name": "tlc+conformance",
                "path": "/verif/harness",
                "serves_properties": sorted(CHECKS),
                "kind_free_text": "explicit TLA+ specifications (spec/*.tla) model-checked with TLC; bound to the code by "
                "(a) replaying every TLC-generated transition into the real library and (b) validating traces recorded "
                "from the real library against trace specifications with TLC",
            }
        ],
        "checks": checks,
        "notes": "One entry point: ./check <ID> --tier quick|thorough.  Exit 0 = held, 1 = VIOLATION line, 2 = machinery failure.",
        "not_applicable": [
            {"property_id": pid, "reason": NA.get(pid, PENDING_REASON)} for pid in props if pid not in CHECKS
        ],
    }
    with open(os.path.join(VERIF, "MANIFEST.json"), "w") as fp:
        json.dump(man, fp, indent=1)
        fp.write("\n")
    return man


NA = {}

if __name__ == "__main__":
    m = build()
    print("checks:", [c["property_id"] for c in m["checks"]])
