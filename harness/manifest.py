"""Generates /verif/MANIFEST.json from one table (python -m harness.manifest)."""
import json
import os

VERIF = os.path.dirname(os.path.dirname(os.path.abspath(__file__)))

CHECKS = {
    "C07": dict(
        engine="CincoKeyFile",
        text="TLC exhaustively checks the six C07 predicates (key released at refcount 0, open context holds exactly the "
        "file's valid key, crypt gate, file never modified, created once with a fresh key, malformed file rejected on every "
        "attempt, nested contexts share the key) on spec/CincoKeyFile.tla for 3 objects / 2 paths / nesting 2-3; every "
        "transition of that graph is executed on real KeyFile objects over a scratch directory, and seeded random session "
        "scripts recorded from the real code are validated by TLC against Trace_KeyFile.tla with the predicates evaluated on "
        "every observed step.  A history property of a small protocol: exactly what a model checker decides.",
        note="Bounded instance (nesting, number of generated keys); file contents abstracted to size class / key identity; "
        "reference counts are inferred by the spec; unwritable directory realised as missing directory (checks run as root); "
        "independent AES in harness/props/aesref.py identifies which key encrypted.",
        technique="TLA+ spec + TLC exhaustive invariants/action properties; graph replay into code; TLC trace validation of recorded runs",
        design="5/C07",
    ),
}

PENDING_REASON = "check not built yet in this round (planned, see DESIGN.md section 5); nothing is claimed for it"


def build():
    props = [json.loads(l)["id"] for l in open(os.path.join(VERIF, "properties.jsonl"))]
    checks = []
    for pid in props:
        c = CHECKS.get(pid)
        if not c:
            continue
        checks.append(
            {
                "property_id": pid,
                "quick_cmd": "./check %s --tier quick" % pid,
                "thorough_cmd": "./check %s --tier thorough" % pid,
                "evidence_file": "/verif/evidence/%s.json" % pid,
                "replay_cmd_template": "./check %s --replay {path}" % pid,
                "engine": c["engine"],
                "level_claimed": {
                    "category": c.get("level", "model_checking"),
                    "text": c["text"],
                    "design_ref": "DESIGN.md section " + c["design"],
                },
                "level_note": c["note"],
                "technique": c["technique"],
            }
        )
    man = {
        "version": 1,
        "setup_cmd": "./check --setup",
        "hooks": {
            "guard": "CINCOCONFIG_VERIF",
            "enable": "no source hooks are needed: the harness imports /repo's working tree directly (pure Python) and observes "
            "through the public API; the guard variable is set by the harness but no library code reads it",
            "baseline_off_cmd": "cd /repo && env -u CINCOCONFIG_VERIF /venv/bin/python -m pytest -ra -q -p no:cacheprovider --timeout=900 --continue-on-collection-errors",
            "source_commits": [],
            "add_only": True,
        },
        "engines": [
            {
                "name": "tlc+conformance",
                "path": "/verif/harness",
                "serves_properties": sorted(CHECKS),
                "kind_free_text": "explicit TLA+ specifications (spec/*.tla) model-checked with TLC; bound to the code by "
                "(a) replaying every TLC-generated transition into the real library and (b) validating traces recorded "
                "from the real library against trace specifications with TLC",
            }
        ],
        "checks": checks,
        "notes": "One entry point: ./check <ID> --tier quick|thorough.  Exit 0 = held, 1 = VIOLATION line, 2 = machinery failure.",
        "not_applicable": [
            {"property_id": pid, "reason": NA.get(pid, PENDING_REASON)} for pid in props if pid not in CHECKS
        ],
    }
    with open(os.path.join(VERIF, "MANIFEST.json"), "w") as fp:
        json.dump(man, fp, indent=1)
        fp.write("\n")
    return man


NA = {}

if __name__ == "__main__":
    m = build()
    print("checks:", [c["property_id"] for c in m["checks"]])
