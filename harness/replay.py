"""spec -> code: step the behaviours TLC generated through the real library.

TLC prints every transition it generates as  [from |-> St, ev |-> ev', to |-> St']  (and
every initial state).  We rebuild the labelled state graph from those lines, and for every
distinct (state, operation+arguments) pair - a "case" - bring a fresh instance of the real
system into that state by replaying a shortest path of events from an initial state, perform
the operation on the real code, and compare

  * what the call returned / raised      with  ev   (only the fields the adapter observes)
  * the projected state of the real code with  to   (only the fields the adapter projects)

Where the specification leaves a choice open (several edges for the same case), the
implementation has to match one of them.
"""
import collections
import os
import json
import random


def canon(x):
    return json.dumps(x, sort_keys=True, separators=(",", ":"))


class Graph:
    def __init__(self, inits, edges):
        self.inits = []
        seen = set()
        for s in inits:
            c = canon(s)
            if c not in seen:
                seen.add(c)
                self.inits.append(s)
        # case key -> list of (ev, to); keyed by from-state and the operation's input fields
        self.out = collections.OrderedDict()  # from canon -> {casekey: [(ev, to)]}
        self.state = {}
        self.n_edges = 0
        dedup = set()
        for e in edges:
            f, ev, t = e["from"], e["ev"], e["to"]
            cf = canon(f)
            key = (cf, canon(ev), canon(t))
            if key in dedup:
                continue
            dedup.add(key)
            self.n_edges += 1
            self.state[cf] = f
            self.state.setdefault(canon(t), t)
            self.out.setdefault(cf, collections.OrderedDict())
            self.out[cf].setdefault(case_key(ev), []).append((ev, t))
        self._parents()

    def _parents(self):
        """BFS shortest paths (as lists of (casekey, ev, to)) from the initial states."""
        self.parent = {}
        q = collections.deque()
        for s in self.inits:
            c = canon(s)
            if c not in self.parent:
                self.parent[c] = None
                q.append(c)
        while q:
            c = q.popleft()
            for ck, alts in self.out.get(c, {}).items():
                for ev, t in alts:
                    ct = canon(t)
                    if ct not in self.parent:
                        self.parent[ct] = (c, ev, t)
                        q.append(ct)

    def path_to(self, c):
        path = []
        while self.parent.get(c) is not None:
            pc, ev, t = self.parent[c]
            path.append((ev, t))
            c = pc
        path.reverse()
        return self.state.get(c) if c in self.state else None, c, path

    def cases(self):
        for cf, by_case in self.out.items():
            if cf not in self.parent:
                continue  # unreachable in the exported fragment (simulation cut)
            for ck, alts in by_case.items():
                yield cf, ck, alts


# Event fields that are *results* of a call; everything else identifies the call.
RESULT_FIELDS = {"out", "ret", "usedkey", "method", "err", "val", "res", "path", "errpath", "log", "extra",
                 "typed", "acceptable", "rop", "rout", "rret", "repl", "tree", "keys", "leak", "nonplain", "sv", "notpt", "vlog", "ns", "paths", "options", "dests", "atomic", "asdict", "computed", "cteq", "sv2"}


# fields that are results in one machine but the argument of these operations
ARGUMENT_HERE = {("tree", "Load"), ("sv", "DecryptBad")}


def case_key(ev):
    # ("tree" is the result of PersistMachine's Render / RoundTrip but the *argument* of a Load)
    op = ev.get("op")
    op = op if isinstance(op, str) else None
    return canon({k: v for k, v in ev.items() if k not in RESULT_FIELDS or (k, op) in ARGUMENT_HERE})


class Mismatch:
    def __init__(self, kind, init, path, ev, expected, observed, detail):
        self.kind = kind
        self.init = init
        self.path = path
        self.ev = ev
        self.expected = expected
        self.observed = observed
        self.detail = detail

    def to_json(self):
        return {
            "kind": self.kind,
            "init": self.init,
            "history": [ev for ev, _ in self.path],
            "event": self.ev,
            "expected_by_spec": self.expected,
            "observed_on_code": self.observed,
            "detail": self.detail,
        }


def _matches(obs_ev, obs_state, ev, to):
    if ev.get("out") == "Unmodelled":
        return None  # the specification does not describe this input
    for k, v in obs_ev.items():
        if k in ev and ev[k] != v:
            return "event field %r: spec %r, code %r" % (k, ev[k], v)
        if k not in ev and k in RESULT_FIELDS and v is not None:
            return "event field %r: spec has none, code %r" % (k, v)
    for k, v in obs_state.items():
        if k in to and to[k] != v:
            return "state variable %r: spec %r, code %r" % (k, to[k], v)
    return None


_PAR = {}


def _par_worker(k):
    adapter, graph, cases, procs, stop_after = _PAR["job"]
    return _run_cases(adapter, graph, cases[k::procs], stop_after)


def run_graph(adapter, graph, max_cases=None, seed=0, stop_after=20, procs=None):
    """Execute every case of the graph (or a seeded sample of max_cases) on the real code.

    Returns (stats, mismatches).  Large graphs are replayed by several forked worker processes
    (every case builds its own fresh objects, so cases are independent); procs=1 forces one."""
    cases = list(graph.cases())
    total_cases = len(cases)
    if max_cases is not None and len(cases) > max_cases:
        rng = random.Random(seed)
        cases = rng.sample(cases, max_cases)
    if procs is None:
        procs = 8 if len(cases) >= 4000 and os.environ.get("VERIF_REPLAY_PROCS", "") != "1" else 1
    if procs > 1:
        import multiprocessing

        _PAR["job"] = (adapter, graph, cases, procs, stop_after)
        try:
            with multiprocessing.get_context("fork").Pool(procs) as pool:
                parts = pool.map(_par_worker, range(procs))
        finally:
            _PAR.pop("job", None)
        stats = collections.Counter()
        by_op = collections.Counter()
        mismatches = []
        for st, mm in parts:
            by_op.update(st.pop("by_op"))
            stats.update(st)
            mismatches += mm
        stats["by_op"] = dict(by_op)
        stats["cases_in_graph"] = total_cases
        return stats, mismatches[: max(stop_after, 1)]
    stats, mismatches = _run_cases(adapter, graph, cases, stop_after)
    stats["cases_in_graph"] = total_cases
    return stats, mismatches


def _run_cases(adapter, graph, cases, stop_after):
    stats = collections.Counter()
    mismatches = []
    by_op = collections.Counter()
    for cf, ck, alts in cases:
        init_c = cf
        root, init_c, path = graph.path_to(cf)
        init_state = graph.state.get(init_c)
        if init_state is None:
            # an initial state with no outgoing edge recorded
            init_state = next(s for s in graph.inits if canon(s) == init_c)
        sut = adapter.start(init_state)
        try:
            diverted = False
            for ev, to in path:
                if ev.get("out") == "Unmodelled":
                    diverted = True
                    break
                obs_ev = adapter.step(sut, ev)
                obs_state = adapter.observe(sut)
                stats["steps"] += 1
                why = _matches(obs_ev, obs_state, ev, to)
                if why is not None:
                    # the prefix itself is a case of its own and is reported there
                    diverted = True
                    break
            if diverted:
                stats["diverted_prefix"] += 1
                continue
            ev0 = alts[0][0]
            if all(ev.get("out") == "Unmodelled" for ev, _ in alts):
                stats["unmodelled_cases"] += 1
                continue
            try:
                obs_ev = adapter.step(sut, ev0)
                obs_state = adapter.observe(sut)
            except Exception as exc:  # noqa
                # the real objects are in a condition the projection cannot even read (on the
                # unchanged tree this never happens): that is a difference from the specification,
                # not a failure of the machinery
                import traceback

                stats["cases"] += 1
                mismatches.append(
                    Mismatch(
                        "observation-raised",
                        init_state,
                        path,
                        ev0,
                        [{"ev": ev, "to": to} for ev, to in alts],
                        {"exception": "%s: %s" % (type(exc).__name__, exc), "traceback": traceback.format_exc()[-1500:]},
                        "observation-raised: performing or observing the step raised %s: %s" % (type(exc).__name__, str(exc)[:200]),
                    )
                )
                if len(mismatches) >= stop_after:
                    break
                continue
            stats["steps"] += 1
            stats["cases"] += 1
            opname = ev0.get("op", "?")
            if isinstance(opname, dict):
                opname = "%s.%s" % (ev0.get("c", ""), opname.get("m", "?"))
            by_op[opname] += 1
            whys = []
            for ev, to in alts:
                why = _matches(obs_ev, obs_state, ev, to)
                if why is None:
                    break
                whys.append(why)
            else:
                mismatches.append(
                    Mismatch(
                        "step-differs",
                        init_state,
                        path,
                        ev0,
                        [{"ev": ev, "to": to} for ev, to in alts],
                        {"ev": obs_ev, "state": obs_state},
                        "; ".join(whys),
                    )
                )
                if len(mismatches) >= stop_after:
                    break
        finally:
            adapter.close(sut)
    stats["by_op"] = dict(by_op)
    return stats, mismatches
