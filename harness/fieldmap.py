"""Build real cincoconfig field objects from the field descriptors of spec/CincoFields.tla."""
from . import codec

REGEX = {"none": None, "R1": r"[a-z]+\Z", "R2": "a", "R3": "[0-9]{2}"}


def _v_even(cfg, value):
    if not isinstance(value, int) or value % 2:
        raise ValueError("value must be even")
    return value


def _v_fail(cfg, value):
    raise ValueError("always rejected")


def _v_neg(cfg, value):
    return -value if isinstance(value, int) and not isinstance(value, bool) else value


FIELD_VALIDATORS = {"v_even": _v_even, "v_fail": _v_fail, "v_neg": _v_neg}


def _str(x):
    return "".join(codec.seq(x))


def common_kwargs(d, root, with_default=True):
    kw = {}
    if d.get("required"):
        kw["required"] = True
    if with_default and d.get("default", {"t": "none"})["t"] != "none":
        kw["default"] = codec.to_py(d["default"], root)
    if d.get("dcall") and "default" in kw:
        # the default is given as a callable producing a fresh value each time it is asked
        import copy

        kw["default"] = lambda _v=kw["default"]: copy.deepcopy(_v)
    if d.get("sensitive"):
        kw["sensitive"] = True
    if d.get("fname"):
        kw["name"] = d["fname"]
    if d.get("help"):
        kw["help"] = d["help"]
    if d.get("fval", "none") != "none":
        kw["validator"] = FIELD_VALIDATORS[d["fval"]]
    env = d.get("env") or {"m": "inherit"}
    if env["m"] == "auto":
        kw["env"] = True
    elif env["m"] == "off":
        kw["env"] = False
    elif env["m"] == "name":
        kw["env"] = "".join(codec.seq(env["n"]))
    return kw


def string_kwargs(d):
    kw = {}
    if d["minlen"] >= 0:
        kw["min_len"] = d["minlen"]
    if d["maxlen"] >= 0:
        kw["max_len"] = d["maxlen"]
    if d["regex"] != "none":
        kw["regex"] = REGEX[d["regex"]]
    ch = codec.seq(d["choices"])
    if ch:
        kw["choices"] = [_str(c) for c in ch]
    if d["tcase"] != "none":
        kw["transform_case"] = d["tcase"]
    if d["stripm"] == "ws":
        kw["transform_strip"] = True
    elif d["stripm"] == "chars":
        kw["transform_strip"] = "".join(sorted(codec.seq(d["stripcs"])))
    return kw


def build(cinco, d, root=None, with_default=True):
    """Return a fresh field object for descriptor d (None for 'nofield')."""
    F = cinco.fields
    kind = d["kind"]
    if kind == "nofield":
        return None
    kw = common_kwargs(d, root, with_default)
    cls = d.get("cls")
    if cls == "port":
        return F.PortField(**kw)
    if cls == "loglevel":
        return F.LogLevelField(**kw)
    if cls == "appmode_default":
        return F.ApplicationModeField(**kw)
    if kind == "any":
        return cinco.AnyField(**kw)
    if kind in ("string", "ipv4addr", "ipv4net", "hostname", "url", "filename"):
        kw.update(string_kwargs(d))
        if kind == "string" and d.get("appmode"):
            # ApplicationModeField: choices = modes, lower-cased and stripped, helper virtual fields
            for k in ("choices", "transform_case", "transform_strip"):
                kw.pop(k, None)
            return F.ApplicationModeField(modes=[_str(c) for c in codec.seq(d["choices"])], **kw)
        if kind == "string":
            return F.StringField(**kw)
        if kind == "ipv4addr":
            return F.IPv4AddressField(**kw)
        if kind == "ipv4net":
            if d["minpfx"] >= 0:
                kw["min_prefix_len"] = d["minpfx"]
            if d["maxpfx"] >= 0:
                kw["max_prefix_len"] = d["maxpfx"]
            return F.IPv4NetworkField(**kw)
        if kind == "hostname":
            return F.HostnameField(allow_ipv4=d["allow_ipv4"], **kw)
        if kind == "url":
            return F.UrlField(**kw)
        if kind == "filename":
            ex = {"none": None, "true": True, "false": False, "dir": "dir", "file": "file"}[d["exists"]]
            sd = _str(d["startdir"]).replace("$", root or "$") or None
            return F.FilenameField(exists=ex, startdir=sd, **kw)
    if kind in ("int", "float"):
        scale = 1 if kind == "int" else 0.5
        if d["hasmin"]:
            kw["min"] = d["min"] * scale if kind == "float" else d["min"]
        if d["hasmax"]:
            kw["max"] = d["max"] * scale if kind == "float" else d["max"]
        return F.IntField(**kw) if kind == "int" else F.FloatField(**kw)
    if kind == "bool":
        return F.FeatureFlagField(**kw) if d.get("flag") else F.BoolField(**kw)
    if kind == "bytes":
        return F.BytesField(encoding=d["encoding"], **kw)
    if kind == "secure":
        kw.pop("sensitive", None)
        return F.SecureField(method=d["method"], sensitive=bool(d.get("sensitive", True)), **kw)
    if kind == "challenge":
        return F.ChallengeField(d["alg"], **kw)
    if kind == "list":
        return F.ListField(build(cinco, d["item"], root), **kw)
    if kind == "dict":
        return F.DictField(build(cinco, d["keyf"], root), build(cinco, d["valf"], root), **kw)
    raise ValueError("unknown field kind %r" % (kind,))


def exc_class(exc):
    """Abstract class name of an exception raised by a field."""
    import cincoconfig

    if isinstance(exc, cincoconfig.ValidationError):
        return "ValidationError"
    for cls in (OverflowError, ValueError, TypeError, AttributeError, KeyError):
        if isinstance(exc, cls):
            return cls.__name__
    return type(exc).__name__
