"""python3-vt -m harness.validate : validate MANIFEST.json and evidence files against the schemas."""
import json, sys, glob
import jsonschema
ok = True
man = json.load(open("/verif/MANIFEST.json"))
jsonschema.validate(man, json.load(open("/root/.vp/MANIFEST.schema.json")))
sch = json.load(open("/root/.vp/EVIDENCE.schema.json"))
for c in man["checks"]:
    try:
        jsonschema.validate(json.load(open(c["evidence_file"])), sch)
    except Exception as e:
        ok = False
        print("INVALID", c["evidence_file"], str(e)[:300])
print("valid" if ok else "INVALID")
sys.exit(0 if ok else 1)
