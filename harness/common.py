"""Shared plumbing of the checks: importing the library under test, verdicts, evidence files,
known findings."""
import hashlib
import json
import os
import re
import sys
import time

VERIF = os.path.dirname(os.path.dirname(os.path.abspath(__file__)))
REPO = os.environ.get("CINCO_REPO", "/repo")
GUARD = "CINCOCONFIG_VERIF"


def import_repo():
    """Import cincoconfig from the working tree under test (never from an installed copy)."""
    os.environ[GUARD] = "1"
    if sys.path[0] != REPO:
        sys.path.insert(0, REPO)
    for name in [m for m in sys.modules if m == "cincoconfig" or m.startswith("cincoconfig.")]:
        del sys.modules[name]
    import cincoconfig  # noqa

    here = os.path.realpath(os.path.dirname(cincoconfig.__file__))
    want = os.path.realpath(os.path.join(REPO, "cincoconfig"))
    if here != want:
        raise RuntimeError("cincoconfig imported from %s, expected %s" % (here, want))
    return cincoconfig


class Outcome:
    """What one run of a check found."""

    def __init__(self, prop):
        self.prop = prop
        self.violations = []  # list of dicts: {"signature": str, "summary": str, "replay": {...}}
        self.coverage = {}
        self.assumptions = []
        self.notes = []

    def violation(self, signature, summary, replay):
        self.violations.append({"signature": signature, "summary": summary, "replay": replay})


def load_known(prop):
    path = os.path.join(VERIF, "known_findings.json")
    if not os.path.exists(path):
        return []
    with open(path) as fp:
        data = json.load(fp)
    return [f for f in data.get("findings", []) if f.get("property") == prop]


def hash_case(x):
    return hashlib.sha1(json.dumps(x, sort_keys=True, default=str).encode()).hexdigest()[:16]


def finish(outcome, tier, seed, wall, level="model_checking"):
    """Write the evidence file, print verdict lines, return the exit status."""
    prop = outcome.prop
    known = load_known(prop)
    unknown = []
    reported_known = {}
    for v in outcome.violations:
        hit = None
        for k in known:
            if re.search(k["signature"], v["signature"]):
                hit = k
                break
        if hit is not None:
            reported_known.setdefault(hit["id"], (hit, []))[1].append(v)
        else:
            unknown.append(v)
    for kid, (k, vs) in sorted(reported_known.items()):
        print("KNOWN-FINDING: property=%s %s [%s; %d occurrence(s) this run]" % (prop, k["what"], kid, len(vs)))
    status = 0
    out_root = os.environ.get("VERIF_OUT_DIR") or VERIF  # (tools/seedmatrix.py redirects its runs)
    os.makedirs(os.path.join(out_root, "replays"), exist_ok=True)
    seen_sig = set()
    n = 0
    for v in unknown:
        if v["signature"] in seen_sig:
            continue
        seen_sig.add(v["signature"])
        n += 1
        if n > 10:
            break
        path = os.path.join(out_root, "replays", "%s-%s-%d.json" % (prop, tier, n))
        with open(path, "w") as fp:
            json.dump(
                {"property": prop, "signature": v["signature"], "summary": v["summary"], "replay": v["replay"]},
                fp,
                indent=1,
                sort_keys=True,
                default=str,
            )
        print("  %s" % v["summary"])
        print("VIOLATION property=%s replay=%s" % (prop, path))
        status = 1
    cov = dict(outcome.coverage)
    cov.setdefault("exhaustive", False)
    ev = {
        "property_id": prop,
        "tier": tier,
        "seed": int(seed),
        "level": level,
        "coverage": cov,
        "assumptions": outcome.assumptions,
        "wall_s": round(wall, 2),
        "violations": len(unknown),
        "known_findings_seen": sorted(reported_known.keys()),
        "notes": outcome.notes,
    }
    os.makedirs(os.path.join(out_root, "evidence"), exist_ok=True)
    with open(os.path.join(out_root, "evidence", "%s.json" % prop), "w") as fp:
        json.dump(ev, fp, indent=1, sort_keys=True, default=str)
        fp.write("\n")
    if status == 0:
        print(
            "OK property=%s tier=%s states=%s transitions=%s traces=%s wall=%.1fs"
            % (
                prop,
                tier,
                cov.get("states"),
                cov.get("transitions"),
                cov.get("traces_validated_against_impl"),
                wall,
            )
        )
    return status


class Timer:
    def __init__(self):
        self.t0 = time.time()

    def elapsed(self):
        return time.time() - self.t0
