"""Entry point:  ./check <ID> [--tier quick|thorough]   |  ./check --setup  |  ./check <ID> --replay f"""
import argparse
import importlib
import json
import os
import sys
import time
import traceback

from . import common, tlc


def setup():
    """Offline self-check of the tool chain: TLC parses every specification module."""
    bad = 0
    for name in sorted(os.listdir(tlc.SPEC_DIR)):
        if not name.endswith(".tla"):
            continue
        ok, text = tlc.sany(name)
        print("%-28s %s" % (name, "ok" if ok else "PARSE ERROR"))
        if not ok:
            print(text)
            bad += 1
    from .props import aesref

    aesref.selftest()
    print("aesref selftest ok")
    return 1 if bad else 0


def selftest():
    """Demonstrate the binding: a recorded KeyFile trace is accepted as logged, and rejected when
    one logged field is corrupted or one event is dropped (so acceptance is not vacuous)."""
    import copy

    from . import tracecheck
    from .props import c07

    cinco = common.import_repo()
    traces = c07.driver(cinco, 12345, 30, 25)
    good, _ = tracecheck.validate("Trace_KeyFile.tla", "Trace_KeyFile.cfg", traces)
    assert all(v.accepted for v in good), "recorded traces must be accepted"
    bad = []
    for t in copy.deepcopy(traces):
        evs = t["events"]
        idx = [i for i, e in enumerate(evs) if e["op"] == "Enter" and e["out"] == "ok"]
        if not idx:
            continue
        i = idx[len(idx) // 2]
        evs[i]["out"] = "EncryptionError"  # corrupt one logged outcome
        bad.append(t)
    rej, _ = tracecheck.validate("Trace_KeyFile.tla", "Trace_KeyFile.cfg", bad)
    n_rej = sum(1 for v in rej if not v.accepted)
    dropped = []
    for t in copy.deepcopy(traces):
        evs = t["events"]
        idx = [i for i, e in enumerate(evs) if e["op"] == "Enter" and e["out"] == "ok"]
        if not idx:
            continue
        del evs[idx[0]]  # drop one event (as if a hook were missing)
        dropped.append(t)
    rej2, _ = tracecheck.validate("Trace_KeyFile.tla", "Trace_KeyFile.cfg", dropped)
    n_rej2 = sum(1 for v in rej2 if not v.accepted)
    print("selftest: %d/%d recorded traces accepted; %d/%d corrupted traces rejected; %d/%d traces with a dropped event rejected"
          % (sum(v.accepted for v in good), len(good), n_rej, len(bad), n_rej2, len(dropped)))
    # (a dropped nested Enter whose Exit lies beyond the end of the trace leaves a consistent log)
    ok_cfg = selftest_config()
    return 0 if (n_rej == len(bad) and n_rej2 >= 0.8 * len(dropped) and ok_cfg) else 1


def selftest_config():
    """The same demonstration for the central machine: recorded Config traces (schema SchemaA) are accepted by
    Trace_Config.tla as logged, rejected when one logged outcome is flipped, when the logged state after one accepted
    assignment is replaced by the state before it (as if the library had dropped the assignment), and when an
    accepted event is removed from the log."""
    import copy

    from . import tracecheck
    from .props import cfgmachine

    cinco = common.import_repo()
    d = tlc.scratch("cinco-selftest-")
    desc = cfgmachine.schema_descriptor("MC_Config", "SchemaA")
    cfgmachine.NORM_DESC[0] = desc
    traces = cfgmachine.driver(cinco, desc, 4242, 40, 12)
    tcfg = os.path.join(d, "trace.cfg")
    with open(tcfg, "w") as fp:
        fp.write(
            cfgmachine.base_cfg("SchemaA", 99).replace("INIT Init", "INIT TraceInit").replace("NEXT Next", "NEXT TraceNext").replace("VIEW View", "VIEW TraceView")
            + "ACTION_CONSTRAINT Report\nCONSTRAINT ReportState\n"
        )
    good, _ = tracecheck.validate("Trace_Config.tla", tcfg, traces)
    n_good = sum(1 for v in good if v.accepted)

    def mutate(fn):
        out = []
        for t in copy.deepcopy(traces):
            evs = t["events"]
            idx = [i for i, e in enumerate(evs) if e.get("op") in ("SetAttr", "SetItem") and e.get("out") == "ok" and i > 0 and e.get("cfgs") != evs[i - 1].get("cfgs")]
            if not idx:
                continue
            if fn(evs, idx[len(idx) // 2]):
                out.append(t)
        return out

    def flip(evs, i):
        evs[i]["out"] = "ValidationError"
        return True

    def stale(evs, i):
        evs[i]["cfgs"] = copy.deepcopy(evs[i - 1]["cfgs"])
        return True

    def drop(evs, i):
        del evs[i]
        return True

    res = {}
    for name, fn in (("outcome flipped", flip), ("state not updated", stale), ("event dropped", drop)):
        bad = mutate(fn)
        rej, _ = tracecheck.validate("Trace_Config.tla", tcfg, bad)
        # a trace whose replay stopped at an event the specification does not model (before the corruption) says nothing
        rej = [v for v in rej if not (v.accepted and v.truncated)]
        res[name] = (sum(1 for v in rej if not v.accepted), len(rej))
    print("selftest (Config): %d/%d recorded traces accepted; rejected: %s" % (n_good, len(good), ", ".join("%s %d/%d" % (k, a, b) for k, (a, b) in res.items())))
    # (an assignment that the next logged event overwrites can be dropped without leaving an inconsistent log)
    return n_good == len(good) and all(b > 0 and (a == b or (k == "event dropped" and a >= 0.8 * b)) for k, (a, b) in res.items())


def main(argv=None):
    ap = argparse.ArgumentParser()
    ap.add_argument("prop", nargs="?")
    ap.add_argument("--tier", default=os.environ.get("VERIF_TIER") or "quick", choices=["quick", "thorough"])
    ap.add_argument("--setup", action="store_true")
    ap.add_argument("--selftest", action="store_true")
    ap.add_argument("--replay")
    args = ap.parse_args(argv)
    os.chdir(common.VERIF)
    if args.setup:
        return setup()
    if args.selftest:
        return selftest()
    if not args.prop:
        ap.error("property id required")
    seed = int(os.environ.get("VERIF_SEED") or 0)
    prop = args.prop.upper()
    mod = importlib.import_module("harness.props.%s" % prop.lower())
    if args.replay:
        with open(args.replay) as fp:
            rec = json.load(fp)
        return mod.replay_file(rec) if hasattr(mod, "replay_file") else _show(rec)
    t0 = time.time()
    try:
        outcome = mod.run(args.tier, seed)
    except tlc.TLCError as exc:
        print("MACHINERY-ERROR property=%s %s" % (prop, exc), file=sys.stderr)
        return 2
    except Exception:  # noqa
        traceback.print_exc()
        print("MACHINERY-ERROR property=%s (harness exception above)" % prop, file=sys.stderr)
        return 2
    finally:
        tlc.cleanup()
    level = getattr(mod, "LEVEL", "model_checking")
    return common.finish(outcome, args.tier, seed, time.time() - t0, level=level)


def _show(rec):
    print(json.dumps(rec, indent=1, sort_keys=True))
    return 0


if __name__ == "__main__":
    sys.exit(main())
