"""Entry point:  ./check <ID> [--tier quick|thorough]   |  ./check --setup  |  ./check <ID> --replay f"""
import argparse
import importlib
import json
import os
import sys
import time
import traceback

from . import common, tlc


def setup():
    """Offline self-check of the tool chain: TLC parses every specification module."""
    bad = 0
    for name in sorted(os.listdir(tlc.SPEC_DIR)):
        if not name.endswith(".tla"):
            continue
        ok, text = tlc.sany(name)
        print("%-28s %s" % (name, "ok" if ok else "PARSE ERROR"))
        if not ok:
            print(text)
            bad += 1
    from .props import aesref

    aesref.selftest()
    print("aesref selftest ok")
    return 1 if bad else 0


def main(argv=None):
    ap = argparse.ArgumentParser()
    ap.add_argument("prop", nargs="?")
    ap.add_argument("--tier", default=os.environ.get("VERIF_TIER") or "quick", choices=["quick", "thorough"])
    ap.add_argument("--setup", action="store_true")
    ap.add_argument("--replay")
    args = ap.parse_args(argv)
    os.chdir(common.VERIF)
    if args.setup:
        return setup()
    if not args.prop:
        ap.error("property id required")
    seed = int(os.environ.get("VERIF_SEED") or 0)
    prop = args.prop.upper()
    mod = importlib.import_module("harness.props.%s" % prop.lower())
    if args.replay:
        with open(args.replay) as fp:
            rec = json.load(fp)
        return mod.replay_file(rec) if hasattr(mod, "replay_file") else _show(rec)
    t0 = time.time()
    try:
        outcome = mod.run(args.tier, seed)
    except tlc.TLCError as exc:
        print("MACHINERY-ERROR property=%s %s" % (prop, exc), file=sys.stderr)
        return 2
    except Exception:  # noqa
        traceback.print_exc()
        print("MACHINERY-ERROR property=%s (harness exception above)" % prop, file=sys.stderr)
        return 2
    finally:
        tlc.cleanup()
    level = getattr(mod, "LEVEL", "model_checking")
    return common.finish(outcome, args.tier, seed, time.time() - t0, level=level)


def _show(rec):
    print(json.dumps(rec, indent=1, sort_keys=True))
    return 0


if __name__ == "__main__":
    sys.exit(main())
